(** The round trip for the argument of an extension statement (prefix:name argument ;), which goes
    through the unknown-statement branch of lexBegin and its argument loop. *)
From Coq Require Import List NArith Bool Arith Lia Strings.Byte.
From YV Require Import YLex.Keywords YLex.Model YLex.Spec YLex.Proofs YLex.Total.
Import ListNotations.

Lemma strip_prefix_none_app' p x r :
  strip_prefix p x = None -> is_prefix x p = false -> strip_prefix p (x ++ r) = None.
Proof. apply strip_prefix_none_app. Qed.

Lemma first_match_none_app c x r :
  chain_safe c x = true -> first_match c x = None -> first_match c (x ++ r) = None.
Proof.
  induction c as [|[k f] c IH]; intros Hs H; [reflexivity|].
  simpl in Hs. apply andb_true_iff in Hs as [Hk Hs]. apply negb_true_iff in Hk.
  simpl in *. destruct (strip_prefix (kw_text k) x) as [r'|] eqn:E; [discriminate|].
  rewrite strip_prefix_none_app by assumption. apply IH; assumption.
Qed.

(** a separator head is ASCII and not an identifier character *)
Lemma sep_head_not_ident d x : In d sep_heads -> ident_char_len (d :: x) = 0.
Proof.
  intros H. simpl in H.
  destruct H as [<- | [<- | [<- | [<- | [<- | []]]]]]; unfold ident_char_len; simpl; destruct x; reflexivity.
Qed.

Lemma ident_span_cons k b t : ident_span k (b :: t) =
  match k with
  | S k' => let (a, r) := ident_span k' t in (b :: a, r)
  | O => match ident_char_len (b :: t) with
         | O => ([], b :: t)
         | S k' => let (a, r) := ident_span k' t in (b :: a, r)
         end
  end.
Proof. reflexivity. Qed.

Lemma ident_span_name name d x :
  forallb ascii_ident name = true -> In d sep_heads ->
  ident_span 0 (name ++ d :: x) = (name, d :: x).
Proof.
  intros Hn Hd. induction name as [|b name IH].
  - simpl app. rewrite ident_span_cons. rewrite sep_head_not_ident by assumption. reflexivity.
  - simpl in Hn. apply andb_true_iff in Hn as [Hb Hn]. simpl app. rewrite ident_span_cons.
    unfold ident_char_len. rewrite Hb. rewrite (IH Hn). reflexivity.
Qed.

Lemma ascii_ident_not_rb b : ascii_ident b = true -> Byte.eqb b c_rb = false.
Proof. intros H. beq_case b c_rb; [discriminate H|reflexivity]. Qed.

Definition ext_name_ok (name : list byte) : bool :=
  match name with [] => false | _ => true end
  && forallb ascii_ident name && Nat.eqb (count_colon name) 1
  && forallb (fun d => chain_safe chain (name ++ [d])
                       && match first_match chain (name ++ [d]) with None => true | Some _ => false end) sep_heads.

(** an unquoted argument must not look like the start of a number (known finding 7 otherwise) *)
Definition not_numeric_start (a : arg) : bool :=
  match a_first a with
  | PUq (b :: _) => negb (ascii_digit b || Byte.eqb b x2d || Byte.eqb b x2b)
  | _ => true
  end.

Lemma num_span_first_none b t :
  (ascii_digit b || Byte.eqb b x2d || Byte.eqb b x2b) = false -> accept_number true (b :: t) = None.
Proof.
  intros H. unfold accept_number. cbn [num_span].
  apply orb_false_iff in H as [H H3]. apply orb_false_iff in H as [H1 H2].
  rewrite H1, H2, H3. reflexivity.
Qed.

Lemma arg_src_head a y : arg_ok a = true -> not_numeric_start a = true ->
  exists b t, arg_src a ++ y = b :: t /\ Byte.eqb b c_semi = false /\ Byte.eqb b c_lb = false
              /\ accept_number true (b :: t) = None.
Proof.
  intros Ha Hn. pose proof (arg_ok_parts a Ha) as (Hp & _ & _).
  destruct a as [first more]. unfold arg_src. simpl a_first in *. unfold not_numeric_start in Hn. simpl a_first in Hn.
  destruct first as [items|body|body].
  - eexists _, _. split; [simpl; reflexivity|]. repeat split; try reflexivity.
  - eexists _, _. split; [simpl; reflexivity|]. repeat split; try reflexivity.
  - simpl in Hp. apply andb_true_iff in Hp as [Hp1 _]. apply uq_rfc_ok_forall in Hp1 as [Hne Hf].
    destruct body as [|b body]; [contradiction|]. simpl in Hf. apply andb_true_iff in Hf as [Hb _].
    apply uq_byte_facts in Hb as (_ & _ & _ & Hsemi & Hlb & _).
    eexists _, _. split; [simpl; reflexivity|]. split; [exact Hsemi|]. split; [exact Hlb|].
    apply num_span_first_none. apply negb_true_iff in Hn. exact Hn.
Qed.

Lemma unknown_args_step1 f toks b t :
  Byte.eqb b c_semi = false -> Byte.eqb b c_lb = false -> accept_number true (b :: t) = None ->
  unknown_args (S f) toks (b :: t) =
    match accept_string (S (length (b :: t))) (b :: t) with
    | SOk ts r => unknown_args f (toks ++ ts) r
    | SFalse ts => Stop (toks ++ ts)
    | SFuel => StepFuel
    end.
Proof. intros H1 H2 H3. rewrite unknown_args_S. rewrite H1, H2, H3. reflexivity. Qed.

Lemma unknown_args_term f toks c r : is_term c = true ->
  unknown_args (S f) toks (c :: r) = Continue (toks ++ [term_tok c]) (accept_ws r).
Proof. intros H. rewrite unknown_args_S. apply is_term_cases in H as [-> | ->]; reflexivity. Qed.

Theorem lex_begin_ext_stmt name j0 a j1 c rest :
  ext_name_ok name = true -> stmt_ok j0 a j1 = true -> not_numeric_start a = true -> is_term c = true ->
  lex_begin (name ++ render_junk j0 ++ arg_src a ++ render_junk j1 ++ c :: rest)
  = Continue ((t_unknown, name) :: arg_toks a ++ [term_tok c]) (accept_ws rest).
Proof.
  intros Hname Hok Hnum Hc.
  unfold ext_name_ok in Hname. apply andb_true_iff in Hname as [Hname Hdisp].
  apply andb_true_iff in Hname as [Hname Hcolon]. apply andb_true_iff in Hname as [Hne Hid].
  unfold stmt_ok in Hok.
  apply andb_true_iff in Hok as [Hok Haf]. apply andb_true_iff in Hok as [Hok Ha].
  apply andb_true_iff in Hok as [Hok Hj1]. apply andb_true_iff in Hok as [Hj0ne Hj0].
  assert (Hne' : j0 <> []) by (destruct j0; [discriminate|discriminate]).
  set (tail := arg_src a ++ render_junk j1 ++ c :: rest).
  destruct (junk_head j0 Hj0 Hne' tail) as (d & x & E & Hd).
  rewrite forallb_forall in Hdisp. specialize (Hdisp d Hd). apply andb_true_iff in Hdisp as [Hsafe Hnone].
  destruct (first_match chain (name ++ [d])) eqn:Efm; [discriminate|].
  unfold lex_begin. fold tail. rewrite E.
  replace (name ++ d :: x) with ((name ++ [d]) ++ x) by (rewrite <- app_assoc; reflexivity).
  rewrite (first_match_none_app _ _ x Hsafe Efm).
  rewrite <- app_assoc. simpl app.
  destruct name as [|b name]; [discriminate|].
  simpl app. simpl in Hid. apply andb_true_iff in Hid as [Hb Hid].
  rewrite (ascii_ident_not_rb b Hb).
  change (b :: name ++ d :: x) with ((b :: name) ++ d :: x).
  unfold accept_unknown. rewrite ident_span_name; [|simpl; rewrite Hb, Hid; reflexivity|exact Hd].
  rewrite Hcolon. rewrite <- E. rewrite ws_junk by assumption.
  (* the argument itself is not white space *)
  assert (Hw : accept_ws tail = tail).
  { unfold tail. pose proof (arg_ok_parts a Ha) as (Hp & Hm & Hq). destruct a as [first more]. unfold arg_src.
    simpl a_first in *. simpl a_more in *. rewrite <- app_assoc.
    destruct first as [items|body|body]; try (apply ws_stop; reflexivity).
    destruct Hq as [-> | Hq]; [|discriminate]. simpl flat_map. simpl app.
    simpl in Hp. apply andb_true_iff in Hp as [Hp1 Hp2].
    assert (Hh : match j1 with (JBlock _ | JLine _) :: _ => False | _ => True end).
    { unfold after_ok in Haf. simpl in Haf. destruct j1 as [|[?|?|?] ?]; auto; discriminate. }
    destruct (junk_head_delim j1 c rest Hj1 Hc Hh) as (d' & x' & E' & Hd' & Hn').
    simpl part_src. rewrite E'. apply ws_uq_head; assumption. }
  rewrite Hw.
  destruct (arg_src_head a (render_junk j1 ++ c :: rest) Ha Hnum) as (b0 & t0 & E0 & Hs0 & Hl0 & Hnum0).
  fold tail in E0. rewrite E0.
  rewrite unknown_args_step1 by assumption. rewrite <- E0. unfold tail at 2 3.
  rewrite accept_arg; [|assumption|assumption|assumption|assumption|].
  2:{ unfold tail. rewrite app_length. lia. }
  unfold tail. rewrite !app_length. cbn [length].
  replace (length (arg_src a) + (length (render_junk j1) + S (length rest)))
    with (S (length (arg_src a) + (length (render_junk j1) + length rest))) by lia.
  rewrite unknown_args_term by assumption. reflexivity.
Qed.

Theorem ext_stmt_roundtrip name j0 a j1 c rest :
  ext_name_ok name = true -> stmt_ok j0 a j1 = true -> not_numeric_start a = true -> is_term c = true ->
  lex_begin (name ++ render_junk j0 ++ arg_src a ++ render_junk j1 ++ c :: rest)
    = Continue ((t_unknown, name) :: arg_toks a ++ [term_tok c]) (accept_ws rest)
  /\ arg_of ((t_unknown, name) :: arg_toks a ++ [term_tok c]) = Some (arg_text a).
Proof.
  intros H1 H2 H3 H4. split; [apply lex_begin_ext_stmt; assumption|].
  apply arg_of_stmt; [|assumption].
  unfold stmt_ok in H2. apply andb_true_iff in H2 as [H2 _]. apply andb_true_iff in H2 as [_ H2]. exact H2.
Qed.
