(** RFC 7950 section 6.1 as a specification: how a text may be written as a statement argument
    (6.1.3: double-quoted with the escapes \n \t \dquote \\, single-quoted, unquoted, '+' concatenation of
    quoted parts) and what may stand between tokens (6.1.1 comments, 6.1.2 white space).
    Written without reference to the lexer model: [render] produces source text from a description of
    how the author chose to write it, [arg_text] is the text that source denotes. *)
From Coq Require Import List Bool Arith Strings.Byte.
Import ListNotations.

(** ** what may stand between two tokens *)
Inductive jpiece :=
| JSp (b : byte)                 (* space, tab, carriage return or line feed *)
| JBlock (body : list byte)      (* block comment: ends with the nearest following "*/" *)
| JLine (body : list byte).      (* line comment: ends at the end of the line *)
Definition junk := list jpiece.

Definition rfc_space (b : byte) : bool :=
  Byte.eqb b x20 || Byte.eqb b x09 || Byte.eqb b x0d || Byte.eqb b x0a.

Fixpoint has_infix2 (a b : byte) (s : list byte) : bool :=
  match s with
  | x :: ((y :: _) as t) => (Byte.eqb x a && Byte.eqb y b) || has_infix2 a b t
  | _ => false
  end.

Definition jpiece_ok (p : jpiece) : bool :=
  match p with
  | JSp b => rfc_space b
  | JBlock body => negb (has_infix2 x2a x2f body)
  | JLine body => negb (existsb (fun b => Byte.eqb b x0a) body)
  end.

Definition render_piece (p : jpiece) : list byte :=
  match p with
  | JSp b => [b]
  | JBlock body => [x2f; x2a] ++ body ++ [x2a; x2f]
  | JLine body => [x2f; x2f] ++ body ++ [x0a]
  end.

Definition render_junk (j : junk) : list byte := flat_map render_piece j.
Definition junk_ok (j : junk) : bool := forallb jpiece_ok j.

(** ** one quoted or unquoted string *)
Inductive dq_item :=
| DLit (b : byte)      (* the character itself *)
| DEsc (b : byte).     (* the escape sequence denoting b: \n \t \dquote \\ *)

Inductive part :=
| PDq (items : list dq_item)
| PSq (body : list byte)
| PUq (body : list byte).

Definition esc_letter (b : byte) : option byte :=
  if Byte.eqb b x0a then Some x6e          (* \n *)
  else if Byte.eqb b x09 then Some x74     (* \t *)
  else if Byte.eqb b x22 then Some x22     (* \dquote *)
  else if Byte.eqb b x5c then Some x5c     (* \\ *)
  else None.

Definition item_src (i : dq_item) : list byte :=
  match i with
  | DLit b => [b]
  | DEsc b => match esc_letter b with Some c => [x5c; c] | None => [] end
  end.
Definition item_byte (i : dq_item) : byte := match i with DLit b => b | DEsc b => b end.

Definition blank (b : byte) : bool := Byte.eqb b x20 || Byte.eqb b x09.
Definition is_lit_blank (i : dq_item) : bool := match i with DLit b => blank b | _ => false end.
Definition is_lit_nl (i : dq_item) : bool := match i with DLit b => Byte.eqb b x0a | _ => false end.

(** 6.1.3 strips the indentation after a line break and the blanks before it inside double quotes; we
    only describe double-quoted sources on which that stripping is the identity: no literal line break
    next to a literal blank (a line break or blank written as an escape is never stripped) *)
Fixpoint no_strip (l : list dq_item) : bool :=
  match l with
  | a :: ((b :: _) as t) =>
    negb ((is_lit_blank a && is_lit_nl b) || (is_lit_nl a && is_lit_blank b)) && no_strip t
  | _ => true
  end.

Definition item_ok (i : dq_item) : bool :=
  match i with
  | DLit b => negb (Byte.eqb b x22) && negb (Byte.eqb b x5c) && negb (Byte.eqb b x00)
  | DEsc b => match esc_letter b with Some _ => true | None => false end
  end.

(** the multi-byte encodings of the Unicode white-space characters other than the four of the RFC *)
Definition uni_spaces : list (list byte) :=
  [[xc2; x85]; [xc2; xa0]; [xe1; x9a; x80];
   [xe2; x80; x80]; [xe2; x80; x81]; [xe2; x80; x82]; [xe2; x80; x83]; [xe2; x80; x84]; [xe2; x80; x85];
   [xe2; x80; x86]; [xe2; x80; x87]; [xe2; x80; x88]; [xe2; x80; x89]; [xe2; x80; x8a];
   [xe2; x80; xa8]; [xe2; x80; xa9]; [xe2; x80; xaf]; [xe2; x81; x9f]; [xe3; x80; x80]].

Fixpoint is_prefix (p s : list byte) : bool :=
  match p with
  | [] => true
  | a :: p' => match s with b :: s' => Byte.eqb a b && is_prefix p' s' | [] => false end
  end.
Fixpoint has_infix (p s : list byte) : bool :=
  is_prefix p s || match s with _ :: t => has_infix p t | [] => false end.

(** an unquoted string (6.1.3): not empty, no white space, quotes, ';', braces or comment
    openers/closers *)
Definition uq_byte_ok (b : byte) : bool :=
  negb (rfc_space b) && negb (Byte.eqb b x22) && negb (Byte.eqb b x27) && negb (Byte.eqb b x3b)
  && negb (Byte.eqb b x7b) && negb (Byte.eqb b x7d) && negb (Byte.eqb b x00).
Definition uq_rfc_ok (body : list byte) : bool :=
  match body with [] => false | _ => true end
  && forallb uq_byte_ok body
  && negb (has_infix2 x2f x2f body) && negb (has_infix2 x2f x2a body) && negb (has_infix2 x2a x2f body).

(** beyond the RFC: the implementation also ends an unquoted string at a vertical tab, a form feed and
    at the other Unicode white-space characters (known finding 3 when one occurs, [uq_has_uni_space]).
    The round-trip theorem is stated for unquoted strings without the bytes that can begin the
    encoding of such a character (C2, E1, E2, E3). *)
Definition uq_lead_free (b : byte) : bool :=
  negb (Byte.eqb b x0b) && negb (Byte.eqb b x0c)
  && negb (Byte.eqb b xc2) && negb (Byte.eqb b xe1) && negb (Byte.eqb b xe2) && negb (Byte.eqb b xe3).
Definition uq_extra_ok (body : list byte) : bool := forallb uq_lead_free body.
Definition uq_has_uni_space (body : list byte) : bool :=
  existsb (fun b => Byte.eqb b x0b || Byte.eqb b x0c) body
  || existsb (fun sp => has_infix sp body) uni_spaces.

Definition part_ok (p : part) : bool :=
  match p with
  | PDq items => forallb item_ok items && no_strip items
  | PSq body => forallb (fun b => negb (Byte.eqb b x27) && negb (Byte.eqb b x00)) body
  | PUq body => uq_rfc_ok body && uq_extra_ok body
  end.

Definition part_src (p : part) : list byte :=
  match p with
  | PDq items => [x22] ++ flat_map item_src items ++ [x22]
  | PSq body => [x27] ++ body ++ [x27]
  | PUq body => body
  end.

Definition part_text (p : part) : list byte :=
  match p with
  | PDq items => map item_byte items
  | PSq body => body
  | PUq body => body
  end.

Definition is_uq (p : part) : bool := match p with PUq _ => true | _ => false end.

(** ** an argument: a first string and further quoted strings joined by '+' *)
Record arg := mkArg { a_first : part; a_more : list (junk * junk * part) }.

Definition more_src (m : junk * junk * part) : list byte :=
  let '(j1, j2, p) := m in render_junk j1 ++ [x2b] ++ render_junk j2 ++ part_src p.

Definition arg_src (a : arg) : list byte := part_src (a_first a) ++ flat_map more_src (a_more a).
Definition arg_text (a : arg) : list byte :=
  part_text (a_first a) ++ flat_map (fun m => part_text (snd m)) (a_more a).

Definition more_ok (m : junk * junk * part) : bool :=
  let '(j1, j2, p) := m in junk_ok j1 && junk_ok j2 && part_ok p && negb (is_uq p).

Definition arg_ok (a : arg) : bool :=
  part_ok (a_first a) && forallb more_ok (a_more a)
  && match a_more a with [] => true | _ => negb (is_uq (a_first a)) end.

Definition arg_parts (a : arg) : nat := S (length (a_more a)).

(** what follows an unquoted string must begin with white space (or be the ';' itself): a comment
    opener glued to it would be part of the string *)
Definition after_ok (a : arg) (j : junk) : bool :=
  match a_more a, a_first a, j with
  | [], PUq _, (JBlock _ | JLine _) :: _ => false
  | _, _, _ => true
  end.

(** ** a statement "keyword sep argument sep ;" *)
Definition stmt_src (kw : list byte) (j0 : junk) (a : arg) (j1 : junk) : list byte :=
  kw ++ render_junk j0 ++ arg_src a ++ render_junk j1 ++ [x3b].

Definition stmt_ok (j0 : junk) (a : arg) (j1 : junk) : bool :=
  match j0 with [] => false | _ => true end && junk_ok j0 && junk_ok j1 && arg_ok a && after_ok a j1.

(** the canonical way to write any text: one double-quoted string with every special character escaped *)
Definition canon_item (b : byte) : dq_item :=
  match esc_letter b with Some _ => DEsc b | None => DLit b end.
Definition quote_dq (t : list byte) : part := PDq (map canon_item t).

(** [quote sty t]: the text [t] written as one string in style [sty], when that style can express it *)
Inductive style := StDq | StSq | StUq.
Definition quote (sty : style) (t : list byte) : option part :=
  let p := match sty with StDq => quote_dq t | StSq => PSq t | StUq => PUq t end in
  if part_ok p then Some p else None.
