(** Totality of the lexer model: for every input [ylex] ends with the token stream ([LexOk]) or with a
    lexer error ([LexErr]); it never indexes out of range ([LexPanic]) and the fuel computed from the
    length of the input always suffices ([LexFuel]), because every call of the state function that
    returns to lexBegin has consumed at least one byte. *)
From Coq Require Import List NArith Bool Arith Lia Strings.Byte.
From YV Require Import YLex.Keywords YLex.Model YLex.Spec YLex.Proofs.
Import ListNotations.

(** * acceptWS never grows the rest *)
Lemma ws_nil m : ws m [] = [].
Proof. reflexivity. Qed.

Lemma ws_WN_eq b t : ws WN (b :: t) =
  match space_len (b :: t) with
  | S k => ws (WSkip k) t
  | O => match t with
         | b1 :: _ => if Byte.eqb b c_slash && Byte.eqb b1 c_star then ws WB0 t
                      else if Byte.eqb b c_slash && Byte.eqb b1 c_slash then ws WL t else b :: t
         | [] => b :: t
         end
  end.
Proof. reflexivity. Qed.

Lemma ws_Skip0_eq b t : ws (WSkip 0) (b :: t) = ws WN (b :: t).
Proof. reflexivity. Qed.
Lemma ws_SkipS_eq k b t : ws (WSkip (S k)) (b :: t) = ws (WSkip k) t.
Proof. reflexivity. Qed.
Lemma ws_WB0_eq b t : ws WB0 (b :: t) = ws WB t.
Proof. reflexivity. Qed.
Lemma ws_WB_eq b t : ws WB (b :: t) =
  match t with
  | b1 :: _ => if Byte.eqb b c_star && Byte.eqb b1 c_slash then ws (WSkip 1) t else ws WB t
  | [] => []
  end.
Proof. reflexivity. Qed.
Lemma ws_WL_eq b t : ws WL (b :: t) = if Byte.eqb b c_nl then ws WN t else ws WL t.
Proof. reflexivity. Qed.

Lemma ws_len : forall s m, length (ws m s) <= length s.
Proof.
  induction s as [|b t IH]; intros m; [rewrite ws_nil; simpl; lia|].
  assert (IH' : forall m, length (ws m t) <= S (length t)) by (intros m0; specialize (IH m0); lia).
  assert (HWN : length (ws WN (b :: t)) <= length (b :: t)).
  { rewrite ws_WN_eq. destruct (space_len (b :: t)); [|cbn [length]; apply IH'].
    destruct t as [|b1 t']; [simpl; lia|].
    destruct (Byte.eqb b c_slash && Byte.eqb b1 c_star); [cbn [length]; apply IH'|].
    destruct (Byte.eqb b c_slash && Byte.eqb b1 c_slash); [cbn [length]; apply IH'|]. simpl; lia. }
  destruct m as [|[|k]| | |].
  - exact HWN.
  - rewrite ws_Skip0_eq. exact HWN.
  - rewrite ws_SkipS_eq. cbn [length]. apply IH'.
  - rewrite ws_WB0_eq. cbn [length]. apply IH'.
  - rewrite ws_WB_eq. destruct t as [|b1 t']; [simpl; lia|].
    destruct (Byte.eqb b c_star && Byte.eqb b1 c_slash); cbn [length]; apply IH'.
  - rewrite ws_WL_eq. destruct (Byte.eqb b c_nl); cbn [length]; apply IH'.
Qed.

Lemma accept_ws_len s : length (accept_ws s) <= length s.
Proof. apply ws_len. Qed.

(** * scanners split their input *)
Lemma scan_dq_len : forall n s a r, length s <= n -> scan_dq s = Some (a, r) -> length s = length a + length r.
Proof.
  induction n as [|n IH]; intros s a r Hn H.
  - destruct s; [discriminate|simpl in Hn; lia].
  - destruct s as [|b t]; [discriminate|]. rewrite scan_dq_cons in H.
    destruct (Byte.eqb b c_nul); [discriminate|].
    destruct (Byte.eqb b c_bs).
    + destruct t as [|c t']; [discriminate|].
      destruct (scan_dq t') as [[a' r']|] eqn:E; [|discriminate]. inversion H; subst.
      apply IH in E; [|simpl in Hn; lia]. simpl. lia.
    + destruct (Byte.eqb b c_dq).
      * inversion H; subst. simpl. lia.
      * destruct (scan_dq t) as [[a' r']|] eqn:E; [|discriminate]. inversion H; subst.
        apply IH in E; [|simpl in Hn; lia]. simpl. lia.
Qed.

Lemma scan_sq_len : forall s a r, scan_sq s = Some (a, r) -> length s = length a + length r.
Proof.
  induction s as [|b t IH]; intros a r H; [discriminate|]. rewrite scan_sq_cons in H.
  destruct (Byte.eqb b c_nul); [discriminate|].
  destruct (Byte.eqb b c_sq).
  - inversion H; subst. simpl. lia.
  - destruct (scan_sq t) as [[a' r']|] eqn:E; [|discriminate]. inversion H; subst.
    specialize (IH _ _ eq_refl). simpl. lia.
Qed.

Lemma scan_uq_len : forall s a r, scan_uq s = (a, r) -> length s = length a + length r.
Proof.
  induction s as [|b t IH]; intros a r H.
  - inversion H. reflexivity.
  - rewrite scan_uq_cons in H. destruct (Byte.eqb b c_nul); [inversion H; subst; simpl; lia|].
    destruct (delim_at (b :: t)); [inversion H; subst; simpl; lia|].
    destruct (scan_uq t) as [a' r'] eqn:E. inversion H; subst. specialize (IH _ _ eq_refl). simpl. lia.
Qed.

Lemma ident_span_len : forall s k a r, ident_span k s = (a, r) -> length s = length a + length r.
Proof.
  induction s as [|b t IH]; intros k a r H.
  - inversion H. reflexivity.
  - cbn [ident_span] in H. destruct k as [|k'].
    + destruct (ident_char_len (b :: t)) as [|k''].
      * inversion H; subst. simpl. lia.
      * destruct (ident_span k'' t) as [a' r'] eqn:E. inversion H; subst. apply IH in E. simpl. lia.
    + destruct (ident_span k' t) as [a' r'] eqn:E. inversion H; subst. apply IH in E. simpl. lia.
Qed.

Lemma num_span_len : forall s first dot a r, num_span first dot s = (a, r) -> length s = length a + length r.
Proof.
  induction s as [|b t IH]; intros first dot a r H.
  - inversion H. reflexivity.
  - cbn [num_span] in H.
    destruct (ascii_digit b || first && (Byte.eqb b x2d || Byte.eqb b x2b) || negb first && dot && Byte.eqb b x2e).
    + destruct (num_span false dot t) as [a' r'] eqn:E. inversion H; subst. apply IH in E. simpl. lia.
    + inversion H; subst. simpl. lia.
Qed.

Lemma strip_prefix_len : forall p s r, strip_prefix p s = Some r -> length s = length p + length r.
Proof.
  induction p as [|a p IH]; intros s r H.
  - inversion H. reflexivity.
  - destruct s as [|b s]; [discriminate|]. simpl in H. destruct (Byte.eqb a b); [|discriminate].
    apply IH in H. simpl. lia.
Qed.

(** * the accept functions consume what they accept *)
Lemma accept_ident_len s tk r : accept_ident s = Some (tk, r) -> length r < length s.
Proof.
  unfold accept_ident. destruct (ident_span 0 s) as [a r0] eqn:E. apply ident_span_len in E.
  destruct a; [discriminate|]. intros H. inversion H; subst. pose proof (accept_ws_len r0). simpl in E. lia.
Qed.

Lemma accept_unknown_len s tk r : accept_unknown s = Some (tk, r) -> length r < length s.
Proof.
  unfold accept_unknown. destruct (ident_span 0 s) as [a r0] eqn:E. apply ident_span_len in E.
  destruct a; [discriminate|]. destruct (Nat.eqb _ 1); [|discriminate].
  intros H. inversion H; subst. pose proof (accept_ws_len r0). simpl in E. lia.
Qed.

Lemma accept_number_len dot s tk r : accept_number dot s = Some (tk, r) -> length r < length s.
Proof.
  unfold accept_number. destruct (num_span true dot s) as [a r0] eqn:E. apply num_span_len in E.
  destruct a; [discriminate|]. intros H. inversion H; subst. pose proof (accept_ws_len r0). simpl in E. lia.
Qed.

Lemma accept_kw_len k s tk r : accept_kw k s = Some (tk, r) -> length r <= length s.
Proof.
  unfold accept_kw. destruct (strip_prefix (kw_text k) s) as [r0|] eqn:E; [|discriminate].
  apply strip_prefix_len in E. intros H. inversion H; subst. pose proof (accept_ws_len r0). lia.
Qed.

Lemma accept_first_len ks s tk r : accept_first ks s = Some (tk, r) -> length r <= length s.
Proof.
  induction ks as [|k ks IH]; [discriminate|]. simpl.
  destruct (accept_kw k s) as [[tk' r']|] eqn:E.
  - intros H. inversion H; subst. eapply accept_kw_len; eauto.
  - exact IH.
Qed.

Lemma expect_open_len toks s a r : expect_open toks s = Continue a r -> length r < length s.
Proof.
  unfold expect_open. destruct s as [|b t]; [discriminate|]. destruct (Byte.eqb b c_lb); [|discriminate].
  intros H. inversion H; subst. pose proof (accept_ws_len t). simpl. lia.
Qed.

Lemma expect_open_nofuel toks s : expect_open toks s <> StepFuel.
Proof. unfold expect_open. destruct s as [|b t]; [discriminate|]. destruct (Byte.eqb b c_lb); discriminate. Qed.

Lemma end_of_stmt_len toks s a r : end_of_stmt toks s = Continue a r -> length r < length s.
Proof.
  unfold end_of_stmt. destruct s as [|b t]; [discriminate|].
  destruct (Byte.eqb b c_semi); [|destruct (Byte.eqb b c_lb); [|discriminate]];
    intros H; inversion H; subst; pose proof (accept_ws_len t); simpl; lia.
Qed.

Lemma end_of_stmt_nofuel toks s : end_of_stmt toks s <> StepFuel.
Proof.
  unfold end_of_stmt. destruct s as [|b t]; [discriminate|].
  destruct (Byte.eqb b c_semi); [discriminate|]. destruct (Byte.eqb b c_lb); discriminate.
Qed.

(** * acceptString: enough fuel, and progress *)
Lemma accept_string_ok : forall fuel s, length s < fuel ->
  accept_string fuel s <> SFuel /\
  (forall toks r, accept_string fuel s = SOk toks r -> length r < length s).
Proof.
  induction fuel as [|f IH]; intros s Hf; [lia|].
  destruct s as [|b t]; [split; [discriminate|intros; discriminate]|].
  rewrite accept_string_S.
  destruct (Byte.eqb b c_dq || Byte.eqb b c_sq).
  - destruct (if Byte.eqb b c_dq then scan_dq t else scan_sq t) as [[body r]|] eqn:E;
      [|split; [discriminate|intros; discriminate]].
    assert (Hl : length t = length body + length r).
    { destruct (Byte.eqb b c_dq); [eapply scan_dq_len; eauto | eapply scan_sq_len; eauto]. }
    cbv zeta. pose proof (accept_ws_len r) as Hw.
    destruct (accept_ws r) as [|p r2] eqn:Er.
    + split; [discriminate|]. intros toks r' H. inversion H; subst. simpl. lia.
    + destruct (Byte.eqb p c_plus).
      * pose proof (accept_ws_len r2) as Hw2. simpl in Hw, Hf.
        destruct (IH (accept_ws r2)) as [Hnf Hlt]; [lia|].
        destruct (accept_string f (accept_ws r2)) as [toks r3| toks |] eqn:Ea.
        -- split; [discriminate|]. intros toks' r' H. inversion H; subst.
           specialize (Hlt _ _ eq_refl). simpl. lia.
        -- split; [discriminate|intros; discriminate].
        -- exfalso. apply Hnf. reflexivity.
      * split; [discriminate|]. intros toks r' H. inversion H; subst. simpl in *. lia.
  - cbv zeta.
    set (n := match space_len (b :: t) with O => 1 | S k => S k end).
    assert (Hn : 1 <= n) by (unfold n; destruct (space_len (b :: t)); lia).
    destruct (scan_uq (skipn n (b :: t))) as [a r] eqn:E. apply scan_uq_len in E.
    rewrite skipn_length in E.
    split; [discriminate|]. intros toks r' H. inversion H; subst.
    pose proof (accept_ws_len r). cbn [length] in *. clearbody n. lia.
Qed.

Lemma accept_string_self s :
  accept_string (S (length s)) s <> SFuel /\
  (forall toks r, accept_string (S (length s)) s = SOk toks r -> length r < length s).
Proof. apply accept_string_ok. lia. Qed.

(** * the extension-argument loop *)
Lemma unknown_args_S f toks s : unknown_args (S f) toks s =
  match s with
  | [] => Stop toks
  | b :: t =>
    if Byte.eqb b c_semi then Continue (toks ++ [(t_semi, [b])]) (accept_ws t)
    else if Byte.eqb b c_lb then Continue (toks ++ [(t_open, [b])]) (accept_ws t)
    else match accept_number true s with
         | Some (tk, r) => unknown_args f (toks ++ [tk]) r
         | None =>
           match accept_string (S (length s)) s with
           | SOk ts r => unknown_args f (toks ++ ts) r
           | SFalse ts => Stop (toks ++ ts)
           | SFuel => StepFuel
           end
         end
  end.
Proof. reflexivity. Qed.

Lemma unknown_args_ok : forall fuel toks s, length s < fuel ->
  unknown_args fuel toks s <> StepFuel /\
  (forall a r, unknown_args fuel toks s = Continue a r -> length r < length s).
Proof.
  induction fuel as [|f IH]; intros toks s Hf; [lia|].
  rewrite unknown_args_S. destruct s as [|b t]; [split; [discriminate|intros; discriminate]|].
  destruct (Byte.eqb b c_semi).
  { split; [discriminate|]. intros a r H. inversion H; subst. pose proof (accept_ws_len t). simpl. lia. }
  destruct (Byte.eqb b c_lb).
  { split; [discriminate|]. intros a r H. inversion H; subst. pose proof (accept_ws_len t). simpl. lia. }
  destruct (accept_number true (b :: t)) as [[tk r]|] eqn:En.
  - apply accept_number_len in En. destruct (IH (toks ++ [tk]) r) as [H1 H2]; [lia|].
    split; [exact H1|]. intros a r' H. apply H2 in H. lia.
  - destruct (accept_string_self (b :: t)) as [Hnf Hlt].
    destruct (accept_string (S (length (b :: t))) (b :: t)) as [ts r| ts |] eqn:Ea.
    + specialize (Hlt _ _ eq_refl). destruct (IH (toks ++ ts) r) as [H1 H2]; [lia|].
      split; [exact H1|]. intros a r' H. apply H2 in H. lia.
    + split; [discriminate|intros; discriminate].
    + exfalso. apply Hnf. reflexivity.
Qed.

(** * one statement *)
Ltac step_tac :=
  repeat match goal with
  | |- _ /\ _ => split
  | |- Stop _ <> StepFuel => discriminate
  | |- Continue _ _ <> StepFuel => discriminate
  | |- forall a r, Stop _ = Continue a r -> _ => intros ? ? ?; discriminate
  | |- expect_open _ _ <> StepFuel => apply expect_open_nofuel
  | |- end_of_stmt _ _ <> StepFuel => apply end_of_stmt_nofuel
  end.

Lemma run_fmt_ok f kt s :
  run_fmt f kt s <> StepFuel /\ (forall a r, run_fmt f kt s = Continue a r -> length r <= length s).
Proof.
  destruct (accept_string_self s) as [Hnf Hlt].
  destruct f; unfold run_fmt.
  - (* FIdentOpen *)
    destruct (accept_ident s) as [[tk r]|] eqn:E; step_tac.
    intros a r' H. apply expect_open_len in H. apply accept_ident_len in E. lia.
  - (* FStrOpen *)
    destruct (accept_string (S (length s)) s) as [ts r| ts |] eqn:Ea; step_tac.
    + intros a r' H. apply expect_open_len in H. specialize (Hlt _ _ eq_refl). lia.
    + exfalso. apply Hnf. reflexivity.
    + exfalso. apply Hnf. reflexivity.
  - (* FOpen *)
    step_tac. intros a r H. apply expect_open_len in H. lia.
  - (* FDeviate *)
    destruct (accept_kw k_not_supported s) as [[tk r]|] eqn:E.
    + apply accept_kw_len in E.
      destruct (expect_open [kt; tk] r) as [a0 b0| |] eqn:Eo.
      * split; [discriminate|]. intros a r' H. inversion H; subst. apply expect_open_len in Eo. lia.
      * split; [apply end_of_stmt_nofuel|]. intros a r' H. apply end_of_stmt_len in H. lia.
      * exfalso. eapply expect_open_nofuel; eauto.
    + destruct (accept_first [k_replace; k_add; k_delete] s) as [[tk r]|] eqn:E2; step_tac.
      intros a r' H. apply expect_open_len in H. apply accept_first_len in E2. lia.
  - (* FIdentEnd *)
    destruct (accept_ident s) as [[tk r]|] eqn:E; step_tac.
    intros a r' H. apply end_of_stmt_len in H. apply accept_ident_len in E. lia.
  - (* FStatus *)
    destruct (accept_first [k_current; k_obsolete; k_deprecated] s) as [[tk r]|] eqn:E; step_tac.
    intros a r' H. apply end_of_stmt_len in H. apply accept_first_len in E. lia.
  - (* FStrEnd *)
    destruct (accept_string (S (length s)) s) as [ts r| ts |] eqn:Ea; step_tac.
    + intros a r' H. apply end_of_stmt_len in H. specialize (Hlt _ _ eq_refl). lia.
    + exfalso. apply Hnf. reflexivity.
    + exfalso. apply Hnf. reflexivity.
  - (* FBool *)
    destruct (accept_first [k_true; k_false] s) as [[tk r]|] eqn:E; step_tac.
    intros a r' H. apply end_of_stmt_len in H. apply accept_first_len in E. lia.
  - (* FOrderedBy *)
    destruct (accept_first [k_system; k_user] s) as [[tk r]|] eqn:E; step_tac.
    intros a r' H. apply end_of_stmt_len in H. apply accept_first_len in E. lia.
  - (* FModifier *)
    destruct (accept_first [k_invert_match] s) as [[tk r]|] eqn:E; step_tac.
    intros a r' H. apply end_of_stmt_len in H. apply accept_first_len in E. lia.
  - (* FMaxMin *)
    destruct (accept_kw k_unbounded s) as [[tk r]|] eqn:E.
    + step_tac. intros a r' H. apply end_of_stmt_len in H. apply accept_kw_len in E. lia.
    + destruct (accept_number false s) as [[tk r]|] eqn:E2.
      * step_tac. intros a r' H. apply end_of_stmt_len in H. apply accept_number_len in E2. lia.
      * destruct (accept_string (S (length s)) s) as [ts r| ts |] eqn:Ea; step_tac.
        -- intros a r' H. apply end_of_stmt_len in H. specialize (Hlt _ _ eq_refl). lia.
        -- exfalso. apply Hnf. reflexivity.
        -- exfalso. apply Hnf. reflexivity.
Qed.

Lemma chain_kw_nonempty :
  forallb (fun kf => negb (Nat.eqb (length (kw_text (fst kf))) 0)) chain = true.
Proof. vm_compute. reflexivity. Qed.

Lemma first_match_len : forall c s k f r,
  forallb (fun kf => negb (Nat.eqb (length (kw_text (fst kf))) 0)) c = true ->
  first_match c s = Some (k, f, r) -> length r < length s.
Proof.
  induction c as [|[k0 f0] c IH]; intros s k f r Hc H; [discriminate|].
  simpl in Hc. apply andb_true_iff in Hc as [Hk Hc]. apply negb_true_iff in Hk. apply Nat.eqb_neq in Hk.
  simpl in H. destruct (strip_prefix (kw_text k0) s) as [r0|] eqn:E.
  - inversion H; subst. apply strip_prefix_len in E. lia.
  - eapply IH; eauto.
Qed.

Lemma lex_begin_ok s :
  lex_begin s <> StepFuel /\ (forall a r, lex_begin s = Continue a r -> length r < length s).
Proof.
  unfold lex_begin. destruct (first_match chain s) as [[[k f] r0]|] eqn:E.
  - apply (first_match_len _ _ _ _ _ chain_kw_nonempty) in E.
    destruct (run_fmt_ok f (k, kw_text k) (accept_ws r0)) as [H1 H2]. split; [exact H1|].
    intros a r H. apply H2 in H. pose proof (accept_ws_len r0). lia.
  - destruct s as [|b t]; [split; [discriminate|intros; discriminate]|].
    destruct (Byte.eqb b c_rb).
    + split; [discriminate|]. intros a r H. inversion H; subst. pose proof (accept_ws_len t). simpl. lia.
    + destruct (accept_unknown (b :: t)) as [[tk r]|] eqn:Eu; [|split; [discriminate|intros; discriminate]].
      apply accept_unknown_len in Eu.
      destruct (unknown_args_ok (S (length r)) [tk] r) as [H1 H2]; [lia|]. split; [exact H1|].
      intros a r' H. apply H2 in H. lia.
Qed.

(** * the ring never indexes out of range *)
Definition ring_ok {A} (r : ring A) : Prop :=
  rhead r < length (rbuf r) /\ rtail r < length (rbuf r).

Lemma set_nth_length {A} (x : A) : forall l i, length (set_nth i x l) = length l.
Proof. induction l as [|a l IH]; intros [|i]; simpl; auto. Qed.

Lemma push_ok {A} (r : ring A) x : ring_ok r -> ring_ok (push r x).
Proof.
  intros [Hh Ht]. unfold ring_ok, push. simpl. rewrite set_nth_length. split; [|exact Ht].
  apply Nat.mod_upper_bound. lia.
Qed.

Lemma fold_push_ok {A} (l : list A) : forall r, ring_ok r -> ring_ok (fold_left push l r).
Proof. induction l as [|x l IH]; intros r H; simpl; auto. apply IH, push_ok, H. Qed.

Lemma drain_total {A} : forall fuel (r : ring A), ring_ok r ->
  exists l r', drain fuel r = Some (l, r') /\ ring_ok r'.
Proof.
  induction fuel as [|f IH]; intros r Hr.
  - exists [], r. split; [reflexivity|exact Hr].
  - cbn [drain]. destruct (Nat.eqb (rhead r) (rtail r)).
    + exists [], r. split; [reflexivity|exact Hr].
    + destruct Hr as [Hh Ht].
      destruct (nth_error (rbuf r) (rtail r)) as [x|] eqn:E.
      * destruct (IH (mkRing (rbuf r) (rhead r) (S (rtail r) mod length (rbuf r)))) as (l & r' & Hd & Hok).
        { unfold ring_ok. simpl. split; [exact Hh|]. apply Nat.mod_upper_bound. lia. }
        rewrite Hd. exists (x :: l), r'. split; [reflexivity|exact Hok].
      * apply nth_error_None in E. lia.
Qed.

Lemma deliver_total {A} (r : ring A) toks : ring_ok r ->
  exists d r', deliver r toks = Some (d, r') /\ ring_ok r'.
Proof. intros H. unfold deliver. apply drain_total, fold_push_ok, H. Qed.

Lemma ring0_ok : ring_ok ring0.
Proof. unfold ring_ok, ring0. cbn [rbuf rhead rtail]. rewrite repeat_length. unfold ring_size. lia. Qed.

(** * the whole lexer *)
Lemma lex_loop_S f rg acc s : lex_loop (S f) rg acc s =
  match s with
  | [] => LexOk acc
  | _ =>
    match lex_begin s with
    | Continue toks r =>
      match deliver rg toks with
      | Some (d, rg') => lex_loop f rg' (acc ++ d) r
      | None => LexPanic
      end
    | Stop toks =>
      match deliver rg toks with
      | Some (d, _) => LexErr (acc ++ d)
      | None => LexPanic
      end
    | StepFuel => LexFuel
    end
  end.
Proof. reflexivity. Qed.

Lemma lex_loop_total : forall fuel rg acc s, length s < fuel -> ring_ok rg ->
  exists toks, lex_loop fuel rg acc s = LexOk toks \/ lex_loop fuel rg acc s = LexErr toks.
Proof.
  induction fuel as [|f IH]; intros rg acc s Hf Hrg; [lia|].
  rewrite lex_loop_S. destruct s as [|b t]; [exists acc; left; reflexivity|].
  destruct (lex_begin_ok (b :: t)) as [Hnf Hlt].
  destruct (lex_begin (b :: t)) as [toks r| toks |] eqn:E.
  - specialize (Hlt _ _ eq_refl). destruct (deliver_total rg toks Hrg) as (d & rg' & Hd & Hok).
    rewrite Hd. apply IH; [lia|exact Hok].
  - destruct (deliver_total rg toks Hrg) as (d & rg' & Hd & Hok). rewrite Hd.
    exists (acc ++ d). right. reflexivity.
  - exfalso. apply Hnf. reflexivity.
Qed.

Theorem ylex_total input : exists toks, ylex input = LexOk toks \/ ylex input = LexErr toks.
Proof.
  unfold ylex. apply lex_loop_total; [|exact ring0_ok].
  pose proof (accept_ws_len input). lia.
Qed.

Corollary ylex_no_panic input : ylex input <> LexPanic /\ ylex input <> LexFuel.
Proof. destruct (ylex_total input) as [toks [H|H]]; rewrite H; split; discriminate. Qed.
