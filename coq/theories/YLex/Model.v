(** Model of the YANG lexer (parser/lexer.go) and of the string post-processing of the grammar
    (parser/parser.y: tokenString, unescapeDoubleQuoted, trimQuotes, string_value), as repaired by the
    fix: commits listed in KNOWN_FINDINGS.txt.  Byte level: the input is a [list byte].

    Runes.  The Go lexer reads runes (utf8.DecodeRuneInString) and the model reads bytes.  The two
    agree because (a) a byte below 0x80 is always a rune of its own in Go's decoder, (b) every test the
    lexer makes on a rune compares it with an ASCII character, except unicode.IsSpace (transcribed
    below as the byte sequences of the 25 White_Space code points, [space_len]) and
    unicode.IsLetter/IsDigit in identifier position (transcribed for U+0080..U+00FF only, [hi_alnum_len];
    inputs with other non-ASCII lead bytes are outside [in_domain]); (c) continuation bytes 0x80..0xBF
    are never part of any of the tested sequences' first position.  No proofs in this file. *)
From Coq Require Import List NArith Bool Arith Strings.Byte.
From YV Require Import YLex.Keywords.
Import ListNotations.

Definition text := list byte.
Definition token := (nat * list byte)%type.      (* (type - token_ident, val) *)

Definition c_dq := x22.   Definition c_sq := x27.   Definition c_bs := x5c.
Definition c_semi := x3b. Definition c_lb := x7b.   Definition c_rb := x7d.
Definition c_plus := x2b. Definition c_slash := x2f. Definition c_star := x2a.
Definition c_nl := x0a.   Definition c_tab := x09.  Definition c_cr := x0d.  Definition c_sp := x20.
Definition c_n := x6e.    Definition c_t := x74.    Definition c_nul := x00.

Definition bn (b : byte) : N := Byte.to_N b.
Definition in_range (lo hi : N) (b : byte) : bool := (N.leb lo (bn b) && N.leb (bn b) hi)%bool.

(** unicode.IsSpace on U+0000..U+007F: \t \n \v \f \r and space *)
Definition ascii_space (b : byte) : bool :=
  Byte.eqb b x09 || Byte.eqb b x0a || Byte.eqb b x0b || Byte.eqb b x0c || Byte.eqb b x0d || Byte.eqb b x20.

(** byte length of the white-space rune at the head of [s], 0 if the rune there is not white space
    (unicode.IsSpace (utf8.DecodeRuneInString s)): U+0085 U+00A0 U+1680 U+2000-200A U+2028 U+2029
    U+202F U+205F U+3000 *)
Definition space_len (s : list byte) : nat :=
  match s with
  | [] => 0
  | b0 :: t0 =>
    if ascii_space b0 then 1 else
    match t0 with
    | [] => 0
    | b1 :: t1 =>
      if Byte.eqb b0 xc2 && (Byte.eqb b1 x85 || Byte.eqb b1 xa0) then 2 else
      match t1 with
      | [] => 0
      | b2 :: _ =>
        if (Byte.eqb b0 xe1 && Byte.eqb b1 x9a && Byte.eqb b2 x80)
           || (Byte.eqb b0 xe2 && Byte.eqb b1 x80 &&
               (in_range 128 138 b2 || Byte.eqb b2 xa8 || Byte.eqb b2 xa9 || Byte.eqb b2 xaf))
           || (Byte.eqb b0 xe2 && Byte.eqb b1 x81 && Byte.eqb b2 x9f)
           || (Byte.eqb b0 xe3 && Byte.eqb b1 x80 && Byte.eqb b2 x80)
        then 3 else 0
      end
    end
  end.

(** * acceptWS (lexer.go) as an automaton over the bytes.
    WN: the outer loop (skip white space, then look for a comment opener);
    WSkip k: k more bytes of the current white-space rune / closing "*/" to skip, then WN;
    WB0: the '*' of an opening "/*"; WB: inside a block comment (ends at the nearest following "*/"
    or at the end of the input); WL: inside a // comment (ends after '\n' or at the end of the input). *)
Inductive wsmode := WN | WSkip (k : nat) | WB0 | WB | WL.

Fixpoint ws (m : wsmode) (s : list byte) : list byte :=
  match s with
  | [] => []
  | b :: t =>
    match m with
    | WSkip (S k) => ws (WSkip k) t
    | WN | WSkip O =>
      match space_len s with
      | S k => ws (WSkip k) t
      | O =>
        match t with
        | b1 :: _ =>
          if Byte.eqb b c_slash && Byte.eqb b1 c_star then ws WB0 t
          else if Byte.eqb b c_slash && Byte.eqb b1 c_slash then ws WL t
          else s
        | [] => s
        end
      end
    | WB0 => ws WB t
    | WB =>
      match t with
      | b1 :: _ => if Byte.eqb b c_star && Byte.eqb b1 c_slash then ws (WSkip 1) t else ws WB t
      | [] => []
      end
    | WL => if Byte.eqb b c_nl then ws WN t else ws WL t
    end
  end.

Definition accept_ws (s : list byte) : list byte := ws WN s.

(** acceptWS as it was at the pinned commit: [None] = index out of range in the // loop when the
    comment runs to the end of the input; a block comment was closed by the '/' ... '*' '/' that
    overlaps its opener ("/*/") and by a NUL character. *)
Inductive wsmode_old := ON | OSkip (k : nat) | OB | OL.
Fixpoint ws_old (m : wsmode_old) (s : list byte) : option (list byte) :=
  match s with
  | [] => match m with OL => None | _ => Some [] end
  | b :: t =>
    match m with
    | OSkip (S k) => ws_old (OSkip k) t
    | ON | OSkip O =>
      match space_len s with
      | S k => ws_old (OSkip k) t
      | O =>
        match t with
        | b1 :: t1 =>
          if Byte.eqb b c_slash && Byte.eqb b1 c_star then
            (* r := next() takes the '/'; HasPrefix(rest, "*/") sees the '*' of the opener *)
            match t1 with
            | b2 :: _ => if Byte.eqb b2 c_slash then ws_old (OSkip 2) t else ws_old OB t
            | [] => ws_old OB t
            end
          else if Byte.eqb b c_slash && Byte.eqb b1 c_slash then ws_old OL t
          else Some s
        | [] => Some s
        end
      end
    | OB =>
      (* r := next(); if HasPrefix(rest, "*/") { pos += 2; break }; if r == eof { break } *)
      match t with
      | b1 :: b2 :: _ =>
        if Byte.eqb b1 c_star && Byte.eqb b2 c_slash then ws_old (OSkip 2) t
        else if Byte.eqb b c_nul then ws_old ON t else ws_old OB t
      | _ => if Byte.eqb b c_nul then ws_old ON t else ws_old OB t
      end
    | OL => match t with
            | [] => None                             (* l.input[l.pos] with pos = len *)
            | b1 :: t1 => if Byte.eqb b1 c_nl then ws_old ON t1 else ws_old OL t
            end
    end
  end.

(** * acceptString (lexer.go).  The scanners return the bytes of the token after the opening quote
    (closing quote included) and the rest; [None] is "return false" (end of input or a NUL, which the
    lexer confuses with its eof rune, before the closing quote). *)
Fixpoint scan_dq (s : list byte) : option (list byte * list byte) :=
  match s with
  | [] => None
  | b :: t =>
    if Byte.eqb b c_nul then None
    else if Byte.eqb b c_bs then
      match t with
      | [] => None
      | c :: t' => match scan_dq t' with Some (a, r) => Some (b :: c :: a, r) | None => None end
      end
    else if Byte.eqb b c_dq then Some ([b], t)
    else match scan_dq t with Some (a, r) => Some (b :: a, r) | None => None end
  end.

Fixpoint scan_sq (s : list byte) : option (list byte * list byte) :=
  match s with
  | [] => None
  | b :: t =>
    if Byte.eqb b c_nul then None
    else if Byte.eqb b c_sq then Some ([b], t)
    else match scan_sq t with Some (a, r) => Some (b :: a, r) | None => None end
  end.

(** isStringDelim at the head of [s] *)
Definition delim_at (s : list byte) : bool :=
  match s with
  | [] => false
  | b :: _ => negb (Nat.eqb (space_len s) 0) || Byte.eqb b c_semi || Byte.eqb b c_lb
  end.

(** unquoted string after its first rune: ends before a delimiter, after a NUL, or at the end *)
Fixpoint scan_uq (s : list byte) : list byte * list byte :=
  match s with
  | [] => ([], [])
  | b :: t =>
    if Byte.eqb b c_nul then ([b], t)
    else if delim_at s then ([], s)
    else let (a, r) := scan_uq t in (b :: a, r)
  end.

Inductive sres :=
| SOk (toks : list token) (rest : list byte)
| SFalse (toks : list token)          (* acceptString returned false; tokens already pushed *)
| SFuel.

Definition tok_plus : token := (k_plus, [c_plus]).

Fixpoint accept_string (fuel : nat) (s : list byte) : sres :=
  match fuel with
  | O => SFuel
  | S f =>
    match s with
    | [] => SFalse []                                        (* isEof (fix fdb2706) *)
    | b :: t =>
      if Byte.eqb b c_dq || Byte.eqb b c_sq then
        match (if Byte.eqb b c_dq then scan_dq t else scan_sq t) with
        | None => SFalse []
        | Some (body, r) =>
          let tk : token := (t_string, b :: body) in
          let r1 := accept_ws r in                            (* emit *)
          match r1 with
          | p :: r2 =>
            if Byte.eqb p c_plus then                         (* acceptToken(kywd_str_plus) *)
              match accept_string f (accept_ws r2) with
              | SOk toks r3 => SOk (tk :: tok_plus :: toks) r3
              | SFalse toks => SFalse (tk :: tok_plus :: toks)
              | SFuel => SFuel
              end
            else SOk [tk] r1
          | [] => SOk [tk] r1
          end
        end
      else
        let n := match space_len s with O => 1 | n => n end in    (* the first rune is taken as is *)
        let (a, r) := scan_uq (skipn n s) in
        SOk [(t_string, firstn n s ++ a)] (accept_ws r)
    end
  end.

(** * identifiers and numbers *)
Definition ascii_digit (b : byte) : bool := in_range 48 57 b.
Definition ascii_alnum (b : byte) : bool :=
  ascii_digit b || in_range 65 90 b || in_range 97 122 b || Byte.eqb b x2d || Byte.eqb b x5f.
(** isIdent on an ASCII rune *)
Definition ascii_ident (b : byte) : bool := ascii_alnum b || Byte.eqb b x3a || Byte.eqb b x2e.

(** unicode.IsLetter || unicode.IsDigit for U+0080..U+00FF (U+00AA U+00B5 U+00BA U+00C0-D6 U+00D8-F6
    U+00F8-FF): byte length 2 when the head of [s] encodes one of them, else 0 *)
Definition hi_alnum_len (s : list byte) : nat :=
  match s with
  | b0 :: b1 :: _ =>
    if Byte.eqb b0 xc2 && (Byte.eqb b1 xaa || Byte.eqb b1 xb5 || Byte.eqb b1 xba) then 2
    else if Byte.eqb b0 xc3 && in_range 128 191 b1 && negb (Byte.eqb b1 x97) && negb (Byte.eqb b1 xb7) then 2
    else 0
  | _ => 0
  end.

Definition ident_char_len (s : list byte) : nat :=
  match s with
  | [] => 0
  | b :: _ => if ascii_ident b then 1 else hi_alnum_len s
  end.

(** the run of identifier runes at the head of [s] (acceptToks with isIdent); [k] bytes of the current
    rune remain to be taken *)
Fixpoint ident_span (k : nat) (s : list byte) : list byte * list byte :=
  match s with
  | [] => ([], [])
  | b :: t =>
    match k with
    | S k' => let (a, r) := ident_span k' t in (b :: a, r)
    | O =>
      match ident_char_len s with
      | O => ([], s)
      | S k' => let (a, r) := ident_span k' t in (b :: a, r)
      end
    end
  end.

Definition count_colon (a : list byte) : nat := length (filter (fun b => Byte.eqb b x3a) a).

(** acceptToken(token_ident) *)
Definition accept_ident (s : list byte) : option (token * list byte) :=
  let (a, r) := ident_span 0 s in
  match a with [] => None | _ => Some ((t_ident, a), accept_ws r) end.

(** acceptToken(token_unknown): an identifier run with exactly one ':' *)
Definition accept_unknown (s : list byte) : option (token * list byte) :=
  let (a, r) := ident_span 0 s in
  match a with
  | [] => None
  | _ => if Nat.eqb (count_colon a) 1 then Some ((t_unknown, a), accept_ws r) else None
  end.

(** acceptNumber ([dot] = true) / acceptInteger ([dot] = false); unicode.IsDigit on ASCII *)
Fixpoint num_span (first dot : bool) (s : list byte) : list byte * list byte :=
  match s with
  | [] => ([], [])
  | b :: t =>
    if ascii_digit b || (first && (Byte.eqb b x2d || Byte.eqb b x2b)) || (negb first && dot && Byte.eqb b x2e)
    then let (a, r) := num_span false dot t in (b :: a, r)
    else ([], s)
  end.

Definition accept_number (dot : bool) (s : list byte) : option (token * list byte) :=
  let (a, r) := num_span true dot s in
  match a with [] => None | _ => Some ((t_number, a), accept_ws r) end.

(** * keywords: acceptToken(kywd_x) is a prefix test, nothing more *)
Fixpoint strip_prefix (p s : list byte) : option (list byte) :=
  match p with
  | [] => Some s
  | a :: p' => match s with
               | b :: s' => if Byte.eqb a b then strip_prefix p' s' else None
               | [] => None
               end
  end.

Definition accept_kw (k : nat) (s : list byte) : option (token * list byte) :=
  match strip_prefix (kw_text k) s with
  | Some r => Some ((k, kw_text k), accept_ws r)
  | None => None
  end.

Fixpoint accept_first (ks : list nat) (s : list byte) : option (token * list byte) :=
  match ks with
  | [] => None
  | k :: ks' => match accept_kw k s with Some x => Some x | None => accept_first ks' s end
  end.

(** * lexBegin *)
Inductive step :=
| Continue (toks : list token) (rest : list byte)    (* returns lexBegin *)
| Stop (toks : list token)                           (* l.error: state nil, lastError set *)
| StepFuel.

(** acceptEndOfStatement *)
Definition end_of_stmt (toks : list token) (s : list byte) : step :=
  match s with
  | b :: t =>
    if Byte.eqb b c_semi then Continue (toks ++ [(t_semi, [b])]) (accept_ws t)
    else if Byte.eqb b c_lb then Continue (toks ++ [(t_open, [b])]) (accept_ws t)
    else Stop toks
  | [] => Stop toks
  end.

Definition expect_open (toks : list token) (s : list byte) : step :=
  match s with
  | b :: t => if Byte.eqb b c_lb then Continue (toks ++ [(t_open, [b])]) (accept_ws t) else Stop toks
  | [] => Stop toks
  end.

Inductive fmt :=
| FIdentOpen     (* xxx ident {            *)
| FStrOpen       (* xxx "path" {           *)
| FOpen          (* xxx {                  *)
| FDeviate
| FIdentEnd      (* xxx ident ; or {       *)
| FStatus
| FStrEnd        (* xxx string ; or {      *)
| FBool
| FOrderedBy
| FModifier
| FMaxMin.

Definition tag (f : fmt) (ks : list nat) : list (nat * fmt) := map (fun k => (k, f)) ks.

(** the keyword tests of lexBegin in the order they are made *)
Definition chain : list (nat * fmt) :=
  tag FIdentOpen [k_notification; k_container; k_leaf_list; k_submodule; k_grouping; k_typedef; k_action;
                  k_module; k_choice; k_leaf; k_list; k_case; k_rpc]
  ++ tag FStrOpen [k_belongs_to; k_deviation; k_augment; k_refine]
  ++ tag FOpen [k_output; k_input]
  ++ [(k_deviate, FDeviate)]
  ++ tag FIdentEnd [k_not_supported; k_extension; k_identity; k_include; k_anydata; k_feature; k_anyxml;
                    k_import; k_type; k_bit; k_uses]
  ++ [(k_status, FStatus)]
  ++ tag FStrEnd [k_default; k_value; k_position; k_fraction_digits]
  ++ tag FBool [k_mandatory; k_config; k_yin_element; k_require_instance]
  ++ tag FStrEnd [k_error_message; k_error_app_tag; k_revision_date; k_organization; k_yang_version;
                  k_description; k_if_feature; k_namespace; k_reference; k_revision; k_argument; k_presence;
                  k_contact; k_pattern; k_prefix; k_length; k_unique; k_range; k_units; k_enum; k_type;
                  k_path; k_when; k_must; k_base; k_key]
  ++ [(k_ordered_by, FOrderedBy); (k_modifier, FModifier)]
  ++ tag FMaxMin [k_max_elements; k_min_elements].

Fixpoint first_match (c : list (nat * fmt)) (s : list byte) : option (nat * fmt * list byte) :=
  match c with
  | [] => None
  | (k, f) :: c' =>
    match strip_prefix (kw_text k) s with
    | Some r => Some (k, f, r)
    | None => first_match c' s
    end
  end.

(** the loop over the arguments of an extension statement *)
Fixpoint unknown_args (fuel : nat) (toks : list token) (s : list byte) : step :=
  match fuel with
  | O => StepFuel
  | S f =>
    match s with
    | [] => Stop toks
    | b :: t =>
      if Byte.eqb b c_semi then Continue (toks ++ [(t_semi, [b])]) (accept_ws t)
      else if Byte.eqb b c_lb then Continue (toks ++ [(t_open, [b])]) (accept_ws t)
      else match accept_number true s with
           | Some (tk, r) => unknown_args f (toks ++ [tk]) r
           | None =>
             match accept_string (S (length s)) s with
             | SOk ts r => unknown_args f (toks ++ ts) r
             | SFalse ts => Stop (toks ++ ts)
             | SFuel => StepFuel
             end
           end
    end
  end.

Definition run_fmt (f : fmt) (kt : token) (s : list byte) : step :=
  let fuel := S (length s) in
  match f with
  | FIdentOpen =>
    match accept_ident s with
    | Some (tk, r) => expect_open [kt; tk] r
    | None => Stop [kt]
    end
  | FStrOpen =>
    match accept_string fuel s with
    | SOk ts r => expect_open (kt :: ts) r
    | SFalse ts => Stop (kt :: ts)
    | SFuel => StepFuel
    end
  | FOpen => expect_open [kt] s
  | FDeviate =>
    match accept_kw k_not_supported s with
    | Some (tk, r) =>
      match expect_open [kt; tk] r with
      | Continue a b => Continue a b
      | _ => end_of_stmt [kt; tk] r
      end
    | None =>
      match accept_first [k_replace; k_add; k_delete] s with
      | Some (tk, r) => expect_open [kt; tk] r
      | None => Stop [kt]
      end
    end
  | FIdentEnd =>
    match accept_ident s with
    | Some (tk, r) => end_of_stmt [kt; tk] r
    | None => Stop [kt]
    end
  | FStatus =>
    match accept_first [k_current; k_obsolete; k_deprecated] s with
    | Some (tk, r) => end_of_stmt [kt; tk] r
    | None => Stop [kt]
    end
  | FStrEnd =>
    match accept_string fuel s with
    | SOk ts r => end_of_stmt (kt :: ts) r
    | SFalse ts => Stop (kt :: ts)
    | SFuel => StepFuel
    end
  | FBool =>
    match accept_first [k_true; k_false] s with
    | Some (tk, r) => end_of_stmt [kt; tk] r
    | None => Stop [kt]
    end
  | FOrderedBy =>
    match accept_first [k_system; k_user] s with
    | Some (tk, r) => end_of_stmt [kt; tk] r
    | None => Stop [kt]
    end
  | FModifier =>
    match accept_first [k_invert_match] s with
    | Some (tk, r) => end_of_stmt [kt; tk] r
    | None => Stop [kt]
    end
  | FMaxMin =>
    match accept_kw k_unbounded s with
    | Some (tk, r) => end_of_stmt [kt; tk] r
    | None =>
      match accept_number false s with
      | Some (tk, r) => end_of_stmt [kt; tk] r
      | None =>
        match accept_string fuel s with
        | SOk ts r => end_of_stmt (kt :: ts) r
        | SFalse ts => Stop (kt :: ts)
        | SFuel => StepFuel
        end
      end
    end
  end.

(** one call of the state function lexBegin on a non-empty rest *)
Definition lex_begin (s : list byte) : step :=
  match first_match chain s with
  | Some (k, f, r) => run_fmt f (k, kw_text k) (accept_ws r)
  | None =>
    match s with
    | b :: t =>
      if Byte.eqb b c_rb then Continue [(t_close, [b])] (accept_ws t)
      else match accept_unknown s with
           | Some (tk, r) => unknown_args (S (length r)) [tk] r
           | None => Stop []
           end
    | [] => Stop []
    end
  end.

(** * the 64-slot token ring (pushToken / popToken / nextToken) *)
Section Ring.
  Context {A : Type}.
  Record ring := mkRing { rbuf : list A; rhead : nat; rtail : nat }.

  Fixpoint set_nth (i : nat) (x : A) (l : list A) : list A :=
    match l with
    | [] => []
    | a :: t => match i with O => x :: t | S i' => a :: set_nth i' x t end
    end.

  Definition push (r : ring) (x : A) : ring :=
    mkRing (set_nth (rhead r) x (rbuf r)) (S (rhead r) mod length (rbuf r)) (rtail r).

  (** nextToken while head != tail; [None] would be an index out of range *)
  Fixpoint drain (fuel : nat) (r : ring) : option (list A * ring) :=
    match fuel with
    | O => Some ([], r)
    | S f =>
      if Nat.eqb (rhead r) (rtail r) then Some ([], r)
      else match nth_error (rbuf r) (rtail r) with
           | None => None
           | Some x =>
             match drain f (mkRing (rbuf r) (rhead r) (S (rtail r) mod length (rbuf r))) with
             | Some (l, r') => Some (x :: l, r')
             | None => None
             end
           end
    end.

  (** what the parser receives from one state call that pushed [toks] into an empty ring *)
  Definition deliver (r : ring) (toks : list A) : option (list A * ring) :=
    drain (length (rbuf r)) (fold_left push toks r).
End Ring.
Arguments ring : clear implicits.

Definition ring_size := 64.
Definition ring0 : ring token := mkRing (repeat (0, []) ring_size) 0 0.

(** * the whole token stream as the parser receives it (lex + repeated nextToken) *)
Inductive outcome :=
| LexOk (toks : list token)          (* state nil by end of input: the parser then gets EOF *)
| LexErr (toks : list token)         (* l.error: lastError set, the load fails *)
| LexPanic
| LexFuel.

Fixpoint lex_loop (fuel : nat) (rg : ring token) (acc : list token) (s : list byte) : outcome :=
  match fuel with
  | O => LexFuel
  | S f =>
    match s with
    | [] => LexOk acc                                      (* isEof *)
    | _ =>
      match lex_begin s with
      | Continue toks r =>
        match deliver rg toks with
        | Some (d, rg') => lex_loop f rg' (acc ++ d) r
        | None => LexPanic
        end
      | Stop toks =>
        match deliver rg toks with
        | Some (d, _) => LexErr (acc ++ d)
        | None => LexPanic
        end
      | StepFuel => LexFuel
      end
    end
  end.

(** lex(): acceptWS first, then the state machine *)
Definition ylex (input : list byte) : outcome :=
  lex_loop (S (length input)) ring0 [] (accept_ws input).

(** * parser.y: tokenString / unescapeDoubleQuoted / string_value *)
Definition trim_byte (b : byte) : bool :=
  Byte.eqb b c_sp || Byte.eqb b c_tab || Byte.eqb b c_nl || Byte.eqb b c_cr.
Fixpoint trim_left (s : list byte) : list byte :=
  match s with b :: t => if trim_byte b then trim_left t else s | [] => [] end.
Definition trim (s : list byte) : list byte := rev (trim_left (rev (trim_left s))).

Fixpoint unescape (s : list byte) : list byte :=
  match s with
  | [] => []
  | b :: t =>
    if Byte.eqb b c_bs then
      match t with
      | c :: t' =>
        if Byte.eqb c c_n then c_nl :: unescape t'
        else if Byte.eqb c c_t then c_tab :: unescape t'
        else if Byte.eqb c c_dq || Byte.eqb c c_bs then c :: unescape t'
        else b :: unescape t
      | [] => [b]
      end
    else b :: unescape t
  end.

Definition last_byte (s : list byte) : byte := last s c_nul.

(** tokenString (after fix dfafc15) *)
Definition token_string (v : list byte) : list byte :=
  let s := trim v in
  match s with
  | b :: (_ :: _) as t =>
    if Byte.eqb b c_dq && Byte.eqb (last_byte s) c_dq then unescape (removelast t)
    else if Byte.eqb b c_sq && Byte.eqb (last_byte s) c_sq then removelast t
    else s
  | _ => s
  end.

(** tokenString at the pinned commit: s[0] on an empty token panics ([None]); no unescaping *)
Definition token_string_old (v : list byte) : option (list byte) :=
  let s := trim v in
  match s with
  | [] => None
  | b :: t =>
    if Byte.eqb b c_dq && Byte.eqb (last_byte s) c_dq then Some (removelast t)
    else if Byte.eqb b c_sq && Byte.eqb (last_byte s) c_sq then Some (removelast t)
    else Some s
  end.

(** string_value : token_string | string_value '+' token_string.  [Some (text, rest)] when the token
    list starts with such a sequence *)
Fixpoint string_value (toks : list token) : option (list byte * list token) :=
  match toks with
  | (ty, v) :: rest =>
    if Nat.eqb ty t_string then
      match rest with
      | (ty2, _) :: rest2 =>
        if Nat.eqb ty2 k_plus then
          match string_value rest2 with
          | Some (x, r) => Some (token_string v ++ x, r)
          | None => None
          end
        else Some (token_string v, rest)
      | [] => Some (token_string v, rest)
      end
    else None
  | [] => None
  end.

(** the argument the grammar hands to the builder for a statement "kw string_value (; or {)" *)
Definition arg_of (toks : list token) : option (list byte) :=
  match toks with
  | _ :: rest =>
    match string_value rest with
    | Some (x, [(ty, _)]) => if Nat.eqb ty t_semi || Nat.eqb ty t_open then Some x else None
    | _ => None
    end
  | [] => None
  end.

(** rules that still take the raw token (yang-version, revision, argument: gold files of the suite pin
    the quoted form): the argument is the token text, quotes and all, and '+' is a syntax error *)
Definition arg_of_raw (toks : list token) : option (list byte) :=
  match toks with
  | [_; (ty, v); (ty2, _)] =>
    if Nat.eqb ty t_string && (Nat.eqb ty2 t_semi || Nat.eqb ty2 t_open) then Some v else None
  | _ => None
  end.

(** * domain of the byte-level transcription (see header): every non-ASCII lead byte is C2/C3 (Latin-1
    supplement), starts one of the listed white-space sequences, or can never start a rune *)
Fixpoint in_domain (s : list byte) : bool :=
  match s with
  | [] => true
  | b :: t =>
    (N.ltb (bn b) 196            (* ASCII, continuation bytes, C0..C3 *)
     || N.leb 245 (bn b)         (* F5..FF never valid *)
     || negb (Nat.eqb (space_len s) 0))
    && in_domain t
  end.
