(** Proofs about the lexer model: white space / comment insensitivity, the three string styles,
    '+' concatenation and the statement-level round trip of RFC 7950 6.1.3. *)
From Coq Require Import List NArith Bool Arith Lia Strings.Byte.
From YV Require Import YLex.Keywords YLex.Model YLex.Spec.
Import ListNotations.

(** * bytes *)
Lemma beq_refl b : Byte.eqb b b = true.
Proof. apply byte_dec_lb; reflexivity. Qed.

Lemma beq_neq a b : a <> b -> Byte.eqb a b = false.
Proof. intros H. destruct (Byte.eqb a b) eqn:E; auto. apply byte_dec_bl in E. contradiction. Qed.

Lemma beq_sym a b : Byte.eqb a b = Byte.eqb b a.
Proof.
  destruct (Byte.eqb a b) eqn:E.
  - apply byte_dec_bl in E. subst. symmetry. apply beq_refl.
  - symmetry. apply beq_neq. intros ->. rewrite beq_refl in E. discriminate.
Qed.

Ltac beq_case b c :=
  let E := fresh "E" in
  destruct (Byte.eqb b c) eqn:E; [apply byte_dec_bl in E; try subst b | ].

(** * white space *)
Definition hi_lead (b : byte) : bool :=
  Byte.eqb b xc2 || Byte.eqb b xe1 || Byte.eqb b xe2 || Byte.eqb b xe3.

Lemma space_len_plain b t : ascii_space b = false -> hi_lead b = false -> space_len (b :: t) = 0.
Proof.
  unfold hi_lead. intros Ha Hh.
  apply orb_false_iff in Hh as [Hh H4]. apply orb_false_iff in Hh as [Hh H3].
  apply orb_false_iff in Hh as [H1 H2].
  unfold space_len. rewrite Ha, H1, H2, H3, H4. simpl.
  destruct t as [|b1 [|b2 t]]; reflexivity.
Qed.

Lemma space_len_ascii_space b t : ascii_space b = true -> space_len (b :: t) = 1.
Proof. intros H. unfold space_len. rewrite H. reflexivity. Qed.

Lemma ws_skip0 s : ws (WSkip 0) s = ws WN s.
Proof. destruct s; reflexivity. Qed.

Lemma rfc_space_ascii b : rfc_space b = true -> ascii_space b = true.
Proof.
  unfold rfc_space, ascii_space. intros H.
  repeat (apply orb_true_iff in H as [H|H]); rewrite H; repeat rewrite orb_true_r; reflexivity.
Qed.

Lemma ws_space b r : rfc_space b = true -> ws WN (b :: r) = ws WN r.
Proof.
  intros H. apply rfc_space_ascii in H.
  change (ws WN (b :: r)) with
    (match space_len (b :: r) with
     | S k => ws (WSkip k) r
     | O => match r with
            | b1 :: _ => if Byte.eqb b c_slash && Byte.eqb b1 c_star then ws WB0 r
                         else if Byte.eqb b c_slash && Byte.eqb b1 c_slash then ws WL r else b :: r
            | [] => b :: r end end).
  rewrite space_len_ascii_space by assumption. apply ws_skip0.
Qed.

(** a byte that neither is white space nor opens a comment stops acceptWS *)
Definition stops_ws (b : byte) : bool :=
  negb (ascii_space b) && negb (hi_lead b) && negb (Byte.eqb b c_slash).

Lemma ws_stop b r : stops_ws b = true -> ws WN (b :: r) = b :: r.
Proof.
  unfold stops_ws. intros H. apply andb_true_iff in H as [H H3]. apply andb_true_iff in H as [H1 H2].
  apply negb_true_iff in H1, H2, H3.
  change (ws WN (b :: r)) with
    (match space_len (b :: r) with
     | S k => ws (WSkip k) r
     | O => match r with
            | b1 :: _ => if Byte.eqb b c_slash && Byte.eqb b1 c_star then ws WB0 r
                         else if Byte.eqb b c_slash && Byte.eqb b1 c_slash then ws WL r else b :: r
            | [] => b :: r end end).
  rewrite space_len_plain by assumption. rewrite H3. simpl. destruct r; reflexivity.
Qed.

Lemma ws_block_body body r :
  has_infix2 x2a x2f body = false ->
  ws WB (body ++ c_star :: c_slash :: r) = ws WN r.
Proof.
  induction body as [|b body IH]; intros H.
  - simpl. rewrite ws_skip0. destruct r; reflexivity.
  - simpl app.
    change (ws WB (b :: body ++ c_star :: c_slash :: r)) with
      (match body ++ c_star :: c_slash :: r with
       | b1 :: _ => if Byte.eqb b c_star && Byte.eqb b1 c_slash
                    then ws (WSkip 1) (body ++ c_star :: c_slash :: r)
                    else ws WB (body ++ c_star :: c_slash :: r)
       | [] => [] end).
    destruct body as [|b1 body'].
    + simpl app. cbv iota beta. replace (Byte.eqb c_star c_slash) with false by reflexivity.
      rewrite andb_false_r. apply (IH eq_refl).
    + simpl app. cbv iota beta. simpl in H. apply orb_false_iff in H as [H1 H2].
      unfold c_star, c_slash. rewrite H1. apply IH. exact H2.
Qed.

Lemma ws_line_body body r :
  existsb (fun b => Byte.eqb b x0a) body = false ->
  ws WL (body ++ c_nl :: r) = ws WN r.
Proof.
  induction body as [|b body IH]; intros H.
  - reflexivity.
  - simpl in H. apply orb_false_iff in H as [H1 H2]. simpl. unfold c_nl. rewrite H1. apply IH, H2.
Qed.

Lemma ws_open_block t : ws WN (c_slash :: c_star :: t) = ws WB t.
Proof. destruct t as [|b1 [|b2 t]]; reflexivity. Qed.

Lemma ws_open_line t : ws WN (c_slash :: c_slash :: t) = ws WL t.
Proof. destruct t as [|b1 [|b2 t]]; reflexivity. Qed.

Lemma ws_piece p r : jpiece_ok p = true -> ws WN (render_piece p ++ r) = ws WN r.
Proof.
  destruct p as [b|body|body]; intros H; simpl in H; unfold render_piece.
  - apply ws_space, H.
  - apply negb_true_iff in H.
    replace (([x2f; x2a] ++ body ++ [x2a; x2f]) ++ r)
      with (c_slash :: c_star :: body ++ c_star :: c_slash :: r)
      by (simpl; rewrite <- app_assoc; reflexivity).
    rewrite ws_open_block. apply ws_block_body, H.
  - apply negb_true_iff in H.
    replace (([x2f; x2f] ++ body ++ [x0a]) ++ r)
      with (c_slash :: c_slash :: body ++ c_nl :: r)
      by (simpl; rewrite <- app_assoc; reflexivity).
    rewrite ws_open_line. apply ws_line_body, H.
Qed.

(** white space and comments between tokens are invisible to what follows *)
Lemma ws_junk j r : junk_ok j = true -> accept_ws (render_junk j ++ r) = accept_ws r.
Proof.
  unfold accept_ws. induction j as [|p j IH]; intros H.
  - reflexivity.
  - simpl in H. apply andb_true_iff in H as [Hp Hj]. simpl. rewrite <- app_assoc.
    rewrite ws_piece by assumption. apply IH, Hj.
Qed.

Lemma ws_junk_stop j b r : junk_ok j = true -> stops_ws b = true ->
  accept_ws (render_junk j ++ b :: r) = b :: r.
Proof. intros Hj Hb. rewrite ws_junk by assumption. apply ws_stop, Hb. Qed.

(** * the three string styles *)
Lemma item_ok_lit b : item_ok (DLit b) = true ->
  Byte.eqb b c_dq = false /\ Byte.eqb b c_bs = false /\ Byte.eqb b c_nul = false.
Proof.
  simpl. intros H. apply andb_true_iff in H as [H H3]. apply andb_true_iff in H as [H1 H2].
  apply negb_true_iff in H1, H2, H3. auto.
Qed.

Lemma item_ok_esc b : item_ok (DEsc b) = true -> b = x0a \/ b = x09 \/ b = x22 \/ b = x5c.
Proof.
  simpl. unfold esc_letter.
  beq_case b x0a; auto. beq_case b x09; auto. beq_case b x22; auto. beq_case b x5c; auto.
  discriminate.
Qed.

Lemma scan_dq_cons b t : scan_dq (b :: t) =
  if Byte.eqb b c_nul then None
  else if Byte.eqb b c_bs then
    match t with
    | [] => None
    | c :: t' => match scan_dq t' with Some (a, r) => Some (b :: c :: a, r) | None => None end
    end
  else if Byte.eqb b c_dq then Some ([b], t)
  else match scan_dq t with Some (a, r) => Some (b :: a, r) | None => None end.
Proof. reflexivity. Qed.

Lemma scan_dq_items items r : forallb item_ok items = true ->
  scan_dq (flat_map item_src items ++ c_dq :: r) = Some (flat_map item_src items ++ [c_dq], r).
Proof.
  induction items as [|i items IH]; intros H.
  - reflexivity.
  - simpl in H. apply andb_true_iff in H as [Hi H]. specialize (IH H).
    destruct i as [b|b].
    + apply item_ok_lit in Hi as (H1 & H2 & H3).
      cbn [flat_map item_src app]. rewrite scan_dq_cons. rewrite H3, H2, H1, IH. reflexivity.
    + apply item_ok_esc in Hi as [-> | [-> | [-> | ->]]];
        (match goal with |- scan_dq (flat_map item_src (DEsc ?x :: _) ++ _) = _ =>
           change (flat_map item_src (DEsc x :: items)) with (item_src (DEsc x) ++ flat_map item_src items) end);
        simpl item_src; cbn [app]; rewrite scan_dq_cons; simpl Byte.eqb; cbv iota; rewrite IH; reflexivity.
Qed.

Lemma unescape_cons b t : unescape (b :: t) =
  if Byte.eqb b c_bs then
    match t with
    | c :: t' =>
      if Byte.eqb c c_n then c_nl :: unescape t'
      else if Byte.eqb c c_t then c_tab :: unescape t'
      else if Byte.eqb c c_dq || Byte.eqb c c_bs then c :: unescape t'
      else b :: unescape t
    | [] => [b]
    end
  else b :: unescape t.
Proof. reflexivity. Qed.

Lemma unescape_items items : forallb item_ok items = true ->
  unescape (flat_map item_src items) = map item_byte items.
Proof.
  induction items as [|i items IH]; intros H.
  - reflexivity.
  - simpl in H. apply andb_true_iff in H as [Hi H]. specialize (IH H).
    destruct i as [b|b].
    + apply item_ok_lit in Hi as (H1 & H2 & H3).
      cbn [flat_map item_src app map item_byte]. rewrite unescape_cons. rewrite H2, IH. reflexivity.
    + apply item_ok_esc in Hi as [-> | [-> | [-> | ->]]];
        (match goal with |- unescape (flat_map item_src (DEsc ?x :: _)) = _ =>
           change (flat_map item_src (DEsc x :: items)) with (item_src (DEsc x) ++ flat_map item_src items) end);
        simpl item_src; cbn [app map item_byte]; rewrite unescape_cons; simpl Byte.eqb; cbv iota;
        simpl orb; cbv iota; rewrite IH; reflexivity.
Qed.

Lemma scan_sq_cons b t : scan_sq (b :: t) =
  if Byte.eqb b c_nul then None
  else if Byte.eqb b c_sq then Some ([b], t)
  else match scan_sq t with Some (a, r) => Some (b :: a, r) | None => None end.
Proof. reflexivity. Qed.

Lemma scan_sq_body body r :
  forallb (fun b => negb (Byte.eqb b x27) && negb (Byte.eqb b x00)) body = true ->
  scan_sq (body ++ c_sq :: r) = Some (body ++ [c_sq], r).
Proof.
  induction body as [|b body IH]; intros H.
  - reflexivity.
  - simpl in H. apply andb_true_iff in H as [Hb H]. apply andb_true_iff in Hb as [H1 H2].
    apply negb_true_iff in H1, H2. simpl app. rewrite scan_sq_cons. unfold c_nul, c_sq. rewrite H2, H1.
    fold c_sq. rewrite IH by assumption. reflexivity.
Qed.

(** * tokenString *)
Lemma trim_left_id b s : trim_byte b = false -> trim_left (b :: s) = b :: s.
Proof. intros H. simpl. rewrite H. reflexivity. Qed.

Lemma trim_id a m z : trim_byte a = false -> trim_byte z = false -> trim (a :: m ++ [z]) = a :: m ++ [z].
Proof.
  intros Ha Hz. unfold trim. rewrite trim_left_id by assumption.
  change (a :: m ++ [z]) with ((a :: m) ++ [z]). rewrite rev_unit.
  rewrite trim_left_id by assumption. rewrite <- rev_unit. apply rev_involutive.
Qed.

Lemma trim_single a : trim_byte a = false -> trim [a] = [a].
Proof. intros H. unfold trim. simpl. rewrite H. simpl. rewrite H. reflexivity. Qed.

Lemma last_byte_snoc l z : last_byte (l ++ [z]) = z.
Proof. unfold last_byte. apply last_last. Qed.

Lemma token_string_dq m : token_string (c_dq :: m ++ [c_dq]) = unescape m.
Proof.
  unfold token_string. rewrite trim_id by reflexivity.
  destruct (m ++ [c_dq]) as [|x l] eqn:E. { destruct m; discriminate. }
  rewrite <- E. change (c_dq :: m ++ [c_dq]) with ((c_dq :: m) ++ [c_dq]).
  rewrite last_byte_snoc. rewrite removelast_last. reflexivity.
Qed.

Lemma token_string_sq m : token_string (c_sq :: m ++ [c_sq]) = m.
Proof.
  unfold token_string. rewrite trim_id by reflexivity.
  destruct (m ++ [c_sq]) as [|x l] eqn:E. { destruct m; discriminate. }
  rewrite <- E. change (c_sq :: m ++ [c_sq]) with ((c_sq :: m) ++ [c_sq]).
  rewrite last_byte_snoc. rewrite removelast_last. reflexivity.
Qed.

Lemma uq_byte_facts b : uq_byte_ok b = true ->
  rfc_space b = false /\ Byte.eqb b c_dq = false /\ Byte.eqb b c_sq = false /\ Byte.eqb b c_semi = false
  /\ Byte.eqb b c_lb = false /\ Byte.eqb b c_nul = false.
Proof.
  unfold uq_byte_ok. intros H.
  repeat match goal with H : _ && _ = true |- _ => apply andb_true_iff in H as [H ?] end.
  repeat match goal with H : negb _ = true |- _ => apply negb_true_iff in H end.
  auto 10.
Qed.

Lemma rfc_space_trim b : trim_byte b = rfc_space b.
Proof.
  unfold trim_byte, rfc_space, c_sp, c_tab, c_nl, c_cr.
  destruct (Byte.eqb b x20), (Byte.eqb b x09), (Byte.eqb b x0a), (Byte.eqb b x0d); reflexivity.
Qed.

Lemma uq_rfc_ok_forall body : uq_rfc_ok body = true -> body <> [] /\ forallb uq_byte_ok body = true.
Proof.
  unfold uq_rfc_ok. intros H.
  apply andb_true_iff in H as [H _]. apply andb_true_iff in H as [H _]. apply andb_true_iff in H as [H _].
  apply andb_true_iff in H as [H0 Hf]. split; [|exact Hf]. destruct body; [discriminate|discriminate].
Qed.

Lemma token_string_uq body : uq_rfc_ok body = true -> token_string body = body.
Proof.
  intros H. apply uq_rfc_ok_forall in H as [Hne Hf].
  destruct body as [|a body]; [contradiction|].
  assert (Hall : forall x, In x (a :: body) -> trim_byte x = false).
  { intros x Hx. rewrite forallb_forall in Hf. apply Hf in Hx. apply uq_byte_facts in Hx.
    rewrite rfc_space_trim. tauto. }
  assert (Ha : uq_byte_ok a = true) by (simpl in Hf; apply andb_true_iff in Hf; tauto).
  apply uq_byte_facts in Ha as (_ & Hd & Hs & _).
  destruct body as [|b0 body0].
  - unfold token_string. rewrite trim_single by (apply Hall; left; reflexivity). reflexivity.
  - destruct (@exists_last _ (b0 :: body0)) as [m [z E]]; [discriminate|].
    rewrite E in *. unfold token_string.
    rewrite trim_id; [| apply Hall; left; reflexivity | apply Hall; right; apply in_or_app; right; left; reflexivity].
    destruct (m ++ [z]) as [|x l] eqn:E2. { destruct m; discriminate. }
    rewrite Hd, Hs. reflexivity.
Qed.

Lemma token_string_part p : part_ok p = true -> token_string (part_src p) = part_text p.
Proof.
  destruct p as [items|body|body]; simpl part_ok; intros H.
  - apply andb_true_iff in H as [H _]. simpl part_src. simpl part_text.
    change (x22 :: flat_map item_src items ++ [x22]) with (c_dq :: flat_map item_src items ++ [c_dq]).
    rewrite token_string_dq. apply unescape_items, H.
  - simpl part_src. simpl part_text.
    change (x27 :: body ++ [x27]) with (c_sq :: body ++ [c_sq]). apply token_string_sq.
  - apply andb_true_iff in H as [H _]. apply token_string_uq, H.
Qed.

(** * acceptString on a well-formed argument *)
Definition part_tok (p : part) : token := (t_string, part_src p).
Definition more_toks (m : junk * junk * part) : list token := [tok_plus; part_tok (snd m)].
Definition arg_toks (a : arg) : list token := part_tok (a_first a) :: flat_map more_toks (a_more a).

Lemma accept_string_S f b t : accept_string (S f) (b :: t) =
  if Byte.eqb b c_dq || Byte.eqb b c_sq then
    match (if Byte.eqb b c_dq then scan_dq t else scan_sq t) with
    | None => SFalse []
    | Some (body, r) =>
      let tk : token := (t_string, b :: body) in
      let r1 := accept_ws r in
      match r1 with
      | p :: r2 =>
        if Byte.eqb p c_plus then
          match accept_string f (accept_ws r2) with
          | SOk toks r3 => SOk (tk :: tok_plus :: toks) r3
          | SFalse toks => SFalse (tk :: tok_plus :: toks)
          | SFuel => SFuel
          end
        else SOk [tk] r1
      | [] => SOk [tk] r1
      end
    end
  else
    let n := match space_len (b :: t) with O => 1 | n => n end in
    let (a, r) := scan_uq (skipn n (b :: t)) in
    SOk [(t_string, firstn n (b :: t) ++ a)] (accept_ws r).
Proof. reflexivity. Qed.

Lemma accept_quoted f p r : part_ok p = true -> is_uq p = false ->
  accept_string (S f) (part_src p ++ r) =
    match accept_ws r with
    | c :: r2 =>
      if Byte.eqb c c_plus then
        match accept_string f (accept_ws r2) with
        | SOk toks r3 => SOk (part_tok p :: tok_plus :: toks) r3
        | SFalse toks => SFalse (part_tok p :: tok_plus :: toks)
        | SFuel => SFuel
        end
      else SOk [part_tok p] (accept_ws r)
    | [] => SOk [part_tok p] (accept_ws r)
    end.
Proof.
  destruct p as [items|body|body]; simpl part_ok; intros H Hu; [| |discriminate].
  - apply andb_true_iff in H as [H _]. unfold part_tok. simpl part_src.
    replace ((x22 :: flat_map item_src items ++ [x22]) ++ r)
      with (c_dq :: flat_map item_src items ++ c_dq :: r)
      by (simpl; rewrite <- app_assoc; reflexivity).
    rewrite accept_string_S. replace (Byte.eqb c_dq c_dq) with true by reflexivity.
    cbv iota. simpl orb. cbv iota. rewrite scan_dq_items by assumption. reflexivity.
  - unfold part_tok. simpl part_src.
    replace ((x27 :: body ++ [x27]) ++ r) with (c_sq :: body ++ c_sq :: r)
      by (simpl; rewrite <- app_assoc; reflexivity).
    rewrite accept_string_S. replace (Byte.eqb c_sq c_dq) with false by reflexivity.
    replace (Byte.eqb c_sq c_sq) with true by reflexivity.
    cbv iota. simpl orb. cbv iota. rewrite scan_sq_body by assumption. reflexivity.
Qed.

Lemma ws_quoted_head p x : is_uq p = false -> accept_ws (part_src p ++ x) = part_src p ++ x.
Proof.
  destruct p as [items|body|body]; intros H; [| |discriminate]; simpl part_src; simpl app;
    apply ws_stop; reflexivity.
Qed.

Lemma more_ok_parts m : more_ok m = true ->
  junk_ok (fst (fst m)) = true /\ junk_ok (snd (fst m)) = true /\ part_ok (snd m) = true /\ is_uq (snd m) = false.
Proof.
  destruct m as [[j1 j2] p]. simpl. intros H.
  apply andb_true_iff in H as [H H4]. apply andb_true_iff in H as [H H3]. apply andb_true_iff in H as [H1 H2].
  apply negb_true_iff in H4. auto.
Qed.

Lemma more_src_eq ja jb p :
  more_src (ja, jb, p) = render_junk ja ++ c_plus :: render_junk jb ++ part_src p.
Proof. reflexivity. Qed.

Lemma accept_arg_quoted more : forall first f c r j1,
  length more < f -> part_ok first = true -> is_uq first = false -> forallb more_ok more = true ->
  junk_ok j1 = true -> stops_ws c = true -> Byte.eqb c c_plus = false ->
  accept_string f (part_src first ++ flat_map more_src more ++ render_junk j1 ++ c :: r)
  = SOk (part_tok first :: flat_map more_toks more) (c :: r).
Proof.
  induction more as [|m more IH]; intros first f c r j1 Hf Hp Hu Hm Hj Hc Hplus.
  - destruct f as [|f]; [simpl in Hf; lia|]. simpl flat_map. simpl app at 2.
    rewrite accept_quoted by assumption. rewrite ws_junk_stop by assumption. rewrite Hplus. reflexivity.
  - destruct f as [|f]; [simpl in Hf; lia|]. simpl in Hf.
    simpl in Hm. apply andb_true_iff in Hm as [Hm0 Hm].
    pose proof (more_ok_parts m Hm0) as (Hja & Hjb & Hpp & Hpu).
    destruct m as [[ja jb] p]. simpl in Hja, Hjb, Hpp, Hpu.
    cbn [flat_map]. rewrite (more_src_eq ja jb p).
    rewrite accept_quoted by assumption.
    repeat rewrite <- app_assoc. rewrite <- app_comm_cons.
    rewrite ws_junk_stop by (assumption || reflexivity).
    replace (Byte.eqb c_plus c_plus) with true by reflexivity.
    cbv iota. repeat rewrite <- app_assoc. rewrite ws_junk by assumption. rewrite ws_quoted_head by assumption.
    rewrite IH by (assumption || lia). reflexivity.
Qed.

(** unquoted *)
Lemma scan_uq_cons b t : scan_uq (b :: t) =
  if Byte.eqb b c_nul then ([b], t)
  else if delim_at (b :: t) then ([], b :: t)
  else let (a, r) := scan_uq t in (b :: a, r).
Proof. reflexivity. Qed.

Lemma uq_plain b : uq_byte_ok b = true -> uq_lead_free b = true ->
  ascii_space b = false /\ hi_lead b = false.
Proof.
  intros H1 H2. apply uq_byte_facts in H1 as (Hs & _).
  unfold uq_lead_free in H2.
  repeat match goal with H : _ && _ = true |- _ => apply andb_true_iff in H as [H ?] end.
  repeat match goal with H : negb _ = true |- _ => apply negb_true_iff in H end.
  unfold rfc_space in Hs.
  repeat match goal with H : _ || _ = false |- _ => apply orb_false_iff in H as [H ?] end.
  unfold ascii_space, hi_lead.
  repeat match goal with H : Byte.eqb b _ = false |- _ => rewrite H; clear H end. split; reflexivity.
Qed.

Lemma uq_not_delim b t : uq_byte_ok b = true -> uq_lead_free b = true -> delim_at (b :: t) = false.
Proof.
  intros H1 H2. destruct (uq_plain b H1 H2) as [Ha Hh].
  apply uq_byte_facts in H1 as (_ & _ & _ & Hsemi & Hlb & _).
  unfold delim_at. rewrite space_len_plain by assumption. rewrite Hsemi, Hlb. reflexivity.
Qed.

Lemma scan_uq_body body d x :
  forallb uq_byte_ok body = true -> forallb uq_lead_free body = true ->
  delim_at (d :: x) = true -> Byte.eqb d c_nul = false ->
  scan_uq (body ++ d :: x) = (body, d :: x).
Proof.
  induction body as [|b body IH]; intros H1 H2 Hd Hn.
  - simpl app. rewrite scan_uq_cons. rewrite Hn, Hd. reflexivity.
  - simpl in H1, H2. apply andb_true_iff in H1 as [Hb1 H1]. apply andb_true_iff in H2 as [Hb2 H2].
    simpl app. rewrite scan_uq_cons. rewrite uq_not_delim by assumption.
    apply uq_byte_facts in Hb1 as (_ & _ & _ & _ & _ & Hnul). rewrite Hnul.
    rewrite IH by assumption. reflexivity.
Qed.

Lemma accept_uq f body d x :
  uq_rfc_ok body = true -> uq_extra_ok body = true ->
  delim_at (d :: x) = true -> Byte.eqb d c_nul = false ->
  accept_string (S f) (body ++ d :: x) = SOk [(t_string, body)] (accept_ws (d :: x)).
Proof.
  intros H1 H2 Hd Hn. apply uq_rfc_ok_forall in H1 as [Hne Hf]. unfold uq_extra_ok in H2.
  destruct body as [|b body]; [contradiction|].
  simpl in Hf, H2. apply andb_true_iff in Hf as [Hb1 Hf]. apply andb_true_iff in H2 as [Hb2 H2].
  simpl app. rewrite accept_string_S.
  pose proof (uq_byte_facts b Hb1) as (_ & Hdq & Hsq & _). rewrite Hdq, Hsq. simpl orb. cbv iota.
  destruct (uq_plain b Hb1 Hb2) as [Ha Hh]. rewrite space_len_plain by assumption.
  cbv zeta. cbn [skipn firstn]. rewrite scan_uq_body by assumption. reflexivity.
Qed.

(** * string_value over the tokens of an argument *)
Lemma string_value_plus v rest2 :
  string_value ((t_string, v) :: tok_plus :: rest2)
  = match string_value rest2 with Some (x, r) => Some (token_string v ++ x, r) | None => None end.
Proof. reflexivity. Qed.

Lemma string_value_end v tl :
  match tl with (ty, _) :: _ => Nat.eqb ty k_plus = false | [] => True end ->
  string_value ((t_string, v) :: tl) = Some (token_string v, tl).
Proof.
  intros H. destruct tl as [|[ty w] tl]; [reflexivity|].
  cbn [string_value]. replace (Nat.eqb t_string t_string) with true by reflexivity. cbv iota.
  rewrite H. reflexivity.
Qed.

Lemma string_value_arg more : forall first tl,
  part_ok first = true -> forallb more_ok more = true ->
  match tl with (ty, _) :: _ => Nat.eqb ty k_plus = false | [] => True end ->
  string_value (part_tok first :: flat_map more_toks more ++ tl)
  = Some (part_text first ++ flat_map (fun m => part_text (snd m)) more, tl).
Proof.
  induction more as [|m more IH]; intros first tl Hp Hm Htl.
  - simpl flat_map. simpl app. unfold part_tok. rewrite string_value_end by assumption.
    rewrite token_string_part by assumption. rewrite app_nil_r. reflexivity.
  - simpl in Hm. apply andb_true_iff in Hm as [Hm0 Hm].
    pose proof (more_ok_parts m Hm0) as (_ & _ & Hpp & _).
    cbn [flat_map]. unfold more_toks at 1. cbn [app]. unfold part_tok at 1.
    rewrite string_value_plus. rewrite IH by assumption.
    rewrite token_string_part by assumption. reflexivity.
Qed.

(** * one statement: keyword, argument, ';' or '{' *)
Definition term_tok (c : byte) : token := if Byte.eqb c c_semi then (t_semi, [c]) else (t_open, [c]).
Definition is_term (c : byte) : bool := Byte.eqb c c_semi || Byte.eqb c c_lb.

Lemma is_term_cases c : is_term c = true -> c = c_semi \/ c = c_lb.
Proof. unfold is_term. beq_case c c_semi; auto. beq_case c c_lb; auto. discriminate. Qed.

Lemma end_of_stmt_term toks c r : is_term c = true ->
  end_of_stmt toks (c :: r) = Continue (toks ++ [term_tok c]) (accept_ws r).
Proof. intros H. apply is_term_cases in H as [-> | ->]; reflexivity. Qed.

Lemma length_more_src more : length more <= length (flat_map more_src more).
Proof.
  induction more as [|[[ja jb] p] more IH]; [simpl; lia|].
  cbn [flat_map]. rewrite more_src_eq. rewrite !app_length. simpl. rewrite !app_length. simpl length. lia.
Qed.

Lemma arg_ok_parts a : arg_ok a = true ->
  part_ok (a_first a) = true /\ forallb more_ok (a_more a) = true /\
  (a_more a = [] \/ is_uq (a_first a) = false).
Proof.
  unfold arg_ok. intros H. apply andb_true_iff in H as [H H3]. apply andb_true_iff in H as [H1 H2].
  repeat split; auto. destruct (a_more a); [left; reflexivity|right]. apply negb_true_iff in H3. exact H3.
Qed.

Lemma junk_head_delim j c r : junk_ok j = true -> is_term c = true ->
  (match j with (JBlock _ | JLine _) :: _ => False | _ => True end) ->
  exists d x, render_junk j ++ c :: r = d :: x /\ delim_at (d :: x) = true /\ Byte.eqb d c_nul = false.
Proof.
  intros Hj Hc Hh. destruct j as [|[b|body|body] j]; try contradiction.
  - exists c, r. split; [reflexivity|].
    apply is_term_cases in Hc as [-> | ->]; (split; [|reflexivity]); unfold delim_at;
      rewrite space_len_plain by reflexivity; reflexivity.
  - simpl in Hj. apply andb_true_iff in Hj as [Hb _]. exists b, (render_junk j ++ c :: r).
    split; [reflexivity|]. split.
    + unfold delim_at. rewrite space_len_ascii_space by (apply rfc_space_ascii, Hb). reflexivity.
    + unfold rfc_space in Hb. beq_case b c_nul; [discriminate Hb | reflexivity].
Qed.

(** the argument tokens and the rest after acceptString, for every way of writing the argument *)
Lemma accept_arg a j1 c r f :
  arg_ok a = true -> junk_ok j1 = true -> after_ok a j1 = true -> is_term c = true ->
  length (arg_src a) < f ->
  accept_string f (arg_src a ++ render_junk j1 ++ c :: r) = SOk (arg_toks a) (c :: r).
Proof.
  intros Ha Hj Haf Hc Hf. pose proof (arg_ok_parts a Ha) as (Hp & Hm & Hq).
  assert (Hstop : stops_ws c = true /\ Byte.eqb c c_plus = false).
  { apply is_term_cases in Hc as [-> | ->]; split; reflexivity. }
  destruct Hstop as [Hstop Hplus].
  destruct a as [first more]. unfold arg_src, arg_toks in *. simpl a_first in *. simpl a_more in *.
  destruct (is_uq first) eqn:Hu.
  - (* unquoted, alone *)
    destruct Hq as [-> | Hq]; [|discriminate].
    destruct first as [items|body|body]; try discriminate.
    simpl flat_map. rewrite app_nil_r. simpl part_src.
    simpl in Hp. apply andb_true_iff in Hp as [Hp1 Hp2].
    assert (Hh : match j1 with (JBlock _ | JLine _) :: _ => False | _ => True end).
    { unfold after_ok in Haf. simpl in Haf. destruct j1 as [|[?|?|?] ?]; auto; discriminate. }
    destruct (junk_head_delim j1 c r Hj Hc Hh) as (d & x & E & Hd & Hn).
    destruct f as [|f]; [simpl in Hf; lia|].
    rewrite E. rewrite accept_uq by assumption. rewrite <- E. rewrite ws_junk_stop by assumption.
    reflexivity.
  - rewrite <- app_assoc. apply accept_arg_quoted; auto.
    rewrite app_length in Hf. pose proof (length_more_src more). lia.
Qed.

Lemma run_fmt_strend kt a j1 c r :
  arg_ok a = true -> junk_ok j1 = true -> after_ok a j1 = true -> is_term c = true ->
  run_fmt FStrEnd kt (arg_src a ++ render_junk j1 ++ c :: r)
  = Continue (kt :: arg_toks a ++ [term_tok c]) (accept_ws r).
Proof.
  intros Ha Hj Haf Hc. unfold run_fmt.
  rewrite accept_arg by (auto; rewrite app_length; lia).
  rewrite end_of_stmt_term by assumption. reflexivity.
Qed.

(** * keyword dispatch of lexBegin *)
Lemma strip_prefix_app p x r r' : strip_prefix p x = Some r' -> strip_prefix p (x ++ r) = Some (r' ++ r).
Proof.
  revert x. induction p as [|a p IH]; intros x H.
  - simpl in H. inversion H. reflexivity.
  - destruct x as [|b x]; [discriminate|]. simpl in *. destruct (Byte.eqb a b); [|discriminate]. apply IH, H.
Qed.

Lemma strip_prefix_none_app p x r :
  strip_prefix p x = None -> is_prefix x p = false -> strip_prefix p (x ++ r) = None.
Proof.
  revert x. induction p as [|a p IH]; intros x H Hx.
  - discriminate.
  - destruct x as [|b x]; [discriminate|]. simpl in *. rewrite (beq_sym b a) in Hx.
    destruct (Byte.eqb a b); [|reflexivity]. simpl in Hx. apply IH; assumption.
Qed.

Definition chain_safe (c : list (nat * fmt)) (x : list byte) : bool :=
  forallb (fun kf => negb (is_prefix x (kw_text (fst kf)))) c.

Lemma first_match_app c x r res :
  chain_safe c x = true -> first_match c x = Some res ->
  first_match c (x ++ r) = Some (fst res, snd res ++ r).
Proof.
  induction c as [|[k f] c IH]; intros Hs H; [discriminate|].
  simpl in Hs. apply andb_true_iff in Hs as [Hk Hs]. apply negb_true_iff in Hk.
  simpl in *. destruct (strip_prefix (kw_text k) x) as [r'|] eqn:E.
  - inversion H. subst res. rewrite (strip_prefix_app _ _ _ _ E). reflexivity.
  - rewrite strip_prefix_none_app by assumption. apply IH; assumption.
Qed.

(** the keywords followed by a string argument and ';' or '{' *)
Definition string_kws : list nat :=
  [k_default; k_value; k_position; k_fraction_digits;
   k_error_message; k_error_app_tag; k_revision_date; k_organization; k_yang_version;
   k_description; k_if_feature; k_namespace; k_reference; k_revision; k_argument; k_presence;
   k_contact; k_pattern; k_prefix; k_length; k_unique; k_range; k_units; k_enum;
   k_path; k_when; k_must; k_base; k_key].

(** first bytes of a non-empty separator: space, tab, CR, LF or the '/' of a comment *)
Definition sep_heads : list byte := [c_sp; c_tab; c_cr; c_nl; c_slash].

Definition dispatch_ok (k : nat) (d : byte) : bool :=
  let x := kw_text k ++ [d] in
  chain_safe chain x &&
  match first_match chain x with
  | Some (k', FStrEnd, [d']) => Nat.eqb k' k && Byte.eqb d' d
  | _ => false
  end.

Lemma dispatch_all : forallb (fun k => forallb (dispatch_ok k) sep_heads) string_kws = true.
Proof. vm_compute. reflexivity. Qed.

Lemma first_match_string_kw k d r : In k string_kws -> In d sep_heads ->
  first_match chain (kw_text k ++ d :: r) = Some (k, FStrEnd, d :: r).
Proof.
  intros Hk Hd. pose proof dispatch_all as H. rewrite forallb_forall in H. specialize (H k Hk).
  rewrite forallb_forall in H. specialize (H d Hd). unfold dispatch_ok in H.
  apply andb_true_iff in H as [Hs H].
  destruct (first_match chain (kw_text k ++ [d])) as [[[k' f] r']|] eqn:E; [|discriminate].
  destruct f; try discriminate. destruct r' as [|d' [|? ?]]; try discriminate.
  apply andb_true_iff in H as [H1 H2]. apply Nat.eqb_eq in H1. apply byte_dec_bl in H2. subst.
  change (kw_text k ++ d :: r) with (kw_text k ++ [d] ++ r). rewrite app_assoc.
  rewrite (first_match_app _ _ r _ Hs E). reflexivity.
Qed.

Lemma junk_head j : junk_ok j = true -> j <> [] -> forall r,
  exists d x, render_junk j ++ r = d :: x /\ In d sep_heads.
Proof.
  intros Hj Hne r. destruct j as [|[b|body|body] j]; [contradiction| | |].
  - simpl in Hj. apply andb_true_iff in Hj as [Hb _]. exists b, (render_junk j ++ r). split; [reflexivity|].
    unfold rfc_space in Hb. unfold sep_heads, c_sp, c_tab, c_cr, c_nl.
    beq_case b x20; [simpl; auto|]. beq_case b x09; [simpl; auto|]. beq_case b x0d; [simpl; auto|].
    beq_case b x0a; [simpl; auto 6|]. discriminate.
  - eexists _, _. split; [reflexivity|]. simpl. auto 6.
  - eexists _, _. split; [reflexivity|]. simpl. auto 6.
Qed.

Lemma ws_stop_slash b1 t : Byte.eqb b1 c_slash = false -> Byte.eqb b1 c_star = false ->
  ws WN (c_slash :: b1 :: t) = c_slash :: b1 :: t.
Proof.
  intros H1 H2.
  change (ws WN (c_slash :: b1 :: t)) with
    (match space_len (c_slash :: b1 :: t) with
     | S k => ws (WSkip k) (b1 :: t)
     | O => if Byte.eqb c_slash c_slash && Byte.eqb b1 c_star then ws WB0 (b1 :: t)
            else if Byte.eqb c_slash c_slash && Byte.eqb b1 c_slash then ws WL (b1 :: t)
            else c_slash :: b1 :: t end).
  rewrite space_len_plain by reflexivity. rewrite H1, H2. reflexivity.
Qed.

Lemma delim_not_comment d x : delim_at (d :: x) = true ->
  Byte.eqb d c_slash = false /\ Byte.eqb d c_star = false.
Proof.
  intros H. split.
  - beq_case d c_slash; [|reflexivity]. unfold delim_at in H.
    rewrite space_len_plain in H by reflexivity. discriminate.
  - beq_case d c_star; [|reflexivity]. unfold delim_at in H.
    rewrite space_len_plain in H by reflexivity. discriminate.
Qed.

(** an unquoted string is never taken for white space or a comment *)
Lemma ws_uq_head body d x :
  uq_rfc_ok body = true -> uq_extra_ok body = true -> delim_at (d :: x) = true ->
  accept_ws (body ++ d :: x) = body ++ d :: x.
Proof.
  intros H1 H2 Hd. pose proof (uq_rfc_ok_forall body H1) as [Hne Hf].
  destruct body as [|b body]; [contradiction|].
  unfold uq_extra_ok in H2. simpl in Hf, H2.
  apply andb_true_iff in Hf as [Hb1 _]. apply andb_true_iff in H2 as [Hb2 _].
  destruct (uq_plain b Hb1 Hb2) as [Hs Hh].
  beq_case b c_slash.
  - unfold uq_rfc_ok in H1.
    apply andb_true_iff in H1 as [H1 _]. apply andb_true_iff in H1 as [H1 N2]. apply andb_true_iff in H1 as [_ N1].
    apply negb_true_iff in N1, N2.
    destruct body as [|b1 body].
    + simpl app. destruct (delim_not_comment d x Hd) as [D1 D2]. apply ws_stop_slash; assumption.
    + simpl app. simpl in N1, N2. apply orb_false_iff in N1 as [N1 _]. apply orb_false_iff in N2 as [N2 _].
      apply ws_stop_slash; assumption.
  - simpl app. apply ws_stop. unfold stops_ws. rewrite Hs, Hh, E. reflexivity.
Qed.

(** lexBegin on a statement: keyword, separator, argument, separator, then ; or the opening brace *)
Theorem lex_begin_string_stmt k j0 a j1 c rest :
  In k string_kws -> j0 <> [] -> junk_ok j0 = true -> junk_ok j1 = true ->
  arg_ok a = true -> after_ok a j1 = true -> is_term c = true ->
  lex_begin (kw_text k ++ render_junk j0 ++ arg_src a ++ render_junk j1 ++ c :: rest)
  = Continue ((k, kw_text k) :: arg_toks a ++ [term_tok c]) (accept_ws rest).
Proof.
  intros Hk Hne Hj0 Hj1 Ha Haf Hc.
  destruct (junk_head j0 Hj0 Hne (arg_src a ++ render_junk j1 ++ c :: rest)) as (d & x & E & Hd).
  unfold lex_begin. rewrite E. rewrite first_match_string_kw by assumption. rewrite <- E.
  rewrite ws_junk by assumption.
  assert (Hw : accept_ws (arg_src a ++ render_junk j1 ++ c :: rest) = arg_src a ++ render_junk j1 ++ c :: rest).
  { pose proof (arg_ok_parts a Ha) as (Hp & Hm & Hq). destruct a as [first more]. unfold arg_src. simpl a_first in *.
    simpl a_more in *. rewrite <- app_assoc.
    destruct first as [items|body|body]; try (apply ws_stop; reflexivity).
    destruct Hq as [-> | Hq]; [|discriminate]. simpl flat_map. simpl app.
    simpl in Hp. apply andb_true_iff in Hp as [Hp1 Hp2].
    assert (Hh : match j1 with (JBlock _ | JLine _) :: _ => False | _ => True end).
    { unfold after_ok in Haf. simpl in Haf. destruct j1 as [|[?|?|?] ?]; auto; discriminate. }
    destruct (junk_head_delim j1 c rest Hj1 Hc Hh) as (d' & x' & E' & Hd' & Hn').
    simpl part_src. rewrite E'. apply ws_uq_head; assumption. }
  rewrite Hw. apply run_fmt_strend; assumption.
Qed.

(** what the grammar hands to the builder *)
Theorem arg_of_stmt kt a c :
  arg_ok a = true -> is_term c = true ->
  arg_of (kt :: arg_toks a ++ [term_tok c]) = Some (arg_text a).
Proof.
  intros Ha Hc. pose proof (arg_ok_parts a Ha) as (Hp & Hm & _).
  unfold arg_of, arg_toks. rewrite <- app_comm_cons.
  rewrite string_value_arg; auto.
  - unfold arg_text. apply is_term_cases in Hc as [-> | ->]; reflexivity.
  - apply is_term_cases in Hc as [-> | ->]; reflexivity.
Qed.

(** * the token ring delivers what was pushed, in order, as long as fewer than 64 tokens are pushed
    by one call of the state function.  Proof: the ring operations commute with [map] (they never
    look inside a token), so it is enough to run them on index lists, for every head position and
    every length below 64 (4096 evaluations). *)
Section RingMap.
  Context {A B : Type} (f : A -> B).

  Definition rmap (r : ring A) : ring B := mkRing (map f (rbuf r)) (rhead r) (rtail r).

  Lemma set_nth_map i x l : map f (set_nth i x l) = set_nth i (f x) (map f l).
  Proof. revert i. induction l as [|a l IH]; intros [|i]; simpl; auto. rewrite IH. reflexivity. Qed.

  Lemma push_map r x : rmap (push r x) = push (rmap r) (f x).
  Proof. unfold push, rmap. simpl. rewrite set_nth_map, map_length. reflexivity. Qed.

  Lemma fold_push_map l : forall r, rmap (fold_left push l r) = fold_left push (map f l) (rmap r).
  Proof. induction l as [|x l IH]; intros r; simpl; auto. rewrite IH, push_map. reflexivity. Qed.

  Lemma nth_error_map' l n : nth_error (map f l) n = option_map f (nth_error l n).
  Proof. revert n. induction l as [|a l IH]; intros [|n]; simpl; auto. Qed.

  Lemma drain_map fuel : forall r,
    drain fuel (rmap r) = option_map (fun lr => (map f (fst lr), rmap (snd lr))) (drain fuel r).
  Proof.
    induction fuel as [|fuel IH]; intros r; [reflexivity|].
    cbn [drain]. change (rhead (rmap r)) with (rhead r). change (rtail (rmap r)) with (rtail r).
    destruct (Nat.eqb (rhead r) (rtail r)); [reflexivity|].
    change (rbuf (rmap r)) with (map f (rbuf r)). rewrite nth_error_map'.
    destruct (nth_error (rbuf r) (rtail r)) as [x|]; [|reflexivity]. simpl option_map.
    rewrite map_length.
    specialize (IH (mkRing (rbuf r) (rhead r) (S (rtail r) mod length (rbuf r)))).
    unfold rmap at 1 in IH. simpl in IH. rewrite IH.
    destruct (drain fuel (mkRing (rbuf r) (rhead r) (S (rtail r) mod length (rbuf r)))) as [[l r']|]; reflexivity.
  Qed.

  Lemma deliver_map r l :
    deliver (rmap r) (map f l) = option_map (fun lr => (map f (fst lr), rmap (snd lr))) (deliver r l).
  Proof.
    unfold deliver. rewrite <- fold_push_map. rewrite drain_map.
    change (rbuf (rmap r)) with (map f (rbuf r)). rewrite map_length. reflexivity.
  Qed.
End RingMap.

Fixpoint nat_list_eqb (a b : list nat) : bool :=
  match a, b with
  | [], [] => true
  | x :: a', y :: b' => Nat.eqb x y && nat_list_eqb a' b'
  | _, _ => false
  end.
Lemma nat_list_eqb_eq a b : nat_list_eqb a b = true -> a = b.
Proof.
  revert b. induction a as [|x a IH]; intros [|y b] H; try discriminate; auto.
  simpl in H. apply andb_true_iff in H as [H1 H2]. apply Nat.eqb_eq in H1. f_equal; auto.
Qed.

(** the index ring the probes run on; its concrete value is hidden behind [ring_base_spec] so that no
    later proof (nor the kernel, at Qed time) is tempted to unfold it *)
Definition ring_base : list nat := seq 1000 ring_size.

Definition ring_probe (p n : nat) : bool :=
  match deliver (mkRing ring_base p p) (seq 0 n) with
  | Some (l, r') =>
    nat_list_eqb l (seq 0 n) && Nat.eqb (rhead r') ((p + n) mod ring_size)
    && Nat.eqb (rtail r') (rhead r') && Nat.eqb (length (rbuf r')) ring_size
  | None => false
  end.

Lemma ring_probe_all :
  forallb (fun p => forallb (ring_probe p) (seq 0 ring_size)) (seq 0 ring_size) = true.
Proof. vm_compute. reflexivity. Qed.

Lemma ring_probe_true p n : p < ring_size -> n < ring_size -> ring_probe p n = true.
Proof.
  intros Hp Hn. pose proof ring_probe_all as H. rewrite forallb_forall in H.
  specialize (H p (proj2 (in_seq _ _ _) (conj (Nat.le_0_l _) Hp))). rewrite forallb_forall in H.
  exact (H n (proj2 (in_seq _ _ _) (conj (Nat.le_0_l _) Hn))).
Qed.

Lemma ring_probe_unfold p n : ring_probe p n = true ->
  exists r', deliver (mkRing ring_base p p) (seq 0 n) = Some (seq 0 n, r')
             /\ rhead r' = (p + n) mod ring_size /\ rtail r' = rhead r' /\ length (rbuf r') = ring_size.
Proof.
  unfold ring_probe. intros H.
  destruct (deliver (mkRing ring_base p p) (seq 0 n)) as [[l r']|]; [|discriminate H].
  apply andb_true_iff in H as [H H4]. apply andb_true_iff in H as [H H3]. apply andb_true_iff in H as [H1 H2].
  apply nat_list_eqb_eq in H1. apply Nat.eqb_eq in H2, H3, H4. subst l.
  exists r'. split; [reflexivity|]. split; [|split]; assumption.
Qed.

Lemma mod_ring_lt a : a mod ring_size < ring_size.
Proof. apply Nat.mod_upper_bound. discriminate. Qed.

Lemma ring_probe_spec p n : p < ring_size -> n < ring_size ->
  exists r', deliver (mkRing ring_base p p) (seq 0 n) = Some (seq 0 n, r')
             /\ rhead r' < ring_size /\ rtail r' = rhead r' /\ length (rbuf r') = ring_size.
Proof.
  intros Hp Hn. destruct (ring_probe_unfold p n (ring_probe_true p n Hp Hn)) as (r' & E & H2 & H3 & H4).
  exists r'. split; [exact E|]. split; [|split; assumption].
  rewrite H2. apply mod_ring_lt.
Qed.

Lemma ring_base_spec : length ring_base = ring_size /\ forall k, k < ring_size -> nth k ring_base 0 = 1000 + k.
Proof. split; [apply seq_length|]. intros k Hk. apply seq_nth. exact Hk. Qed.

Definition ring_wf {A} (r : ring A) : Prop :=
  length (rbuf r) = ring_size /\ rhead r < ring_size /\ rtail r = rhead r.

Lemma map_nth_seq {A} (d : A) (l : list A) : map (fun i => nth i l d) (seq 0 (length l)) = l.
Proof.
  induction l as [|a l IH]; [reflexivity|]. simpl. f_equal.
  rewrite <- seq_shift, map_map. simpl. exact IH.
Qed.

Lemma deliver_transport {A} (g : nat -> A) base p n l r' :
  deliver (mkRing base p p) (seq 0 n) = Some (l, r') ->
  deliver (mkRing (map g base) p p) (map g (seq 0 n)) = Some (map g l, rmap g r').
Proof.
  intros E. change (mkRing (map g base) p p) with (rmap g (mkRing base p p)).
  rewrite deliver_map, E. reflexivity.
Qed.

Lemma map_base_eq {A} (d : A) (base : list nat) (buf : list A) (g : nat -> A) n :
  length base = n -> length buf = n ->
  (forall k, k < n -> g (nth k base 0) = nth k buf d) -> map g base = buf.
Proof.
  revert base buf. induction n as [|n IH]; intros base buf Hb Hl H.
  - destruct base; [|discriminate]. destruct buf; [reflexivity|discriminate].
  - destruct base as [|x base]; [discriminate|]. destruct buf as [|y buf]; [discriminate|].
    simpl. f_equal.
    + apply (H 0). lia.
    + apply IH; [simpl in Hb; lia | simpl in Hl; lia |]. intros k Hk. apply (H (S k)). lia.
Qed.

Theorem deliver_fifo {A} (d : A) (r : ring A) (toks : list A) :
  ring_wf r -> length toks < ring_size ->
  exists r', deliver r toks = Some (toks, r') /\ ring_wf r'.
Proof.
  intros (Hl & Hh & Ht) Hn. destruct r as [buf p t]. simpl in Hl, Hh, Ht. subst t.
  pose (g := fun k => if Nat.ltb k 1000 then nth k toks d else nth (k - 1000) buf d).
  destruct ring_base_spec as [Hbl Hbn].
  assert (Eb : map g ring_base = buf).
  { apply (map_base_eq d ring_base buf g ring_size Hbl Hl). intros k Hk. rewrite (Hbn k Hk). unfold g.
    replace (Nat.ltb (1000 + k) 1000) with false by (symmetry; apply Nat.ltb_ge; lia).
    f_equal. lia. }
  assert (Et : map g (seq 0 (length toks)) = toks).
  { transitivity (map (fun i => nth i toks d) (seq 0 (length toks))); [|apply map_nth_seq]. apply map_ext_in.
    intros k Hk. apply in_seq in Hk. unfold g. replace (Nat.ltb k 1000) with true; [reflexivity|].
    symmetry. apply Nat.ltb_lt. unfold ring_size in Hn. lia. }
  destruct (ring_probe_spec p (length toks) Hh Hn) as (r' & E & H1 & H2 & H3).
  apply (deliver_transport g) in E. rewrite Eb, Et in E.
  exists (rmap g r'). split; [exact E|].
  unfold ring_wf, rmap. cbn [rbuf rhead rtail]. rewrite map_length. auto.
Qed.

(** * the statement as the parser receives it *)
Lemma length_arg_toks a : length (arg_toks a) = 2 * arg_parts a - 1.
Proof.
  unfold arg_toks, arg_parts. simpl. induction (a_more a) as [|m l IH]; [reflexivity|].
  simpl. rewrite IH. simpl. lia.
Qed.

Theorem stmt_roundtrip k j0 a j1 c rest (rg : ring token) :
  In k string_kws -> stmt_ok j0 a j1 = true -> is_term c = true ->
  arg_parts a <= 31 -> ring_wf rg ->
  exists toks rg',
    lex_begin (kw_text k ++ render_junk j0 ++ arg_src a ++ render_junk j1 ++ c :: rest)
      = Continue toks (accept_ws rest)
    /\ deliver rg toks = Some (toks, rg') /\ ring_wf rg'
    /\ arg_of toks = Some (arg_text a).
Proof.
  intros Hk Hok Hc Hn Hrg. unfold stmt_ok in Hok.
  apply andb_true_iff in Hok as [Hok Haf]. apply andb_true_iff in Hok as [Hok Ha].
  apply andb_true_iff in Hok as [Hok Hj1]. apply andb_true_iff in Hok as [Hne Hj0].
  assert (Hne' : j0 <> []) by (destruct j0; [discriminate|discriminate]).
  set (toks := (k, kw_text k) :: arg_toks a ++ [term_tok c]).
  assert (Hlen : length toks < ring_size).
  { unfold toks. cbn [length]. rewrite app_length, length_arg_toks. cbn [length]. unfold ring_size. lia. }
  destruct (deliver_fifo (0, []) rg toks Hrg Hlen) as (rg' & Hd & Hwf).
  exists toks, rg'. split; [|split; [exact Hd|split; [exact Hwf|]]].
  - apply lex_begin_string_stmt; assumption.
  - apply arg_of_stmt; assumption.
Qed.

(** * every text can be written, and [quote] writes it *)
Lemma item_byte_canon b : item_byte (canon_item b) = b.
Proof. unfold canon_item. destruct (esc_letter b); reflexivity. Qed.

Lemma canon_not_nl b : is_lit_nl (canon_item b) = false.
Proof.
  unfold canon_item, esc_letter. beq_case b x0a; [reflexivity|].
  destruct (Byte.eqb b x09), (Byte.eqb b x22), (Byte.eqb b x5c); simpl; try reflexivity; exact E.
Qed.

Lemma no_strip_no_nl l : (forall i, In i l -> is_lit_nl i = false) -> no_strip l = true.
Proof.
  induction l as [|a [|b l] IH]; intros H; try reflexivity.
  change (no_strip (a :: b :: l)) with
    (negb ((is_lit_blank a && is_lit_nl b) || (is_lit_nl a && is_lit_blank b)) && no_strip (b :: l)).
  rewrite (H a) by (left; reflexivity). rewrite (H b) by (right; left; reflexivity).
  rewrite andb_false_r. simpl. apply IH. intros i Hi. apply H. right. exact Hi.
Qed.

Lemma canon_item_ok b : Byte.eqb b x00 = false -> item_ok (canon_item b) = true.
Proof.
  intros Hn. unfold canon_item. destruct (esc_letter b) eqn:E; simpl; [rewrite E; reflexivity|].
  unfold esc_letter in E.
  destruct (Byte.eqb b x0a); [discriminate|]. destruct (Byte.eqb b x09); [discriminate|].
  destruct (Byte.eqb b x22); [discriminate|]. destruct (Byte.eqb b x5c); [discriminate|].
  rewrite Hn. reflexivity.
Qed.

Theorem quote_dq_total t :
  forallb (fun b => negb (Byte.eqb b x00)) t = true -> quote StDq t = Some (quote_dq t).
Proof.
  intros H. unfold quote. replace (part_ok (quote_dq t)) with true; [reflexivity|].
  symmetry. unfold quote_dq. simpl. apply andb_true_iff. split.
  - rewrite forallb_forall. intros i Hi. apply in_map_iff in Hi as (b & <- & Hb).
    apply canon_item_ok. rewrite forallb_forall in H. apply H in Hb. apply negb_true_iff in Hb. exact Hb.
  - apply no_strip_no_nl. intros i Hi. apply in_map_iff in Hi as (b & <- & _). apply canon_not_nl.
Qed.

Theorem quote_sound sty t p : quote sty t = Some p -> part_ok p = true /\ part_text p = t.
Proof.
  unfold quote. intros H.
  destruct sty; cbv zeta in H;
    match type of H with (if ?c then _ else _) = _ => destruct c eqn:E end; try discriminate H;
    inversion H; subst p; (split; [exact E|]); try reflexivity.
  unfold quote_dq, part_text. rewrite map_map. rewrite <- (map_id t) at 2. apply map_ext. apply item_byte_canon.
Qed.

Lemma ring0_wf : ring_wf ring0.
Proof.
  unfold ring_wf, ring0. cbn [rbuf rhead rtail]. rewrite repeat_length. unfold ring_size.
  split; [reflexivity|]. split; [lia|reflexivity].
Qed.

(** the task statement: a text written in one style after a keyword and a blank, closed by ';' *)
Theorem quote_roundtrip sty t p k :
  In k string_kws -> quote sty t = Some p ->
  exists toks, lex_begin (kw_text k ++ [c_sp] ++ part_src p ++ [c_semi]) = Continue toks []
               /\ arg_of toks = Some t.
Proof.
  intros Hk Hq. apply quote_sound in Hq as [Hp Ht].
  assert (Hok : stmt_ok [JSp c_sp] (mkArg p []) [] = true).
  { unfold stmt_ok, arg_ok. simpl. rewrite Hp. destruct p; reflexivity. }
  destruct (stmt_roundtrip k [JSp c_sp] (mkArg p []) [] c_semi [] ring0 Hk Hok eq_refl) as (toks & rg' & H1 & _ & _ & H4).
  - unfold arg_parts. cbn [a_more length]. lia.
  - exact ring0_wf.
  - exists toks. split.
    + unfold arg_src in H1. simpl in H1. rewrite app_nil_r in H1. simpl. exact H1.
    + rewrite H4. unfold arg_text. simpl. rewrite app_nil_r. f_equal. exact Ht.
Qed.
