(** C01 — executable model of meta/resolver.go + meta/compile.go (config, list keys) on the
    fragment of Ast.v.  Every definition names the Go function it transcribes.

    Stages:  [find_grouping]  (resolver.findGrouping: lexical search through original parents,
                               module top level incl. submodules, prefix -> imported module)
             [expand]         (resolver.addDefinitions / addDataDefinition / expandUses /
                               cloneDefs / applyRefinements / expandAugment)
             [expand_modset]  (resolver.module: copyOverIncludes, enter, module augments)
             [config_kids]    (compile.go compile/inheritConfig/list)
             [canon]          (Choice.CaseIdents: cases are a map, observed in sorted order)

    Recursion is on fuel = nesting depth (grouping lookups are not structural); sibling lists are
    walked structurally.  Out of fuel is the distinct outcome [OutOfFuel].
    Operations (rpc/action with input/output, notification) are statements of the kinds
    [KAction]/[KInput]/[KOutput]/[KNotif] in the same sibling lists as the data definitions: the Go
    code keeps them in maps beside the data definitions ([actions], [notifications]); the model
    keeps ONE list in processing order and [canon] observes it the way the accessors do (data
    definitions in order, then Actions() and Notifications() by name).  The three name indexes of
    a parent are modelled as one: a data definition, an action and a notification of one parent
    are assumed to have different names.
    Not modelled: if-feature, deviations, recursive groupings, the flattened index of choice
    members in the enclosing node (paths must name choice and case), meta.Find refusing to step
    from an rpc/action to its input/output. *)
From Coq Require Import List Bool ZArith Strings.Byte.
From YV Require Import Schemac.Ast.
Import ListNotations.

Definition names (l : list enode) : list text := map e_name l.
Definition mem_text (n : text) (l : list text) : bool := existsb (text_eqb n) l.

Fixpoint assoc {A} (k : text) (l : list (text * A)) : option A :=
  match l with
  | [] => None
  | (k', v) :: tl => if text_eqb k k' then Some v else assoc k tl
  end.

(** * Grouping lookup (resolver.findGrouping, util.findModuleAndIsExternal) *)

Definition frame := list stmt.      (* the SGrouping statements of one scope *)

Fixpoint find_in_frame (g : text) (f : frame) : option (list stmt * list stmt) :=
  match f with
  | [] => None
  | SGrouping n grps body :: tl => if text_eqb n g then Some (grps, body) else find_in_frame g tl
  | _ :: tl => find_in_frame g tl
  end.

(** a module as a name-resolution context: own prefix, top-level groupings (submodules merged by
    copyOverSubmoduleData), imports by prefix *)
Inductive modenv := ME (pfx : text) (top : frame) (imps : list (text * modenv)).

(** lexical context of a statement list: enclosing scopes innermost first (the last one is the
    module's top frame), and the module the text was written in (OriginalModule) *)
Record ctx := mkCtx { c_scopes : list frame; c_mod : modenv }.

(** the [for p != nil { p.Groupings()[ident]; p = p.getOriginalParent() }] loop; returns the
    grouping with the scopes from its defining scope outward *)
Fixpoint find_scopes (g : text) (sc : list frame) : option (list stmt * list stmt * list frame) :=
  match sc with
  | [] => None
  | f :: outer =>
      match find_in_frame g f with
      | Some (grps, body) => Some (grps, body, sc)
      | None => find_scopes g outer
      end
  end.

(** result: the grouping's body and the lexical context of that body *)
Definition find_grouping (cx : ctx) (pfx : option text) (g : text) : option (list stmt * ctx) :=
  let 'ME own _ imps := c_mod cx in
  let local :=
    match find_scopes g (c_scopes cx) with
    | Some (grps, body, sc) => Some (body, mkCtx (grps :: sc) (c_mod cx))
    | None => None
    end in
  match pfx with
  | None => local
  | Some p =>
      if text_eqb p own then local
      else match assoc p imps with
           | Some (ME own' top' imps') =>
               match find_in_frame g top' with
               | Some (grps, body) => Some (body, mkCtx [grps; top'] (ME own' top' imps'))
               | None => None
               end
           | None => None
           end
  end.

(** * Classes of kinds *)

(** rpc/action and notification: held in the maps [actions] / [notifications] of the parent *)
Definition is_op (k : kind) : bool := match k with KAction | KNotif => true | _ => false end.

(** data definitions (meta.HasDataDefinitions members): the kinds with config/when *)
Definition is_datadef (k : kind) : bool :=
  match k with KAction | KInput | KOutput | KNotif => false | _ => true end.

(** meta.HasActions / meta.HasNotifications among the node kinds (the module is the root list) *)
Definition allows_ops (k : kind) : bool := match k with KCont | KList => true | _ => false end.

(** * Pieces of expandUses *)

Definition with_when (p : props) (w : option text) : props :=
  mkProps (p_config p) (p_mand p) (p_dflt p) (p_desc p) w (p_musts p) (p_min p) (p_max p)
          (p_presence p).

(** resolver.cloneDefs: [if when != nil { copy[i].setWhen(when) }] — the uses' condition
    OVERWRITES the clone's own (known finding 1).  cloneDefs runs over g.DataDefinitions() only:
    the grouping's actions and notifications are cloned without the condition *)
Definition set_when (w : option text) (s : stmt) : stmt :=
  match w with
  | None => s
  | Some _ =>
      match s with
      | SNode k n p keys grps kids =>
          SNode k n (if is_datadef k then with_when p w else p) keys grps kids
      | SUses pfx g _ refs augs => SUses pfx g w refs augs
      | other => other
      end
  end.

(** meta.Find restricted to descendant paths: walk [path] through direct children (cases for a
    choice) and rewrite the node found; [Err] = "could not find target" *)
Fixpoint update_at (path : list text) (f : enode -> outcome enode) (l : list enode)
  : outcome (list enode) :=
  match path with
  | [] => Err
  | seg :: rest =>
      (fix go (l : list enode) : outcome (list enode) :=
         match l with
         | [] => Err
         | e :: tl =>
             if text_eqb (e_name e) seg then
               bind (match rest with
                     | [] => f e
                     | _ :: _ =>
                         let 'ENode k n p ks kids := e in
                         bind (update_at rest f kids) (fun kids' => Ok (ENode k n p ks kids'))
                     end)
                    (fun e' => Ok (e' :: tl))
             else bind (go tl) (fun tl' => Ok (e :: tl'))
         end) l
  end.

Definition has_mand (k : kind) : bool :=
  match k with KCase | KAction | KInput | KOutput | KNotif => false | _ => true end.
Definition has_must (k : kind) : bool :=
  match k with KCont | KList | KLeaf | KLeafList | KInput | KOutput => true | _ => false end.
Definition has_minmax (k : kind) : bool := match k with KList | KLeafList => true | _ => false end.

Definition is_nil {A} (l : list A) : bool := match l with [] => true | _ => false end.
Definition is_some {A} (o : option A) : bool := match o with Some _ => true | None => false end.

(** resolver.refine through meta.Builder: every setter is tried, the first type error sticks *)
Definition refine_node (r : refine) (e : enode) : outcome enode :=
  let 'ENode k n p ks kids := e in
  let desc := if is_nil (r_desc r) then p_desc p else r_desc r in
  let dflt_ok :=
    match r_dflt r with
    | [] => true
    | [_] => match k with KLeaf | KChoice | KLeafList => true | _ => false end
    | _ => match k with KLeafList => true | _ => false end
    end in
  let dflt := if is_nil (r_dflt r) then p_dflt p else r_dflt r in
  let cfg_ok := negb (is_some (r_config r)) || is_datadef k in
  let cfg := match r_config r with Some b => Some b | None => p_config p end in
  let mand_ok := negb (is_some (r_mand r)) || has_mand k in
  let mand := match r_mand r with Some b => Some b | None => p_mand p end in
  let mm_ok := (negb (is_some (r_min r)) && negb (is_some (r_max r))) || has_minmax k in
  let mn := match r_min r with Some z => Some z | None => p_min p end in
  let mx := match r_max r with Some z => Some z | None => p_max p end in
  let must_ok := is_nil (r_musts r) || has_must k in
  if dflt_ok && cfg_ok && mand_ok && mm_ok && must_ok then
    Ok (ENode k n (mkProps cfg mand dflt desc (p_when p) (p_musts p ++ r_musts r) mn mx
                           (p_presence p)) ks kids)
  else Err.

(** resolver.applyRefinements: targets are looked up in the WHOLE using parent *)
Fixpoint apply_refines (refs : list refine) (acc : list enode) : outcome (list enode) :=
  match refs with
  | [] => Ok acc
  | r :: tl => bind (update_at (r_path r) (refine_node r) acc) (apply_refines tl)
  end.

Definition has_grps (k : kind) : bool :=
  match k with KCont | KList | KAction | KInput | KOutput | KNotif => true | _ => false end.

Definition colon : text := [x3a].

Definition stmt_ident (s : stmt) : text :=
  match s with
  | SNode _ n _ _ _ _ => n
  | SUses pfx g _ _ _ => match pfx with Some p => p ++ colon ++ g | None => g end
  | SGrouping n _ _ => n
  | SAugment _ _ _ => []
  end.

(** Builder.parentDataDefinition / expandAugment "add implied case" *)
Definition wrap_case (s : stmt) : stmt :=
  match s with
  | SNode KCase _ _ _ _ _ => s
  | _ => SNode KCase (stmt_ident s) no_props [] [] [s]
  end.

(** expandAugment for a uses-augment: the (unresolved) body is added to the target *)
Definition expand_into (rec : list enode -> list stmt -> outcome (list enode))
                       (t : enode) (body : list stmt) : outcome enode :=
  let 'ENode k n p ks kids := t in
  match k with
  | KChoice => bind (rec kids (map wrap_case body)) (fun kids' => Ok (ENode k n p ks kids'))
  | KCont | KList | KCase | KInput | KOutput | KNotif =>
      bind (rec kids body) (fun kids' => Ok (ENode k n p ks kids'))
  | _ => Err
  end.

(** * resolver.addDefinitions: add [ss] (written in lexical context [cx]) to a parent that
      already holds [acc] *)
Fixpoint expand (fuel : nat) (cx : ctx) (acc : list enode) (ss : list stmt) {struct fuel}
  : outcome (list enode) :=
  match fuel with
  | O => OutOfFuel
  | S f =>
      (fix go (acc : list enode) (ss : list stmt) {struct ss} : outcome (list enode) :=
         match ss with
         | [] => Ok acc
         | s :: rest =>
             bind
               (match s with
                | SNode k n p keys grps kids =>
                    (* parent.addDataDefinition / addAction / addNotification (conflict check),
                       then enter(child): for an rpc its input and output, for everything
                       else its members *)
                    if mem_text n (names acc) then Err
                    else
                      let cx' := if has_grps k then mkCtx (grps :: c_scopes cx) (c_mod cx) else cx in
                      let kids0 := match k with KChoice => map wrap_case kids | _ => kids end in
                      bind (expand f cx' [] kids0) (fun ks => Ok (acc ++ [ENode k n p keys ks]))
                | SUses pfx g w refs augs =>
                    (* expandUses *)
                    match find_grouping cx pfx g with
                    | None => Err
                    | Some (body, cxg) =>
                        bind (expand f cxg acc (map (set_when w) body)) (fun acc1 =>
                        bind (apply_refines refs acc1) (fun acc2 =>
                          (fix augl (acc : list enode) (augs : list stmt) {struct augs}
                             : outcome (list enode) :=
                             match augs with
                             | [] => Ok acc
                             | SAugment path _ body :: tl =>
                                 (* the augment's own [when] is not propagated (known finding 2) *)
                                 bind (update_at path (fun t => expand_into (expand f cx) t body) acc)
                                      (fun acc' => augl acc' tl)
                             | _ :: _ => Err
                             end) acc2 augs))
                    end
                | _ => Err
                end)
               (fun acc' => go acc' rest)
         end) acc ss
  end.

(** * Module level (resolver.module) *)

(** addDataDefinition of already expanded definitions (conflict check only) *)
Fixpoint add_all (acc nodes : list enode) : outcome (list enode) :=
  match nodes with
  | [] => Ok acc
  | e :: tl => if mem_text (e_name e) (names acc) then Err else add_all (acc ++ [e]) tl
  end.

Definition ewrap_case (e : enode) : enode :=
  match e_kind e with
  | KCase => e
  | _ => ENode KCase (e_name e) no_props [] [e]
  end.

(** expandAugment for a module augment whose body was resolved inside the augment first *)
Definition graft (nodes : list enode) (t : enode) : outcome enode :=
  let 'ENode k n p ks kids := t in
  match k with
  | KChoice => bind (add_all kids (map ewrap_case nodes)) (fun kids' => Ok (ENode k n p ks kids'))
  | KCont | KList | KCase | KInput | KOutput | KNotif =>
      bind (add_all kids nodes) (fun kids' => Ok (ENode k n p ks kids'))
  | _ => Err
  end.

(** [for _, a := range y.Augments()]: textual order, main module first then each submodule *)
Fixpoint apply_augments (fuel : nat) (cx : ctx) (augs : list stmt) (t : list enode)
  : outcome (list enode) :=
  match augs with
  | [] => Ok t
  | SAugment path _ body :: tl =>
      bind (expand fuel cx [] body) (fun nodes =>
      bind (update_at path (graft nodes) t) (apply_augments fuel cx tl))
  | _ :: _ => Err
  end.

Definition top_frame (ms : modset) : frame :=
  m_grps (ms_main ms) ++ flat_map m_grps (ms_subs ms).

Definition modenv_of (ms : modset) : modenv :=
  ME (m_prefix (ms_main ms)) (top_frame ms)
     (map (fun pm => (fst pm, ME (m_prefix (snd pm)) (m_grps (snd pm)) [])) (ms_imps ms)).

Definition top_ctx (ms : modset) : ctx := mkCtx [top_frame ms] (modenv_of ms).

Definition all_body (ms : modset) : list stmt :=
  m_body (ms_main ms) ++ flat_map m_body (ms_subs ms).
Definition all_augs (ms : modset) : list stmt :=
  m_augs (ms_main ms) ++ flat_map m_augs (ms_subs ms).

Definition expand_modset (fuel : nat) (ms : modset) : outcome (list enode) :=
  bind (expand fuel (top_ctx ms) [] (all_body ms))
       (apply_augments fuel (top_ctx ms) (all_augs ms)).

(** * meta/compile.go: config inheritance and list keys *)

Definition set_config (p : props) (c : bool) : props :=
  mkProps (Some c) (p_mand p) (p_dflt p) (p_desc p) (p_when p) (p_musts p) (p_min p) (p_max p)
          (p_presence p).

Definition leafable (k : kind) : bool := match k with KLeaf | KLeafList => true | _ => false end.

(** compiler.list: every key names a direct child with a data type *)
Definition keys_ok (k : kind) (ks : list text) (kids : list enode) : bool :=
  match k with
  | KList => forallb (fun key => existsb (fun c => text_eqb (e_name c) key && leafable (e_kind c)) kids) ks
  | _ => true
  end.

(** resolver.expandUses "cannot add ... does not allow actions|notifications", Builder.Action /
    Builder.Notification "does not support ...": an rpc/action or notification is a member of the
    module, a container or a list only.  The Go code refuses when the member is added; no member is
    ever removed afterwards, so the finished tree has a misplaced member iff some addition was
    refused: the model checks the finished tree *)
Definition members_ok (k : kind) (kids : list enode) : bool :=
  allows_ops k || negb (existsb (fun c => is_op (e_kind c)) kids).

(** compiler.compile, HasConfig branch: unset -> inherit; [config true] under [config false] is
    an error.  Rpc, RpcInput, RpcOutput and Notification are no HasConfig: they keep no config
    themselves, and their members inherit [true] from them whatever the enclosing nodes say
    (inheritConfig of a parent without config) *)
Definition eff_config (pcfg : bool) (stated : option bool) : option bool :=
  match stated with
  | Some true => if pcfg then Some true else None
  | Some false => Some false
  | None => Some pcfg
  end.

Fixpoint config_node (pcfg : bool) (e : enode) {struct e} : option enode :=
  let 'ENode k n p ks kids := e in
  match (if is_datadef k then eff_config pcfg (p_config p) else Some true) with
  | None => None
  | Some c =>
      match (fix go (l : list enode) : option (list enode) :=
               match l with
               | [] => Some []
               | x :: tl =>
                   match config_node c x, go tl with
                   | Some x', Some tl' => Some (x' :: tl')
                   | _, _ => None
                   end
               end) kids with
      | None => None
      | Some kids' =>
          if keys_ok k ks kids && members_ok k kids
          then Some (ENode k n (if is_datadef k then set_config p c else p) ks kids') else None
      end
  end.

Fixpoint config_kids (pcfg : bool) (l : list enode) : option (list enode) :=
  match l with
  | [] => Some []
  | x :: tl =>
      match config_node pcfg x, config_kids pcfg tl with
      | Some x', Some tl' => Some (x' :: tl')
      | _, _ => None
      end
  end.

(** * Observation order: Choice.CaseIdents sorts the case map; Actions() and Notifications() are
      maps beside the ordered DataDefinitions() *)
Fixpoint insert_by_name (e : enode) (l : list enode) : list enode :=
  match l with
  | [] => [e]
  | x :: tl => if text_leb (e_name e) (e_name x) then e :: l else x :: insert_by_name e tl
  end.

Definition sort_by_name (l : list enode) : list enode := fold_right insert_by_name [] l.

(** members as the accessors deliver them: DataDefinitions() in order (for an rpc: input, output),
    then the actions by name, then the notifications by name *)
Definition by_class (l : list enode) : list enode :=
  filter (fun e => negb (is_op (e_kind e))) l ++
  sort_by_name (filter (fun e => kind_eqb (e_kind e) KAction) l) ++
  sort_by_name (filter (fun e => kind_eqb (e_kind e) KNotif) l).

Fixpoint canon (e : enode) : enode :=
  let 'ENode k n p ks kids := e in
  let kids' := map canon kids in
  ENode k n p ks (match k with
                  | KChoice | KAction => sort_by_name kids'   (* "input" sorts before "output" *)
                  | _ => by_class kids'
                  end).

(** accessor view of the stated properties: Mandatory() is false, Min/MaxElements() are 0 when
    unset *)
Definition norm_props (p : props) : props :=
  mkProps (p_config p)
          (Some (match p_mand p with Some b => b | None => false end))
          (p_dflt p) (p_desc p) (p_when p) (p_musts p)
          (Some (match p_min p with Some z => z | None => 0%Z end))
          (Some (match p_max p with Some z => z | None => 0%Z end))
          (p_presence p).

Fixpoint norm (e : enode) : enode :=
  let 'ENode k n p ks kids := e in ENode k n (norm_props p) ks (map norm kids).

(** the whole pipeline: what parser.LoadModule + the accessor dump deliver *)
Definition compile_modset (fuel : nat) (ms : modset) : outcome (list enode) :=
  bind (expand_modset fuel ms) (fun t =>
    match config_kids true t with
    | Some t' => Ok (by_class (map (fun e => norm (canon e)) t'))
    | None => Err
    end).

Definition default_fuel : nat := 64.

(** * Syntactic predicates *)

(** does [P] hold of some statement of the tree (the statement itself included) *)
Fixpoint exists_stmt (P : stmt -> bool) (s : stmt) {struct s} : bool :=
  P s ||
  let ex := (fix ex (l : list stmt) : bool :=
               match l with [] => false | x :: tl => exists_stmt P x || ex tl end) in
  match s with
  | SNode _ _ _ _ grps kids => ex grps || ex kids
  | SUses _ _ _ _ augs => ex augs
  | SGrouping _ grps body => ex grps || ex body
  | SAugment _ _ body => ex body
  end.

Definition module_stmts (m : module) : list stmt := m_grps m ++ m_body m ++ m_augs m.
Definition modset_stmts (ms : modset) : list stmt :=
  module_stmts (ms_main ms) ++ flat_map module_stmts (ms_subs ms) ++
  flat_map (fun pm => module_stmts (snd pm)) (ms_imps ms).

Definition exists_ms (P : stmt -> bool) (ms : modset) : bool :=
  existsb (exists_stmt P) (modset_stmts ms).

Definition stmt_has_when (s : stmt) : bool :=
  match s with
  | SNode _ _ p _ _ _ => is_some (p_when p)
  | SUses _ _ w _ _ => is_some w
  | _ => false
  end.

(** known finding 1 (region): some uses carries a [when] and some grouping has a top-level
    statement with a [when] of its own — cloneDefs overwrites the latter *)
Definition kf_uses_when (ms : modset) : bool :=
  exists_ms (fun s => match s with SUses _ _ (Some _) _ _ => true | _ => false end) ms &&
  exists_ms (fun s => match s with SGrouping _ _ body => existsb stmt_has_when body | _ => false end) ms.

(** known finding 2 (region): some augment (module level or under uses) carries a [when] *)
Definition kf_aug_when (ms : modset) : bool :=
  exists_ms (fun s => match s with SAugment _ (Some _) _ => true | _ => false end) ms.

(** plain module sets: one file, no groupings, uses or augments — the compiled tree can be read
    off directly *)
Definition plain_stmt (s : stmt) : bool :=
  negb (exists_stmt (fun x => match x with SNode _ _ _ _ [] _ => false | _ => true end) s).

Definition plain_ms (ms : modset) : bool :=
  is_nil (ms_subs ms) && is_nil (ms_imps ms) && is_nil (m_grps (ms_main ms)) &&
  is_nil (m_augs (ms_main ms)) && forallb plain_stmt (m_body (ms_main ms)).
