(** C01 — grouping_extract: a contiguous block of sibling statements may be moved into a new
    grouping of the same scope and replaced by [uses g] (no when / refine / augment) without
    changing what the enclosing statement list expands to — the source-text inverse of uses_inline.

    Three ingredients:
    - [expand_fuel_mono]     more fuel never changes a successful expansion;
    - [expand_eqv]           empty scopes are invisible (the clone of a grouping without
                             sub-groupings is expanded in the scope it was declared in);
    - [expand_unused]        a grouping nobody uses is invisible. *)
From Coq Require Import List Bool ZArith Arith Lia Strings.Byte.
From YV Require Import Schemac.Ast Schemac.Expand Schemac.Refactor Schemac.Proofs Schemac.Ewf.
From YV Require Import Schemac.CasePerm.
Import ListNotations.

(** * extensionality / monotonicity of the higher-order pieces *)
Lemma update_at_ext : forall path f f' l, (forall e, f e = f' e) ->
  update_at path f l = update_at path f' l.
Proof.
  induction path as [|seg rest IH]; intros f f' l H; [reflexivity|].
  induction l as [|e tl IHl]; [reflexivity|].
  rewrite !update_at_cons. rewrite IHl. destruct (text_eqb (e_name e) seg); [|reflexivity].
  destruct rest; [now rewrite H|]. destruct e. now rewrite (IH f f' kids H).
Qed.

Lemma expand_into_ext : forall rec rec' t body, (forall acc ss, rec acc ss = rec' acc ss) ->
  expand_into rec t body = expand_into rec' t body.
Proof. intros rec rec' [k n p ks kids] body H. unfold expand_into. destruct k; now rewrite ?H. Qed.

Lemma apply_uses_augs_ext : forall rec rec', (forall acc ss, rec acc ss = rec' acc ss) ->
  forall augs acc, apply_uses_augs rec acc augs = apply_uses_augs rec' acc augs.
Proof.
  intros rec rec' H. induction augs as [|s tl IH]; intro acc; [reflexivity|].
  cbn [apply_uses_augs]. fold (apply_uses_augs rec). fold (apply_uses_augs rec').
  destruct s; try reflexivity.
  rewrite (update_at_ext path _ (fun t => expand_into rec' t body)).
  - apply bind_ext. intro. apply IH.
  - intro e. now apply expand_into_ext.
Qed.

Lemma update_at_mono : forall path f f' l out,
  (forall e e2, f e = Ok e2 -> f' e = Ok e2) ->
  update_at path f l = Ok out -> update_at path f' l = Ok out.
Proof.
  induction path as [|seg rest IH]; intros f f' l out H; [discriminate|].
  revert out. induction l as [|e tl IHl]; intros out Hu; [discriminate|].
  rewrite update_at_cons in *. destruct (text_eqb (e_name e) seg).
  - destruct rest.
    + destruct (f e) as [e2| |] eqn:E; cbn [bind] in Hu; try discriminate.
      now rewrite (H _ _ E).
    + destruct e. destruct (update_at (t :: rest) f kids) as [k2| |] eqn:E; cbn [bind] in Hu;
        try discriminate.
      now rewrite (IH f f' kids k2 H E).
  - destruct (update_at (seg :: rest) f tl) as [tl2| |] eqn:E; cbn [bind] in Hu; try discriminate.
    now rewrite (IHl tl2 eq_refl).
Qed.

Lemma expand_into_mono : forall rec rec' t body t2,
  (forall acc ss out, rec acc ss = Ok out -> rec' acc ss = Ok out) ->
  expand_into rec t body = Ok t2 -> expand_into rec' t body = Ok t2.
Proof.
  intros rec rec' [k n p ks kids] body t2 H Hu. unfold expand_into in *.
  destruct k; try discriminate;
  match type of Hu with bind ?o _ = _ => destruct o as [r| |] eqn:E; cbn [bind] in Hu;
                                           try discriminate end;
  now rewrite (H _ _ _ E).
Qed.

Lemma apply_uses_augs_mono : forall rec rec',
  (forall acc ss out, rec acc ss = Ok out -> rec' acc ss = Ok out) ->
  forall augs acc out, apply_uses_augs rec acc augs = Ok out ->
  apply_uses_augs rec' acc augs = Ok out.
Proof.
  intros rec rec' H. induction augs as [|s tl IH]; intros acc out Hu; [exact Hu|].
  cbn [apply_uses_augs] in *. fold (apply_uses_augs rec) in *. fold (apply_uses_augs rec').
  destruct s; try discriminate.
  match type of Hu with bind ?o _ = _ => destruct o as [a1| |] eqn:E; cbn [bind] in Hu;
                                           try discriminate end.
  rewrite (update_at_mono path (fun t => expand_into rec t body)
                          (fun t => expand_into rec' t body) acc a1).
  - cbn [bind]. now apply IH.
  - intros e e2. now apply expand_into_mono.
  - exact E.
Qed.

(** * more fuel never changes a successful expansion *)
Lemma expand_fuel_mono : forall f cx acc ss out,
  expand f cx acc ss = Ok out -> expand (S f) cx acc ss = Ok out.
Proof.
  induction f as [|f IHf]; intros cx acc ss; [discriminate|].
  revert acc. induction ss as [|s rest IHss]; intros acc out H.
  - rewrite expand_nil in *. exact H.
  - rewrite expand_cons in H. rewrite expand_cons.
    destruct (expand (S f) cx acc [s]) as [acc1| |] eqn:H1; cbn [bind] in H; try discriminate.
    assert (H1' : expand (S (S f)) cx acc [s] = Ok acc1).
    { destruct s as [k n p keys grps kids|pfx g w refs augs| |].
      - rewrite expand_node1 in *. destruct (mem_text n (names acc)); [discriminate|].
        destruct (expand f (node_ctx cx k grps) [] (node_kids k kids)) as [ks| |] eqn:E;
          cbn [bind] in H1; try discriminate.
        now rewrite (IHf _ _ _ _ E).
      - rewrite expand_uses1 in *. destruct (find_grouping cx pfx g) as [[body cg]|];
          try discriminate.
        destruct (expand f cg acc (map (set_when w) body)) as [a1| |] eqn:E1; cbn [bind] in H1;
          try discriminate.
        rewrite (IHf _ _ _ _ E1). cbn [bind].
        destruct (apply_refines refs a1) as [a2| |]; cbn [bind] in *; try discriminate.
        eapply apply_uses_augs_mono; [|exact H1]. intros. now apply IHf.
      - rewrite expand_other1 in H1; [discriminate|exact I].
      - rewrite expand_other1 in H1; [discriminate|exact I]. }
    rewrite H1'. cbn [bind]. now apply IHss.
Qed.

Lemma expand_fuel_mono_le : forall f f' cx acc ss out, f <= f' ->
  expand f cx acc ss = Ok out -> expand f' cx acc ss = Ok out.
Proof. induction 1; auto using expand_fuel_mono. Qed.

(** * empty scopes are invisible *)
Definition strip (sc : list frame) : list frame := filter (fun f => negb (is_nil f)) sc.

Definition ctx_eqv (cx cx' : ctx) : Prop :=
  c_mod cx = c_mod cx' /\ strip (c_scopes cx) = strip (c_scopes cx').

Lemma find_scopes_strip : forall g sc,
  find_scopes g (strip sc) =
  match find_scopes g sc with
  | Some (grps, body, s) => Some (grps, body, strip s)
  | None => None
  end.
Proof.
  induction sc as [|fr sc IH]; [reflexivity|].
  destruct fr as [|s0 fr].
  - cbn [strip filter is_nil negb find_scopes find_in_frame]. exact IH.
  - change (strip ((s0 :: fr) :: sc)) with ((s0 :: fr) :: strip sc).
    cbn [find_scopes]. destruct (find_in_frame g (s0 :: fr)) as [[grps body]|]; [reflexivity|].
    exact IH.
Qed.

Lemma strip_cons_eq : forall fr sc sc', strip sc = strip sc' -> strip (fr :: sc) = strip (fr :: sc').
Proof. intros fr sc sc' H. unfold strip in *. cbn [filter]. now rewrite H. Qed.

Lemma find_grouping_eqv : forall cx cx' pfx g, ctx_eqv cx cx' ->
  match find_grouping cx pfx g, find_grouping cx' pfx g with
  | Some (b, c), Some (b', c') => b = b' /\ ctx_eqv c c'
  | None, None => True
  | _, _ => False
  end.
Proof.
  intros [sc m] [sc' m'] pfx g [Hm Hs]. cbn [c_mod c_scopes] in *. subst m'.
  destruct m as [own top imps].
  assert (Hlocal :
    match (match find_scopes g sc with
           | Some (grps, body, s) => Some (body, mkCtx (grps :: s) (ME own top imps))
           | None => None end),
          (match find_scopes g sc' with
           | Some (grps, body, s) => Some (body, mkCtx (grps :: s) (ME own top imps))
           | None => None end) with
    | Some (b, c), Some (b', c') => b = b' /\ ctx_eqv c c'
    | None, None => True
    | _, _ => False
    end).
  { pose proof (find_scopes_strip g sc) as H1. pose proof (find_scopes_strip g sc') as H2.
    rewrite Hs in H1. rewrite H1 in H2.
    destruct (find_scopes g sc) as [[[grps body] s]|], (find_scopes g sc') as [[[grps' body'] s']|];
      try discriminate; auto.
    inversion H2; subst. split; [reflexivity|]. split; [reflexivity|].
    cbn [c_scopes]. now apply strip_cons_eq. }
  unfold find_grouping. cbn [c_mod c_scopes].
  destruct pfx as [p|]; [|exact Hlocal].
  destruct (text_eqb p own); [exact Hlocal|].
  destruct (assoc p imps) as [[own' top' imps']|]; [|exact I].
  destruct (find_in_frame g top') as [[grps body]|]; [|exact I].
  split; [reflexivity|]. split; reflexivity.
Qed.

Lemma expand_eqv : forall f cx cx', ctx_eqv cx cx' ->
  forall ss acc, expand f cx acc ss = expand f cx' acc ss.
Proof.
  induction f as [|f IHf]; intros cx cx' Hc; [reflexivity|].
  induction ss as [|s rest IHss]; intro acc; [reflexivity|].
  rewrite (expand_cons f cx), (expand_cons f cx').
  assert (H1 : expand (S f) cx acc [s] = expand (S f) cx' acc [s]).
  { destruct s as [k n p keys grps kids|pfx g w refs augs| |].
    - rewrite !expand_node1. destruct (mem_text n (names acc)); [reflexivity|].
      rewrite (IHf (node_ctx cx k grps) (node_ctx cx' k grps)); [reflexivity|].
      destruct Hc as [Hm Hs]. unfold node_ctx. destruct (has_grps k); [|split; auto].
      split; cbn [c_mod c_scopes]; auto. now apply strip_cons_eq.
    - rewrite !expand_uses1. pose proof (find_grouping_eqv cx cx' pfx g Hc) as Hg.
      destruct (find_grouping cx pfx g) as [[body cg]|], (find_grouping cx' pfx g) as [[body' cg']|];
        try contradiction; [|reflexivity].
      destruct Hg as [<- Hcg]. rewrite (IHf cg cg' Hcg). apply bind_ext. intro a1.
      apply bind_ext. intro a2. apply apply_uses_augs_ext. intros. now apply IHf.
    - now rewrite !expand_other1.
    - now rewrite !expand_other1. }
  rewrite H1. apply bind_ext. intro. apply IHss.
Qed.

(** * uses of a grouping without sub-groupings, declared in the innermost non-empty scope, is the
      grouping's body written in place *)
Lemma map_set_when_none : forall l, map (set_when None) l = l.
Proof. induction l; simpl; congruence. Qed.

Lemma expand_plain_uses : forall f cx acc g body cg,
  find_grouping cx None g = Some (body, cg) ->
  expand (S f) cx acc [SUses None g None [] []] = expand f cg acc body.
Proof.
  intros. rewrite expand_uses1, H, map_set_when_none.
  cbn [apply_refines apply_uses_augs]. destruct (expand f cg acc body); reflexivity.
Qed.

Lemma uses_unfold_proof : forall f cx acc g body cg rest out,
  find_grouping cx None g = Some (body, cg) -> ctx_eqv cg cx ->
  expand (S f) cx acc (SUses None g None [] [] :: rest) = Ok out ->
  expand (S f) cx acc (body ++ rest) = Ok out.
Proof.
  intros f cx acc g body cg rest out Hg He H.
  rewrite expand_cons, (expand_plain_uses _ _ _ _ _ _ Hg) in H. rewrite expand_app.
  destruct (expand f cg acc body) as [a1| |] eqn:E; cbn [bind] in H; try discriminate.
  rewrite (expand_eqv f cg cx He) in E. rewrite (expand_fuel_mono _ _ _ _ _ E). exact H.
Qed.

Lemma uses_fold_proof : forall f cx acc g body cg rest out,
  find_grouping cx None g = Some (body, cg) -> ctx_eqv cg cx ->
  expand (S f) cx acc (body ++ rest) = Ok out ->
  expand (S (S f)) cx acc (SUses None g None [] [] :: rest) = Ok out.
Proof.
  intros f cx acc g body cg rest out Hg He H.
  rewrite expand_cons, (expand_plain_uses _ _ _ _ _ _ Hg). rewrite expand_app in H.
  rewrite (expand_eqv (S f) cg cx He).
  destruct (expand (S f) cx acc body) as [a1| |] eqn:E; cbn [bind] in *; try discriminate.
  now apply expand_fuel_mono.
Qed.

(** the side condition in syntactic form: [g] is declared without sub-groupings in the innermost
    scope *)
Lemma find_grouping_head : forall fr outer m g body,
  find_in_frame g fr = Some ([], body) ->
  find_grouping (mkCtx (fr :: outer) m) None g = Some (body, mkCtx ([] :: fr :: outer) m) /\
  ctx_eqv (mkCtx ([] :: fr :: outer) m) (mkCtx (fr :: outer) m).
Proof.
  intros fr outer m g body H. split.
  - unfold find_grouping. destruct m. cbn [c_scopes c_mod find_scopes]. rewrite H. reflexivity.
  - split; reflexivity.
Qed.

(** * a grouping nobody uses is invisible *)
Definition is_uses_of (g : text) (x : stmt) : bool :=
  match x with SUses _ g' _ _ _ => text_eqb g' g | _ => false end.

(** some [uses] (with or without prefix) of a grouping called [g] occurs in the statement *)
Definition mentions (g : text) : stmt -> bool := exists_stmt (is_uses_of g).

(** no statement of the list mentions [g] *)
Definition clean (g : text) (l : list stmt) : bool := negb (existsb (mentions g) l).

Lemma ex_fix_eq : forall P l,
  (fix ex (l : list stmt) : bool :=
     match l with [] => false | x :: tl => exists_stmt P x || ex tl end) l =
  existsb (exists_stmt P) l.
Proof. induction l as [|x tl IH]; [reflexivity|]. cbn [existsb]. now rewrite <- IH. Qed.

Lemma mentions_node : forall g k n p keys grps kids,
  mentions g (SNode k n p keys grps kids) = existsb (mentions g) grps || existsb (mentions g) kids.
Proof. intros. unfold mentions. cbn [exists_stmt is_uses_of orb]. now rewrite !ex_fix_eq. Qed.

Lemma mentions_uses : forall g pfx g' w refs augs,
  mentions g (SUses pfx g' w refs augs) = text_eqb g' g || existsb (mentions g) augs.
Proof. intros. unfold mentions. cbn [exists_stmt is_uses_of]. now rewrite !ex_fix_eq. Qed.

Lemma mentions_grouping : forall g n grps body,
  mentions g (SGrouping n grps body) = existsb (mentions g) grps || existsb (mentions g) body.
Proof. intros. unfold mentions. cbn [exists_stmt is_uses_of orb]. now rewrite !ex_fix_eq. Qed.

Lemma mentions_augment : forall g path w body,
  mentions g (SAugment path w body) = existsb (mentions g) body.
Proof. intros. unfold mentions. cbn [exists_stmt is_uses_of orb]. now rewrite !ex_fix_eq. Qed.

Lemma clean_cons : forall g s l, clean g (s :: l) = negb (mentions g s) && clean g l.
Proof. intros. unfold clean. cbn [existsb]. now rewrite negb_orb. Qed.

Lemma clean_app : forall g l1 l2, clean g (l1 ++ l2) = clean g l1 && clean g l2.
Proof. intros. unfold clean. now rewrite existsb_app, negb_orb. Qed.

Lemma mentions_set_when : forall g w s, mentions g (set_when w s) = mentions g s.
Proof.
  intros g [w|] s; [|reflexivity]. destruct s; cbn [set_when]; try reflexivity;
    rewrite ?mentions_node, ?mentions_uses; reflexivity.
Qed.

Lemma clean_map_set_when : forall g w l, clean g (map (set_when w) l) = clean g l.
Proof.
  intros g w l. unfold clean. f_equal. induction l as [|s tl IH]; [reflexivity|].
  cbn [map existsb]. now rewrite mentions_set_when, IH.
Qed.

Lemma mentions_wrap_case : forall g s, mentions g (wrap_case s) = mentions g s.
Proof.
  intros g s.
  assert (H : mentions g (SNode KCase (stmt_ident s) no_props [] [] [s]) = mentions g s).
  { rewrite mentions_node. cbn [existsb orb]. now rewrite orb_false_r. }
  destruct s as [[] ? ? ? ? ?| | |]; cbn [wrap_case]; try exact H; reflexivity.
Qed.

Lemma clean_map_wrap_case : forall g l, clean g (map wrap_case l) = clean g l.
Proof.
  intros g l. unfold clean. f_equal. induction l as [|s tl IH]; [reflexivity|].
  cbn [map existsb]. now rewrite mentions_wrap_case, IH.
Qed.

Lemma find_in_frame_clean : forall g g' fr grps body, clean g fr = true ->
  find_in_frame g' fr = Some (grps, body) -> clean g grps = true /\ clean g body = true.
Proof.
  induction fr as [|s tl IH]; intros grps body Hc H; [discriminate|].
  rewrite clean_cons in Hc. apply andb_true_iff in Hc. destruct Hc as [Hs Ht].
  destruct s; cbn [find_in_frame] in H; try (now apply IH).
  destruct (text_eqb n g'); [|now apply IH]. inversion H; subst.
  rewrite mentions_grouping, negb_orb in Hs. apply andb_true_iff in Hs. exact Hs.
Qed.

(** the scopes of the second context are those of the first with the grouping [G] added to one *)
Inductive ins_rel (G : stmt) : list frame -> list frame -> Prop :=
| ins_same : forall sc, ins_rel G sc sc
| ins_here : forall fr sc, ins_rel G (fr :: sc) ((G :: fr) :: sc)
| ins_skip : forall fr sc sc', ins_rel G sc sc' -> ins_rel G (fr :: sc) (fr :: sc').

Definition clean_scopes (g : text) (sc : list frame) : Prop :=
  Forall (fun fr => clean g fr = true) sc.

Lemma find_scopes_ins : forall g gg gb g' sc sc',
  ins_rel (SGrouping g gg gb) sc sc' -> text_eqb g' g = false -> clean_scopes g sc ->
  match find_scopes g' sc, find_scopes g' sc' with
  | Some (grps, body, s), Some (grps', body', s') =>
      grps = grps' /\ body = body' /\ ins_rel (SGrouping g gg gb) s s' /\
      clean_scopes g s /\ clean g grps = true /\ clean g body = true
  | None, None => True
  | _, _ => False
  end.
Proof.
  intros g gg gb g' sc sc' H Hne. 
  assert (Hne' : text_eqb g g' = false).
  { apply text_eqb_neq. apply text_eqb_neq in Hne. congruence. }
  induction H as [sc|fr sc|fr sc sc' Hr IH]; intro Hc.
  - induction sc as [|fr sc IH]; [exact I|]. inversion Hc; subst. cbn [find_scopes].
    destruct (find_in_frame g' fr) as [[grps body]|] eqn:E.
    + destruct (find_in_frame_clean g g' fr grps body H1 E). repeat split; auto. constructor.
    + now apply IH.
  - inversion Hc; subst. cbn [find_scopes find_in_frame]. rewrite Hne'.
    destruct (find_in_frame g' fr) as [[grps body]|] eqn:E.
    + destruct (find_in_frame_clean g g' fr grps body H1 E). repeat split; auto. constructor.
    + clear - H2. induction sc as [|fr' sc IH]; [exact I|]. inversion H2; subst. cbn [find_scopes].
      destruct (find_in_frame g' fr') as [[grps body]|] eqn:E.
      * destruct (find_in_frame_clean g g' fr' grps body H1 E). repeat split; auto. constructor.
      * now apply IH.
  - inversion Hc; subst. cbn [find_scopes].
    destruct (find_in_frame g' fr) as [[grps body]|] eqn:E.
    + destruct (find_in_frame_clean g g' fr grps body H1 E). repeat split; auto.
      now constructor.
    + now apply IH.
Qed.

(** the own top frame stored in a [modenv] is never consulted for the module itself (local names
    are resolved through the scopes): only the prefix and the imports count *)
Definition me_same (m m' : modenv) : Prop :=
  match m, m' with ME own _ imps, ME own' _ imps' => own = own' /\ imps = imps' end.

Lemma me_same_refl : forall m, me_same m m.
Proof. intros []. split; reflexivity. Qed.

Definition ctx_ins (g : text) (G : stmt) (cx cx' : ctx) : Prop :=
  me_same (c_mod cx) (c_mod cx') /\ ins_rel G (c_scopes cx) (c_scopes cx') /\
  clean_scopes g (c_scopes cx).

Lemma find_grouping_ins : forall g gg gb cx cx' pfx g',
  ctx_ins g (SGrouping g gg gb) cx cx' -> text_eqb g' g = false ->
  match find_grouping cx pfx g', find_grouping cx' pfx g' with
  | Some (b, c), Some (b', c') =>
      b = b' /\ (c = c' \/ (ctx_ins g (SGrouping g gg gb) c c' /\ clean g b = true))
  | None, None => True
  | _, _ => False
  end.
Proof.
  intros g gg gb [sc m] [sc' m'] pfx g' [Hm [Hr Hc]] Hne. cbn [c_mod c_scopes] in *.
  destruct m as [own top imps], m' as [own2 top2 imps2]. destruct Hm as [<- <-].
  assert (Hlocal :
    match (match find_scopes g' sc with
           | Some (grps, body, s) => Some (body, mkCtx (grps :: s) (ME own top imps))
           | None => None end),
          (match find_scopes g' sc' with
           | Some (grps, body, s) => Some (body, mkCtx (grps :: s) (ME own top2 imps))
           | None => None end) with
    | Some (b, c), Some (b', c') =>
        b = b' /\ (c = c' \/ (ctx_ins g (SGrouping g gg gb) c c' /\ clean g b = true))
    | None, None => True
    | _, _ => False
    end).
  { pose proof (find_scopes_ins g gg gb g' sc sc' Hr Hne Hc) as H.
    destruct (find_scopes g' sc) as [[[grps body] s]|], (find_scopes g' sc') as [[[grps' body'] s']|];
      try contradiction; auto.
    destruct H as [<- [<- [Hs [Hcs [Hcg Hcb]]]]]. split; [reflexivity|]. right. split; [|exact Hcb].
    split; [split; reflexivity|]. cbn [c_scopes]. split; [now constructor|]. constructor; auto. }
  unfold find_grouping. cbn [c_mod c_scopes].
  destruct pfx as [p|]; [|exact Hlocal].
  destruct (text_eqb p own); [exact Hlocal|].
  destruct (assoc p imps) as [[own' top' imps']|]; [|exact I].
  destruct (find_in_frame g' top') as [[grps body]|]; [|exact I].
  split; [reflexivity|]. left. reflexivity.
Qed.

Lemma apply_uses_augs_ext_clean : forall g rec rec',
  (forall acc ss, clean g ss = true -> rec acc ss = rec' acc ss) ->
  forall augs acc, clean g augs = true ->
  apply_uses_augs rec acc augs = apply_uses_augs rec' acc augs.
Proof.
  intros g rec rec' H. induction augs as [|s tl IH]; intros acc Hc; [reflexivity|].
  rewrite clean_cons in Hc. apply andb_true_iff in Hc. destruct Hc as [Hs Ht].
  cbn [apply_uses_augs]. fold (apply_uses_augs rec). fold (apply_uses_augs rec').
  destruct s; try reflexivity.
  rewrite mentions_augment in Hs. fold (clean g body) in Hs.
  rewrite (update_at_ext path (fun t => expand_into rec t body) (fun t => expand_into rec' t body)).
  - apply bind_ext. intro. now apply IH.
  - intros [k n p ks kids]. unfold expand_into. destruct k; try reflexivity; rewrite H; auto.
    now rewrite clean_map_wrap_case.
Qed.

Lemma expand_unused : forall g gg gb f cx cx', ctx_ins g (SGrouping g gg gb) cx cx' ->
  forall ss acc, clean g ss = true -> expand f cx acc ss = expand f cx' acc ss.
Proof.
  intros g gg gb. induction f as [|f IHf]; intros cx cx' Hc; [reflexivity|].
  induction ss as [|s rest IHss]; intros acc Hcl; [reflexivity|].
  rewrite clean_cons in Hcl. apply andb_true_iff in Hcl. destruct Hcl as [Hs Hrest].
  apply negb_true_iff in Hs.
  rewrite (expand_cons f cx), (expand_cons f cx').
  assert (H1 : expand (S f) cx acc [s] = expand (S f) cx' acc [s]).
  { destruct s as [k n p keys grps kids|pfx g' w refs augs| |].
    - rewrite mentions_node in Hs. apply orb_false_iff in Hs. destruct Hs as [Hg Hk].
      rewrite !expand_node1. destruct (mem_text n (names acc)); [reflexivity|].
      rewrite (IHf (node_ctx cx k grps) (node_ctx cx' k grps)); [reflexivity| |].
      + destruct Hc as [Hm [Hr Hcs]]. unfold node_ctx. destruct (has_grps k); [|repeat split; auto].
        split; [exact Hm|]. cbn [c_scopes]. split; [now constructor|]. constructor; auto.
        unfold clean. now rewrite Hg.
      + unfold node_kids. destruct k; try (unfold clean; now rewrite Hk).
        rewrite clean_map_wrap_case. unfold clean. now rewrite Hk.
    - rewrite mentions_uses in Hs. apply orb_false_iff in Hs. destruct Hs as [Hne Ha].
      rewrite !expand_uses1. pose proof (find_grouping_ins g gg gb cx cx' pfx g' Hc Hne) as Hg.
      destruct (find_grouping cx pfx g') as [[body cg]|], (find_grouping cx' pfx g') as [[body' cg']|];
        try contradiction; [|reflexivity].
      destruct Hg as [<- Hcg].
      assert (E : expand f cg acc (map (set_when w) body) = expand f cg' acc (map (set_when w) body)).
      { destruct Hcg as [<-|[Hcg Hb]]; [reflexivity|]. apply IHf; auto.
        now rewrite clean_map_set_when. }
      rewrite E. apply bind_ext. intro a1. apply bind_ext. intro a2.
      apply (apply_uses_augs_ext_clean g).
      + intros. now apply IHf.
      + unfold clean. now rewrite Ha.
    - now rewrite !expand_other1.
    - now rewrite !expand_other1. }
  rewrite H1. apply bind_ext. intro. now apply IHss.
Qed.

(** ** grouping_extract *)
Lemma grouping_extract_gen : forall f fr outer m m' acc g B rest out, me_same m m' ->
  clean_scopes g (fr :: outer) -> clean g B = true -> clean g rest = true ->
  (expand (S f) (mkCtx ((SGrouping g [] B :: fr) :: outer) m') acc (SUses None g None [] [] :: rest)
     = Ok out ->
   expand (S f) (mkCtx (fr :: outer) m) acc (B ++ rest) = Ok out) /\
  (expand (S f) (mkCtx (fr :: outer) m) acc (B ++ rest) = Ok out ->
   expand (S (S f)) (mkCtx ((SGrouping g [] B :: fr) :: outer) m') acc
          (SUses None g None [] [] :: rest) = Ok out).
Proof.
  intros f fr outer m m' acc g B rest out Hm Hcs HB Hrest.
  assert (Hf : find_in_frame g (SGrouping g [] B :: fr) = Some ([], B)).
  { cbn [find_in_frame]. now rewrite text_eqb_refl. }
  destruct (find_grouping_head _ outer m' g B Hf) as [Hg He].
  assert (Hi : ctx_ins g (SGrouping g [] B) (mkCtx (fr :: outer) m)
                       (mkCtx ((SGrouping g [] B :: fr) :: outer) m')).
  { split; [exact Hm|]. split; [constructor|exact Hcs]. }
  assert (Hc : clean g (B ++ rest) = true) by (rewrite clean_app, HB, Hrest; reflexivity).
  split; intro H.
  - rewrite (expand_unused g [] B (S f) _ _ Hi _ acc Hc).
    eapply uses_unfold_proof; eauto.
  - eapply uses_fold_proof; eauto.
    now rewrite <- (expand_unused g [] B (S f) _ _ Hi _ acc Hc).
Qed.

Lemma grouping_extract_proof : forall f fr outer m acc g B rest out,
  clean_scopes g (fr :: outer) -> clean g B = true -> clean g rest = true ->
  (expand (S f) (mkCtx ((SGrouping g [] B :: fr) :: outer) m) acc (SUses None g None [] [] :: rest)
     = Ok out ->
   expand (S f) (mkCtx (fr :: outer) m) acc (B ++ rest) = Ok out) /\
  (expand (S f) (mkCtx (fr :: outer) m) acc (B ++ rest) = Ok out ->
   expand (S (S f)) (mkCtx ((SGrouping g [] B :: fr) :: outer) m) acc
          (SUses None g None [] [] :: rest) = Ok out).
Proof. intros. apply grouping_extract_gen; auto using me_same_refl. Qed.

(** * module level: the block is a run of top-level data definitions of the main module, the new
      grouping a top-level grouping of the main module *)
Lemma apply_augments_mono : forall f cx augs t out,
  apply_augments f cx augs t = Ok out -> apply_augments (S f) cx augs t = Ok out.
Proof.
  induction augs as [|s tl IH]; intros t out H; [exact H|].
  cbn [apply_augments] in *. destruct s; try discriminate.
  destruct (expand f cx [] body) as [nodes| |] eqn:E; cbn [bind] in H; try discriminate.
  rewrite (expand_fuel_mono _ _ _ _ _ E). cbn [bind].
  destruct (update_at path (graft nodes) t) as [t1| |]; cbn [bind] in *; try discriminate.
  now apply IH.
Qed.

Lemma apply_augments_unused : forall g gg gb f cx cx', ctx_ins g (SGrouping g gg gb) cx cx' ->
  forall augs t, clean g augs = true -> apply_augments f cx augs t = apply_augments f cx' augs t.
Proof.
  intros g gg gb f cx cx' Hc. induction augs as [|s tl IH]; intros t Hcl; [reflexivity|].
  rewrite clean_cons in Hcl. apply andb_true_iff in Hcl. destruct Hcl as [Hs Ht].
  cbn [apply_augments]. destruct s; try reflexivity.
  rewrite mentions_augment in Hs. fold (clean g body) in Hs.
  rewrite (expand_unused g gg gb f cx cx' Hc body [] Hs).
  apply bind_ext. intro nodes. apply bind_ext. intro t1. now apply IH.
Qed.

Definition ge_ms (n pfx : text) (grps pre mid rest augs : list stmt) (subs : list module)
                 (imps : list (text * module)) : modset :=
  mkModset (mkModule n pfx grps (pre ++ mid ++ rest) augs) subs imps.

Lemma grouping_extract_modset_proof : forall f n pfx grps pre B rest augs subs imps g t,
  let ms  := ge_ms n pfx grps pre B rest augs subs imps in
  let ms' := ge_ms n pfx (SGrouping g [] B :: grps) pre [SUses None g None [] []] rest augs
                   subs imps in
  clean g (top_frame ms) = true -> clean g (all_body ms) = true -> clean g (all_augs ms) = true ->
  (expand_modset (S f) ms' = Ok t -> expand_modset (S f) ms = Ok t) /\
  (expand_modset (S f) ms = Ok t -> expand_modset (S (S f)) ms' = Ok t).
Proof.
  intros f n pfx grps pre B rest augs subs imps g t ms ms' Hfr Hbody Haugs.
  set (fr := top_frame ms).
  set (R := rest ++ flat_map m_body subs).
  assert (Eb : all_body ms = pre ++ B ++ R).
  { unfold all_body, ms, ge_ms, R. cbn [ms_main ms_subs m_body]. now rewrite <- !app_assoc. }
  assert (Eb' : all_body ms' = pre ++ SUses None g None [] [] :: R).
  { unfold all_body, ms', ge_ms, R. cbn [ms_main ms_subs m_body]. rewrite <- !app_assoc.
    reflexivity. }
  assert (Ea : all_augs ms' = all_augs ms) by reflexivity.
  assert (Ec : top_ctx ms = mkCtx [fr] (modenv_of ms)) by reflexivity.
  assert (Ec' : top_ctx ms' = mkCtx [SGrouping g [] B :: fr] (modenv_of ms')) by reflexivity.
  assert (Hm : me_same (modenv_of ms) (modenv_of ms')) by (split; reflexivity).
  assert (Hcs : clean_scopes g [fr]) by (constructor; [exact Hfr|constructor]).
  rewrite Eb, !clean_app in Hbody. apply andb_true_iff in Hbody. destruct Hbody as [Hpre HBR].
  apply andb_true_iff in HBR. destruct HBR as [HB HR].
  assert (Hi : ctx_ins g (SGrouping g [] B) (top_ctx ms) (top_ctx ms')).
  { rewrite Ec, Ec'. split; [exact Hm|]. split; [constructor|exact Hcs]. }
  unfold expand_modset. rewrite Ea, Eb, Eb'. split; intro H.
  - destruct (expand (S f) (top_ctx ms') [] (pre ++ SUses None g None [] [] :: R)) as [t0| |] eqn:E;
      cbn [bind] in H; try discriminate.
    rewrite expand_app in E. rewrite <- (expand_unused g [] B (S f) _ _ Hi pre [] Hpre) in E.
    rewrite expand_app.
    destruct (expand (S f) (top_ctx ms) [] pre) as [a| |]; cbn [bind] in *; try discriminate.
    rewrite Ec, Ec' in *.
    apply (proj1 (grouping_extract_gen f fr [] _ _ a g B R t0 Hm Hcs HB HR)) in E.
    rewrite E. cbn [bind]. rewrite <- Ec, <- Ec' in *.
    now rewrite (apply_augments_unused g [] B (S f) _ _ Hi _ t0 Haugs).
  - destruct (expand (S f) (top_ctx ms) [] (pre ++ B ++ R)) as [t0| |] eqn:E;
      cbn [bind] in H; try discriminate.
    rewrite expand_app in E. rewrite expand_app.
    rewrite <- (expand_unused g [] B (S (S f)) _ _ Hi pre [] Hpre).
    destruct (expand (S f) (top_ctx ms) [] pre) as [a| |] eqn:Ep; cbn [bind] in *; try discriminate.
    rewrite (expand_fuel_mono _ _ _ _ _ Ep). cbn [bind].
    rewrite Ec, Ec' in *.
    apply (proj2 (grouping_extract_gen f fr [] _ _ a g B R t0 Hm Hcs HB HR)) in E.
    match goal with |- bind ?x _ = _ => replace x with (Ok t0) by (symmetry; exact E) end.
    cbn [bind]. rewrite <- Ec, <- Ec' in *.
    rewrite <- (apply_augments_unused g [] B (S (S f)) _ _ Hi _ t0 Haugs).
    now apply apply_augments_mono.
Qed.

Lemma grouping_extract_compile_proof : forall f n pfx grps pre B rest augs subs imps g t,
  let ms  := ge_ms n pfx grps pre B rest augs subs imps in
  let ms' := ge_ms n pfx (SGrouping g [] B :: grps) pre [SUses None g None [] []] rest augs
                   subs imps in
  clean g (top_frame ms) = true -> clean g (all_body ms) = true -> clean g (all_augs ms) = true ->
  (compile_modset (S f) ms' = Ok t -> compile_modset (S f) ms = Ok t) /\
  (compile_modset (S f) ms = Ok t -> compile_modset (S (S f)) ms' = Ok t).
Proof.
  intros f n pfx grps pre B rest augs subs imps g t ms ms' H1 H2 H3.
  unfold compile_modset. split; intro H.
  - destruct (expand_modset (S f) ms') as [t0| |] eqn:E; cbn [bind] in H; try discriminate.
    apply (proj1 (grouping_extract_modset_proof f n pfx grps pre B rest augs subs imps g t0
                    H1 H2 H3)) in E.
    fold ms in E. now rewrite E.
  - destruct (expand_modset (S f) ms) as [t0| |] eqn:E; cbn [bind] in H; try discriminate.
    apply (proj2 (grouping_extract_modset_proof f n pfx grps pre B rest augs subs imps g t0
                    H1 H2 H3)) in E.
    fold ms' in E. now rewrite E.
Qed.
