(** C01 — source AST of the YANG fragment whose compilation is modelled
    (module + submodules + imported modules; groupings at module level, nested in groupings and
    sibling-scoped in containers/lists/input/output/notification; leaf | leaf-list | container |
    list | choice/case | rpc/action {input; output} | notification | uses {when; refine*; augment*};
    module-level augments), and the expanded/compiled tree [enode].

    One inductive [stmt] carries a kind tag instead of one constructor per keyword; the
    well-formedness predicate [wf_stmt] (Expand.v) says which shapes are YANG. *)
From Coq Require Import List Bool ZArith Strings.Byte.
Import ListNotations.

Definition text := list byte.

Fixpoint text_eqb (a b : text) : bool :=
  match a, b with
  | [], [] => true
  | x :: a', y :: b' => Byte.eqb x y && text_eqb a' b'
  | _, _ => false
  end.

(** byte-lexicographic [a <= b] (Go sort.Strings on case identifiers) *)
Fixpoint text_leb (a b : text) : bool :=
  match a, b with
  | [], _ => true
  | _ :: _, [] => false
  | x :: a', y :: b' =>
      let i := Byte.to_N x in let j := Byte.to_N y in
      if N.ltb i j then true else if N.ltb j i then false else text_leb a' b'
  end.

(** data definitions, and the operations: rpc/action ([KAction], members [KInput]/[KOutput]) and
    notification ([KNotif]).  An rpc is an action written at module level (one Go type, meta.Rpc). *)
Inductive kind := KLeaf | KLeafList | KCont | KList | KChoice | KCase
                | KAction | KInput | KOutput | KNotif.

Definition kind_eqb (a b : kind) : bool :=
  match a, b with
  | KLeaf, KLeaf | KLeafList, KLeafList | KCont, KCont | KList, KList
  | KChoice, KChoice | KCase, KCase
  | KAction, KAction | KInput, KInput | KOutput, KOutput | KNotif, KNotif => true
  | _, _ => false
  end.

(** what a definition states about itself (meta/core.go struct fields that the accessors
    Config, Mandatory, Default, Description, When, Musts, Min/MaxElements, Presence read) *)
Record props := mkProps {
  p_config : option bool;        (* configPtr *)
  p_mand : option bool;          (* mandatoryPtr *)
  p_dflt : list text;            (* defaultVal (0/1 entries) / defaultVals *)
  p_desc : text;
  p_when : option text;
  p_musts : list text;
  p_min : option Z;
  p_max : option Z;
  p_presence : text }.

Definition no_props := mkProps None None [] [] None [] None None [].

(** refine statement (meta/core.go Refine); [r_path] is the descendant schema node id split at '/' *)
Record refine := mkRefine {
  r_path : list text;
  r_desc : text;
  r_dflt : list text;
  r_config : option bool;
  r_mand : option bool;
  r_min : option Z;
  r_max : option Z;
  r_musts : list text }.

Inductive stmt :=
| SNode (k : kind) (n : text) (p : props) (keys : list text)
        (grps : list stmt)                    (* [SGrouping]s visible to [kids] only *)
        (kids : list stmt)
| SUses (pfx : option text) (g : text) (w : option text) (refs : list refine)
        (augs : list stmt)                    (* [SAugment]s with relative paths *)
| SGrouping (n : text) (grps : list stmt) (body : list stmt)
| SAugment (path : list text) (w : option text) (body : list stmt).

(** one YANG file *)
Record module := mkModule {
  m_name : text;
  m_prefix : text;               (* own prefix; for a submodule the belongs-to prefix *)
  m_grps : list stmt;            (* top-level groupings *)
  m_body : list stmt;            (* top-level data definitions, textual order *)
  m_augs : list stmt }.          (* top-level augments (absolute paths, prefixes stripped) *)

(** main module, the submodules it includes (include order), the modules it imports with the
    prefix the main module gives them *)
Record modset := mkModset {
  ms_main : module;
  ms_subs : list module;
  ms_imps : list (text * module) }.

(** expanded tree: no uses, no groupings, no augments.  After [compile] [p_config] is [Some]
    of the effective value. *)
Inductive enode := ENode (k : kind) (n : text) (p : props) (keys : list text) (kids : list enode).

Definition e_kind (e : enode) := let 'ENode k _ _ _ _ := e in k.
Definition e_name (e : enode) := let 'ENode _ n _ _ _ := e in n.
Definition e_props (e : enode) := let 'ENode _ _ p _ _ := e in p.
Definition e_keys (e : enode) := let 'ENode _ _ _ ks _ := e in ks.
Definition e_kids (e : enode) := let 'ENode _ _ _ _ ks := e in ks.

Inductive outcome (A : Type) := Ok (a : A) | Err | OutOfFuel.
Arguments Ok {A} a.
Arguments Err {A}.
Arguments OutOfFuel {A}.

Definition bind {A B} (o : outcome A) (f : A -> outcome B) : outcome B :=
  match o with Ok a => f a | Err => Err | OutOfFuel => OutOfFuel end.

(** equality deciders used by the check *)
Definition opt_eqb {A} (eqb : A -> A -> bool) (a b : option A) : bool :=
  match a, b with
  | None, None => true
  | Some x, Some y => eqb x y
  | _, _ => false
  end.

Fixpoint list_eqb {A} (eqb : A -> A -> bool) (a b : list A) : bool :=
  match a, b with
  | [], [] => true
  | x :: a', y :: b' => eqb x y && list_eqb eqb a' b'
  | _, _ => false
  end.

Definition props_eqb (a b : props) : bool :=
  opt_eqb Bool.eqb (p_config a) (p_config b) && opt_eqb Bool.eqb (p_mand a) (p_mand b) &&
  list_eqb text_eqb (p_dflt a) (p_dflt b) && text_eqb (p_desc a) (p_desc b) &&
  opt_eqb text_eqb (p_when a) (p_when b) && list_eqb text_eqb (p_musts a) (p_musts b) &&
  opt_eqb Z.eqb (p_min a) (p_min b) && opt_eqb Z.eqb (p_max a) (p_max b) &&
  text_eqb (p_presence a) (p_presence b).

Fixpoint enode_eqb (a b : enode) {struct a} : bool :=
  match a, b with
  | ENode k n p ks kids, ENode k' n' p' ks' kids' =>
      kind_eqb k k' && text_eqb n n' && props_eqb p p' && list_eqb text_eqb ks ks' &&
      (fix go (x y : list enode) {struct x} : bool :=
         match x, y with
         | [], [] => true
         | i :: x', j :: y' => enode_eqb i j && go x' y'
         | _, _ => false
         end) kids kids'
  end.
