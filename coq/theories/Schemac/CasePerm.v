(** C01 — compile_deterministic: the compiled tree does not depend on the order in which the cases
    of a choice are written (the Go code keeps them in a map and observes them through the sorted
    [CaseIdents]; the model keeps textual order and sorts in [canon]).

    [sperm]  : source statements equal up to permuting the members of any choice (at any depth,
               in data definitions, groupings and augments);
    [eperm]  : expanded trees equal up to permuting the members of any choice.
    Every stage of the pipeline maps related inputs to related outputs; [canon] maps related
    well-formed trees to EQUAL trees. *)
From Coq Require Import List Bool ZArith Arith Lia Strings.Byte Permutation.
From YV Require Import Schemac.Ast Schemac.Expand Schemac.Refactor Schemac.Proofs Schemac.Ewf.
Import ListNotations.

(** * names *)
Lemma text_eqb_eq : forall a b, text_eqb a b = true <-> a = b.
Proof.
  induction a as [|x a IH]; destruct b as [|y b]; simpl; split; intro H; try discriminate; auto.
  - apply andb_true_iff in H. destruct H as [H1 H2]. apply Byte.byte_dec_bl in H1.
    apply IH in H2. now subst.
  - inversion H; subst. apply andb_true_iff. split; [now apply Byte.byte_dec_lb|now apply IH].
Qed.

Lemma text_eqb_refl : forall a, text_eqb a a = true.
Proof. intro. now apply text_eqb_eq. Qed.

Lemma text_eqb_neq : forall a b, text_eqb a b = false <-> a <> b.
Proof.
  intros. split.
  - intros H E. apply text_eqb_eq in E. congruence.
  - intro H. destruct (text_eqb a b) eqn:E; [|reflexivity]. apply text_eqb_eq in E. contradiction.
Qed.

Lemma mem_text_app : forall n a b, mem_text n (a ++ b) = mem_text n a || mem_text n b.
Proof. intros. unfold mem_text. apply existsb_app. Qed.

Lemma mem_text_perm : forall n l l', Permutation l l' -> mem_text n l = mem_text n l'.
Proof.
  intros n l l' H. unfold mem_text. induction H; simpl; auto.
  - now rewrite IHPermutation.
  - destruct (text_eqb n x), (text_eqb n y); reflexivity.
  - congruence.
Qed.

(** * the order on names is a total order *)
Lemma to_N_inj : forall x y, Byte.to_N x = Byte.to_N y -> x = y.
Proof.
  intros x y H. pose proof (Byte.of_to_N x) as Hx. pose proof (Byte.of_to_N y) as Hy.
  rewrite H in Hx. congruence.
Qed.

Lemma text_leb_total : forall a b, text_leb a b = true \/ text_leb b a = true.
Proof.
  induction a as [|x a IH]; destruct b as [|y b]; simpl; auto.
  destruct (N.ltb_spec (Byte.to_N x) (Byte.to_N y)); auto.
  destruct (N.ltb_spec (Byte.to_N y) (Byte.to_N x)); auto.
Qed.

Lemma text_leb_antisym : forall a b, text_leb a b = true -> text_leb b a = true -> a = b.
Proof.
  induction a as [|x a IH]; destruct b as [|y b]; simpl; try discriminate; auto.
  destruct (N.ltb_spec (Byte.to_N x) (Byte.to_N y));
  destruct (N.ltb_spec (Byte.to_N y) (Byte.to_N x)); try discriminate; try lia.
  intros H1 H2. f_equal; [apply to_N_inj; lia|auto].
Qed.

Lemma text_leb_trans : forall a b c, text_leb a b = true -> text_leb b c = true ->
  text_leb a c = true.
Proof.
  induction a as [|x a IH]; destruct b as [|y b]; destruct c as [|z c]; simpl;
    try discriminate; auto.
  destruct (N.ltb_spec (Byte.to_N x) (Byte.to_N y));
  destruct (N.ltb_spec (Byte.to_N y) (Byte.to_N x));
  destruct (N.ltb_spec (Byte.to_N y) (Byte.to_N z));
  destruct (N.ltb_spec (Byte.to_N z) (Byte.to_N y));
  destruct (N.ltb_spec (Byte.to_N x) (Byte.to_N z));
  destruct (N.ltb_spec (Byte.to_N z) (Byte.to_N x));
  try discriminate; try lia; auto.
  apply IH.
Qed.

(** * insertion sort does not depend on the order of insertion (distinct names) *)
Lemma leb_flip_true : forall a b, a <> b -> text_leb a b = true -> text_leb b a = false.
Proof.
  intros a b N H. destruct (text_leb b a) eqn:E; [|reflexivity].
  exfalso. apply N. now apply text_leb_antisym.
Qed.

Lemma leb_flip_false : forall a b, text_leb a b = false -> text_leb b a = true.
Proof. intros a b H. destruct (text_leb_total a b); congruence. Qed.

Lemma insert_comm : forall x y l, e_name x <> e_name y ->
  insert_by_name x (insert_by_name y l) = insert_by_name y (insert_by_name x l).
Proof.
  intros x y l Hxy.
  assert (Hyx : e_name y <> e_name x) by congruence.
  induction l as [|z l IH].
  - simpl. destruct (text_leb (e_name x) (e_name y)) eqn:E1.
    + now rewrite (leb_flip_true _ _ Hxy E1).
    + now rewrite (leb_flip_false _ _ E1).
  - cbn [insert_by_name].
    destruct (text_leb (e_name y) (e_name z)) eqn:Eyz;
    destruct (text_leb (e_name x) (e_name z)) eqn:Exz; cbn [insert_by_name].
    + destruct (text_leb (e_name x) (e_name y)) eqn:E1.
      * rewrite (leb_flip_true _ _ Hxy E1), Eyz. reflexivity.
      * rewrite (leb_flip_false _ _ E1), Exz. reflexivity.
    + rewrite Eyz.
      destruct (text_leb (e_name x) (e_name y)) eqn:E1.
      * rewrite (text_leb_trans _ _ _ E1 Eyz) in Exz. discriminate.
      * rewrite Exz. reflexivity.
    + rewrite Exz.
      destruct (text_leb (e_name y) (e_name x)) eqn:E1.
      * rewrite (text_leb_trans _ _ _ E1 Exz) in Eyz. discriminate.
      * rewrite Eyz. reflexivity.
    + rewrite Exz, Eyz, IH. reflexivity.
Qed.

(** * uniqueness of sibling names, in a permutation-invariant form *)
Definition cnt (seg : text) (l : list enode) : nat :=
  length (filter (fun e => text_eqb (e_name e) seg) l).

Definition uniq (l : list enode) : Prop := forall seg, cnt seg l <= 1.

Lemma cnt_cons : forall seg x l,
  cnt seg (x :: l) = (if text_eqb (e_name x) seg then 1 else 0) + cnt seg l.
Proof. intros. unfold cnt. simpl. destruct (text_eqb (e_name x) seg); reflexivity. Qed.

Lemma cnt_perm : forall seg l l', Permutation l l' -> cnt seg l = cnt seg l'.
Proof.
  intros seg l l' H. induction H; auto.
  - rewrite !cnt_cons. lia.
  - rewrite !cnt_cons. lia.
  - congruence.
Qed.

Lemma cnt_names : forall seg l l', names l = names l' -> cnt seg l = cnt seg l'.
Proof.
  induction l as [|x l IH]; destruct l' as [|y l']; intro H; try discriminate; auto.
  unfold names in H. simpl in H. inversion H. rewrite !cnt_cons, H1. f_equal. now apply IH.
Qed.

Lemma uniq_perm : forall l l', Permutation l l' -> uniq l -> uniq l'.
Proof. intros l l' H U seg. rewrite <- (cnt_perm seg l l' H). apply U. Qed.

Lemma uniq_names : forall l l', names l = names l' -> uniq l -> uniq l'.
Proof. intros l l' H U seg. rewrite <- (cnt_names seg l l' H). apply U. Qed.

Lemma uniq_tail : forall x l, uniq (x :: l) -> uniq l.
Proof. intros x l U seg. specialize (U seg). rewrite cnt_cons in U. lia. Qed.

Lemma uniq_head_neq : forall x y l, uniq (x :: y :: l) -> e_name x <> e_name y.
Proof.
  intros x y l U E. specialize (U (e_name x)). rewrite !cnt_cons in U.
  rewrite text_eqb_refl in U. rewrite <- E in U. rewrite text_eqb_refl in U. lia.
Qed.

Lemma ewf_list_cnt : forall a l seen, ewf_list a seen l = true ->
  uniq l /\ (forall seg, mem_text seg seen = true -> cnt seg l = 0).
Proof.
  induction l as [|x tl IH]; intros seen H.
  - split; [intro seg; unfold cnt; simpl; lia|reflexivity].
  - cbn [ewf_list] in H. rewrite !andb_true_iff in H. destruct H as [[[H1 _] _] H4].
    apply negb_true_iff in H1. destruct (IH _ H4) as [U Z]. split.
    + intro seg. rewrite cnt_cons. destruct (text_eqb (e_name x) seg) eqn:E.
      * apply text_eqb_eq in E. subst seg. rewrite Z; [lia|].
        rewrite mem_text_app. simpl. rewrite text_eqb_refl. now rewrite orb_true_r.
      * specialize (U seg). lia.
    + intros seg Hs. rewrite cnt_cons. destruct (text_eqb (e_name x) seg) eqn:E.
      * apply text_eqb_eq in E. subst seg. congruence.
      * rewrite Z; [reflexivity|]. rewrite mem_text_app, Hs. reflexivity.
Qed.

Lemma ewf_list_uniq : forall a l seen, ewf_list a seen l = true -> uniq l.
Proof. intros. eapply ewf_list_cnt; eauto. Qed.

Lemma sort_perm : forall l l', Permutation l l' -> uniq l -> sort_by_name l = sort_by_name l'.
Proof.
  intros l l' H. induction H; intro U; auto.
  - cbn [sort_by_name fold_right]. f_equal. apply IHPermutation. eapply uniq_tail; eauto.
  - cbn [sort_by_name fold_right]. apply insert_comm.
    intro E. apply (uniq_head_neq _ _ _ U). auto.
  - rewrite IHPermutation1; auto. apply IHPermutation2. eapply uniq_perm; eauto.
Qed.

(** * induction on expanded trees *)
Fixpoint enode_ind2 (P : enode -> Prop)
  (H : forall k n p ks kids, Forall P kids -> P (ENode k n p ks kids)) (e : enode) : P e :=
  match e with
  | ENode k n p ks kids =>
      H k n p ks kids
        ((fix go (l : list enode) : Forall P l :=
            match l with
            | [] => Forall_nil P
            | x :: tl => Forall_cons x (enode_ind2 P H x) (go tl)
            end) kids)
  end.

(** * expanded trees up to the order of choice members *)
Inductive eperm : enode -> enode -> Prop :=
| ep_node : forall k n p ks kids kids1 kids',
    Forall2 eperm kids kids1 ->
    (if is_choice k then Permutation kids1 kids' else kids1 = kids') ->
    eperm (ENode k n p ks kids) (ENode k n p ks kids').

(** member lists: pointwise related, then (under a choice) permuted *)
Definition lrel (a : bool) (l l' : list enode) : Prop :=
  exists l1, Forall2 eperm l l1 /\ (if a then Permutation l1 l' else l1 = l').

Lemma eperm_lrel : forall k n p ks kids kids',
  lrel (is_choice k) kids kids' -> eperm (ENode k n p ks kids) (ENode k n p ks kids').
Proof. intros k n p ks kids kids' [l1 [H1 H2]]. econstructor; eauto. Qed.

Lemma eperm_inv : forall k n p ks kids e', eperm (ENode k n p ks kids) e' ->
  exists kids', e' = ENode k n p ks kids' /\ lrel (is_choice k) kids kids'.
Proof. intros. inversion H; subst. eexists. split; [reflexivity|]. exists kids1. auto. Qed.

Lemma eperm_name : forall e e', eperm e e' -> e_name e' = e_name e.
Proof. intros e e' H. inversion H; reflexivity. Qed.

Lemma eperm_kind : forall e e', eperm e e' -> e_kind e' = e_kind e.
Proof. intros e e' H. inversion H; reflexivity. Qed.

Lemma eperm_refl : forall e, eperm e e.
Proof.
  induction e using enode_ind2. apply eperm_lrel. exists kids. split.
  - induction H; constructor; auto.
  - destruct (is_choice k); auto.
Qed.

Lemma Forall2_eperm_refl : forall l, Forall2 eperm l l.
Proof. induction l; constructor; auto using eperm_refl. Qed.

Lemma Forall2_eperm_names : forall l l', Forall2 eperm l l' -> names l' = names l.
Proof.
  induction 1; [reflexivity|]. unfold names in *. simpl. rewrite IHForall2.
  now rewrite (eperm_name _ _ H).
Qed.

Lemma lrel_names : forall a l l', lrel a l l' -> Permutation (names l) (names l').
Proof.
  intros a l l' [l1 [H1 H2]]. rewrite <- (Forall2_eperm_names _ _ H1).
  destruct a; [|subst; auto]. unfold names. now apply Permutation_map.
Qed.

Lemma lrel_false : forall l l', lrel false l l' <-> Forall2 eperm l l'.
Proof.
  intros; split.
  - intros [l1 [H1 H2]]. now subst.
  - intro H. exists l'. auto.
Qed.

Lemma lrel_nil : forall a, lrel a [] [].
Proof. intro a. exists []. split; [constructor|]. destruct a; auto. Qed.

Lemma lrel_refl : forall a l, lrel a l l.
Proof. intros a l. exists l. split; [apply Forall2_eperm_refl|]. destruct a; auto. Qed.

Lemma lrel_app : forall a l l' m m', lrel a l l' -> Forall2 eperm m m' ->
  lrel a (l ++ m) (l' ++ m').
Proof.
  intros a l l' m m' [l1 [H1 H2]] H. exists (l1 ++ m'). split.
  - now apply Forall2_app.
  - destruct a; [now apply Permutation_app_tail|now subst].
Qed.

Lemma lrel_snoc : forall a l l' e e', lrel a l l' -> eperm e e' -> lrel a (l ++ [e]) (l' ++ [e']).
Proof. intros. apply lrel_app; auto. Qed.

Lemma lrel_mem : forall a l l' n, lrel a l l' -> mem_text n (names l') = mem_text n (names l).
Proof. intros. symmetry. apply mem_text_perm. eapply lrel_names; eauto. Qed.

Lemma lrel_uniq : forall a l l', lrel a l l' -> uniq l -> uniq l'.
Proof.
  intros a l l' [l1 [H1 H2]] U.
  assert (U1 : uniq l1) by (eapply uniq_names; [symmetry; eapply Forall2_eperm_names|]; eauto).
  destruct a; [eapply uniq_perm; eauto|now subst].
Qed.

Lemma lrel_perm_r : forall l l1 l', lrel true l l1 -> Permutation l1 l' -> lrel true l l'.
Proof.
  intros l l1 l' [l0 [H1 H2]] H. exists l0. split; auto. eapply Permutation_trans; eauto.
Qed.

(** * source statements up to the order of choice members *)
Definition is_snode (s : stmt) : bool :=
  match s with SNode _ _ _ _ _ _ => true | _ => false end.

Inductive sperm : stmt -> stmt -> Prop :=
| sp_node : forall k n p keys grps grps' kids kids1 kids',
    Forall2 sperm grps grps' -> Forall2 sperm kids kids1 ->
    (if is_choice k then Permutation kids1 kids' else kids1 = kids') ->
    sperm (SNode k n p keys grps kids) (SNode k n p keys grps' kids')
| sp_uses : forall pfx g w refs augs augs',
    Forall2 sperm augs augs' ->
    sperm (SUses pfx g w refs augs) (SUses pfx g w refs augs')
| sp_grouping : forall n grps grps' body body',
    Forall2 sperm grps grps' -> Forall2 sperm body body' ->
    sperm (SGrouping n grps body) (SGrouping n grps' body')
| sp_augment : forall path w body body',
    Forall2 sperm body body' ->
    sperm (SAugment path w body) (SAugment path w body').

Inductive merel : modenv -> modenv -> Prop :=
| me_rel : forall pfx top top' imps imps',
    Forall2 sperm top top' ->
    Forall2 (fun a b => fst a = fst b /\ merel (snd a) (snd b)) imps imps' ->
    merel (ME pfx top imps) (ME pfx top' imps').

Definition crel (cx cx' : ctx) : Prop :=
  Forall2 (Forall2 sperm) (c_scopes cx) (c_scopes cx') /\ merel (c_mod cx) (c_mod cx').

Lemma find_in_frame_rel : forall g f f', Forall2 sperm f f' ->
  match find_in_frame g f, find_in_frame g f' with
  | Some (grps, body), Some (grps', body') => Forall2 sperm grps grps' /\ Forall2 sperm body body'
  | None, None => True
  | _, _ => False
  end.
Proof.
  intros g f f' H. induction H as [|s s' tl tl' Hs Ht IH]; [exact I|].
  inversion Hs; subst; cbn [find_in_frame]; try exact IH.
  destruct (text_eqb n g); [split; assumption|exact IH].
Qed.

Lemma find_scopes_rel : forall g sc sc', Forall2 (Forall2 sperm) sc sc' ->
  match find_scopes g sc, find_scopes g sc' with
  | Some (grps, body, s), Some (grps', body', s') =>
      Forall2 sperm grps grps' /\ Forall2 sperm body body' /\ Forall2 (Forall2 sperm) s s'
  | None, None => True
  | _, _ => False
  end.
Proof.
  intros g sc sc' H. induction H as [|f f' tl tl' Hf Ht IH]; [exact I|].
  cbn [find_scopes]. pose proof (find_in_frame_rel g f f' Hf) as Hr.
  destruct (find_in_frame g f) as [[grps body]|], (find_in_frame g f') as [[grps' body']|];
    try contradiction.
  - destruct Hr. repeat split; auto.
  - exact IH.
Qed.

Lemma assoc_rel : forall p (imps imps' : list (text * modenv)),
  Forall2 (fun a b => fst a = fst b /\ merel (snd a) (snd b)) imps imps' ->
  match assoc p imps, assoc p imps' with
  | Some m, Some m' => merel m m'
  | None, None => True
  | _, _ => False
  end.
Proof.
  intros p imps imps' H. induction H as [|[k m] [k' m'] tl tl' [Hk Hm] Ht IH]; [exact I|].
  simpl in Hk. subst k'. cbn [assoc]. destruct (text_eqb p k); [exact Hm|exact IH].
Qed.

Lemma find_grouping_rel : forall cx cx' pfx g, crel cx cx' ->
  match find_grouping cx pfx g, find_grouping cx' pfx g with
  | Some (body, cg), Some (body', cg') => Forall2 sperm body body' /\ crel cg cg'
  | None, None => True
  | _, _ => False
  end.
Proof.
  intros [sc m] [sc' m'] pfx g [Hs Hm]. cbn [c_scopes c_mod] in *.
  inversion Hm as [own top top' imps imps' Htop Himps]; subst.
  assert (Hlocal :
    match (match find_scopes g sc with
           | Some (grps, body, s) => Some (body, mkCtx (grps :: s) (ME own top imps))
           | None => None end),
          (match find_scopes g sc' with
           | Some (grps, body, s) => Some (body, mkCtx (grps :: s) (ME own top' imps'))
           | None => None end) with
    | Some (body, cg), Some (body', cg') => Forall2 sperm body body' /\ crel cg cg'
    | None, None => True
    | _, _ => False
    end).
  { pose proof (find_scopes_rel g sc sc' Hs) as Hr.
    destruct (find_scopes g sc) as [[[grps body] s]|], (find_scopes g sc') as [[[grps' body'] s']|];
      try contradiction; auto.
    destruct Hr as [H1 [H2 H3]]. split; [exact H2|]. split; cbn [c_scopes c_mod]; auto. }
  unfold find_grouping. cbn [c_scopes c_mod].
  destruct pfx as [p|]; [|exact Hlocal].
  destruct (text_eqb p own); [exact Hlocal|].
  pose proof (assoc_rel p imps imps' Himps) as Ha.
  destruct (assoc p imps) as [m1|], (assoc p imps') as [m1'|]; try contradiction; auto.
  inversion Ha as [own1 top1 top1' imps1 imps1' Htop1 Himps1]; subst.
  pose proof (find_in_frame_rel g top1 top1' Htop1) as Hr.
  destruct (find_in_frame g top1) as [[grps body]|], (find_in_frame g top1') as [[grps' body']|];
    try contradiction; auto.
  destruct Hr as [H1 H2]. split; [exact H2|]. split; cbn [c_scopes c_mod]; auto.
Qed.

Lemma set_when_sperm : forall w s s', sperm s s' -> sperm (set_when w s) (set_when w s').
Proof.
  intros [w|] s s' H; [|exact H]. inversion H; subst; cbn [set_when]; econstructor; eauto.
Qed.

Lemma stmt_ident_sperm : forall s s', sperm s s' -> stmt_ident s' = stmt_ident s.
Proof. intros s s' H. inversion H; reflexivity. Qed.

Lemma wrap_case_sperm : forall s s', sperm s s' -> sperm (wrap_case s) (wrap_case s').
Proof.
  intros s s' H.
  assert (Hw : forall t t', sperm t t' -> stmt_ident t' = stmt_ident t ->
               sperm (SNode KCase (stmt_ident t) no_props [] [] [t])
                     (SNode KCase (stmt_ident t') no_props [] [] [t'])).
  { intros t t' Ht E. rewrite E. eapply sp_node with (kids1 := [t']); auto. reflexivity. }
  pose proof (stmt_ident_sperm _ _ H) as E.
  inversion H; subst; cbn [wrap_case]; try (apply Hw; assumption).
  destruct k; try (apply (Hw _ _ H E)). exact H.
Qed.

Lemma is_case_stmt_sperm : forall s s', sperm s s' -> is_case_stmt s' = is_case_stmt s.
Proof. intros s s' H. inversion H; reflexivity. Qed.

Lemma Forall2_map2 : forall A B (R : A -> A -> Prop) (f : A -> B) (R' : B -> B -> Prop),
  (forall x y, R x y -> R' (f x) (f y)) ->
  forall l l', Forall2 R l l' -> Forall2 R' (map f l) (map f l').
Proof. intros A B R f R' H l l' F. induction F; simpl; constructor; auto. Qed.

(** * [update_at] on related member lists *)
Definition upd_first (seg : text) (g : enode -> outcome enode)
  : list enode -> outcome (list enode) :=
  fix go (l : list enode) : outcome (list enode) :=
    match l with
    | [] => Err
    | e :: tl =>
        if text_eqb (e_name e) seg then bind (g e) (fun e' => Ok (e' :: tl))
        else bind (go tl) (fun tl' => Ok (e :: tl'))
    end.

Definition step (rest : list text) (f : enode -> outcome enode) (e : enode) : outcome enode :=
  match rest with
  | [] => f e
  | _ :: _ =>
      let 'ENode k n p ks kids := e in
      bind (update_at rest f kids) (fun kids' => Ok (ENode k n p ks kids'))
  end.

Lemma update_at_upd : forall seg rest f l,
  update_at (seg :: rest) f l = upd_first seg (step rest f) l.
Proof. reflexivity. Qed.

Definition frel (f f' : enode -> outcome enode) : Prop :=
  forall e e1 e2, ewf_node e = true -> eperm e e1 -> f e = Ok e2 ->
    exists e2', f' e1 = Ok e2' /\ eperm e2 e2'.

Lemma upd_first_pointwise : forall seg g g', frel g g' ->
  forall l l1, Forall2 eperm l l1 -> forallb ewf_node l = true ->
  forall out, upd_first seg g l = Ok out ->
  exists out1, upd_first seg g' l1 = Ok out1 /\ Forall2 eperm out out1.
Proof.
  intros seg g g' Hg l l1 H. induction H as [|e e1 tl tl1 He Ht IH]; intros Hw out Hu;
    [discriminate|].
  cbn [forallb] in Hw. apply andb_true_iff in Hw. destruct Hw as [Hwe Hwt].
  cbn [upd_first] in *. rewrite (eperm_name _ _ He).
  destruct (text_eqb (e_name e) seg).
  - destruct (g e) as [e2| |] eqn:Eg; cbn [bind] in Hu; try discriminate.
    inversion Hu; subst out. destruct (Hg e e1 e2 Hwe He Eg) as [e2' [Eg' He2]].
    rewrite Eg'. cbn [bind]. eexists. split; [reflexivity|]. constructor; auto.
  - fold (upd_first seg g) in Hu. fold (upd_first seg g').
    destruct (upd_first seg g tl) as [tl2| |] eqn:Et; cbn [bind] in Hu; try discriminate.
    inversion Hu; subst out. destruct (IH Hwt tl2 eq_refl) as [tl2' [Et' Hr]].
    rewrite Et'. cbn [bind]. eexists. split; [reflexivity|]. constructor; auto.
Qed.

Lemma upd_first_perm : forall seg g l l', Permutation l l' -> uniq l ->
  forall out, upd_first seg g l = Ok out ->
  exists out', upd_first seg g l' = Ok out' /\ Permutation out out'.
Proof.
  intros seg g l l' H. induction H as [|x l l' Hp IH|x y l|l l' l'' H1 IH1 H2 IH2];
    intros U out Hu.
  - discriminate.
  - cbn [upd_first] in *. destruct (text_eqb (e_name x) seg).
    + destruct (g x) as [x2| |]; cbn [bind] in *; try discriminate.
      inversion Hu; subst. eexists. split; [reflexivity|]. now constructor.
    + fold (upd_first seg g) in *.
      destruct (upd_first seg g l) as [l2| |] eqn:El; cbn [bind] in Hu; try discriminate.
      inversion Hu; subst. destruct (IH (uniq_tail _ _ U) l2 eq_refl) as [l2' [El' Hr]].
      rewrite El'. cbn [bind]. eexists. split; [reflexivity|]. now constructor.
  - cbn [upd_first] in *. fold (upd_first seg g) in *.
    destruct (text_eqb (e_name y) seg) eqn:Ey; destruct (text_eqb (e_name x) seg) eqn:Ex.
    + exfalso. specialize (U seg). rewrite !cnt_cons, Ey, Ex in U. lia.
    + destruct (g y) as [y2| |]; cbn [bind] in *; try discriminate.
      inversion Hu; subst. eexists. split; [reflexivity|]. apply perm_swap.
    + destruct (g x) as [x2| |]; cbn [bind] in *; try discriminate.
      inversion Hu; subst. eexists. split; [reflexivity|]. apply perm_swap.
    + destruct (upd_first seg g l) as [l2| |]; cbn [bind] in *; try discriminate.
      inversion Hu; subst. eexists. split; [reflexivity|]. apply perm_swap.
  - destruct (IH1 U out Hu) as [out1 [E1 P1]].
    destruct (IH2 (uniq_perm _ _ H1 U) out1 E1) as [out2 [E2 P2]].
    exists out2. split; auto. eapply Permutation_trans; eauto.
Qed.

Lemma upd_first_lrel : forall seg g g' a l l', frel g g' -> lrel a l l' ->
  ewf_list a [] l = true ->
  forall out, upd_first seg g l = Ok out ->
  exists out', upd_first seg g' l' = Ok out' /\ lrel a out out'.
Proof.
  intros seg g g' a l l' Hg [l1 [H1 H2]] Hw out Hu.
  destruct (upd_first_pointwise seg g g' Hg l l1 H1 (ewf_list_forallb _ _ _ Hw) out Hu)
    as [out1 [E1 R1]].
  destruct a.
  - assert (U1 : uniq l1).
    { eapply uniq_names; [symmetry; eapply Forall2_eperm_names; eauto|].
      eapply ewf_list_uniq; eauto. }
    destruct (upd_first_perm seg g' l1 l' H2 U1 out1 E1) as [out' [E' P']].
    exists out'. split; auto. exists out1. auto.
  - subst l'. exists out1. split; auto. exists out1. auto.
Qed.

Lemma update_at_rel : forall path f f', frel f f' ->
  forall a l l' out, lrel a l l' -> ewf_list a [] l = true ->
  update_at path f l = Ok out ->
  exists out', update_at path f' l' = Ok out' /\ lrel a out out'.
Proof.
  induction path as [|seg rest IH]; intros f f' Hf a l l' out Hl Hw Hu; [discriminate|].
  rewrite update_at_upd in *.
  eapply upd_first_lrel; eauto.
  intros e e1 e2 Hwe He Hs. unfold step in *. destruct rest as [|seg2 rest'].
  - eapply Hf; eauto.
  - destruct e as [k n p ks kids]. destruct (eperm_inv _ _ _ _ _ _ He) as [kids1 [-> Hk]].
    destruct (update_at (seg2 :: rest') f kids) as [kids2| |] eqn:Ek; cbn [bind] in Hs;
      try discriminate.
    inversion Hs; subst e2. rewrite ewf_node_unfold in Hwe.
    destruct (IH f f' Hf _ _ _ _ Hk Hwe Ek) as [kids2' [Ek' Hr]].
    rewrite Ek'. cbn [bind]. eexists. split; [reflexivity|]. now apply eperm_lrel.
Qed.

(** * one node statement *)
Definition expand_node (f : nat) (cx : ctx) (s : stmt) : outcome enode :=
  match s with
  | SNode k n p keys grps kids =>
      bind (expand f (node_ctx cx k grps) [] (node_kids k kids))
           (fun ks => Ok (ENode k n p keys ks))
  | _ => Err
  end.

Lemma expand_snode1 : forall f cx acc s, is_snode s = true ->
  expand (S f) cx acc [s] =
  if mem_text (stmt_ident s) (names acc) then Err
  else bind (expand_node f cx s) (fun e => Ok (acc ++ [e])).
Proof.
  intros f cx acc [k n p keys grps kids| | |] H; try discriminate.
  rewrite expand_node1. cbn [stmt_ident expand_node].
  destruct (mem_text n (names acc)); [reflexivity|]. now rewrite bind_assoc.
Qed.

(** a list of node statements: permuting the accumulator permutes the result *)
Lemma expand_nodes_acc_perm : forall f cx ss, Forall (fun s => is_snode s = true) ss ->
  forall acc acc' out, Permutation acc acc' -> expand (S f) cx acc ss = Ok out ->
  exists out', expand (S f) cx acc' ss = Ok out' /\ Permutation out out'.
Proof.
  intros f cx ss H. induction H as [|s ss Hs Hss IH]; intros acc acc' out Hp He.
  - rewrite expand_nil in *. inversion He; subst. eauto.
  - rewrite expand_cons in *. rewrite expand_snode1 in * by assumption.
    rewrite <- (mem_text_perm (stmt_ident s) (names acc) (names acc'))
      by (apply Permutation_map; assumption).
    destruct (mem_text (stmt_ident s) (names acc)); [discriminate|].
    destruct (expand_node f cx s) as [e| |]; cbn [bind] in *; try discriminate.
    apply (IH (acc ++ [e]) (acc' ++ [e]) out); auto. now apply Permutation_app_tail.
Qed.

Lemma names_app : forall a b, names (a ++ b) = names a ++ names b.
Proof. intros. unfold names. apply map_app. Qed.

(** ... and so does permuting the statements *)
Lemma expand_nodes_perm : forall f cx ss ss', Permutation ss ss' ->
  Forall (fun s => is_snode s = true) ss ->
  forall acc acc' out, Permutation acc acc' -> expand (S f) cx acc ss = Ok out ->
  exists out', expand (S f) cx acc' ss' = Ok out' /\ Permutation out out'.
Proof.
  intros f cx ss ss' H. induction H as [|x l l' Hp IH|x y l|l l' l'' H1 IH1 H2 IH2];
    intros Hn acc acc' out Pa He.
  - rewrite expand_nil in *. inversion He; subst. eauto.
  - inversion Hn as [|? ? Hx Hl]; subst.
    rewrite expand_cons in *. rewrite expand_snode1 in * by assumption.
    rewrite <- (mem_text_perm (stmt_ident x) (names acc) (names acc'))
      by (apply Permutation_map; assumption).
    destruct (mem_text (stmt_ident x) (names acc)); [discriminate|].
    destruct (expand_node f cx x) as [e| |]; cbn [bind] in *; try discriminate.
    apply (IH Hl (acc ++ [e]) (acc' ++ [e]) out); auto. now apply Permutation_app_tail.
  - inversion Hn as [|? ? Hy Hn']; subst. inversion Hn' as [|? ? Hx Hl]; subst.
    rewrite (expand_cons f cx acc y) in He. rewrite (expand_cons f cx acc' x).
    rewrite (expand_snode1 f cx acc y Hy) in He. rewrite (expand_snode1 f cx acc' x Hx).
    assert (Pn : Permutation (names acc) (names acc')) by (apply Permutation_map; assumption).
    destruct (mem_text (stmt_ident y) (names acc)) eqn:My; [discriminate|].
    destruct (expand_node f cx y) as [ey| |] eqn:Ey; cbn [bind] in He; try discriminate.
    rewrite (expand_cons f cx (acc ++ [ey]) x) in He.
    rewrite (expand_snode1 f cx (acc ++ [ey]) x Hx) in He.
    rewrite names_app, mem_text_app in He.
    destruct (mem_text (stmt_ident x) (names acc)) eqn:Mx; [discriminate|].
    cbn [orb names map mem_text existsb] in He.
    destruct (text_eqb (stmt_ident x) (e_name ey)) eqn:Exy; [discriminate|].
    destruct (expand_node f cx x) as [ex| |] eqn:Ex; cbn [bind] in He; try discriminate.
    rewrite <- (mem_text_perm _ _ _ Pn), Mx. cbn [bind].
    rewrite (expand_cons f cx (acc' ++ [ex]) y).
    rewrite (expand_snode1 f cx (acc' ++ [ex]) y Hy).
    rewrite names_app, mem_text_app, <- (mem_text_perm _ _ _ Pn), My.
    cbn [orb names map mem_text existsb].
    assert (Nx : e_name ex = stmt_ident x).
    { destruct x; try discriminate. cbn [expand_node] in Ex.
      destruct (expand f (node_ctx cx k grps) [] (node_kids k kids)); cbn [bind] in Ex;
        try discriminate. inversion Ex; reflexivity. }
    assert (Ny : e_name ey = stmt_ident y).
    { destruct y; try discriminate. cbn [expand_node] in Ey.
      destruct (expand f (node_ctx cx k grps) [] (node_kids k kids)); cbn [bind] in Ey;
        try discriminate. inversion Ey; reflexivity. }
    rewrite Nx, Ey. rewrite Ny in Exy.
    assert (Eyx : text_eqb (stmt_ident y) (stmt_ident x) = false).
    { apply text_eqb_neq. apply text_eqb_neq in Exy. congruence. }
    rewrite Eyx. cbn [orb bind].
    eapply (expand_nodes_acc_perm f cx l Hl); [|exact He].
    rewrite <- !app_assoc. cbn [app]. apply Permutation_app; auto. apply perm_swap.
  - destruct (IH1 Hn acc acc' out Pa He) as [out1 [E1 P1]].
    assert (Hn' : Forall (fun s => is_snode s = true) l') by (eapply Permutation_Forall; eauto).
    destruct (IH2 Hn' acc' acc' out1 (Permutation_refl _) E1) as [out2 [E2 P2]].
    exists out2. split; auto. eapply Permutation_trans; eauto.
Qed.

Lemma is_case_is_snode : forall s, is_case_stmt s = true -> is_snode s = true.
Proof. intros [[] ? ? ? ? ?| | |] H; try discriminate; reflexivity. Qed.

(** * the pieces of expandUses on related inputs *)
Lemma refine_node_rel : forall r, frel (refine_node r) (refine_node r).
Proof.
  intros r e e1 e2 _ He H. destruct e as [k n p ks kids].
  inversion He as [? ? ? ? ? kids1 kids' HF HP]; subst.
  unfold refine_node in *.
  match type of H with (if ?c then _ else _) = _ => destruct c end; try discriminate.
  inversion H; subst. eexists. split; [reflexivity|]. econstructor; eauto.
Qed.

Lemma apply_refines_rel : forall refs a acc acc' out, lrel a acc acc' ->
  ewf_list a [] acc = true -> apply_refines refs acc = Ok out ->
  exists out', apply_refines refs acc' = Ok out' /\ lrel a out out'.
Proof.
  induction refs as [|r tl IH]; intros a acc acc' out Hl Hw H.
  - inversion H; subst. exists acc'. split; auto.
  - cbn [apply_refines] in *.
    destruct (update_at (r_path r) (refine_node r) acc) as [acc1| |] eqn:Eu; cbn [bind] in H;
      try discriminate.
    destruct (update_at_rel _ _ _ (refine_node_rel r) _ _ _ _ Hl Hw Eu) as [acc1' [Eu' Hr]].
    rewrite Eu'. cbn [bind]. eapply IH; eauto.
    apply (update_at_ewf (r_path r) (refine_node r)) with (l := acc) (n := 0) (seen := []) (a := a)
                                                         (l' := acc1); auto.
    + intros e e' He. apply refine_node_shape in He. tauto.
    + intros e e' Hwe He. apply refine_node_shape in He. destruct He as [_ [Hk [Hkids _]]].
      rewrite (ewf_node_kids e e'); auto.
Qed.

(** what the recursive calls of [expand] do on related inputs (induction hypothesis on fuel) *)
Definition rec_rel (rec rec' : list enode -> list stmt -> outcome (list enode)) : Prop :=
  forall ss ss' acc acc' a out,
    Forall2 sperm ss ss' -> lrel a acc acc' ->
    (negb a || forallb is_case_stmt ss) = true -> ewf_list a [] acc = true ->
    rec acc ss = Ok out ->
    exists out', rec' acc' ss' = Ok out' /\ lrel a out out'.

Lemma expand_into_rel : forall rec rec' body body', rec_rel rec rec' ->
  Forall2 sperm body body' ->
  frel (fun t => expand_into rec t body) (fun t => expand_into rec' t body').
Proof.
  intros rec rec' body body' Hrec Hb t t1 t2 Hw Ht H. cbv beta in *.
  destruct t as [k n p ks kids]. destruct (eperm_inv _ _ _ _ _ _ Ht) as [kids1 [-> Hk]].
  rewrite ewf_node_unfold in Hw. unfold expand_into in *.
  destruct k; try discriminate;
  match type of H with bind ?o _ = _ => destruct o as [kids2| |] eqn:E; cbn [bind] in H;
                                          try discriminate end;
  inversion H; subst t2;
  (eapply Hrec in E; [| | exact Hk | | exact Hw]);
  try (destruct E as [kids2' [E' Hr]]; rewrite E'; cbn [bind]; eexists;
       split; [reflexivity|now apply eperm_lrel]);
  try exact Hb; try reflexivity.
  - eapply Forall2_map2; [|exact Hb]. apply wrap_case_sperm.
  - cbn [is_choice negb orb]. apply forallb_wrap_case.
Qed.

Lemma apply_uses_augs_rel : forall rec rec', rec_rel rec rec' -> rec_ewf rec ->
  forall augs augs', Forall2 sperm augs augs' ->
  forall acc acc' out, lrel false acc acc' -> ewf_list false [] acc = true ->
  apply_uses_augs rec acc augs = Ok out ->
  exists out', apply_uses_augs rec' acc' augs' = Ok out' /\ lrel false out out'.
Proof.
  intros rec rec' Hrec Hewf augs augs' Ha.
  induction Ha as [|s s' tl tl' Hs Ht IH]; intros acc acc' out Hl Hw H.
  - inversion H; subst. exists acc'. split; auto.
  - cbn [apply_uses_augs] in *. fold (apply_uses_augs rec) in *. fold (apply_uses_augs rec').
    inversion Hs; subst; try discriminate.
    match type of H with bind ?o _ = _ => destruct o as [acc1| |] eqn:Eu; cbn [bind] in H;
                                            try discriminate end.
    destruct (update_at_rel path _ _ (expand_into_rel rec rec' body body' Hrec H0)
                _ _ _ _ Hl Hw Eu) as [acc1' [Eu' Hr]].
    rewrite Eu'. cbn [bind]. eapply IH; eauto.
    apply (update_at_ewf path (fun t => expand_into rec t body)) with
      (l := acc) (n := 0) (seen := []) (a := false) (l' := acc1); auto.
    + intros e e' He. exact (expand_into_shape _ _ _ _ He).
    + intros e e' Hwe He. exact (expand_into_ewf rec Hewf _ _ _ Hwe He).
Qed.

Lemma crel_node_ctx : forall cx cx' k grps grps', crel cx cx' -> Forall2 sperm grps grps' ->
  crel (node_ctx cx k grps) (node_ctx cx' k grps').
Proof.
  intros cx cx' k grps grps' [H1 H2] Hg. unfold node_ctx. destruct (has_grps k); [|split; auto].
  split; cbn [c_scopes c_mod]; auto.
Qed.

Lemma expand_node_rel : forall f,
  (forall cx cx', crel cx cx' -> rec_rel (expand f cx) (expand f cx')) ->
  forall cx cx' s s' e, crel cx cx' -> sperm s s' -> expand_node f cx s = Ok e ->
  exists e', expand_node f cx' s' = Ok e' /\ eperm e e'.
Proof.
  intros f IHf cx cx' s s' e Hc Hs H.
  inversion Hs as [k n p keys grps grps' kids kids1 kids' Hg Hk Hp| | |]; subst;
    try discriminate.
  cbn [expand_node] in *.
  destruct (expand f (node_ctx cx k grps) [] (node_kids k kids)) as [ks| |] eqn:E;
    cbn [bind] in H; try discriminate.
  inversion H; subst e.
  assert (E1 : exists ks1, expand f (node_ctx cx' k grps') [] (node_kids k kids1) = Ok ks1 /\
                           lrel (is_choice k) ks ks1).
  { eapply (IHf _ _ (crel_node_ctx cx cx' k grps grps' Hc Hg)); [| | | |exact E].
    - unfold node_kids. destruct k; try exact Hk.
      eapply Forall2_map2; [|exact Hk]. apply wrap_case_sperm.
    - apply lrel_nil.
    - destruct k; try reflexivity. cbn [is_choice negb orb node_kids]. apply forallb_wrap_case.
    - reflexivity. }
  destruct E1 as [ks1 [E1 R1]].
  destruct (is_choice k) eqn:Ck.
  - destruct k; try discriminate. cbn [node_kids] in *.
    destruct f as [|f']; [discriminate|].
    destruct (expand_nodes_perm f' (node_ctx cx' KChoice grps') (map wrap_case kids1)
                (map wrap_case kids') (Permutation_map _ Hp)) with
      (acc := @nil enode) (acc' := @nil enode) (out := ks1) as [ks' [E' P']]; auto.
    + apply Forall_forall. intros x Hx. apply in_map_iff in Hx. destruct Hx as [y [<- _]].
      apply is_case_is_snode, wrap_case_is_case.
    + rewrite E'. cbn [bind]. eexists. split; [reflexivity|].
      apply eperm_lrel. cbn [is_choice]. eapply lrel_perm_r; eauto.
  - subst kids'. rewrite E1. cbn [bind]. eexists. split; [reflexivity|].
    apply eperm_lrel. now rewrite Ck.
Qed.

(** * the expansion of related sources in related contexts gives related trees *)
Lemma expand_rel : forall f cx cx', crel cx cx' -> rec_rel (expand f cx) (expand f cx').
Proof.
  induction f as [|f IHf]; intros cx cx' Hc; [intros ss ss' acc acc' a out _ _ _ _ H; discriminate|].
  intros ss ss' acc acc' a out Hss. revert acc acc' out.
  induction Hss as [|s s' rest rest' Hs Hrest IHss]; intros acc acc' out Hl Hcase Hw H.
  - rewrite expand_nil in *. inversion H; subst. exists acc'. split; auto.
  - rewrite expand_cons in H. rewrite expand_cons.
    destruct (expand (S f) cx acc [s]) as [acc1| |] eqn:H1; cbn [bind] in H; try discriminate.
    cbn [forallb] in Hcase.
    assert (Hrest' : (negb a || forallb is_case_stmt rest) = true).
    { destruct a; [|reflexivity]. cbn [negb orb] in *. apply andb_true_iff in Hcase. tauto. }
    assert (Hone : (negb a || forallb is_case_stmt [s]) = true).
    { destruct a; [|reflexivity]. cbn [negb orb forallb] in *. apply andb_true_iff in Hcase.
      destruct Hcase as [-> _]. reflexivity. }
    assert (Hw1 : ewf_list a [] acc1 = true).
    { apply (expand_rec_ewf (S f) cx [s] acc 0 a acc1); auto. }
    assert (Hstep : exists acc1', expand (S f) cx' acc' [s'] = Ok acc1' /\ lrel a acc1 acc1').
    { inversion Hs as [k n p keys grps grps' kids kids1 kids' Hg Hk Hp
                      |pfx g w refs augs augs' Ha| |]; subst.
      - rewrite expand_snode1 in * by reflexivity. cbn [stmt_ident] in *.
        rewrite (lrel_mem a acc acc' n Hl).
        destruct (mem_text n (names acc)); [discriminate|].
        destruct (expand_node f cx (SNode k n p keys grps kids)) as [e| |] eqn:En;
          cbn [bind] in H1; try discriminate.
        inversion H1; subst acc1.
        destruct (expand_node_rel f IHf cx cx' _ _ e Hc Hs En) as [e' [En' He]].
        rewrite En'. cbn [bind]. eexists. split; [reflexivity|]. now apply lrel_snoc.
      - destruct a; [cbn [negb orb forallb is_case_stmt andb] in Hone; discriminate|].
        rewrite expand_uses1 in *.
        pose proof (find_grouping_rel cx cx' pfx g Hc) as Hg.
        destruct (find_grouping cx pfx g) as [[body cg]|],
                 (find_grouping cx' pfx g) as [[body' cg']|]; try contradiction; try discriminate.
        destruct Hg as [Hb Hcg].
        destruct (expand f cg acc (map (set_when w) body)) as [a1| |] eqn:E1; cbn [bind] in H1;
          try discriminate.
        destruct (apply_refines refs a1) as [a2| |] eqn:E2; cbn [bind] in H1; try discriminate.
        assert (Hwa1 : ewf_list false [] a1 = true).
        { apply (expand_rec_ewf f cg (map (set_when w) body) acc 0 false a1); auto. }
        assert (Hwa2 : ewf_list false [] a2 = true).
        { apply (apply_refines_ewf refs a1 0 false [] a2); auto. }
        eapply (IHf cg cg' Hcg) in E1; [| |exact Hl|reflexivity|exact Hw].
        2:{ eapply Forall2_map2; [|exact Hb]. apply set_when_sperm. }
        destruct E1 as [a1' [E1' R1]]. rewrite E1'. cbn [bind].
        destruct (apply_refines_rel refs false a1 a1' a2 R1 Hwa1 E2) as [a2' [E2' R2]].
        rewrite E2'. cbn [bind].
        eapply (apply_uses_augs_rel (expand f cx) (expand f cx')); eauto.
        apply expand_rec_ewf.
      - rewrite expand_other1 in H1; [discriminate|exact I].
      - rewrite expand_other1 in H1; [discriminate|exact I]. }
    destruct Hstep as [acc1' [E1' R1]]. rewrite E1'. cbn [bind].
    apply (IHss acc1 acc1' out R1 Hrest' Hw1 H).
Qed.

(** * module level *)
Lemma add_all_rel : forall nodes nodes', Forall2 eperm nodes nodes' ->
  forall a acc acc' r, lrel a acc acc' -> add_all acc nodes = Ok r ->
  exists r', add_all acc' nodes' = Ok r' /\ lrel a r r'.
Proof.
  intros nodes nodes' H. induction H as [|e e' tl tl' He Ht IH]; intros a acc acc' r Hl Ha.
  - inversion Ha; subst. exists acc'. split; auto.
  - cbn [add_all] in *. rewrite (eperm_name _ _ He), (lrel_mem a acc acc' _ Hl).
    destruct (mem_text (e_name e) (names acc)); [discriminate|].
    eapply IH; [|exact Ha]. now apply lrel_snoc.
Qed.

Lemma ewrap_case_eperm : forall e e', eperm e e' -> eperm (ewrap_case e) (ewrap_case e').
Proof.
  intros e e' H. unfold ewrap_case. rewrite (eperm_kind _ _ H), (eperm_name _ _ H).
  destruct (e_kind e); try exact H;
  apply eperm_lrel; cbn [is_choice]; apply lrel_false; constructor; auto.
Qed.

Lemma graft_rel : forall nodes nodes', Forall2 eperm nodes nodes' ->
  frel (graft nodes) (graft nodes').
Proof.
  intros nodes nodes' Hn t t1 t2 _ Ht H.
  destruct t as [k n p ks kids]. destruct (eperm_inv _ _ _ _ _ _ Ht) as [kids1 [-> Hk]].
  unfold graft in *.
  destruct k; try discriminate;
  match type of H with bind ?o _ = _ => destruct o as [kids2| |] eqn:E; cbn [bind] in H;
                                          try discriminate end;
  inversion H; subst t2;
  (eapply add_all_rel in E; [| |exact Hk]);
  try (destruct E as [kids2' [E' Hr]]; rewrite E'; cbn [bind]; eexists;
       split; [reflexivity|now apply eperm_lrel]);
  try exact Hn.
  eapply Forall2_map2; [|exact Hn]. apply ewrap_case_eperm.
Qed.

Lemma apply_augments_rel : forall fuel cx cx', crel cx cx' ->
  forall augs augs', Forall2 sperm augs augs' ->
  forall t t' out, lrel false t t' -> ewf_list false [] t = true ->
  apply_augments fuel cx augs t = Ok out ->
  exists out', apply_augments fuel cx' augs' t' = Ok out' /\ lrel false out out'.
Proof.
  intros fuel cx cx' Hc augs augs' Ha.
  induction Ha as [|s s' tl tl' Hs Ht IH]; intros t t' out Hl Hw H.
  - inversion H; subst. exists t'. split; auto.
  - cbn [apply_augments] in *. inversion Hs; subst; try discriminate.
    destruct (expand fuel cx [] body) as [nodes| |] eqn:En; cbn [bind] in H; try discriminate.
    destruct (update_at path (graft nodes) t) as [t1| |] eqn:Eu; cbn [bind] in H; try discriminate.
    pose proof (expand_ewf_proof _ _ [] _ _ eq_refl En) as Hwn.
    eapply (expand_rel fuel cx cx' Hc) in En; [|exact H0|apply (lrel_nil false)|reflexivity|reflexivity].
    destruct En as [nodes' [En' Rn]]. rewrite En'. cbn [bind]. apply lrel_false in Rn.
    destruct (update_at_rel path _ _ (graft_rel nodes nodes' Rn) _ _ _ _ Hl Hw Eu)
      as [t1' [Eu' R1]].
    rewrite Eu'. cbn [bind]. eapply IH; eauto.
    apply (update_at_ewf path (graft nodes)) with (l := t) (n := 0) (seen := []) (a := false)
                                                  (l' := t1); auto.
    + intros e e' He. exact (graft_shape _ _ _ He).
    + intros e e' Hwe He. exact (graft_ewf _ _ _ Hwn Hwe He).
Qed.

Definition mrel (m m' : module) : Prop :=
  m_name m = m_name m' /\ m_prefix m = m_prefix m' /\
  Forall2 sperm (m_grps m) (m_grps m') /\ Forall2 sperm (m_body m) (m_body m') /\
  Forall2 sperm (m_augs m) (m_augs m').

(** module sets equal up to the order of the members of their choices *)
Definition msrel (ms ms' : modset) : Prop :=
  mrel (ms_main ms) (ms_main ms') /\ Forall2 mrel (ms_subs ms) (ms_subs ms') /\
  Forall2 (fun a b => fst a = fst b /\ mrel (snd a) (snd b)) (ms_imps ms) (ms_imps ms').

Lemma Forall2_flat_map : forall A B (R : A -> A -> Prop) (S : B -> B -> Prop) (f : A -> list B),
  (forall x y, R x y -> Forall2 S (f x) (f y)) ->
  forall l l', Forall2 R l l' -> Forall2 S (flat_map f l) (flat_map f l').
Proof. intros A B R S f H l l' F. induction F; simpl; [constructor|]. apply Forall2_app; auto. Qed.

Lemma top_ctx_rel : forall ms ms', msrel ms ms' -> crel (top_ctx ms) (top_ctx ms').
Proof.
  intros ms ms' [Hm [Hs Hi]].
  assert (Ht : Forall2 sperm (top_frame ms) (top_frame ms')).
  { unfold top_frame. apply Forall2_app; [apply Hm|].
    eapply Forall2_flat_map; [|exact Hs]. intros x y Hxy. apply Hxy. }
  unfold top_ctx, crel. cbn [c_scopes c_mod]. split; [constructor; auto|].
  unfold modenv_of. destruct Hm as [_ [Hp _]]. rewrite Hp. constructor; auto.
  eapply Forall2_map2; [|exact Hi]. intros [k m] [k' m'] [Hk Hmm]. cbn [fst snd] in *.
  split; auto. destruct Hmm as [_ [Hp' [Hg _]]]. rewrite Hp'. constructor; auto.
Qed.

Lemma expand_modset_rel : forall fuel ms ms' t, msrel ms ms' ->
  expand_modset fuel ms = Ok t ->
  exists t', expand_modset fuel ms' = Ok t' /\ Forall2 eperm t t'.
Proof.
  intros fuel ms ms' t Hms H. unfold expand_modset in *.
  pose proof (top_ctx_rel ms ms' Hms) as Hc. destruct Hms as [Hm [Hs Hi]].
  assert (Hb : Forall2 sperm (all_body ms) (all_body ms')).
  { unfold all_body. apply Forall2_app; [apply Hm|].
    eapply Forall2_flat_map; [|exact Hs]. intros x y Hxy. apply Hxy. }
  assert (Ha : Forall2 sperm (all_augs ms) (all_augs ms')).
  { unfold all_augs. apply Forall2_app; [apply Hm|].
    eapply Forall2_flat_map; [|exact Hs]. intros x y Hxy. apply Hxy. }
  destruct (expand fuel (top_ctx ms) [] (all_body ms)) as [t0| |] eqn:E; cbn [bind] in H;
    try discriminate.
  pose proof (expand_ewf_proof _ _ [] _ _ eq_refl E) as Hw0.
  eapply (expand_rel fuel _ _ Hc) in E; [|exact Hb|apply (lrel_nil false)|reflexivity|reflexivity].
  destruct E as [t0' [E' R0]]. rewrite E'. cbn [bind].
  eapply (apply_augments_rel fuel _ _ Hc) in H; [|exact Ha|exact R0|exact Hw0].
  destruct H as [t' [H' R]]. exists t'. split; auto. now apply lrel_false.
Qed.

(** * config inheritance *)
Lemma existsb_key_rel : forall key l l', Forall2 eperm l l' ->
  existsb (fun c => text_eqb (e_name c) key && leafable (e_kind c)) l' =
  existsb (fun c => text_eqb (e_name c) key && leafable (e_kind c)) l.
Proof.
  intros key l l' H. induction H; [reflexivity|]. simpl.
  now rewrite (eperm_name _ _ H), (eperm_kind _ _ H), IHForall2.
Qed.

Lemma keys_ok_rel : forall k ks kids kids', lrel (is_choice k) kids kids' ->
  keys_ok k ks kids' = keys_ok k ks kids.
Proof.
  intros k ks kids kids' H. destruct k; try reflexivity. cbn [is_choice] in H.
  apply lrel_false in H. unfold keys_ok. induction ks as [|key tl IH]; [reflexivity|].
  cbn [forallb]. now rewrite (existsb_key_rel key _ _ H), IH.
Qed.

Lemma existsb_perm : forall A (f : A -> bool) l l', Permutation l l' ->
  existsb f l = existsb f l'.
Proof.
  intros A f l l' H. induction H; simpl; auto.
  - now rewrite IHPermutation.
  - destruct (f x), (f y); reflexivity.
  - congruence.
Qed.

Lemma existsb_op_rel : forall l l', Forall2 eperm l l' ->
  existsb (fun c => is_op (e_kind c)) l' = existsb (fun c => is_op (e_kind c)) l.
Proof.
  intros l l' H. induction H; [reflexivity|]. simpl. now rewrite (eperm_kind _ _ H), IHForall2.
Qed.

Lemma members_ok_rel : forall k kids kids', lrel (is_choice k) kids kids' ->
  members_ok k kids' = members_ok k kids.
Proof.
  intros k kids kids' [l1 [H1 H2]]. unfold members_ok. f_equal. f_equal.
  rewrite <- (existsb_op_rel _ _ H1).
  destruct (is_choice k); [|now subst]. symmetry. now apply existsb_perm.
Qed.

Lemma config_kids_perm : forall c l l', Permutation l l' -> forall l2,
  config_kids c l = Some l2 -> exists l2', config_kids c l' = Some l2' /\ Permutation l2 l2'.
Proof.
  intros c l l' H. induction H as [|x l l' Hp IH|x y l|l l' l'' H1 IH1 H2 IH2]; intros l2 Hc.
  - inversion Hc; subst. exists []. auto.
  - cbn [config_kids] in *. destruct (config_node c x) as [x2|]; try discriminate.
    destruct (config_kids c l) as [l3|] eqn:El; try discriminate. inversion Hc; subst.
    destruct (IH l3 eq_refl) as [l3' [El' P]]. rewrite El'. eexists. split; [reflexivity|].
    now constructor.
  - cbn [config_kids] in *. destruct (config_node c y) as [y2|]; try discriminate.
    destruct (config_node c x) as [x2|]; try discriminate.
    destruct (config_kids c l) as [l3|]; try discriminate. inversion Hc; subst.
    eexists. split; [reflexivity|]. apply perm_swap.
  - destruct (IH1 l2 Hc) as [l3 [E3 P3]]. destruct (IH2 l3 E3) as [l4 [E4 P4]].
    exists l4. split; auto. eapply Permutation_trans; eauto.
Qed.

Definition cfg_rel_at (e : enode) : Prop :=
  forall c e' e2, eperm e e' -> config_node c e = Some e2 ->
    exists e2', config_node c e' = Some e2' /\ eperm e2 e2'.

Lemma config_kids_pointwise : forall c l l1, Forall2 eperm l l1 -> Forall cfg_rel_at l ->
  forall l2, config_kids c l = Some l2 ->
  exists l2', config_kids c l1 = Some l2' /\ Forall2 eperm l2 l2'.
Proof.
  intros c l l1 H. induction H as [|x x1 tl tl1 Hx Ht IH]; intros HF l2 Hc.
  - inversion Hc; subst. exists []. split; [reflexivity|constructor].
  - inversion HF as [|? ? Hfx Hft]; subst. cbn [config_kids] in *.
    destruct (config_node c x) as [x2|] eqn:Ex; try discriminate.
    destruct (config_kids c tl) as [tl2|] eqn:Et; try discriminate. inversion Hc; subst.
    destruct (Hfx c x1 x2 Hx Ex) as [x2' [Ex' Rx]]. destruct (IH Hft tl2 eq_refl) as [tl2' [Et' Rt]].
    rewrite Ex', Et'. eexists. split; [reflexivity|]. constructor; auto.
Qed.

Lemma config_node_rel : forall e, cfg_rel_at e.
Proof.
  induction e using enode_ind2. intros c e' e2 He Hc.
  destruct (eperm_inv _ _ _ _ _ _ He) as [kids' [-> Hk]].
  rewrite config_node_unfold in *.
  destruct (if is_datadef k then eff_config c (p_config p) else Some true) as [c0|];
    try discriminate.
  destruct (config_kids c0 kids) as [kids2|] eqn:Ek; try discriminate.
  rewrite (keys_ok_rel k ks kids kids' Hk), (members_ok_rel k kids kids' Hk).
  destruct (keys_ok k ks kids && members_ok k kids); try discriminate. inversion Hc; subst e2.
  destruct Hk as [kids1 [H1 H2]].
  destruct (config_kids_pointwise c0 kids kids1 H1 H kids2 Ek) as [kids2' [Ek' R2]].
  destruct (is_choice k) eqn:Ck.
  - destruct (config_kids_perm c0 kids1 kids' H2 kids2' Ek') as [kids3 [E3 P3]].
    rewrite E3. eexists. split; [reflexivity|]. apply eperm_lrel. rewrite Ck.
    exists kids2'. auto.
  - subst kids'. rewrite Ek'. eexists. split; [reflexivity|]. apply eperm_lrel. rewrite Ck.
    exists kids2'. auto.
Qed.

Lemma config_kids_rel : forall c l l', Forall2 eperm l l' -> forall l2,
  config_kids c l = Some l2 -> exists l2', config_kids c l' = Some l2' /\ Forall2 eperm l2 l2'.
Proof.
  intros c l l' H l2 Hc. eapply config_kids_pointwise; eauto.
  apply Forall_forall. intros x _. apply config_node_rel.
Qed.

(** * [ewf_list] in terms of [uniq]: invariant under permutation and name/kind preserving maps *)
Definition node_ok (a : bool) (e : enode) : bool :=
  (negb a || kind_eqb (e_kind e) KCase) && ewf_node e.

Lemma ewf_list_elim : forall a l seen, ewf_list a seen l = true -> forallb (node_ok a) l = true.
Proof.
  induction l as [|x tl IH]; intros seen H; [reflexivity|].
  cbn [ewf_list forallb] in *. rewrite !andb_true_iff in H. destruct H as [[[_ H2] H3] H4].
  unfold node_ok at 1. rewrite H2, H3. cbn [andb]. eapply IH; eauto.
Qed.

Lemma ewf_list_intro : forall a l seen, uniq l ->
  (forall seg, mem_text seg seen = true -> cnt seg l = 0) ->
  forallb (node_ok a) l = true -> ewf_list a seen l = true.
Proof.
  induction l as [|x tl IH]; intros seen U Z F; [reflexivity|].
  cbn [ewf_list forallb] in *. apply andb_true_iff in F. destruct F as [Fx Ft].
  unfold node_ok in Fx. apply andb_true_iff in Fx. destruct Fx as [F1 F2]. rewrite F1, F2.
  assert (Hm : mem_text (e_name x) seen = false).
  { destruct (mem_text (e_name x) seen) eqn:E; [|reflexivity].
    apply Z in E. rewrite cnt_cons, text_eqb_refl in E. discriminate. }
  rewrite Hm. cbn [negb andb]. apply IH; auto.
  - eapply uniq_tail; eauto.
  - intros seg Hs. rewrite mem_text_app in Hs. apply orb_true_iff in Hs. destruct Hs as [Hs|Hs].
    + apply Z in Hs. rewrite cnt_cons in Hs. lia.
    + cbn [mem_text existsb] in Hs. rewrite orb_false_r in Hs. apply text_eqb_eq in Hs. subst seg.
      specialize (U (e_name x)). rewrite cnt_cons, text_eqb_refl in U. lia.
Qed.

Lemma forallb_perm : forall A (f : A -> bool) l l', Permutation l l' ->
  forallb f l = forallb f l'.
Proof.
  intros A f l l' H. induction H; simpl; auto.
  - now rewrite IHPermutation.
  - destruct (f x), (f y); reflexivity.
  - congruence.
Qed.

Lemma ewf_list_perm : forall a l l', Permutation l l' -> ewf_list a [] l = true ->
  ewf_list a [] l' = true.
Proof.
  intros a l l' P H. apply ewf_list_intro.
  - eapply uniq_perm; eauto. eapply ewf_list_uniq; eauto.
  - intros seg Hs. discriminate.
  - rewrite <- (forallb_perm _ _ _ _ P). eapply ewf_list_elim; eauto.
Qed.

Lemma insert_perm : forall x l, Permutation (x :: l) (insert_by_name x l).
Proof.
  induction l as [|y tl IH]; [simpl; auto|]. cbn [insert_by_name].
  destruct (text_leb (e_name x) (e_name y)); auto.
  eapply Permutation_trans; [apply perm_swap|]. now constructor.
Qed.

Lemma sort_is_perm : forall l, Permutation l (sort_by_name l).
Proof.
  induction l as [|x tl IH]; [constructor|]. cbn [sort_by_name fold_right].
  eapply Permutation_trans; [|apply insert_perm]. now constructor.
Qed.

(** a name- and kind-preserving map that keeps [ewf_node] keeps [ewf_list] *)
Lemma ewf_list_map : forall (g : enode -> enode) a l seen,
  (forall e, e_name (g e) = e_name e) -> (forall e, e_kind (g e) = e_kind e) ->
  Forall (fun e => ewf_node e = true -> ewf_node (g e) = true) l ->
  ewf_list a seen l = true -> ewf_list a seen (map g l) = true.
Proof.
  intros g a l. induction l as [|x tl IH]; intros seen Hn Hk HF H; [reflexivity|].
  inversion HF as [|? ? Hx Ht]; subst.
  cbn [map ewf_list] in *. rewrite Hn, Hk. rewrite !andb_true_iff in H.
  destruct H as [[[H1 H2] H3] H4]. rewrite H1, H2, (Hx H3). cbn [andb]. apply IH; auto.
Qed.

(** [by_class] only reorders *)
Lemma by_class_split : forall l,
  Permutation l (filter (fun e => negb (is_op (e_kind e))) l ++
                 filter (fun e => kind_eqb (e_kind e) KAction) l ++
                 filter (fun e => kind_eqb (e_kind e) KNotif) l).
Proof.
  induction l as [|x tl IH]; [constructor|].
  cbn [filter]. destruct (e_kind x); cbn [is_op negb kind_eqb app]; try (now constructor).
  - now apply Permutation_cons_app.
  - rewrite app_assoc. apply Permutation_cons_app. now rewrite <- app_assoc.
Qed.

Lemma by_class_perm : forall l, Permutation l (by_class l).
Proof.
  intro l. eapply Permutation_trans; [apply by_class_split|]. unfold by_class.
  apply Permutation_app_head. apply Permutation_app; apply sort_is_perm.
Qed.

Lemma norm_name : forall e, e_name (norm e) = e_name e. Proof. intros []; reflexivity. Qed.
Lemma norm_kind : forall e, e_kind (norm e) = e_kind e. Proof. intros []; reflexivity. Qed.
Lemma canon_name : forall e, e_name (canon e) = e_name e. Proof. intros []; reflexivity. Qed.
Lemma canon_kind : forall e, e_kind (canon e) = e_kind e. Proof. intros []; reflexivity. Qed.

Lemma norm_ewf : forall e, ewf_node e = true -> ewf_node (norm e) = true.
Proof.
  induction e using enode_ind2. cbn [norm]. rewrite !ewf_node_unfold.
  apply ewf_list_map; auto using norm_name, norm_kind.
Qed.

Lemma canon_ewf : forall e, ewf_node e = true -> ewf_node (canon e) = true.
Proof.
  induction e using enode_ind2. cbn [canon]. rewrite !ewf_node_unfold. intro Hw.
  assert (Hm : ewf_list (is_choice k) [] (map canon kids) = true)
    by (apply ewf_list_map; auto using canon_name, canon_kind).
  destruct k; cbn [is_choice] in *; (eapply ewf_list_perm; [|exact Hm]);
    first [apply sort_is_perm | apply by_class_perm].
Qed.

(** config_node keeps names, kinds and the invariant *)
Lemma config_kids_names : forall c l l2, config_kids c l = Some l2 ->
  Forall2 (fun x y => forall x2, config_node c x = Some x2 -> x2 = y) l l2.
Proof.
  induction l as [|x tl IH]; intros l2 H.
  - inversion H; constructor.
  - cbn [config_kids] in H. destruct (config_node c x) as [x2|] eqn:Ex; try discriminate.
    destruct (config_kids c tl) as [tl2|] eqn:Et; try discriminate. inversion H; subst.
    constructor; auto. intros y Hy. congruence.
Qed.

Definition cfg_ewf_at (e : enode) : Prop :=
  forall c e2, config_node c e = Some e2 ->
    e_name e2 = e_name e /\ e_kind e2 = e_kind e /\ (ewf_node e = true -> ewf_node e2 = true).

Lemma config_kids_ewf_gen : forall c a l, Forall cfg_ewf_at l -> forall seen l2,
  config_kids c l = Some l2 -> ewf_list a seen l = true -> ewf_list a seen l2 = true.
Proof.
  intros c a l HF. induction HF as [|x tl Hx Ht IH]; intros seen l2 Hc Hw.
  - inversion Hc; subst. reflexivity.
  - cbn [config_kids] in Hc. destruct (config_node c x) as [x2|] eqn:Ex; try discriminate.
    destruct (config_kids c tl) as [tl2|] eqn:Et; try discriminate. inversion Hc; subst.
    destruct (Hx c x2 Ex) as [Hn [Hk He]].
    cbn [ewf_list] in *. rewrite Hn, Hk. rewrite !andb_true_iff in Hw.
    destruct Hw as [[[H1 H2] H3] H4]. rewrite H1, H2, (He H3). cbn [andb]. apply IH; auto.
Qed.

Lemma config_node_ewf : forall e, cfg_ewf_at e.
Proof.
  induction e using enode_ind2. intros c e2 Hc. rewrite config_node_unfold in Hc.
  destruct (if is_datadef k then eff_config c (p_config p) else Some true) as [c0|];
    try discriminate.
  destruct (config_kids c0 kids) as [kids2|] eqn:Ek; try discriminate.
  destruct (keys_ok k ks kids && members_ok k kids); try discriminate. inversion Hc; subst e2.
  repeat split. rewrite !ewf_node_unfold. eapply config_kids_ewf_gen; eauto.
Qed.

Lemma config_kids_ewf : forall c a l seen l2,
  config_kids c l = Some l2 -> ewf_list a seen l = true -> ewf_list a seen l2 = true.
Proof.
  intros c a l seen l2. apply config_kids_ewf_gen.
  apply Forall_forall. intros x _. apply config_node_ewf.
Qed.

(** ** every successful compile output satisfies [ewf_list] *)
Lemma compile_modset_ewf_proof : forall fuel ms t,
  compile_modset fuel ms = Ok t -> ewf_list false [] t = true.
Proof.
  intros fuel ms t H. unfold compile_modset in H.
  destruct (expand_modset fuel ms) as [t0| |] eqn:E; cbn [bind] in H; try discriminate.
  apply expand_modset_ewf_proof in E.
  destruct (config_kids true t0) as [t1|] eqn:Ec; try discriminate. inversion H; subst t.
  apply (config_kids_ewf _ _ _ _ _ Ec) in E.
  eapply ewf_list_perm; [apply by_class_perm|].
  apply ewf_list_map; auto.
  - intro e. now rewrite norm_name, canon_name.
  - intro e. now rewrite norm_kind, canon_kind.
  - apply Forall_forall. intros x _ Hx. now apply norm_ewf, canon_ewf.
Qed.

(** * [canon] identifies related well-formed trees *)
Lemma canon_eperm : forall e e', eperm e e' -> ewf_node e = true -> canon e = canon e'.
Proof.
  induction e using enode_ind2. intros e' He Hw.
  inversion He as [? ? ? ? ? kids1 kids' HF HP]; subst. rewrite ewf_node_unfold in Hw.
  assert (Hm : map canon kids = map canon kids1).
  { pose proof (ewf_list_forallb _ _ _ Hw) as Hk. clear - H HF Hk.
    induction HF as [|x x1 tl tl1 Hx Ht IH]; [reflexivity|].
    inversion H as [|? ? Hx' Ht']; subst. cbn [forallb] in Hk. apply andb_true_iff in Hk.
    destruct Hk as [Hk1 Hk2]. cbn [map]. f_equal; auto. }
  cbn [canon]. rewrite Hm. destruct k; cbn [is_choice] in *; subst; try reflexivity.
  f_equal. apply sort_perm; [now apply Permutation_map|].
  rewrite <- Hm. eapply uniq_names; [|eapply ewf_list_uniq; exact Hw].
  unfold names. rewrite map_map. apply map_ext. intro. now rewrite canon_name.
Qed.

(** ** compile_deterministic: permuting the cases of any choices of the source does not change
    a successful compilation *)
Lemma compile_deterministic_proof : forall fuel ms ms' t, msrel ms ms' ->
  compile_modset fuel ms = Ok t -> compile_modset fuel ms' = Ok t.
Proof.
  intros fuel ms ms' t Hms H. unfold compile_modset in *.
  destruct (expand_modset fuel ms) as [t0| |] eqn:E; cbn [bind] in H; try discriminate.
  pose proof (expand_modset_ewf_proof _ _ _ E) as Hw0.
  destruct (expand_modset_rel fuel ms ms' t0 Hms E) as [t0' [E' R0]].
  rewrite E'. cbn [bind].
  destruct (config_kids true t0) as [t1|] eqn:Ec; try discriminate. inversion H; subst t.
  pose proof (config_kids_ewf _ _ _ _ _ Ec Hw0) as Hw1.
  destruct (config_kids_rel true t0 t0' R0 t1 Ec) as [t1' [Ec' R1]].
  rewrite Ec'. do 2 f_equal. apply ewf_list_forallb in Hw1. clear - R1 Hw1.
  induction R1 as [|x x' tl tl' Hx Ht IH]; [reflexivity|].
  cbn [forallb] in Hw1. apply andb_true_iff in Hw1. destruct Hw1 as [H1 H2].
  cbn [map]. rewrite (canon_eperm x x' Hx H1), (IH H2). reflexivity.
Qed.

(** * [sperm] / [msrel] are reflexive and symmetric *)
Fixpoint stmt_ind2 (P : stmt -> Prop)
  (Hn : forall k n p keys grps kids, Forall P grps -> Forall P kids ->
        P (SNode k n p keys grps kids))
  (Hu : forall pfx g w refs augs, Forall P augs -> P (SUses pfx g w refs augs))
  (Hg : forall n grps body, Forall P grps -> Forall P body -> P (SGrouping n grps body))
  (Ha : forall path w body, Forall P body -> P (SAugment path w body))
  (s : stmt) {struct s} : P s :=
  let go := (fix go (l : list stmt) : Forall P l :=
               match l with
               | [] => Forall_nil P
               | x :: tl => Forall_cons x (stmt_ind2 P Hn Hu Hg Ha x) (go tl)
               end) in
  match s with
  | SNode k n p keys grps kids => Hn k n p keys grps kids (go grps) (go kids)
  | SUses pfx g w refs augs => Hu pfx g w refs augs (go augs)
  | SGrouping n grps body => Hg n grps body (go grps) (go body)
  | SAugment path w body => Ha path w body (go body)
  end.

Lemma Forall2_refl_forall : forall A (R : A -> A -> Prop) l, Forall (fun x => R x x) l ->
  Forall2 R l l.
Proof. intros A R l H. induction H; constructor; auto. Qed.

Lemma Forall2_sym_forall : forall A (R : A -> A -> Prop) l l',
  Forall (fun x => forall y, R x y -> R y x) l -> Forall2 R l l' -> Forall2 R l' l.
Proof.
  intros A R l l' HF H. induction H; [constructor|].
  inversion HF; subst. constructor; auto.
Qed.

Lemma sperm_refl : forall s, sperm s s.
Proof.
  induction s using stmt_ind2.
  - apply sp_node with (kids1 := kids); try (apply Forall2_refl_forall; assumption).
    destruct (is_choice k); auto.
  - constructor. now apply Forall2_refl_forall.
  - constructor; now apply Forall2_refl_forall.
  - constructor. now apply Forall2_refl_forall.
Qed.

Lemma Forall2_sperm_refl : forall l, Forall2 sperm l l.
Proof. induction l; constructor; auto using sperm_refl. Qed.

(** the cases of one choice permuted, everything else as written *)
Lemma sperm_choice_perm : forall n p keys grps kids kids', Permutation kids kids' ->
  sperm (SNode KChoice n p keys grps kids) (SNode KChoice n p keys grps kids').
Proof.
  intros. apply sp_node with (kids1 := kids); auto using Forall2_sperm_refl.
Qed.

Lemma sperm_sym : forall s s', sperm s s' -> sperm s' s.
Proof.
  induction s using stmt_ind2; intros s' Hs.
  - inversion Hs as [k0 n0 p0 keys0 grps0 grps' kids0 kids1 kids' Hg0 Hk0 Hp0| | |]; subst.
    pose proof (Forall2_sym_forall _ _ _ _ H Hg0) as Hg.
    pose proof (Forall2_sym_forall _ _ _ _ H0 Hk0) as Hk.
    destruct (is_choice k) eqn:Ck.
    + destruct (Permutation_Forall2 Hp0 Hk) as [kids2 [P2 F2]].
      apply sp_node with (kids1 := kids2); auto. rewrite Ck. now apply Permutation_sym.
    + subst. apply sp_node with (kids1 := kids); auto. now rewrite Ck.
  - inversion Hs as [|? ? ? ? ? augs' Ha0| |]; subst.
    constructor. eapply Forall2_sym_forall; eauto.
  - inversion Hs as [| |? ? grps' ? body' Hg0 Hb0|]; subst.
    constructor; eapply Forall2_sym_forall; eauto.
  - inversion Hs as [| | |? ? ? body' Hb0]; subst.
    constructor. eapply Forall2_sym_forall; eauto.
Qed.

Lemma Forall2_sperm_sym : forall l l', Forall2 sperm l l' -> Forall2 sperm l' l.
Proof. intros l l' H. induction H; constructor; auto using sperm_sym. Qed.

Lemma mrel_refl : forall m, mrel m m.
Proof. intro m. repeat split; apply Forall2_sperm_refl. Qed.

Lemma mrel_sym : forall m m', mrel m m' -> mrel m' m.
Proof.
  intros m m' [H1 [H2 [H3 [H4 H5]]]]. repeat split; auto using Forall2_sperm_sym.
Qed.

Lemma msrel_refl : forall ms, msrel ms ms.
Proof.
  intro ms. split; [apply mrel_refl|]. split.
  - induction (ms_subs ms); constructor; auto using mrel_refl.
  - induction (ms_imps ms); constructor; auto using mrel_refl.
Qed.

Lemma msrel_sym : forall ms ms', msrel ms ms' -> msrel ms' ms.
Proof.
  intros ms ms' [H1 [H2 H3]]. split; [now apply mrel_sym|]. split.
  - induction H2; constructor; auto using mrel_sym.
  - induction H3 as [|a b l l' [Hf Hm] Ht IH]; constructor; auto using mrel_sym.
Qed.

Lemma compile_deterministic_iff_proof : forall fuel ms ms' t, msrel ms ms' ->
  (compile_modset fuel ms = Ok t <-> compile_modset fuel ms' = Ok t).
Proof.
  intros fuel ms ms' t H. split; apply compile_deterministic_proof; auto using msrel_sym.
Qed.

(** equality of the whole outcome as soon as the fuel suffices on both sides *)
Lemma compile_deterministic_fueled_proof : forall fuel ms ms', msrel ms ms' ->
  compile_modset fuel ms <> OutOfFuel -> compile_modset fuel ms' <> OutOfFuel ->
  compile_modset fuel ms' = compile_modset fuel ms.
Proof.
  intros fuel ms ms' H N N'.
  destruct (compile_modset fuel ms) as [t| |] eqn:E.
  - now apply (compile_deterministic_proof fuel ms ms' t H).
  - destruct (compile_modset fuel ms') as [t'| |] eqn:E'; try reflexivity; try contradiction.
    apply (compile_deterministic_proof fuel ms' ms t' (msrel_sym _ _ H)) in E'. congruence.
  - contradiction.
Qed.
