From Coq Require Import List Bool ZArith Arith Lia Strings.Byte.
From YV Require Import Schemac.Ast Schemac.Expand.
From YV Require Import Schemac.Refactor.
Import ListNotations.

(** * unfolding lemmas for [expand] *)

Lemma bind_ok_r : forall A (o : outcome A), bind o (fun a => Ok a) = o.
Proof. destruct o; reflexivity. Qed.

Lemma bind_assoc : forall A B C (o : outcome A) (f : A -> outcome B) (g : B -> outcome C),
  bind (bind o f) g = bind o (fun a => bind (f a) g).
Proof. destruct o; reflexivity. Qed.

Lemma bind_ext : forall A B (o : outcome A) (f g : A -> outcome B),
  (forall a, f a = g a) -> bind o f = bind o g.
Proof. intros. destruct o; simpl; auto. Qed.

Lemma expand_nil : forall f cx acc, expand (S f) cx acc [] = Ok acc.
Proof. reflexivity. Qed.

Lemma expand_cons : forall f cx acc s rest,
  expand (S f) cx acc (s :: rest) =
  bind (expand (S f) cx acc [s]) (fun acc' => expand (S f) cx acc' rest).
Proof.
  intros. cbn [expand]. rewrite bind_assoc. f_equal.
Qed.

Lemma expand_app : forall f cx l1 acc l2,
  expand (S f) cx acc (l1 ++ l2) =
  bind (expand (S f) cx acc l1) (fun acc' => expand (S f) cx acc' l2).
Proof.
  induction l1 as [|s l1 IH]; intros.
  - reflexivity.
  - rewrite <- app_comm_cons. rewrite expand_cons. rewrite (expand_cons f cx acc s l1).
    rewrite bind_assoc. apply bind_ext. intro. apply IH.
Qed.

Definition node_ctx (cx : ctx) (k : kind) (grps : list stmt) : ctx :=
  if has_grps k then mkCtx (grps :: c_scopes cx) (c_mod cx) else cx.
Definition node_kids (k : kind) (kids : list stmt) : list stmt :=
  match k with KChoice => map wrap_case kids | _ => kids end.

Lemma expand_node1 : forall f cx acc k n p keys grps kids,
  expand (S f) cx acc [SNode k n p keys grps kids] =
  if mem_text n (names acc) then Err
  else bind (expand f (node_ctx cx k grps) [] (node_kids k kids))
            (fun ks => Ok (acc ++ [ENode k n p keys ks])).
Proof.
  intros. cbn [expand]. destruct (mem_text n (names acc)); [reflexivity|].
  unfold node_ctx, node_kids. rewrite bind_assoc. apply bind_ext. intro. reflexivity.
Qed.

(** * copies_independent: the sub-tree built for a node does not depend on what was built for
      its earlier siblings (in particular not on the when/refines/augments of a uses under them) *)
Lemma copies_independent_proof : forall f cx acc s1 s1' k n p keys grps kids out out',
  expand (S f) cx acc [s1; SNode k n p keys grps kids] = Ok out ->
  expand (S f) cx acc [s1'; SNode k n p keys grps kids] = Ok out' ->
  exists pre pre' e, out = pre ++ [e] /\ out' = pre' ++ [e].
Proof.
  intros until out'.
  rewrite (expand_cons f cx acc s1 [SNode k n p keys grps kids]).
  rewrite (expand_cons f cx acc s1' [SNode k n p keys grps kids]).
  destruct (expand (S f) cx acc [s1]) as [a1| |]; cbn [bind]; try discriminate.
  destruct (expand (S f) cx acc [s1']) as [a1'| |]; cbn [bind]; try discriminate.
  rewrite !expand_node1.
  destruct (mem_text n (names a1)); try discriminate.
  destruct (mem_text n (names a1')); try discriminate.
  destruct (expand f (node_ctx cx k grps) [] (node_kids k kids)) as [ks| |]; cbn [bind]; try discriminate.
  intros H1 H2. inversion H1; inversion H2. eauto.
Qed.

(** * augment_order_textual *)
Lemma apply_augments_app : forall fuel cx a1 a2 t,
  apply_augments fuel cx (a1 ++ a2) t =
  bind (apply_augments fuel cx a1 t) (apply_augments fuel cx a2).
Proof.
  induction a1 as [|a a1 IH]; intros; [reflexivity|].
  simpl. destruct a; try reflexivity.
  destruct (expand fuel cx [] body); simpl; try reflexivity.
  destruct (update_at path (graft a) t); simpl; try reflexivity.
  apply IH.
Qed.

Lemma add_all_app : forall nodes acc r, add_all acc nodes = Ok r -> r = acc ++ nodes.
Proof.
  induction nodes as [|e tl IH]; simpl; intros.
  - inversion H. now rewrite app_nil_r.
  - destruct (mem_text (e_name e) (names acc)); try discriminate.
    apply IH in H. rewrite H. now rewrite <- app_assoc.
Qed.

(** * config_inherit *)
Lemma config_node_unfold : forall pcfg k n p ks kids,
  config_node pcfg (ENode k n p ks kids) =
  match (if is_datadef k then eff_config pcfg (p_config p) else Some true) with
  | None => None
  | Some c =>
      match config_kids c kids with
      | None => None
      | Some kids' =>
          if keys_ok k ks kids && members_ok k kids
          then Some (ENode k n (if is_datadef k then set_config p c else p) ks kids') else None
      end
  end.
Proof.
  intros. cbn [config_node].
  destruct (if is_datadef k then eff_config pcfg (p_config p) else Some true) as [c|]; [|reflexivity].
  replace ((fix go (l : list enode) : option (list enode) :=
              match l with
              | [] => Some []
              | x :: tl => match config_node c x, go tl with
                           | Some x', Some tl' => Some (x' :: tl')
                           | _, _ => None
                           end
              end) kids) with (config_kids c kids); [reflexivity|].
  induction kids as [|x tl IH]; [reflexivity|]. simpl. rewrite IH. reflexivity.
Qed.

Lemma eff_config_val : forall pcfg st c, eff_config pcfg st = Some c ->
  c = match st with Some b => b | None => pcfg end.
Proof. intros pcfg [[|]|] c; simpl; try destruct pcfg; intros H; inversion H; reflexivity. Qed.

Lemma config_inherit_proof : forall path pcfg l l' c,
  config_kids pcfg l = Some l' ->
  nearest_stated pcfg path l = Some c ->
  match node_at path l' with Some e' => p_config (e_props e') = Some c | None => False end.
Proof.
  induction path as [|seg rest IH]; intros pcfg l l' c Hc Hn; [discriminate|].
  revert l' Hc Hn. induction l as [|x tl IHl]; intros l' Hc Hn; [discriminate|].
  simpl in Hc. destruct (config_node pcfg x) as [x'|] eqn:Hx; try discriminate.
  destruct (config_kids pcfg tl) as [tl'|] eqn:Ht; try discriminate.
  inversion Hc; subst l'; clear Hc.
  destruct x as [k n p ks kids]. rewrite config_node_unfold in Hx.
  destruct (if is_datadef k then eff_config pcfg (p_config p) else Some true) as [c0|] eqn:He;
    try discriminate.
  destruct (config_kids c0 kids) as [kids'|] eqn:Hk; try discriminate.
  destruct (keys_ok k ks kids && members_ok k kids); try discriminate.
  inversion Hx; subst x'; clear Hx.
  cbn [nearest_stated find e_name] in Hn. cbn [node_at find e_name].
  destruct (text_eqb n seg) eqn:Hs.
  - cbn [e_props e_kids e_kind] in *. destruct (is_datadef k) eqn:Hd.
    + apply eff_config_val in He. destruct rest as [|seg2 rest'].
      * inversion Hn; subst. reflexivity.
      * rewrite <- He in Hn. apply (IH c0 kids kids' c Hk Hn).
    + inversion He; subst c0. destruct rest as [|seg2 rest']; [discriminate|].
      apply (IH true kids kids' c Hk Hn).
  - apply (IHl tl' eq_refl). exact Hn.
Qed.

(** * uses_inline *)
Lemma ewf_go_eq : forall k kids seen,
  (fix go (seen : list text) (l : list enode) : bool :=
     match l with
     | [] => true
     | x :: tl =>
         negb (mem_text (e_name x) seen) && (negb (is_choice k) || kind_eqb (e_kind x) KCase) &&
         ewf_node x && go (seen ++ [e_name x]) tl
     end) seen kids = ewf_list (is_choice k) seen kids.
Proof.
  intros k kids. induction kids as [|x tl IH]; intros; [reflexivity|].
  cbn [ewf_list]. rewrite <- IH. reflexivity.
Qed.

Lemma ewf_node_unfold : forall k n p ks kids,
  ewf_node (ENode k n p ks kids) = ewf_list (is_choice k) [] kids.
Proof. intros. cbn [ewf_node]. apply ewf_go_eq. Qed.

Lemma edepth_go_eq : forall kids,
  (fix go (l : list enode) : nat :=
     match l with [] => 0 | x :: tl => Nat.max (edepth x) (go tl) end) kids = ldepth kids.
Proof. induction kids as [|x tl IH]; [reflexivity|]. cbn [ldepth]. rewrite <- IH. reflexivity. Qed.

Lemma edepth_unfold : forall k n p ks kids, edepth (ENode k n p ks kids) = S (ldepth kids).
Proof. intros. cbn [edepth]. rewrite edepth_go_eq. reflexivity. Qed.

Lemma wrap_embed_cases : forall seen l, ewf_list true seen l = true ->
  map wrap_case (map embed l) = map embed l.
Proof.
  intros seen l; revert seen. induction l as [|x tl IH]; intros seen H; [reflexivity|].
  cbn [ewf_list] in H. rewrite !andb_true_iff in H. destruct H as [[[_ Hc] _] Ht].
  simpl in Hc. destruct x as [k n p ks kids]. simpl in Hc. destruct k; try discriminate.
  cbn [map]. rewrite (IH _ Ht). reflexivity.
Qed.

Lemma names_snoc : forall acc e, names (acc ++ [e]) = names acc ++ [e_name e].
Proof. intros. unfold names. now rewrite map_app. Qed.

Lemma expand_embed : forall f cx X acc allcase,
  ewf_list allcase (names acc) X = true -> ldepth X <= f ->
  expand (S f) cx acc (map embed X) = Ok (acc ++ X).
Proof.
  induction f as [|f IHf]; intros cx X; induction X as [|e tl IHX]; intros acc allcase Hw Hd.
  - simpl. now rewrite app_nil_r.
  - exfalso. destruct e. cbn [ldepth] in Hd. rewrite edepth_unfold in Hd. lia.
  - simpl. now rewrite app_nil_r.
  - cbn [map]. rewrite expand_cons.
    cbn [ewf_list] in Hw. rewrite !andb_true_iff in Hw. destruct Hw as [[[Hn _] He] Ht].
    destruct e as [k n p ks kids]. cbn [embed]. rewrite expand_node1.
    cbn [e_name] in *. apply negb_true_iff in Hn. rewrite Hn.
    rewrite ewf_node_unfold in He. cbn [ldepth] in Hd. rewrite edepth_unfold in Hd.
    assert (Hk : node_kids k (map embed kids) = map embed kids).
    { unfold node_kids. destruct k; try reflexivity. simpl in He. eapply wrap_embed_cases; eauto. }
    rewrite Hk.
    rewrite (IHf (node_ctx cx k []) kids [] (is_choice k)); [|exact He|lia].
    cbn [bind app].
    rewrite (IHX (acc ++ [ENode k n p ks kids]) allcase).
    + now rewrite <- app_assoc.
    + rewrite names_snoc. exact Ht.
    + lia.
Qed.

Lemma uses_inline_proof : forall f cx acc pfx g w refs augs rest X,
  expand (S f) cx acc [SUses pfx g w refs augs] = Ok (acc ++ X) ->
  ewf_list false (names acc) X = true -> ldepth X <= f ->
  expand (S f) cx acc (SUses pfx g w refs augs :: rest) =
  expand (S f) cx acc (map embed X ++ rest).
Proof.
  intros. rewrite expand_cons, H. rewrite expand_app.
  rewrite (expand_embed f cx X acc false); auto.
Qed.

(** * a module augment appends its (resolved) body at the end of the target's members *)
Definition graft_nodes (k : kind) (nodes : list enode) : list enode :=
  if is_choice k then map ewrap_case nodes else nodes.

Lemma graft_kids : forall nodes k n p ks kids t',
  graft nodes (ENode k n p ks kids) = Ok t' ->
  t' = ENode k n p ks (kids ++ graft_nodes k nodes).
Proof.
  intros. unfold graft, graft_nodes in *.
  destruct k; simpl in *; try discriminate;
  match type of H with bind ?o _ = _ => destruct o as [r| |] eqn:E; simpl in H; try discriminate end;
  apply add_all_app in E; inversion H; subst; reflexivity.
Qed.

Lemma update_at_cons : forall seg rest f e tl,
  update_at (seg :: rest) f (e :: tl) =
  if text_eqb (e_name e) seg then
    bind (match rest with
          | [] => f e
          | _ :: _ => let 'ENode k n p ks kids := e in
                      bind (update_at rest f kids) (fun kids' => Ok (ENode k n p ks kids'))
          end) (fun e' => Ok (e' :: tl))
  else bind (update_at (seg :: rest) f tl) (fun tl' => Ok (e :: tl')).
Proof. reflexivity. Qed.

Lemma augment_appends_proof : forall path nodes t t' k n p ks kids,
  update_at path (graft nodes) t = Ok t' ->
  node_at path t = Some (ENode k n p ks kids) ->
  node_at path t' = Some (ENode k n p ks (kids ++ graft_nodes k nodes)).
Proof.
  induction path as [|seg rest IH]; intros nodes t t' k n p ks kids Hu Hn; [discriminate|].
  revert t' Hu Hn. induction t as [|e tl IHt]; intros t' Hu Hn; [discriminate|].
  rewrite update_at_cons in Hu. cbn [node_at find] in Hn |- *.
  destruct (text_eqb (e_name e) seg) eqn:Hs.
  - destruct rest as [|seg2 rest'].
    + inversion Hn; subst e.
      destruct (graft nodes (ENode k n p ks kids)) as [e'| |] eqn:Hg; simpl in Hu; try discriminate.
      inversion Hu; subst t'. apply graft_kids in Hg. subst e'.
      cbn [node_at find e_name] in *. rewrite Hs. reflexivity.
    + destruct e as [k0 n0 p0 ks0 kids0]. cbn [e_kids] in Hn.
      destruct (update_at (seg2 :: rest') (graft nodes) kids0) as [kids'| |] eqn:Hk; simpl in Hu; try discriminate.
      inversion Hu; subst t'. cbn [node_at find e_name] in *. rewrite Hs. cbn [e_kids].
      eapply IH; eauto.
  - destruct (update_at (seg :: rest) (graft nodes) tl) as [tl'| |] eqn:Ht; simpl in Hu; try discriminate.
    inversion Hu; subst t'. cbn [node_at find]. rewrite Hs.
    apply (IHt tl' eq_refl). exact Hn.
Qed.
