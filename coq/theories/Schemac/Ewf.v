(** C01 — every successful [expand] / [expand_modset] output satisfies the invariant [ewf_list]
    of expanded trees (sibling names pairwise different, members of a choice are cases).

    No well-formedness of the SOURCE is needed: the conflict check of addDataDefinition
    ([mem_text n (names acc)]) and the implied-case wrapping ([wrap_case]) establish the invariant
    for every statement list, every lexical context and every fuel.

    The invariant is proved in the relative form [ewf_from n]: the first [n] members of the
    accumulator are not assumed to be well formed themselves (only their names count); [n = 0] is
    [ewf_list], [n = length acc] speaks about the members added by the call only. *)
From Coq Require Import List Bool ZArith Arith Lia Strings.Byte.
From YV Require Import Schemac.Ast Schemac.Expand Schemac.Refactor Schemac.Proofs.
Import ListNotations.

Fixpoint ewf_from (n : nat) (allcase : bool) (seen : list text) (l : list enode) : bool :=
  match n with
  | O => ewf_list allcase seen l
  | S n' =>
      match l with
      | [] => true
      | x :: tl => ewf_from n' allcase (seen ++ [e_name x]) tl
      end
  end.

Lemma ewf_from_nil : forall n a seen, ewf_from n a seen [] = true.
Proof. destruct n; reflexivity. Qed.

Lemma ewf_from_0 : forall a seen l, ewf_from 0 a seen l = ewf_list a seen l.
Proof. reflexivity. Qed.

Lemma ewf_list_snoc : forall a l seen e,
  ewf_list a seen l = true ->
  mem_text (e_name e) (seen ++ names l) = false ->
  (negb a || kind_eqb (e_kind e) KCase) = true ->
  ewf_node e = true ->
  ewf_list a seen (l ++ [e]) = true.
Proof.
  induction l as [|x tl IH]; intros seen e Hl Hm Hk He.
  - cbn [app ewf_list]. cbn [names map] in Hm. rewrite app_nil_r in Hm.
    rewrite Hm, Hk, He. reflexivity.
  - cbn [app ewf_list] in *. rewrite !andb_true_iff in Hl. destruct Hl as [[[H1 H2] H3] H4].
    rewrite H1, H2, H3. cbn [andb]. apply IH; auto.
    unfold names in *. cbn [map] in Hm. rewrite <- app_assoc. exact Hm.
Qed.

Lemma ewf_from_snoc : forall n a l seen e,
  ewf_from n a seen l = true ->
  mem_text (e_name e) (seen ++ names l) = false ->
  (negb a || kind_eqb (e_kind e) KCase) = true ->
  ewf_node e = true ->
  ewf_from n a seen (l ++ [e]) = true.
Proof.
  induction n as [|n IH]; intros a l seen e Hl Hm Hk He.
  - apply ewf_list_snoc; auto.
  - destruct l as [|x tl].
    + cbn [app ewf_from]. apply ewf_from_nil.
    + cbn [app ewf_from] in *. apply IH; auto.
      unfold names in *. cbn [map] in Hm. rewrite <- app_assoc. exact Hm.
Qed.

Lemma ewf_list_app : forall a l1 seen l2,
  ewf_list a seen (l1 ++ l2) = ewf_list a seen l1 && ewf_list a (seen ++ names l1) l2.
Proof.
  induction l1 as [|x tl IH]; intros seen l2.
  - cbn [app ewf_list names map]. now rewrite app_nil_r.
  - cbn [app ewf_list]. rewrite IH. unfold names. cbn [map]. rewrite <- app_assoc.
    cbn [app]. now rewrite !andb_assoc.
Qed.

Lemma ewf_from_length : forall a l1 seen l2,
  ewf_from (length l1) a seen (l1 ++ l2) = ewf_list a (seen ++ names l1) l2.
Proof.
  induction l1 as [|x tl IH]; intros seen l2.
  - cbn [length app ewf_from names map]. now rewrite app_nil_r.
  - cbn [length app ewf_from]. rewrite IH. unfold names. cbn [map]. now rewrite <- app_assoc.
Qed.

Lemma ewf_from_length_self : forall a l seen, ewf_from (length l) a seen l = true.
Proof.
  intros. rewrite <- (app_nil_r l) at 2. rewrite ewf_from_length. reflexivity.
Qed.

(** replacing the head by a node of the same name and kind *)
Lemma ewf_from_cons_replace : forall n a seen e e' tl tl',
  e_name e' = e_name e -> e_kind e' = e_kind e ->
  (ewf_node e = true -> ewf_node e' = true) ->
  (forall n' seen', ewf_from n' a seen' tl = true -> ewf_from n' a seen' tl' = true) ->
  ewf_from n a seen (e :: tl) = true -> ewf_from n a seen (e' :: tl') = true.
Proof.
  intros n a seen e e' tl tl' Hn Hk He Ht H. destruct n as [|n].
  - cbn [ewf_from ewf_list] in *. rewrite Hn, Hk.
    rewrite !andb_true_iff in H. destruct H as [[[H1 H2] H3] H4].
    rewrite H1, H2, (He H3). cbn [andb]. apply (Ht 0). exact H4.
  - cbn [ewf_from] in *. rewrite Hn. apply Ht. exact H.
Qed.

(** * [update_at] keeps the invariant when the rewriting function does *)
Lemma update_at_ewf : forall path f,
  (forall e e', f e = Ok e' -> e_name e' = e_name e /\ e_kind e' = e_kind e) ->
  (forall e e', ewf_node e = true -> f e = Ok e' -> ewf_node e' = true) ->
  forall l n a seen l',
    ewf_from n a seen l = true -> update_at path f l = Ok l' -> ewf_from n a seen l' = true.
Proof.
  induction path as [|seg rest IH]; intros f Hnk Hwf l; [discriminate|].
  induction l as [|e tl IHl]; intros n a seen l' Hl Hu; [discriminate|].
  rewrite update_at_cons in Hu. destruct (text_eqb (e_name e) seg).
  - destruct rest as [|seg2 rest'].
    + destruct (f e) as [e'| |] eqn:Hf; cbn [bind] in Hu; try discriminate.
      inversion Hu; subst l'. destruct (Hnk _ _ Hf) as [Hn Hk].
      eapply ewf_from_cons_replace; eauto.
    + destruct e as [k nm p ks kids].
      destruct (update_at (seg2 :: rest') f kids) as [kids'| |] eqn:Hk; cbn [bind] in Hu;
        try discriminate.
      inversion Hu; subst l'.
      eapply ewf_from_cons_replace; [| | | |exact Hl]; try reflexivity; auto.
      rewrite !ewf_node_unfold. intro Hw.
      apply (IH f Hnk Hwf kids 0 (is_choice k) [] kids' Hw Hk).
  - destruct (update_at (seg :: rest) f tl) as [tl'| |] eqn:Ht; cbn [bind] in Hu; try discriminate.
    inversion Hu; subst l'.
    eapply ewf_from_cons_replace; [| | | |exact Hl]; try reflexivity; auto.
Qed.

(** * refinements *)
Lemma refine_node_shape : forall r e e', refine_node r e = Ok e' ->
  e_name e' = e_name e /\ e_kind e' = e_kind e /\ e_kids e' = e_kids e /\ e_keys e' = e_keys e.
Proof.
  intros r [k n p ks kids] e' H. unfold refine_node in H.
  match type of H with (if ?c then _ else _) = _ => destruct c end; try discriminate.
  inversion H; subst. repeat split.
Qed.

Lemma ewf_node_kids : forall e e', e_kind e' = e_kind e -> e_kids e' = e_kids e ->
  ewf_node e' = ewf_node e.
Proof.
  intros [k n p ks kids] [k' n' p' ks' kids']. cbn [e_kind e_kids]. intros -> ->.
  now rewrite !ewf_node_unfold.
Qed.

Lemma apply_refines_ewf : forall refs acc n a seen out,
  ewf_from n a seen acc = true -> apply_refines refs acc = Ok out -> ewf_from n a seen out = true.
Proof.
  induction refs as [|r tl IH]; intros acc n a seen out Ha H.
  - inversion H; subst. exact Ha.
  - cbn [apply_refines] in H.
    destruct (update_at (r_path r) (refine_node r) acc) as [acc1| |] eqn:Hu; cbn [bind] in H;
      try discriminate.
    eapply IH; [|exact H].
    eapply (update_at_ewf (r_path r) (refine_node r)); [| |exact Ha|exact Hu].
    + intros e e' He. apply refine_node_shape in He. tauto.
    + intros e e' Hw He. apply refine_node_shape in He. destruct He as [_ [Hk [Hkids _]]].
      rewrite (ewf_node_kids e e'); auto.
Qed.

(** * the augments of a uses (named form of the inner [fix augl] of [expand]) *)
Definition apply_uses_augs (rec : list enode -> list stmt -> outcome (list enode))
  : list enode -> list stmt -> outcome (list enode) :=
  fix augl (acc : list enode) (augs : list stmt) {struct augs} : outcome (list enode) :=
    match augs with
    | [] => Ok acc
    | SAugment path _ body :: tl =>
        bind (update_at path (fun t => expand_into rec t body) acc)
             (fun acc' => augl acc' tl)
    | _ :: _ => Err
    end.

Lemma expand_uses1 : forall f cx acc pfx g w refs augs,
  expand (S f) cx acc [SUses pfx g w refs augs] =
  match find_grouping cx pfx g with
  | None => Err
  | Some (body, cxg) =>
      bind (expand f cxg acc (map (set_when w) body)) (fun acc1 =>
      bind (apply_refines refs acc1) (fun acc2 =>
      apply_uses_augs (expand f cx) acc2 augs))
  end.
Proof.
  intros. cbn [expand]. destruct (find_grouping cx pfx g) as [[body cxg]|]; [|reflexivity].
  rewrite bind_ok_r. reflexivity.
Qed.

Lemma expand_other1 : forall f cx acc s,
  match s with SGrouping _ _ _ | SAugment _ _ _ => True | _ => False end ->
  expand (S f) cx acc [s] = Err.
Proof. intros f cx acc [] H; try contradiction; reflexivity. Qed.

Definition is_case_stmt (s : stmt) : bool :=
  match s with SNode KCase _ _ _ _ _ => true | _ => false end.

Lemma wrap_case_is_case : forall s, is_case_stmt (wrap_case s) = true.
Proof. intros [[] ? ? ? ? ?| | |]; reflexivity. Qed.

Lemma forallb_wrap_case : forall l, forallb is_case_stmt (map wrap_case l) = true.
Proof.
  induction l as [|s tl IH]; [reflexivity|]. cbn [map forallb]. now rewrite wrap_case_is_case, IH.
Qed.

(** what the recursive calls of [expand] are assumed to do (induction hypothesis on fuel) *)
Definition rec_ewf (rec : list enode -> list stmt -> outcome (list enode)) : Prop :=
  forall ss acc n a out,
    (negb a || forallb is_case_stmt ss) = true ->
    ewf_from n a [] acc = true -> rec acc ss = Ok out -> ewf_from n a [] out = true.

Lemma expand_into_shape : forall rec t body t', expand_into rec t body = Ok t' ->
  e_name t' = e_name t /\ e_kind t' = e_kind t.
Proof.
  intros rec [k n p ks kids] body t' H. unfold expand_into in H.
  destruct k; try discriminate;
  match type of H with bind ?o _ = _ => destruct o; cbn [bind] in H; try discriminate end;
  inversion H; subst; split; reflexivity.
Qed.

Lemma expand_into_ewf : forall rec, rec_ewf rec -> forall t body t',
  ewf_node t = true -> expand_into rec t body = Ok t' -> ewf_node t' = true.
Proof.
  intros rec Hrec [k n p ks kids] body t' Hw H. unfold expand_into in H.
  rewrite ewf_node_unfold in Hw.
  destruct k; try discriminate;
  match type of H with bind ?o _ = _ => destruct o as [kids'| |] eqn:E; cbn [bind] in H;
                                          try discriminate end;
  inversion H; subst; rewrite ewf_node_unfold;
  (eapply (Hrec _ _ 0); [|exact Hw|exact E]); try reflexivity.
  cbn [is_choice negb orb]. apply forallb_wrap_case.
Qed.

Lemma apply_uses_augs_ewf : forall rec, rec_ewf rec -> forall augs acc n a seen out,
  ewf_from n a seen acc = true -> apply_uses_augs rec acc augs = Ok out ->
  ewf_from n a seen out = true.
Proof.
  intros rec Hrec. induction augs as [|s tl IH]; intros acc n a seen out Ha H.
  - inversion H; subst. exact Ha.
  - cbn [apply_uses_augs] in H. destruct s; try discriminate.
    match type of H with bind ?o _ = _ => destruct o as [acc1| |] eqn:Hu; cbn [bind] in H;
                                            try discriminate end.
    eapply IH; [|exact H].
    eapply update_at_ewf; [| |exact Ha|exact Hu].
    + intros e e' He. exact (expand_into_shape _ _ _ _ He).
    + intros e e' Hw He. exact (expand_into_ewf rec Hrec _ _ _ Hw He).
Qed.

(** * the main invariant *)
Lemma expand_rec_ewf : forall fuel cx, rec_ewf (expand fuel cx).
Proof.
  induction fuel as [|f IHf]; intros cx; [intros ss acc n a out _ _ H; discriminate|].
  intros ss. induction ss as [|s rest IHss]; intros acc n a out Hc Ha H.
  - rewrite expand_nil in H. inversion H; subst. exact Ha.
  - rewrite expand_cons in H.
    destruct (expand (S f) cx acc [s]) as [acc1| |] eqn:H1; cbn [bind] in H; try discriminate.
    cbn [forallb] in Hc.
    assert (Hrest : (negb a || forallb is_case_stmt rest) = true).
    { destruct a; [|reflexivity]. cbn [negb orb] in *. apply andb_true_iff in Hc. tauto. }
    apply (IHss acc1 n a out Hrest); [|exact H].
    destruct s as [k nm p keys grps kids|pfx g w refs augs| |].
    + rewrite expand_node1 in H1.
      destruct (mem_text nm (names acc)) eqn:Hm; try discriminate.
      destruct (expand f (node_ctx cx k grps) [] (node_kids k kids)) as [ks| |] eqn:Hk;
        cbn [bind] in H1; try discriminate.
      inversion H1; subst acc1.
      apply ewf_from_snoc; auto.
      * destruct a; [|reflexivity]. cbn [negb orb] in *. apply andb_true_iff in Hc.
        destruct Hc as [Hc _]. cbn [e_kind]. destruct k; try discriminate. reflexivity.
      * rewrite ewf_node_unfold.
        apply (IHf (node_ctx cx k grps) (node_kids k kids) [] 0 (is_choice k) ks); auto.
        destruct k; try reflexivity. cbn [is_choice negb orb node_kids].
        apply forallb_wrap_case.
    + destruct a.
      { cbn [negb orb is_case_stmt andb] in Hc. discriminate. }
      rewrite expand_uses1 in H1.
      destruct (find_grouping cx pfx g) as [[body cxg]|]; try discriminate.
      destruct (expand f cxg acc (map (set_when w) body)) as [a1| |] eqn:E1; cbn [bind] in H1;
        try discriminate.
      destruct (apply_refines refs a1) as [a2| |] eqn:E2; cbn [bind] in H1; try discriminate.
      apply (IHf cxg _ acc n false a1) in E1; auto.
      apply (apply_refines_ewf refs a1 n false [] a2) in E2; auto.
      eapply apply_uses_augs_ewf; eauto.
    + rewrite expand_other1 in H1; [discriminate|exact I].
    + rewrite expand_other1 in H1; [discriminate|exact I].
Qed.

(** ** Every successful expand output is well formed (accumulator well formed, e.g. [[]]) *)
Lemma expand_ewf_proof : forall fuel cx acc ss out,
  ewf_list false [] acc = true -> expand fuel cx acc ss = Ok out -> ewf_list false [] out = true.
Proof.
  intros fuel cx acc ss out Ha H.
  apply (expand_rec_ewf fuel cx ss acc 0 false out); auto.
Qed.

(** ** ... and the members ADDED by a call are well formed whatever the accumulator is *)
Lemma expand_added_ewf_proof : forall fuel cx acc ss X,
  expand fuel cx acc ss = Ok (acc ++ X) -> ewf_list false (names acc) X = true.
Proof.
  intros fuel cx acc ss X H.
  apply (expand_rec_ewf fuel cx ss acc (length acc) false) in H; auto.
  - rewrite ewf_from_length in H. exact H.
  - apply ewf_from_length_self.
Qed.

(** ** uses_inline without the well-formedness side condition *)
Lemma uses_inline_unconditional_proof : forall f cx acc pfx g w refs augs rest X,
  expand (S f) cx acc [SUses pfx g w refs augs] = Ok (acc ++ X) ->
  ldepth X <= f ->
  expand (S f) cx acc (SUses pfx g w refs augs :: rest) =
  expand (S f) cx acc (map embed X ++ rest).
Proof.
  intros. apply uses_inline_proof; auto. eapply expand_added_ewf_proof; eauto.
Qed.

(** * module level *)
Lemma add_all_ewf : forall nodes acc a r,
  ewf_list a [] acc = true ->
  forallb (fun e => (negb a || kind_eqb (e_kind e) KCase) && ewf_node e) nodes = true ->
  add_all acc nodes = Ok r -> ewf_list a [] r = true.
Proof.
  induction nodes as [|e tl IH]; intros acc a r Ha Hn H.
  - inversion H; subst. exact Ha.
  - cbn [add_all] in H. destruct (mem_text (e_name e) (names acc)) eqn:Hm; try discriminate.
    cbn [forallb] in Hn. rewrite !andb_true_iff in Hn. destruct Hn as [[Hk He] Ht].
    eapply IH; [|exact Ht|exact H]. apply ewf_list_snoc; auto.
Qed.

Lemma ewf_list_forallb : forall a l seen, ewf_list a seen l = true -> forallb ewf_node l = true.
Proof.
  induction l as [|x tl IH]; intros seen H; [reflexivity|].
  cbn [ewf_list forallb] in *. rewrite !andb_true_iff in H. destruct H as [[[_ _] H3] H4].
  rewrite H3. cbn [andb]. eapply IH; eauto.
Qed.

Lemma ewrap_case_ok : forall e, ewf_node e = true ->
  kind_eqb (e_kind (ewrap_case e)) KCase = true /\ ewf_node (ewrap_case e) = true.
Proof.
  intros e He. unfold ewrap_case. destruct (e_kind e) eqn:Hk;
  try (split; [reflexivity|]; rewrite ewf_node_unfold; cbn [is_choice ewf_list mem_text existsb negb orb andb];
       rewrite He; reflexivity).
  rewrite Hk. split; [reflexivity|exact He].
Qed.

Lemma graft_shape : forall nodes t t', graft nodes t = Ok t' ->
  e_name t' = e_name t /\ e_kind t' = e_kind t.
Proof.
  intros nodes [k n p ks kids] t' H. unfold graft in H.
  destruct k; try discriminate;
  match type of H with bind ?o _ = _ => destruct o; cbn [bind] in H; try discriminate end;
  inversion H; subst; split; reflexivity.
Qed.

Lemma graft_ewf : forall nodes t t', ewf_list false [] nodes = true ->
  ewf_node t = true -> graft nodes t = Ok t' -> ewf_node t' = true.
Proof.
  intros nodes [k n p ks kids] t' Hn Hw H. unfold graft in H.
  rewrite ewf_node_unfold in Hw. apply ewf_list_forallb in Hn.
  destruct k; try discriminate;
  match type of H with bind ?o _ = _ => destruct o as [kids'| |] eqn:E; cbn [bind] in H;
                                          try discriminate end;
  inversion H; subst; rewrite ewf_node_unfold;
  (eapply add_all_ewf; [exact Hw| |exact E]); cbn [is_choice negb orb]; try exact Hn.
  clear - Hn. induction nodes as [|e tl IH]; [reflexivity|].
  cbn [forallb map] in *. apply andb_true_iff in Hn. destruct Hn as [He Ht].
  destruct (ewrap_case_ok e He) as [H1 H2]. rewrite H1, H2, (IH Ht). reflexivity.
Qed.

Lemma apply_augments_ewf : forall fuel cx augs t out,
  ewf_list false [] t = true -> apply_augments fuel cx augs t = Ok out ->
  ewf_list false [] out = true.
Proof.
  induction augs as [|s tl IH]; intros t out Ht H.
  - inversion H; subst. exact Ht.
  - cbn [apply_augments] in H. destruct s; try discriminate.
    destruct (expand fuel cx [] body) as [nodes| |] eqn:En; cbn [bind] in H; try discriminate.
    destruct (update_at path (graft nodes) t) as [t1| |] eqn:Eu; cbn [bind] in H; try discriminate.
    eapply IH; [|exact H].
    apply expand_ewf_proof in En; [|reflexivity].
    apply (update_at_ewf path (graft nodes)) with (l := t) (n := 0) (a := false) (seen := []) (l' := t1);
      auto.
    + intros e e' He. exact (graft_shape _ _ _ He).
    + intros e e' Hw He. exact (graft_ewf _ _ _ En Hw He).
Qed.

Lemma expand_modset_ewf_proof : forall fuel ms t,
  expand_modset fuel ms = Ok t -> ewf_list false [] t = true.
Proof.
  intros fuel ms t H. unfold expand_modset in H.
  destruct (expand fuel (top_ctx ms) [] (all_body ms)) as [t0| |] eqn:E; cbn [bind] in H;
    try discriminate.
  apply expand_ewf_proof in E; [|reflexivity].
  eapply apply_augments_ewf; eauto.
Qed.
