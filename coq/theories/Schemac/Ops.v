(** C01 — operations (rpc/action {input; output}, notification), also when they come out of a
    grouping.  Proofs only; the model is Expand.v.

    [inl] / [uses_inline_deep_proof]: a [uses] written at ANY depth — below containers, lists,
        cases, and below the input/output of an rpc/action or a notification — may be replaced by
        its expansion written out; with [expand_plain_uses] this covers the operations of a
        grouping body (resolver.expandUses enters the cloned actions and notifications, so the
        uses inside them are expanded like everywhere else).
    [set_when_spares_ops_proof]: the condition of a uses is not put on the grouping's operations.
    [placed] / [compile_placed_proof]: in every compiled tree an rpc/action or notification is a
        member of a container or a list (or of the module) only. *)
From Coq Require Import List Bool ZArith Arith Lia Strings.Byte Permutation.
From YV Require Import Schemac.Ast Schemac.Expand Schemac.Refactor Schemac.Proofs Schemac.Ewf.
From YV Require Import Schemac.CasePerm Schemac.Extract.
Import ListNotations.

(** * a uses at any depth may be written out *)

(** [inl f cx acc l l']: [l'] is [l] with ONE uses statement — at the top of [l] or anywhere below
    a node of [l] — replaced by the plain text of what it expands to (at the place where it is
    expanded: fuel, lexical context and earlier siblings as the expansion of [l] reaches it) *)
Inductive inl : nat -> ctx -> list enode -> list stmt -> list stmt -> Prop :=
| inl_here : forall f cx acc pfx g w refs augs rest X,
    expand (S f) cx acc [SUses pfx g w refs augs] = Ok (acc ++ X) -> ldepth X <= f ->
    inl (S f) cx acc (SUses pfx g w refs augs :: rest) (map embed X ++ rest)
| inl_later : forall f cx acc s acc' l l',
    expand (S f) cx acc [s] = Ok acc' -> inl (S f) cx acc' l l' ->
    inl (S f) cx acc (s :: l) (s :: l')
| inl_below : forall f cx acc k n p keys grps kids kids' rest,
    inl f (node_ctx cx k grps) [] (node_kids k kids) (node_kids k kids') ->
    inl (S f) cx acc (SNode k n p keys grps kids :: rest) (SNode k n p keys grps kids' :: rest).

Lemma uses_inline_deep_proof : forall f cx acc l l',
  inl f cx acc l l' -> expand f cx acc l = expand f cx acc l'.
Proof.
  intros f cx acc l l' H. induction H.
  - now apply uses_inline_unconditional_proof.
  - rewrite (expand_cons f cx acc s l), (expand_cons f cx acc s l'), H. cbn [bind]. exact IHinl.
  - rewrite (expand_cons f cx acc _ rest), (expand_cons f cx acc (SNode k n p keys grps kids') rest).
    rewrite !expand_node1, IHinl. reflexivity.
Qed.

(** the operations of a grouping: a plain uses of a grouping whose body has a uses somewhere below
    (e.g. in the input of an action, in a notification) is that body with the inner uses written
    out, expanded where the grouping was defined *)
Lemma grouping_ops_expanded_proof : forall f cx acc g body body' cg,
  find_grouping cx None g = Some (body, cg) -> inl f cg acc body body' ->
  expand (S f) cx acc [SUses None g None [] []] = expand f cg acc body'.
Proof.
  intros f cx acc g body body' cg Hg Hi.
  rewrite (expand_plain_uses f cx acc g body cg Hg). now apply uses_inline_deep_proof.
Qed.

(** * the condition of a uses stays off the operations *)
Lemma set_when_spares_ops_proof : forall w k n p keys grps kids,
  is_datadef k = false ->
  set_when w (SNode k n p keys grps kids) = SNode k n p keys grps kids.
Proof. intros [w|] k n p keys grps kids H; cbn [set_when]; [rewrite H|]; reflexivity. Qed.

(** * placement of operations in compiled trees *)
Fixpoint placed (e : enode) : bool :=
  let 'ENode k _ _ _ kids := e in
  members_ok k kids &&
  (fix go (l : list enode) : bool :=
     match l with [] => true | x :: tl => placed x && go tl end) kids.

Lemma placed_unfold : forall k n p ks kids,
  placed (ENode k n p ks kids) = members_ok k kids && forallb placed kids.
Proof.
  intros. reflexivity.
Qed.

Definition has_op (l : list enode) : bool := existsb (fun c => is_op (e_kind c)) l.

Lemma members_ok_has_op : forall k l, members_ok k l = allows_ops k || negb (has_op l).
Proof. reflexivity. Qed.

Lemma has_op_kinds : forall l l', Forall2 (fun x y => e_kind y = e_kind x) l l' ->
  has_op l' = has_op l.
Proof. intros l l' H. induction H; [reflexivity|]. unfold has_op in *. simpl. now rewrite H, IHForall2. Qed.

Lemma has_op_perm : forall l l', Permutation l l' -> has_op l = has_op l'.
Proof. intros. unfold has_op. now apply existsb_perm. Qed.

Lemma config_kids_Forall2 : forall c l l2, config_kids c l = Some l2 ->
  Forall2 (fun x y => config_node c x = Some y) l l2.
Proof.
  induction l as [|x tl IH]; intros l2 H.
  - inversion H. constructor.
  - cbn [config_kids] in H. destruct (config_node c x) as [x2|] eqn:Ex; try discriminate.
    destruct (config_kids c tl) as [tl2|] eqn:Et; try discriminate. inversion H; subst.
    constructor; auto.
Qed.

Lemma config_node_placed : forall e c e2, config_node c e = Some e2 -> placed e2 = true.
Proof.
  induction e using enode_ind2. intros c e2 Hc. rewrite config_node_unfold in Hc.
  destruct (if is_datadef k then eff_config c (p_config p) else Some true) as [c0|];
    try discriminate.
  destruct (config_kids c0 kids) as [kids2|] eqn:Ek; try discriminate.
  destruct (keys_ok k ks kids && members_ok k kids) eqn:Hm; try discriminate.
  inversion Hc; subst e2. apply andb_true_iff in Hm. destruct Hm as [_ Hm].
  apply config_kids_Forall2 in Ek. rewrite placed_unfold. apply andb_true_iff. split.
  - rewrite members_ok_has_op in *. rewrite (has_op_kinds kids kids2); [exact Hm|].
    clear - Ek. induction Ek as [|x y tl tl2 Hx Ht IH]; constructor; auto.
    destruct (config_node_ewf x c0 y Hx) as [_ [Hk _]]. exact Hk.
  - clear - H Ek. induction Ek as [|x y tl tl2 Hx Ht IH]; [reflexivity|].
    inversion H as [|? ? Hpx Hpt]; subst. cbn [forallb]. rewrite (Hpx c0 y Hx). cbn [andb]. auto.
Qed.

Lemma forallb_map : forall A B (f : B -> bool) (g : A -> B) l,
  forallb f (map g l) = forallb (fun x => f (g x)) l.
Proof. induction l as [|x tl IH]; [reflexivity|]. cbn [map forallb]. now rewrite IH. Qed.

Lemma has_op_map : forall (g : enode -> enode) l, (forall e, e_kind (g e) = e_kind e) ->
  has_op (map g l) = has_op l.
Proof.
  intros g l Hk. unfold has_op. induction l as [|x tl IH]; [reflexivity|].
  cbn [map existsb]. now rewrite Hk, IH.
Qed.

Lemma forallb_placed_map : forall (g : enode -> enode) l,
  Forall (fun e => placed e = true -> placed (g e) = true) l ->
  forallb placed l = true -> forallb placed (map g l) = true.
Proof.
  intros g l H. induction H as [|x tl Hx Ht IH]; intro Hp; [reflexivity|].
  cbn [map forallb] in *. apply andb_true_iff in Hp. destruct Hp as [H1 H2].
  now rewrite (Hx H1), (IH H2).
Qed.

Lemma norm_placed : forall e, placed e = true -> placed (norm e) = true.
Proof.
  induction e using enode_ind2. cbn [norm]. rewrite !placed_unfold, !members_ok_has_op.
  rewrite (has_op_map norm kids norm_kind). intro Hp. apply andb_true_iff in Hp.
  destruct Hp as [H1 H2]. rewrite H1. cbn [andb]. now apply forallb_placed_map.
Qed.

Lemma canon_placed : forall e, placed e = true -> placed (canon e) = true.
Proof.
  induction e using enode_ind2. cbn [canon]. rewrite !placed_unfold, !members_ok_has_op.
  intro Hp. apply andb_true_iff in Hp. destruct Hp as [H1 H2].
  assert (Hm : allows_ops k || negb (has_op (map canon kids)) = true)
    by (now rewrite (has_op_map canon kids canon_kind)).
  assert (Hf : forallb placed (map canon kids) = true) by (now apply forallb_placed_map).
  assert (Hgen : forall l, Permutation (map canon kids) l ->
            (allows_ops k || negb (has_op l)) && forallb placed l = true).
  { intros l P. now rewrite <- (has_op_perm _ _ P), <- (forallb_perm _ placed _ _ P), Hm, Hf. }
  destruct k; apply Hgen; first [apply sort_is_perm | apply by_class_perm].
Qed.

(** ** in every compiled tree the operations are members of containers, lists or the module *)
Lemma compile_placed_proof : forall fuel ms t,
  compile_modset fuel ms = Ok t -> forallb placed t = true.
Proof.
  intros fuel ms t H. unfold compile_modset in H.
  destruct (expand_modset fuel ms) as [t0| |]; cbn [bind] in H; try discriminate.
  destruct (config_kids true t0) as [t1|] eqn:Ec; try discriminate. inversion H; subst t.
  rewrite <- (forallb_perm _ placed _ _ (by_class_perm _)).
  apply config_kids_Forall2 in Ec. clear - Ec.
  induction Ec as [|x y tl tl2 Hx Ht IH]; [reflexivity|].
  cbn [map forallb]. rewrite IH. rewrite norm_placed; [reflexivity|].
  apply canon_placed. eapply config_node_placed; eauto.
Qed.

(** ** the shape the seeded change NC01-B breaks, as text:
      module m { grouping params { leaf speed; }
                 grouping ops { action reset { input { uses params; } }
                                notification done { uses params; } }
                 container box { config false; uses ops; } } *)
Definition op_leaf (n : text) : stmt := SNode KLeaf n no_props [] [] [].
Definition op_params : stmt := SGrouping [x70] [] [op_leaf [x73]].
Definition op_ops (inner : list stmt) : stmt :=
  SGrouping [x6f] []
    [SNode KAction [x72] no_props [] [] [SNode KInput [x69] no_props [] [] inner];
     SNode KNotif [x64] no_props [] [] inner].
Definition op_cfg_false : props := mkProps (Some false) None [] [] None [] None None [].
Definition op_ms (inner : list stmt) : modset :=
  mkModset (mkModule [x6d] [x6d] [op_params; op_ops inner]
              [SNode KCont [x62] op_cfg_false [] [] [SUses None [x6f] None [] []]] []) [] [].
Definition op_pr (c : option bool) : props :=
  mkProps c (Some false) [] [] None [] (Some 0%Z) (Some 0%Z) [].
Definition op_tree : list enode :=
  [ENode KCont [x62] (op_pr (Some false)) []
     [ENode KAction [x72] (op_pr None) []
        [ENode KInput [x69] (op_pr None) [] [ENode KLeaf [x73] (op_pr (Some true)) [] []]];
      ENode KNotif [x64] (op_pr None) [] [ENode KLeaf [x73] (op_pr (Some true)) [] []]]].

(** through the nested uses and written out: the same compiled tree; the leaf below the
    input/notification is config true although the container is config false *)
Lemma ops_from_grouping_example_proof :
  compile_modset default_fuel (op_ms [SUses None [x70] None [] []]) = Ok op_tree /\
  compile_modset default_fuel (op_ms [op_leaf [x73]]) = Ok op_tree.
Proof. split; vm_compute; reflexivity. Qed.

(** the hypotheses of [uses_inline_deep_proof] hold for the action of the example *)
Definition op_cx : ctx := mkCtx [[]; [op_params; op_ops []]] (ME [x6d] [op_params; op_ops []] []).
Lemma inl_example_proof :
  inl 5 op_cx []
      [SNode KAction [x72] no_props [] [] [SNode KInput [x69] no_props [] [] [SUses None [x70] None [] []]]]
      [SNode KAction [x72] no_props [] [] [SNode KInput [x69] no_props [] [] [op_leaf [x73]]]].
Proof.
  apply inl_below. cbn [node_kids]. apply inl_below. cbn [node_kids].
  apply (inl_here 2 _ [] None [x70] None [] [] [] [ENode KLeaf [x73] no_props [] []]).
  - vm_compute. reflexivity.
  - vm_compute. lia.
Qed.
