(** C01 — grouping names are lexically scoped (RFC 7950 5.5, 6.2.1; resolver.findGrouping's walk
    through the original parents): a [uses g] written directly in a scope that defines [g] gets
    THAT definition, whatever the enclosing scopes, the module's top level or any sibling scope
    define under the same name.  Proofs only; the model is Expand.v. *)
From Coq Require Import List Bool ZArith Arith Strings.Byte.
From YV Require Import Schemac.Ast Schemac.Expand.
Import ListNotations.

Lemma map_set_when_none : forall l, map (set_when None) l = l.
Proof. induction l as [|s tl IH]; simpl; [reflexivity|]. rewrite IH. reflexivity. Qed.

Lemma find_scopes_innermost : forall g fr outer gg body,
  find_in_frame g fr = Some (gg, body) ->
  find_scopes g (fr :: outer) = Some (gg, body, fr :: outer).
Proof. intros g fr outer gg body H. simpl. rewrite H. reflexivity. Qed.

Lemma find_scopes_skip : forall g fr outer,
  find_in_frame g fr = None -> find_scopes g (fr :: outer) = find_scopes g outer.
Proof. intros g fr outer H. simpl. rewrite H. reflexivity. Qed.

(** the expansion of a plain [uses g] in the scope [fr] that defines [g] is the expansion of that
    definition's body in its own lexical context — [outer] (all enclosing scopes, the module's top
    frame included) and the module environment [me] are arbitrary *)
Lemma scoped_uses_innermost_proof : forall f fr outer me g gg body acc,
  find_in_frame g fr = Some (gg, body) ->
  expand (S f) (mkCtx (fr :: outer) me) acc [SUses None g None [] []] =
  expand f (mkCtx (gg :: fr :: outer) me) acc body.
Proof.
  intros f fr outer me g gg body acc H.
  cbn [expand]. unfold find_grouping. destruct me as [own top imps].
  cbn [c_mod c_scopes]. rewrite (find_scopes_innermost g fr outer gg body H).
  rewrite map_set_when_none.
  destruct (expand f {| c_scopes := gg :: fr :: outer; c_mod := ME own top imps |} acc body);
    reflexivity.
Qed.

(** with an own-module prefix the same definition is found *)
Lemma scoped_uses_own_prefix_proof : forall f fr outer own top imps g gg body acc,
  find_in_frame g fr = Some (gg, body) ->
  expand (S f) (mkCtx (fr :: outer) (ME own top imps)) acc [SUses (Some own) g None [] []] =
  expand (S f) (mkCtx (fr :: outer) (ME own top imps)) acc [SUses None g None [] []].
Proof.
  intros f fr outer own top imps g gg body acc H.
  cbn [expand]. unfold find_grouping. cbn [c_mod c_scopes].
  assert (E : text_eqb own own = true).
  { clear. induction own as [|b tl IH]; simpl; [reflexivity|]. rewrite IH.
    rewrite (Byte.byte_dec_lb (eq_refl b)). reflexivity. }
  rewrite E. reflexivity.
Qed.

(** ** two sibling containers, each with a private grouping [s] of its own:
       module m { container a { grouping s { leaf x; } uses s; }
                  container b { grouping s { leaf y; } uses s; } } *)
Definition sc_leaf (n : text) : stmt := SNode KLeaf n no_props [] [] [].
Definition sc_cont (n gname : text) (leafname : text) : stmt :=
  SNode KCont n no_props [] [SGrouping gname [] [sc_leaf leafname]] [SUses None gname None [] []].
Definition sc_ms (g1 g2 : text) : modset :=
  mkModset (mkModule [x6d] [x6d] [] [sc_cont [x61] g1 [x78]; sc_cont [x62] g2 [x79]] []) [] [].
Definition sc_cfg : props := mkProps (Some true) (Some false) [] [] None [] (Some 0%Z) (Some 0%Z) [].
Definition sc_tree : list enode :=
  [ENode KCont [x61] sc_cfg [] [ENode KLeaf [x78] sc_cfg [] []];
   ENode KCont [x62] sc_cfg [] [ENode KLeaf [x79] sc_cfg [] []]].

Lemma same_name_sibling_scopes_proof :
  compile_modset default_fuel (sc_ms [x73] [x73]) = Ok sc_tree /\
  compile_modset default_fuel (sc_ms [x73] [x74]) = Ok sc_tree.
Proof. split; vm_compute; reflexivity. Qed.
