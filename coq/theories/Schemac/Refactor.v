(** C01 — definitions used by the refactoring theorems: re-embedding an expanded tree as source
    text, the invariant of expanded trees, depth (fuel bound). *)
From Coq Require Import List Bool ZArith Arith Strings.Byte.
From YV Require Import Schemac.Ast Schemac.Expand.
Import ListNotations.

(** an expanded node written out as a plain statement *)
Fixpoint embed (e : enode) : stmt :=
  let 'ENode k n p ks kids := e in SNode k n p ks [] (map embed kids).

Definition is_choice (k : kind) : bool := match k with KChoice => true | _ => false end.

(** sibling names are pairwise different (and different from [seen]); the members of a choice are
    cases — what resolver.addDataDefinition's conflict check and Builder.Case establish *)
Fixpoint ewf_node (e : enode) : bool :=
  let 'ENode k _ _ _ kids := e in
  (fix go (seen : list text) (l : list enode) : bool :=
     match l with
     | [] => true
     | x :: tl =>
         negb (mem_text (e_name x) seen) && (negb (is_choice k) || kind_eqb (e_kind x) KCase) &&
         ewf_node x && go (seen ++ [e_name x]) tl
     end) [] kids.

Fixpoint ewf_list (allcase : bool) (seen : list text) (l : list enode) : bool :=
  match l with
  | [] => true
  | x :: tl =>
      negb (mem_text (e_name x) seen) && (negb allcase || kind_eqb (e_kind x) KCase) &&
      ewf_node x && ewf_list allcase (seen ++ [e_name x]) tl
  end.

Fixpoint edepth (e : enode) : nat :=
  let 'ENode _ _ _ _ kids := e in
  S ((fix go (l : list enode) : nat :=
        match l with [] => 0 | x :: tl => Nat.max (edepth x) (go tl) end) kids).

Fixpoint ldepth (l : list enode) : nat :=
  match l with [] => 0 | x :: tl => Nat.max (edepth x) (ldepth tl) end.

(** node addressed by names from the top (first match, as meta.Find through the name index) *)
Fixpoint node_at (path : list text) (l : list enode) : option enode :=
  match path with
  | [] => None
  | seg :: rest =>
      match find (fun e => text_eqb (e_name e) seg) l with
      | None => None
      | Some e => match rest with [] => Some e | _ :: _ => node_at rest (e_kids e) end
      end
  end.

(** the config the RFC gives the data node at [path]: its own statement, else the nearest
    ancestor's, else [pcfg] (true at the module).  An rpc/action, its input and output and a
    notification carry no config and cut the inheritance: below them the search for a stating
    ancestor stops and the default is true again (RFC 7950 7.21.1: config is ignored there) *)
Fixpoint nearest_stated (pcfg : bool) (path : list text) (l : list enode) : option bool :=
  match path with
  | [] => None
  | seg :: rest =>
      match find (fun e => text_eqb (e_name e) seg) l with
      | None => None
      | Some e =>
          let c := if is_datadef (e_kind e)
                   then match p_config (e_props e) with Some b => b | None => pcfg end
                   else true in
          match rest with
          | [] => if is_datadef (e_kind e) then Some c else None
          | _ :: _ => nearest_stated c rest (e_kids e)
          end
      end
  end.
