(** Proofs about the if-feature evaluator model (Feature/IfFeature.v):
    - [eval_total]: Evaluate's fuel never runs out, for every text;
    - [eval_correct_cst]: every written expression that follows the RFC 7950 grammar evaluates
      to the denotation of its abstract syntax, under every assignment;
    - [print_wf]: the printer family produces grammatical written expressions;
    - rejection of the malformed classes. *)
From Coq Require Import List Bool Arith NArith Lia Strings.Byte.
From YV Require Import Feature.IfFeature.
Import ListNotations.

(** * bytes *)
Lemma byte_eqb_refl x : beq x x = true.
Proof. unfold beq. apply N.eqb_refl. Qed.

Lemma beq_true x y : beq x y = true -> x = y.
Proof.
  unfold beq. intros H. apply N.eqb_eq in H.
  pose proof (Byte.of_to_N x) as Hx. pose proof (Byte.of_to_N y) as Hy. rewrite H in Hx. congruence.
Qed.

Lemma bytes_eqb_refl a : bytes_eqb a a = true.
Proof. induction a; simpl; [reflexivity|]. rewrite byte_eqb_refl, IHa. reflexivity. Qed.

Lemma bytes_eqb_eq a b : bytes_eqb a b = true <-> a = b.
Proof.
  split.
  - revert b. induction a as [|x a IH]; destruct b as [|y b]; simpl; intros H; try discriminate; auto.
    apply andb_true_iff in H as [H1 H2]. apply beq_true in H1. subst. f_equal. auto.
  - intros ->. apply bytes_eqb_refl.
Qed.

Lemma bytes_eqb_neq a b : a <> b -> bytes_eqb a b = false.
Proof. intros H. destruct (bytes_eqb a b) eqn:E; [|reflexivity]. apply bytes_eqb_eq in E. contradiction. Qed.

(** * tokenizer *)
Definition is_delim (b : byte) : bool := is_ws b || is_paren b.
Definition word (t : list byte) : bool := forallb (fun b => negb (is_ws b || is_paren b)) t.
Definition boundary (k : list byte) : bool :=
  match k with [] => true | b :: _ => is_ws b || is_paren b end.

Lemma eatws_app w s : all_ws w = true -> eatws is_ws (w ++ s) = eatws is_ws s.
Proof.
  induction w as [|b w IH]; simpl; intros H; [reflexivity|].
  apply andb_true_iff in H as [H1 H2]. rewrite H1. auto.
Qed.

Lemma next_ws w s : all_ws w = true -> next is_ws (w ++ s) = next is_ws s.
Proof. intros H. unfold next. rewrite eatws_app by assumption. reflexivity. Qed.

Lemma eatws_all w : all_ws w = true -> eatws is_ws w = [].
Proof. intros H. rewrite <- (app_nil_r w). rewrite eatws_app by assumption. reflexivity. Qed.

Lemma next_all_ws w : all_ws w = true -> next is_ws w = ([], []).
Proof. intros H. unfold next. rewrite eatws_all by assumption. reflexivity. Qed.

Lemma scan_word t k : word t = true -> boundary k = true -> scan is_ws (t ++ k) = (t, k).
Proof.
  induction t as [|b t IH]; simpl; intros Hw Hb.
  - destruct k as [|c k]; simpl in *; [reflexivity|]. rewrite Hb. reflexivity.
  - apply andb_true_iff in Hw as [H1 H2]. apply negb_true_iff in H1. rewrite H1.
    rewrite IH by assumption. reflexivity.
Qed.

Lemma next_word t k : t <> [] -> word t = true -> boundary k = true -> next is_ws (t ++ k) = (t, k).
Proof.
  intros Hne Hw Hb. destruct t as [|b t]; [congruence|].
  pose proof Hw as Hw'. simpl in Hw'. apply andb_true_iff in Hw' as [H1 _].
  apply negb_true_iff in H1. apply orb_false_iff in H1 as [Hws Hp].
  unfold next. simpl app. simpl eatws. rewrite Hws. rewrite Hp.
  change (b :: t ++ k) with ((b :: t) ++ k). apply scan_word; assumption.
Qed.

Lemma next_paren b k : is_paren b = true -> next is_ws (b :: k) = ([b], k).
Proof.
  intros H. unfold next. simpl eatws.
  assert (is_ws b = false) as ->.
  { destruct b; try discriminate H; reflexivity. }
  rewrite H. reflexivity.
Qed.

Lemma boundary_all_ws w : all_ws w = true -> boundary w = true.
Proof. destruct w; simpl; intros H; [reflexivity|]. apply andb_true_iff in H as [H _]. rewrite H. reflexivity. Qed.

Lemma boundary_sep w x : is_sep w = true -> boundary (w ++ x) = true.
Proof. destruct w; simpl; intros H; [discriminate|]. apply andb_true_iff in H as [H _]. rewrite H. reflexivity. Qed.

Lemma boundary_ws_paren w b x : all_ws w = true -> is_paren b = true -> boundary (w ++ b :: x) = true.
Proof.
  destruct w; simpl; intros H Hp.
  - rewrite Hp. apply orb_true_r.
  - apply andb_true_iff in H as [H _]. rewrite H. reflexivity.
Qed.

Lemma sep_all_ws w : is_sep w = true -> all_ws w = true.
Proof. destruct w; simpl; intros H; [discriminate|exact H]. Qed.

(** lengths *)
Lemma eatws_len s : length (eatws is_ws s) <= length s.
Proof. induction s as [|b s IH]; simpl; [lia|]. destruct (is_ws b); simpl; lia. Qed.

Lemma scan_len s : length (fst (scan is_ws s)) + length (snd (scan is_ws s)) = length s.
Proof.
  induction s as [|b s IH]; simpl; [reflexivity|].
  destruct (is_ws b || is_paren b); simpl; lia.
Qed.

Lemma next_len s : length (fst (next is_ws s)) + length (snd (next is_ws s)) <= length s.
Proof.
  unfold next. pose proof (eatws_len s) as H. destruct (eatws is_ws s) as [|b tl]; [simpl; lia|].
  destruct (is_paren b).
  - simpl in *. lia.
  - pose proof (scan_len (b :: tl)) as H2. lia.
Qed.

Definition len (s : st) : nat := length (rest s).

Lemma advance_le s : len (advance s) <= len s.
Proof. unfold len, advance; simpl. pose proof (next_len (rest s)). lia. Qed.

Lemma advance_lt s : peek s <> [] -> len (advance s) < len s.
Proof.
  unfold len, advance, peek; simpl. intros H. pose proof (next_len (rest s)) as L.
  remember (fst (next is_ws (rest s))) as t. destruct t; [congruence|]. simpl in L. clear - L. lia.
Qed.

Lemma kind_nonempty t : kind_of t <> KEnd -> t <> [].
Proof. destruct t; simpl; congruence. Qed.

(** * Fuel: Evaluate never runs out *)
Definition pn_ok (pn : st -> option (bool * st)) (m : nat) : Prop :=
  forall s, len s < m -> exists b s', pn s = Some (b, s') /\ len s' <= len s.

Lemma and_loop_total pn m : pn_ok pn m ->
  forall n b s, len s < n -> n <= m ->
  exists b' s', and_loop pn n b s = Some (b', s') /\ len s' <= len s.
Proof.
  intros Hpn. induction n as [|n IH]; intros b s Hl Hm; [lia|]. simpl.
  destruct (negb (err s) && bytes_eqb (peek s) kw_and) eqn:C.
  - apply andb_true_iff in C as [_ C]. apply bytes_eqb_eq in C.
    assert (len (advance s) < len s) by (apply advance_lt; rewrite C; discriminate).
    destruct (Hpn (advance s)) as (c & s' & E & L); [lia|]. rewrite E.
    destruct (IH (b && c) s') as (b' & s'' & E' & L'); [lia|lia|].
    exists b', s''. split; [exact E'|lia].
  - exists b, s. split; [reflexivity|lia].
Qed.

Lemma parse_and_total pn m : pn_ok pn m ->
  forall n s, len s < n -> n <= m ->
  exists b' s', parse_and pn n s = Some (b', s') /\ len s' <= len s.
Proof.
  intros Hpn n s Hl Hm. unfold parse_and.
  destruct (Hpn s) as (b & s' & E & L); [lia|]. rewrite E.
  destruct (and_loop_total pn m Hpn n b s') as (b' & s'' & E' & L'); [lia|lia|].
  exists b', s''. split; [exact E'|lia].
Qed.

Lemma or_loop_total pn m : pn_ok pn m ->
  forall n b s, len s < n -> n <= m ->
  exists b' s', or_loop pn n b s = Some (b', s') /\ len s' <= len s.
Proof.
  intros Hpn. induction n as [|n IH]; intros b s Hl Hm; [lia|]. simpl.
  destruct (negb (err s) && bytes_eqb (peek s) kw_or) eqn:C.
  - apply andb_true_iff in C as [_ C]. apply bytes_eqb_eq in C.
    assert (len (advance s) < len s) by (apply advance_lt; rewrite C; discriminate).
    destruct (parse_and_total pn m Hpn n (advance s)) as (c & s' & E & L); [lia|lia|]. rewrite E.
    destruct (IH (b || c) s') as (b' & s'' & E' & L'); [lia|lia|].
    exists b', s''. split; [exact E'|lia].
  - exists b, s. split; [reflexivity|lia].
Qed.

Lemma parse_or_total pn m : pn_ok pn m ->
  forall n s, len s < n -> n <= m ->
  exists b' s', parse_or pn n s = Some (b', s') /\ len s' <= len s.
Proof.
  intros Hpn n s Hl Hm. unfold parse_or.
  destruct (parse_and_total pn m Hpn n s) as (b & s' & E & L); [lia|lia|]. rewrite E.
  destruct (or_loop_total pn m Hpn n b s') as (b' & s'' & E' & L'); [lia|lia|].
  exists b', s''. split; [exact E'|lia].
Qed.

Lemma parse_not_total e : forall n, pn_ok (parse_not n e) n.
Proof.
  induction n as [|n IH]; intros s Hl; [lia|]. simpl.
  pose proof (advance_le s) as Hle.
  destruct (kind_of (peek s)) eqn:K.
  - eexists _, _. split; [reflexivity|]. unfold len, fail in *; simpl in *. lia.
  - assert (len (advance s) < len s) by (apply advance_lt, kind_nonempty; congruence).
    destruct (parse_or_total (parse_not n e) n IH n (advance s)) as (b & s2 & E & L); [lia|lia|].
    rewrite E. eexists _, _. split; [reflexivity|].
    pose proof (advance_le s2). destruct (bytes_eqb (peek s2) rp); unfold len, fail in *; simpl in *; lia.
  - eexists _, _. split; [reflexivity|]. unfold len, fail in *; simpl in *. lia.
  - assert (len (advance s) < len s) by (apply advance_lt, kind_nonempty; congruence).
    destruct (IH (advance s)) as (b & s2 & E & L); [lia|]. rewrite E.
    eexists _, _. split; [reflexivity|]. lia.
  - eexists _, _. split; [reflexivity|]. unfold len, fail in *; simpl in *. lia.
  - eexists _, _. split; [reflexivity|]. unfold len, fail in *; simpl in *. lia.
  - eexists _, _. split; [reflexivity|]. lia.
Qed.

Theorem eval_total : forall expr e, eval_impl expr e <> ROutOfFuel.
Proof.
  intros expr e. unfold eval_impl, eval_fuel.
  destruct (parse_or_total (parse_not (S (length expr)) e) (S (length expr)) (parse_not_total e _)
              (S (length expr)) (mkSt expr false)) as (b & s & E & _); [unfold len; simpl; lia|lia|].
  rewrite E. destruct (err _); discriminate.
Qed.

(** * Keywords and identifiers *)
Lemma word_not : word kw_not = true. Proof. reflexivity. Qed.
Lemma word_and : word kw_and = true. Proof. reflexivity. Qed.
Lemma word_or : word kw_or = true. Proof. reflexivity. Qed.
Lemma kind_not : kind_of kw_not = KNot. Proof. reflexivity. Qed.
Lemma kind_lp : kind_of lp = KLp. Proof. reflexivity. Qed.
Lemma len_not : length kw_not = 3. Proof. reflexivity. Qed.
Lemma len_and : length kw_and = 3. Proof. reflexivity. Qed.
Lemma len_or : length kw_or = 2. Proof. reflexivity. Qed.
Lemma len_lp : length lp = 1. Proof. reflexivity. Qed.
Lemma len_rp : length rp = 1. Proof. reflexivity. Qed.

Lemma ident_word id : ident_ok id = true -> id <> [] /\ word id = true.
Proof.
  unfold ident_ok. intros H. repeat (apply andb_true_iff in H as [H ?]).
  split; [destruct id; [discriminate|congruence]|assumption].
Qed.

Lemma word_not_paren t b : word t = true -> is_paren b = true -> bytes_eqb t [b] = false.
Proof.
  intros Hw Hp. apply bytes_eqb_neq. intros ->. simpl in Hw. rewrite Hp in Hw.
  rewrite orb_true_r in Hw. discriminate.
Qed.

Lemma kind_ident id : ident_ok id = true -> kind_of id = KId.
Proof.
  intros H. destruct (ident_word id H) as [Hne Hw].
  unfold ident_ok in H. repeat (apply andb_true_iff in H as [H ?]).
  unfold kind_of. destruct id as [|b id]; [congruence|].
  unfold lp, rp. rewrite (word_not_paren _ x28 Hw), (word_not_paren _ x29 Hw) by reflexivity.
  repeat match goal with H : negb _ = true |- _ => apply negb_true_iff in H; rewrite H end.
  reflexivity.
Qed.

(** * States *)
Definition S0 (k : list byte) : st := mkSt k false.

Lemma peek_tok w t k : all_ws w = true -> t <> [] -> word t = true -> boundary k = true ->
  peek (S0 (w ++ t ++ k)) = t.
Proof. intros. unfold peek, S0; simpl. rewrite next_ws, next_word by assumption. reflexivity. Qed.

Lemma adv_tok w t k : all_ws w = true -> t <> [] -> word t = true -> boundary k = true ->
  advance (S0 (w ++ t ++ k)) = S0 k.
Proof. intros. unfold advance, S0; simpl. rewrite next_ws, next_word by assumption. reflexivity. Qed.

Lemma peek_lp w k : all_ws w = true -> peek (S0 (w ++ lp ++ k)) = lp.
Proof. intros. unfold peek, S0, lp; simpl. rewrite next_ws by assumption. simpl app. rewrite next_paren by reflexivity. reflexivity. Qed.
Lemma adv_lp w k : all_ws w = true -> advance (S0 (w ++ lp ++ k)) = S0 k.
Proof. intros. unfold advance, S0, lp; simpl. rewrite next_ws by assumption. simpl app. rewrite next_paren by reflexivity. reflexivity. Qed.
Lemma peek_rp w k : all_ws w = true -> peek (S0 (w ++ rp ++ k)) = rp.
Proof. intros. unfold peek, S0, rp; simpl. rewrite next_ws by assumption. simpl app. rewrite next_paren by reflexivity. reflexivity. Qed.
Lemma adv_rp w k : all_ws w = true -> advance (S0 (w ++ rp ++ k)) = S0 k.
Proof. intros. unfold advance, S0, rp; simpl. rewrite next_ws by assumption. simpl app. rewrite next_paren by reflexivity. reflexivity. Qed.
Lemma peek_end w : all_ws w = true -> peek (S0 w) = [].
Proof. intros. unfold peek, S0; simpl. rewrite next_all_ws by assumption. reflexivity. Qed.
Lemma adv_end w : all_ws w = true -> advance (S0 w) = S0 [].
Proof. intros. unfold advance, S0; simpl. rewrite next_all_ws by assumption. reflexivity. Qed.

Lemma parse_not_S n e s : parse_not (S n) e s =
  match kind_of (peek s) with
  | KNot => match parse_not n e (advance s) with Some (b, s2) => Some (negb b, s2) | None => None end
  | KLp => match parse_or (parse_not n e) n (advance s) with
           | Some (b, s2) => Some (b, if bytes_eqb (peek s2) rp then advance s2 else fail (advance s2))
           | None => None end
  | KId => Some (lookup e (peek s), advance s)
  | _ => Some (false, fail (advance s))
  end.
Proof. simpl. destruct (kind_of (peek s)); reflexivity. Qed.

Lemma and_loop_S pn n b s : and_loop pn (S n) b s =
  if negb (err s) && bytes_eqb (peek s) kw_and then
    match pn (advance s) with Some (c, s') => and_loop pn n (b && c) s' | None => None end
  else Some (b, s).
Proof. reflexivity. Qed.

Lemma or_loop_S pn n b s : or_loop pn (S n) b s =
  if negb (err s) && bytes_eqb (peek s) kw_or then
    match parse_and pn n (advance s) with Some (c, s') => or_loop pn n (b || c) s' | None => None end
  else Some (b, s).
Proof. reflexivity. Qed.

Definition stops_and (k : list byte) : bool := negb (bytes_eqb (fst (next is_ws k)) kw_and).
Definition stops_or (k : list byte) : bool := negb (bytes_eqb (fst (next is_ws k)) kw_or).

Lemma and_loop_stop pn n b k : 0 < n -> stops_and k = true -> and_loop pn n b (S0 k) = Some (b, S0 k).
Proof.
  intros Hn H. destruct n; [lia|]. rewrite and_loop_S. unfold stops_and in H. apply negb_true_iff in H.
  unfold peek, S0; simpl. rewrite H. reflexivity.
Qed.

Lemma or_loop_stop pn n b k : 0 < n -> stops_or k = true -> or_loop pn n b (S0 k) = Some (b, S0 k).
Proof.
  intros Hn H. destruct n; [lia|]. rewrite or_loop_S. unfold stops_or in H. apply negb_true_iff in H.
  unfold peek, S0; simpl. rewrite H. reflexivity.
Qed.

Lemma and_loop_err pn n b s : 0 < n -> err s = true -> and_loop pn n b s = Some (b, s).
Proof. intros Hn H. destruct n; [lia|]. rewrite and_loop_S, H. reflexivity. Qed.
Lemma or_loop_err pn n b s : 0 < n -> err s = true -> or_loop pn n b s = Some (b, s).
Proof. intros Hn H. destruct n; [lia|]. rewrite or_loop_S, H. reflexivity. Qed.

Local Opaque kw_not kw_and kw_or lp rp.

Ltac lens := repeat rewrite app_length in *; rewrite ?len_not, ?len_and, ?len_or, ?len_lp, ?len_rp in *; simpl length in *; try lia.

(** * Correctness on grammatical written expressions.
    The lemmas are in continuation form: whatever holds of the loop resumed after the phrase
    (for every sufficient fuel) holds of the loop started before it. *)
Section Correct.
  Variable e : env.
  Notation D c := (denote (abstract c) (lookup e)).
  Notation PN m := (parse_not m e).

  (** a factor is consumed by parseNot *)
  Definition PA (c : cst) : Prop :=
    2 <= lvl c -> forall n w k, all_ws w = true -> boundary k = true ->
    length (w ++ render c ++ k) < n ->
    parse_not n e (S0 (w ++ render c ++ k)) = Some (D c, S0 k).

  (** sep "and" sep c, read by the loop of parseAnd *)
  Definition PB1 (c : cst) : Prop :=
    1 <= lvl c -> forall m n b w1 w2 k (Q : option (bool * st) -> Prop),
    all_ws w1 = true -> is_sep w2 = true -> boundary k = true ->
    length (w1 ++ kw_and ++ w2 ++ render c ++ k) < n -> n <= m ->
    (forall n', length k < n' -> n' <= m -> Q (and_loop (PN m) n' (b && D c) (S0 k))) ->
    Q (and_loop (PN m) n b (S0 (w1 ++ kw_and ++ w2 ++ render c ++ k))).

  (** an and-term at the start of parseAnd *)
  Definition PB2 (c : cst) : Prop :=
    1 <= lvl c -> forall m n w k (Q : option (bool * st) -> Prop),
    all_ws w = true -> boundary k = true ->
    length (w ++ render c ++ k) < n -> n <= m ->
    (forall n', length k < n' -> n' <= m -> Q (and_loop (PN m) n' (D c) (S0 k))) ->
    Q (parse_and (PN m) n (S0 (w ++ render c ++ k))).

  Definition PC1 (c : cst) : Prop :=
    forall m n b w1 w2 k (Q : option (bool * st) -> Prop),
    all_ws w1 = true -> is_sep w2 = true -> boundary k = true -> stops_and k = true ->
    length (w1 ++ kw_or ++ w2 ++ render c ++ k) < n -> n <= m ->
    (forall n', length k < n' -> n' <= m -> Q (or_loop (PN m) n' (b || D c) (S0 k))) ->
    Q (or_loop (PN m) n b (S0 (w1 ++ kw_or ++ w2 ++ render c ++ k))).

  Definition PC2 (c : cst) : Prop :=
    forall m n w k (Q : option (bool * st) -> Prop),
    all_ws w = true -> boundary k = true -> stops_and k = true ->
    length (w ++ render c ++ k) < n -> n <= m ->
    (forall n', length k < n' -> n' <= m -> Q (or_loop (PN m) n' (D c) (S0 k))) ->
    Q (parse_or (PN m) n (S0 (w ++ render c ++ k))).

  Lemma PA_PB c : PA c -> 2 <= lvl c -> PB1 c /\ PB2 c.
  Proof.
    intros HA Hl. specialize (HA Hl). split.
    - intros _ m n b w1 w2 k Q Hw1 Hw2 Hk Hlen Hm HQ.
      destruct n as [|n0]; [lia|]. rewrite and_loop_S.
      assert (Hb : boundary (w2 ++ render c ++ k) = true) by (apply boundary_sep; assumption).
      rewrite (peek_tok w1 kw_and) by (try assumption; try apply word_and; discriminate).
      rewrite (adv_tok w1 kw_and) by (try assumption; try apply word_and; discriminate).
      simpl. rewrite bytes_eqb_refl.
      rewrite HA; [|apply sep_all_ws; assumption|assumption|lens].
      apply HQ; lens.
    - intros _ m n w k Q Hw Hk Hlen Hm HQ.
      unfold parse_and. rewrite HA; [|assumption|assumption|lens].
      apply HQ; lens.
  Qed.

  Lemma PB_PC c : PB2 c -> 1 <= lvl c -> PC1 c /\ PC2 c.
  Proof.
    intros HB Hl. specialize (HB Hl). split.
    - intros m n b w1 w2 k Q Hw1 Hw2 Hk Hs Hlen Hm HQ.
      destruct n as [|n0]; [lia|]. rewrite or_loop_S.
      assert (Hb : boundary (w2 ++ render c ++ k) = true) by (apply boundary_sep; assumption).
      rewrite (peek_tok w1 kw_or) by (try assumption; try apply word_or; discriminate).
      rewrite (adv_tok w1 kw_or) by (try assumption; try apply word_or; discriminate).
      simpl. rewrite bytes_eqb_refl.
      apply (HB m n0 w2 k (fun x => Q match x with Some (c0, s') => or_loop (PN m) n0 (b || c0) s' | None => None end));
        [apply sep_all_ws; assumption|assumption|lens|lens|].
      intros n' Hn' Hm'. rewrite and_loop_stop by (try assumption; lia).
      apply HQ; lens.
    - intros m n w k Q Hw Hk Hs Hlen Hm HQ.
      unfold parse_or.
      apply (HB m n w k (fun x => Q match x with Some (b, s') => or_loop (PN m) n b s' | None => None end));
        [assumption|assumption|lens|lens|].
      intros n' Hn' Hm'. rewrite and_loop_stop by (try assumption; lia).
      apply HQ; lens.
  Qed.

  Lemma stops_and_or' w1 x : all_ws w1 = true -> boundary x = true -> stops_and (w1 ++ kw_or ++ x) = true.
  Proof.
    intros H1 H2. unfold stops_and. rewrite next_ws by assumption.
    rewrite next_word; [reflexivity|discriminate|apply word_or|assumption].
  Qed.
  Lemma stops_and_or w1 w2 x : all_ws w1 = true -> is_sep w2 = true -> stops_and (w1 ++ kw_or ++ w2 ++ x) = true.
  Proof. intros H1 H2. apply stops_and_or'; [assumption|apply boundary_sep; assumption]. Qed.

  Lemma stops_and_rp w x : all_ws w = true -> stops_and (w ++ rp ++ x) = true.
  Proof.
    intros H. pose proof (peek_rp w x H) as P. unfold peek, S0 in P; simpl in P.
    unfold stops_and. rewrite P. reflexivity.
  Qed.

  Lemma stops_or_rp w x : all_ws w = true -> stops_or (w ++ rp ++ x) = true.
  Proof.
    intros H. pose proof (peek_rp w x H) as P. unfold peek, S0 in P; simpl in P.
    unfold stops_or. rewrite P. reflexivity.
  Qed.

  Lemma stops_and_ws w : all_ws w = true -> stops_and w = true.
  Proof. intros H. unfold stops_and. rewrite next_all_ws by assumption. reflexivity. Qed.
  Lemma stops_or_ws w : all_ws w = true -> stops_or w = true.
  Proof. intros H. unfold stops_or. rewrite next_all_ws by assumption. reflexivity. Qed.

  Lemma boundary_ws_rp w x : all_ws w = true -> boundary (w ++ rp ++ x) = true.
  Proof. intros H. Local Transparent rp. unfold rp. simpl app. Local Opaque rp. apply boundary_ws_paren; [assumption|reflexivity]. Qed.

  Lemma parse_main : forall c, wf c = true -> PA c /\ PB1 c /\ PB2 c /\ PC1 c /\ PC2 c.
  Proof.
    induction c as [id|w0 c IH|w1 w2 c IH|c1 IH1 wa wb c2 IH2|c1 IH1 wa wb c2 IH2]; intros Hwf.
    - (* identifier *)
      assert (HA : PA (CId id)).
      { intros _ n w k Hw Hk Hlen. simpl in Hwf. destruct (ident_word id Hwf) as [Hne Hwd].
        destruct n as [|n0]; [lia|]. rewrite parse_not_S. simpl render in *.
        rewrite (peek_tok w id), (adv_tok w id) by assumption.
        rewrite kind_ident by assumption. reflexivity. }
      destruct (PA_PB _ HA) as [HB1 HB2]; [simpl; lia|].
      destruct (PB_PC _ HB2) as [HC1 HC2]; [simpl; lia|]. auto.
    - (* not *)
      cbn [wf] in Hwf. apply andb_true_iff in Hwf as [Hwf Hwfc]. apply andb_true_iff in Hwf as [Hsep Hl].
      apply Nat.leb_le in Hl. destruct (IH Hwfc) as (IA & _).
      assert (HA : PA (CNot w0 c)).
      { intros _ n w k Hw Hk Hlen. destruct n as [|n0]; [lia|]. rewrite parse_not_S. simpl render in *.
        rewrite <- !app_assoc in *.
        assert (Hb : boundary (w0 ++ render c ++ k) = true) by (apply boundary_sep; assumption).
        rewrite (peek_tok w kw_not), (adv_tok w kw_not) by (try assumption; try apply word_not; discriminate).
        rewrite kind_not. rewrite (IA Hl); [reflexivity|apply sep_all_ws; assumption|assumption|lens]. }
      destruct (PA_PB _ HA) as [HB1 HB2]; [simpl; lia|].
      destruct (PB_PC _ HB2) as [HC1 HC2]; [simpl; lia|]. auto.
    - (* parentheses *)
      cbn [wf] in Hwf. apply andb_true_iff in Hwf as [Hwf Hwfc]. apply andb_true_iff in Hwf as [Hw1 Hw2].
      destruct (IH Hwfc) as (_ & _ & _ & _ & IC2).
      assert (HA : PA (CParen w1 w2 c)).
      { intros _ n w k Hw Hk Hlen. destruct n as [|n0]; [lia|]. rewrite parse_not_S. simpl render in *.
        rewrite <- !app_assoc in *.
        rewrite peek_lp, adv_lp by assumption. rewrite kind_lp.
        apply (IC2 n0 n0 w1 (w2 ++ rp ++ k)
                 (fun x => match x with
                           | Some (b, s2) => Some (b, if bytes_eqb (peek s2) rp then advance s2 else fail (advance s2))
                           | None => None end = Some (D c, S0 k)));
          [assumption|apply boundary_ws_rp; assumption|apply stops_and_rp; assumption|lens|lia|].
        intros n' Hn' _. rewrite or_loop_stop by (try lia; apply stops_or_rp; assumption).
        rewrite peek_rp, adv_rp by assumption. rewrite bytes_eqb_refl. reflexivity. }
      destruct (PA_PB _ HA) as [HB1 HB2]; [simpl; lia|].
      destruct (PB_PC _ HB2) as [HC1 HC2]; [simpl; lia|]. auto.
    - (* and *)
      cbn [wf] in Hwf. repeat (apply andb_true_iff in Hwf as [Hwf ?]).
      rename Hwf into Hsa.
      match goal with H : (1 <=? lvl c1) = true |- _ => apply Nat.leb_le in H; rename H into Hl1 end.
      match goal with H : (1 <=? lvl c2) = true |- _ => apply Nat.leb_le in H; rename H into Hl2 end.
      destruct IH1 as (_ & I1B1 & I1B2 & _); [assumption|].
      destruct IH2 as (_ & I2B1 & I2B2 & _); [assumption|].
      assert (HA : PA (CAnd c1 wa wb c2)) by (intros Hl; simpl in Hl; lia).
      assert (HB1 : PB1 (CAnd c1 wa wb c2)).
      { intros _ m n b w1 w2 k Q Hw1 Hw2 Hk Hlen Hm HQ. simpl render in *. rewrite <- !app_assoc in *.
        apply (I1B1 Hl1 m n b w1 w2 (wa ++ kw_and ++ wb ++ render c2 ++ k) Q);
          [assumption|assumption|apply boundary_sep; assumption|lens|lia|].
        intros n' Hn' Hm'.
        apply (I2B1 Hl2 m n' (b && D c1) wa wb k Q);
          [apply sep_all_ws; assumption|assumption|assumption|lens|lia|].
        intros n'' Hn'' Hm''. simpl in HQ. rewrite <- andb_assoc. apply HQ; lia. }
      assert (HB2 : PB2 (CAnd c1 wa wb c2)).
      { intros _ m n w k Q Hw Hk Hlen Hm HQ. simpl render in *. rewrite <- !app_assoc in *.
        apply (I1B2 Hl1 m n w (wa ++ kw_and ++ wb ++ render c2 ++ k) Q);
          [assumption|apply boundary_sep; assumption|lens|lia|].
        intros n' Hn' Hm'.
        apply (I2B1 Hl2 m n' (D c1) wa wb k Q);
          [apply sep_all_ws; assumption|assumption|assumption|lens|lia|].
        intros n'' Hn'' Hm''. apply HQ; lia. }
      destruct (PB_PC _ HB2) as [HC1 HC2]; [simpl; lia|]. auto.
    - (* or *)
      cbn [wf] in Hwf. repeat (apply andb_true_iff in Hwf as [Hwf ?]).
      rename Hwf into Hsa.
      destruct IH1 as (_ & _ & _ & I1C1 & I1C2); [assumption|].
      destruct IH2 as (_ & _ & _ & I2C1 & I2C2); [assumption|].
      assert (HA : PA (COr c1 wa wb c2)) by (intros Hl; simpl in Hl; lia).
      assert (HB1 : PB1 (COr c1 wa wb c2)) by (intros Hl; simpl in Hl; lia).
      assert (HB2 : PB2 (COr c1 wa wb c2)) by (intros Hl; simpl in Hl; lia).
      assert (HC1 : PC1 (COr c1 wa wb c2)).
      { intros m n b w1 w2 k Q Hw1 Hw2 Hk Hs Hlen Hm HQ. simpl render in *. rewrite <- !app_assoc in *.
        apply (I1C1 m n b w1 w2 (wa ++ kw_or ++ wb ++ render c2 ++ k) Q);
          [assumption|assumption|apply boundary_sep; assumption
          |apply stops_and_or; [apply sep_all_ws|]; assumption|lens|lia|].
        intros n' Hn' Hm'.
        apply (I2C1 m n' (b || D c1) wa wb k Q);
          [apply sep_all_ws; assumption|assumption|assumption|assumption|lens|lia|].
        intros n'' Hn'' Hm''. simpl in HQ. rewrite <- orb_assoc. apply HQ; lia. }
      assert (HC2 : PC2 (COr c1 wa wb c2)).
      { intros m n w k Q Hw Hk Hs Hlen Hm HQ. simpl render in *. rewrite <- !app_assoc in *.
        apply (I1C2 m n w (wa ++ kw_or ++ wb ++ render c2 ++ k) Q);
          [assumption|apply boundary_sep; assumption
          |apply stops_and_or; [apply sep_all_ws|]; assumption|lens|lia|].
        intros n' Hn' Hm'.
        apply (I2C1 m n' (D c1) wa wb k Q);
          [apply sep_all_ws; assumption|assumption|assumption|assumption|lens|lia|].
        intros n'' Hn'' Hm''. apply HQ; lia. }
      auto.
  Qed.

  (** ** Main theorem on written expressions: optsep expr optsep *)
  Theorem eval_correct_cst : forall c w0 w1, wf c = true -> all_ws w0 = true -> all_ws w1 = true ->
    eval_impl (w0 ++ render c ++ w1) e = ROk (D c).
  Proof.
    intros c w0 w1 Hwf H0 H1. destruct (parse_main c Hwf) as (_ & _ & _ & _ & HC2).
    unfold eval_impl, eval_fuel. set (n := S (length (w0 ++ render c ++ w1))).
    apply (HC2 n n w0 w1
             (fun x => match x with
                       | Some (b, s) => if err (if negb (err s) && negb (bytes_eqb (peek s) []) then fail s else s) then RErr else ROk b
                       | None => ROutOfFuel end = ROk (D c)));
      [assumption|apply boundary_all_ws; assumption|apply stops_and_ws; assumption|subst n; lia|lia|].
    intros n' Hn' _. rewrite or_loop_stop by (try lia; apply stops_or_ws; assumption).
    rewrite peek_end by assumption. reflexivity.
  Qed.

  (** ** Malformed classes *)

  (** text left after a complete expression (adjacent operands, stray ")" or "(", a second
      expression): whatever follows, if its first token is neither "and" nor "or" *)
  Theorem reject_trailing : forall c w0 k, wf c = true -> all_ws w0 = true -> boundary k = true ->
    fst (next is_ws k) <> [] -> stops_and k = true -> stops_or k = true ->
    eval_impl (w0 ++ render c ++ k) e = RErr.
  Proof.
    intros c w0 k Hwf H0 Hk Hne Hsa Hso. destruct (parse_main c Hwf) as (_ & _ & _ & _ & HC2).
    unfold eval_impl, eval_fuel. set (n := S (length (w0 ++ render c ++ k))).
    apply (HC2 n n w0 k
             (fun x => match x with
                       | Some (b, s) => if err (if negb (err s) && negb (bytes_eqb (peek s) []) then fail s else s) then RErr else ROk b
                       | None => ROutOfFuel end = RErr));
      [assumption|assumption|assumption|subst n; lia|lia|].
    intros n' Hn' _. rewrite or_loop_stop by (try lia; assumption).
    unfold peek, S0; simpl. rewrite (bytes_eqb_neq _ [] Hne). reflexivity.
  Qed.

  (** nothing where an operand must start: empty text, or a first token that is an operator or ")" *)
  Theorem reject_first : forall s,
    match kind_of (fst (next is_ws s)) with KEnd | KRp | KAnd | KOr => True | _ => False end ->
    eval_impl s e = RErr.
  Proof.
    intros s H. unfold eval_impl, eval_fuel. unfold parse_or, parse_and.
    rewrite parse_not_S. unfold peek at 1. simpl rest.
    destruct (kind_of (fst (next is_ws s))); try contradiction;
      (rewrite and_loop_err by (try lia; reflexivity); rewrite or_loop_err by (try lia; reflexivity); reflexivity).
  Qed.

  Lemma pn_end m w : 0 < m -> all_ws w = true -> PN m (S0 w) = Some (false, mkSt [] true).
  Proof.
    intros Hm Hw. destruct m; [lia|]. rewrite parse_not_S, peek_end, adv_end by assumption. reflexivity.
  Qed.

  (** Evaluate's epilogue *)
  Definition finish (x : option (bool * st)) : result :=
    match x with
    | Some (b, s) => if err (if negb (err s) && negb (bytes_eqb (peek s) []) then fail s else s) then RErr else ROk b
    | None => ROutOfFuel
    end.
  Lemma eval_fuel_finish n expr : eval_fuel n expr e = finish (parse_or (PN n) n (S0 expr)).
  Proof. reflexivity. Qed.

  Definition errs (x : option (bool * st)) : Prop := exists b s, x = Some (b, s) /\ err s = true.
  Lemma finish_errs x : errs x -> finish x = RErr.
  Proof. intros (b & s & -> & H). simpl. rewrite H. simpl. rewrite H. reflexivity. Qed.

  (** an operator with nothing after it: expr sep "or" optsep *)
  Theorem reject_dangling_or : forall c w0 w1 w2, wf c = true -> all_ws w0 = true -> is_sep w1 = true ->
    all_ws w2 = true -> eval_impl (w0 ++ render c ++ w1 ++ kw_or ++ w2) e = RErr.
  Proof.
    intros c w0 w1 w2 Hwf H0 H1 H2. destruct (parse_main c Hwf) as (_ & _ & _ & _ & HC2).
    unfold eval_impl. rewrite eval_fuel_finish. apply finish_errs.
    set (n := S (length (w0 ++ render c ++ w1 ++ kw_or ++ w2))).
    assert (Hb2 : boundary w2 = true) by (apply boundary_all_ws; assumption).
    assert (Hw1 : all_ws w1 = true) by (apply sep_all_ws; assumption).
    apply (HC2 n n w0 (w1 ++ kw_or ++ w2) errs);
      [assumption|apply boundary_sep; assumption|apply stops_and_or'; assumption|subst n; lia|lia|].
    intros n' Hn' Hm'. assert (Hn0 : 0 < n) by (subst n; lia). clearbody n.
    destruct n' as [|n1]; [lia|]. rewrite or_loop_S.
    pose proof (peek_tok w1 kw_or w2) as P. pose proof (adv_tok w1 kw_or w2) as A.
    rewrite P, A by (try assumption; try apply word_or; discriminate).
    simpl. rewrite bytes_eqb_refl. unfold parse_and. rewrite pn_end by assumption.
    assert (0 < n1) by (clear - Hn'; lens).
    rewrite and_loop_err, or_loop_err by (try assumption; reflexivity).
    eexists _, _. split; reflexivity.
  Qed.

  (** expr sep "and" optsep *)
  Section DanglingAnd.
    Variables w1 w2 : list byte.
    Hypothesis Hw1 : all_ws w1 = true.
    Hypothesis Hw2 : all_ws w2 = true.
    Let kd := w1 ++ kw_and ++ w2.

    Lemma dang_and_loop m n b : 0 < m -> length kd < n -> errs (and_loop (PN m) n b (S0 kd)).
    Proof.
      intros Hm Hn. subst kd. destruct n as [|n1]; [lia|]. rewrite and_loop_S.
      assert (Hb2 : boundary w2 = true) by (apply boundary_all_ws; assumption).
      pose proof (peek_tok w1 kw_and w2) as P. pose proof (adv_tok w1 kw_and w2) as A.
      rewrite P, A by (try assumption; try apply word_and; discriminate).
      simpl. rewrite bytes_eqb_refl. rewrite pn_end by assumption.
      assert (0 < n1) by (clear - Hn; lens).
      rewrite and_loop_err by (try assumption; reflexivity).
      eexists _, _. split; reflexivity.
    Qed.

    Lemma dang_parse_and c m n w : wf c = true -> 1 <= lvl c -> is_sep w1 = true -> all_ws w = true ->
      length (w ++ render c ++ kd) < n -> n <= m -> errs (parse_and (PN m) n (S0 (w ++ render c ++ kd))).
    Proof.
      intros Hwf Hl Hs Hw Hlen Hm. destruct (parse_main c Hwf) as (_ & _ & HB2 & _).
      apply (HB2 Hl m n w kd errs); [assumption|apply boundary_sep; assumption|assumption|assumption|].
      intros n' Hn' Hm'. apply dang_and_loop; lia.
    Qed.

    Lemma dang_or_chunk : forall c, wf c = true -> is_sep w1 = true ->
      forall m n b wa wb, all_ws wa = true -> is_sep wb = true ->
      length (wa ++ kw_or ++ wb ++ render c ++ kd) < n -> n <= m ->
      errs (or_loop (PN m) n b (S0 (wa ++ kw_or ++ wb ++ render c ++ kd))).
    Proof.
      assert (Hatom : forall c, wf c = true -> 1 <= lvl c -> is_sep w1 = true ->
        forall m n b wa wb, all_ws wa = true -> is_sep wb = true ->
        length (wa ++ kw_or ++ wb ++ render c ++ kd) < n -> n <= m ->
        errs (or_loop (PN m) n b (S0 (wa ++ kw_or ++ wb ++ render c ++ kd)))).
      { intros c Hwf Hl Hs m n b wa wb Ha Hb Hlen Hm. destruct n as [|n1]; [lia|]. rewrite or_loop_S.
        assert (Hbd : boundary (wb ++ render c ++ kd) = true) by (apply boundary_sep; assumption).
        pose proof (peek_tok wa kw_or (wb ++ render c ++ kd)) as P.
        pose proof (adv_tok wa kw_or (wb ++ render c ++ kd)) as A.
        rewrite P, A by (try assumption; try apply word_or; discriminate).
        simpl. rewrite bytes_eqb_refl.
        destruct (dang_parse_and c m n1 wb Hwf Hl Hs (sep_all_ws _ Hb)) as (b' & s' & E & Herr);
          [clear - Hlen; lens|lia|].
        rewrite E. assert (0 < n1) by (clear - Hlen; lens).
        rewrite or_loop_err by assumption. eexists _, _. split; [reflexivity|assumption]. }
      induction c as [id|w0 c IH|wx wy c IH|c1 IH1 wx wy c2 IH2|c1 IH1 wx wy c2 IH2]; intros Hwf Hs;
        try (apply Hatom; [assumption|simpl; lia|assumption]).
      cbn [wf] in Hwf. repeat (apply andb_true_iff in Hwf as [Hwf ?]).
      intros m n b wa wb Ha Hb Hlen Hm. simpl render in *. rewrite <- !app_assoc in *.
      destruct (parse_main c1) as (_ & _ & _ & HC1 & _); [assumption|].
      apply (HC1 m n b wa wb (wx ++ kw_or ++ wy ++ render c2 ++ kd) errs);
        [assumption|assumption|apply boundary_sep; assumption
        |apply stops_and_or; [apply sep_all_ws|]; assumption|assumption|assumption|].
      intros n' Hn' Hm'. apply IH2; try assumption. apply sep_all_ws; assumption.
    Qed.

    Lemma dang_parse_or c m n w : wf c = true -> is_sep w1 = true -> all_ws w = true ->
      length (w ++ render c ++ kd) < n -> n <= m -> errs (parse_or (PN m) n (S0 (w ++ render c ++ kd))).
    Proof.
      intros Hwf Hs Hw Hlen Hm.
      assert (Hatom : 1 <= lvl c -> errs (parse_or (PN m) n (S0 (w ++ render c ++ kd)))).
      { intros Hl. unfold parse_or.
        destruct (dang_parse_and c m n w Hwf Hl Hs Hw Hlen Hm) as (b' & s' & E & Herr). rewrite E.
        rewrite or_loop_err by (try assumption; lia). eexists _, _. split; [reflexivity|assumption]. }
      destruct c as [id|w0 c|wx wy c|c1 wx wy c2|c1 wx wy c2]; try (apply Hatom; simpl; lia).
      cbn [wf] in Hwf. repeat (apply andb_true_iff in Hwf as [Hwf ?]).
      simpl render in *. rewrite <- !app_assoc in *.
      destruct (parse_main c1) as (_ & _ & _ & _ & HC2); [assumption|].
      apply (HC2 m n w (wx ++ kw_or ++ wy ++ render c2 ++ kd) errs);
        [assumption|apply boundary_sep; assumption
        |apply stops_and_or; [apply sep_all_ws|]; assumption|assumption|assumption|].
      intros n' Hn' Hm'. apply dang_or_chunk; try assumption. apply sep_all_ws; assumption.
    Qed.
  End DanglingAnd.

  Theorem reject_dangling_and : forall c w0 w1 w2, wf c = true -> all_ws w0 = true -> is_sep w1 = true ->
    all_ws w2 = true -> eval_impl (w0 ++ render c ++ w1 ++ kw_and ++ w2) e = RErr.
  Proof.
    intros c w0 w1 w2 Hwf H0 H1 H2. unfold eval_impl. rewrite eval_fuel_finish. apply finish_errs.
    apply dang_parse_or; try assumption; try lia. apply sep_all_ws; assumption.
  Qed.

  (** a parenthesis that is never closed: optsep "(" optsep expr optsep *)
  Theorem reject_unclosed : forall c w0 w1 w2, wf c = true -> all_ws w0 = true -> all_ws w1 = true ->
    all_ws w2 = true -> eval_impl (w0 ++ lp ++ w1 ++ render c ++ w2) e = RErr.
  Proof.
    intros c w0 w1 w2 Hwf H0 H1 H2. destruct (parse_main c Hwf) as (_ & _ & _ & _ & HC2).
    unfold eval_impl. rewrite eval_fuel_finish. apply finish_errs.
    set (n0 := length (w0 ++ lp ++ w1 ++ render c ++ w2)).
    unfold parse_or, parse_and. rewrite parse_not_S. rewrite peek_lp, adv_lp by assumption. rewrite kind_lp.
    apply (HC2 n0 n0 w1 w2
             (fun x => errs match match match x with
                       | Some (b, s2) => Some (b, if bytes_eqb (peek s2) rp then advance s2 else fail (advance s2))
                       | None => None end with
                       | Some (b, s') => and_loop (PN (S n0)) (S n0) b s' | None => None end with
                       | Some (b, s') => or_loop (PN (S n0)) (S n0) b s' | None => None end));
      [assumption|apply boundary_all_ws; assumption|apply stops_and_ws; assumption|subst n0; clear; lens|lia|].
    intros n' Hn' _. rewrite or_loop_stop by (try lia; apply stops_or_ws; assumption).
    rewrite peek_end by assumption.
    replace (bytes_eqb [] rp) with false by reflexivity.
    rewrite and_loop_err, or_loop_err by (try lia; reflexivity).
    eexists _, _. split; reflexivity.
  Qed.
End Correct.

Lemma reject_dangling : forall e c w0 w1 w2,
  wf c = true -> all_ws w0 = true -> is_sep w1 = true -> all_ws w2 = true ->
  eval_impl (w0 ++ render c ++ w1 ++ kw_and ++ w2) e = RErr /\
  eval_impl (w0 ++ render c ++ w1 ++ kw_or ++ w2) e = RErr.
Proof. intros; split; [apply reject_dangling_and|apply reject_dangling_or]; assumption. Qed.

(** * The printer family produces grammatical written expressions *)
Lemma lvl_wrap sty k c : 0 < k -> lvl (wrap sty k c) = 2.
Proof. destruct k; [lia|reflexivity]. Qed.

Lemma wf_paren sty c : style_ok sty = true -> wf c = true -> wf (paren sty c) = true.
Proof.
  unfold style_ok, paren. intros H Hc. apply andb_true_iff in H as [_ H]. cbn [wf]. rewrite H, Hc. reflexivity.
Qed.

Lemma wf_wrap sty k c : style_ok sty = true -> wf c = true -> wf (wrap sty k c) = true.
Proof. intros H Hc. induction k; simpl; [assumption|]. apply wf_paren; assumption. Qed.

Lemma abstract_wrap sty k c : abstract (wrap sty k c) = abstract c.
Proof. induction k; simpl; auto. Qed.

Lemma wf_atleast sty l c : style_ok sty = true -> wf c = true -> wf (atleast sty l c) = true.
Proof. intros H Hc. unfold atleast. destruct (l <=? lvl c); [assumption|apply wf_paren; assumption]. Qed.

Lemma lvl_atleast sty l c : l <= 2 -> l <= lvl (atleast sty l c).
Proof. intros H. unfold atleast. destruct (l <=? lvl c) eqn:E; [apply Nat.leb_le; assumption|simpl; lia]. Qed.

Lemma abstract_atleast sty l c : abstract (atleast sty l c) = abstract c.
Proof. unfold atleast. destruct (l <=? lvl c); reflexivity. Qed.

Lemma print_wf sty : style_ok sty = true -> forall x, idents_ok x = true ->
  wf (print sty x) = true /\ abstract (print sty x) = x.
Proof.
  intros Hs. pose proof Hs as Hs'. unfold style_ok in Hs'. apply andb_true_iff in Hs' as [Hgap Hpad].
  induction x as [id|a IH|a IHa b IHb|a IHa b IHb]; cbn [idents_ok print]; intros Hid.
  - split; [apply wf_wrap; assumption|rewrite abstract_wrap; reflexivity].
  - destruct (IH Hid) as [W A]. split.
    + apply wf_wrap; [assumption|]. cbn [wf]. rewrite Hgap, wf_atleast by assumption.
      assert (L : 2 <= lvl (atleast sty 2 (print sty a))) by (apply lvl_atleast; lia).
      apply Nat.leb_le in L. rewrite L. reflexivity.
    + rewrite abstract_wrap. cbn [abstract]. rewrite abstract_atleast, A. reflexivity.
  - apply andb_true_iff in Hid as [Ha Hb]. destruct (IHa Ha) as [Wa Aa]. destruct (IHb Hb) as [Wb Ab]. split.
    + apply wf_wrap; [assumption|]. cbn [wf]. rewrite Hgap, !wf_atleast by assumption.
      assert (L1 : 1 <= lvl (atleast sty 1 (print sty a))) by (apply lvl_atleast; lia).
      assert (L2 : 1 <= lvl (atleast sty 1 (print sty b))) by (apply lvl_atleast; lia).
      apply Nat.leb_le in L1, L2. rewrite L1, L2. reflexivity.
    + rewrite abstract_wrap. cbn [abstract]. rewrite !abstract_atleast, Aa, Ab. reflexivity.
  - apply andb_true_iff in Hid as [Ha Hb]. destruct (IHa Ha) as [Wa Aa]. destruct (IHb Hb) as [Wb Ab]. split.
    + apply wf_wrap; [assumption|]. cbn [wf]. rewrite Hgap, Wa, Wb. reflexivity.
    + rewrite abstract_wrap. cbn [abstract]. rewrite Aa, Ab. reflexivity.
Qed.

(** * MAIN THEOREM: for every expression, every style of writing it and every assignment *)
Theorem eval_correct : forall sty x e, style_ok sty = true -> idents_ok x = true ->
  eval_impl (print_text sty x) e = ROk (denote x (lookup e)).
Proof.
  intros sty x e Hs Hid. destruct (print_wf sty Hs x Hid) as [W A].
  unfold print_text. rewrite <- (app_nil_r (render _)). rewrite <- (app_nil_l (render _ ++ [])).
  rewrite eval_correct_cst by (try assumption; reflexivity). rewrite A. reflexivity.
Qed.

(** * The evaluator of the pinned commit is refuted by "not (a or b) and c" with every feature off *)
Definition witness_text : list byte :=
  [x6e;x6f;x74;x20;x28;x61;x20;x6f;x72;x20;x62;x29;x20;x61;x6e;x64;x20;x63].
Definition witness_expr : fexpr := And (Not (Or (Feat [x61]) (Feat [x62]))) (Feat [x63]).
Definition all_off : env := fun _ => false.

Lemma witness_is_print : print_text (mkStyle [x20] [] 0) witness_expr = witness_text.
Proof. vm_compute. reflexivity. Qed.

Lemma old_eval_refuted :
  old_eval_impl witness_text all_off = ROk true /\ denote witness_expr all_off = false.
Proof. split; vm_compute; reflexivity. Qed.

(** the lenient reading: a keyword touching a parenthesis is accepted *)
Lemma lenient_not_paren :
  eval_impl [x6e;x6f;x74;x28;x61;x29] all_off = ROk true.
Proof. vm_compute. reflexivity. Qed.

Lemma old_eval_refuted_print :
  old_eval_impl (print_text (mkStyle [x20] [] 0) witness_expr) all_off = ROk true /\
  denote witness_expr all_off = false.
Proof. rewrite witness_is_print. exact old_eval_refuted. Qed.
