(** Deviations change exactly the named property (Feature/Deviate.v):
    frame ([deviate_frame]), effect per deviate kind and property, not-supported removes exactly
    the target ([remove_child_spec]). *)
From Coq Require Import ZArith List Bool Lia Strings.Byte.
From YV Require Import Feature.IfFeature Feature.IfFeatureProofs Feature.Deviate.
Import ListNotations.

(** every step either leaves the record alone (property not named) or rewrites one field *)
Ltac step_inv H :=
  repeat match type of H with
         | context [match ?x with _ => _ end] => destruct x eqn:?; try discriminate H
         | context [if ?x then _ else _] => destruct x eqn:?; try discriminate H
         end;
  try (injection H as <-).

Ltac frame_step name :=
  intros k a p p' f H Hn; unfold name in H; destruct f; simpl in Hn;
  step_inv H; try reflexivity; try discriminate Hn.

Lemma fr_add_config : forall k a p p' f, add_config k a p = SOk p' -> names_args a f = false -> get f p' = get f p.
Proof. frame_step add_config. Qed.
Lemma fr_add_mandatory : forall k a p p' f, add_mandatory k a p = SOk p' -> names_args a f = false -> get f p' = get f p.
Proof. frame_step add_mandatory. Qed.
Lemma fr_add_max : forall k a p p' f, add_max k a p = SOk p' -> names_args a f = false -> get f p' = get f p.
Proof. frame_step add_max. Qed.
Lemma fr_add_min : forall k a p p' f, add_min k a p = SOk p' -> names_args a f = false -> get f p' = get f p.
Proof. frame_step add_min. Qed.
Lemma fr_add_musts : forall k a p p' f, add_musts k a p = SOk p' -> names_args a f = false -> get f p' = get f p.
Proof. frame_step add_musts. Qed.
Lemma fr_add_units : forall k a p p' f, add_units k a p = SOk p' -> names_args a f = false -> get f p' = get f p.
Proof. frame_step add_units. Qed.
Lemma fr_add_defaults : forall k a p p' f, add_defaults k a p = SOk p' -> names_args a f = false -> get f p' = get f p.
Proof. frame_step add_defaults. Qed.
Lemma fr_add_unique : forall k a p p' f, add_unique k a p = SOk p' -> names_args a f = false -> get f p' = get f p.
Proof. frame_step add_unique. Qed.
Lemma fr_rep_type : forall k a p p' f, rep_type k a p = SOk p' -> names_args a f = false -> get f p' = get f p.
Proof. frame_step rep_type. Qed.
Lemma fr_rep_config : forall k a p p' f, rep_config k a p = SOk p' -> names_args a f = false -> get f p' = get f p.
Proof. frame_step rep_config. Qed.
Lemma fr_rep_mandatory : forall k a p p' f, rep_mandatory k a p = SOk p' -> names_args a f = false -> get f p' = get f p.
Proof. frame_step rep_mandatory. Qed.
Lemma fr_rep_max : forall k a p p' f, rep_max k a p = SOk p' -> names_args a f = false -> get f p' = get f p.
Proof. frame_step rep_max. Qed.
Lemma fr_rep_min : forall k a p p' f, rep_min k a p = SOk p' -> names_args a f = false -> get f p' = get f p.
Proof. frame_step rep_min. Qed.
Lemma fr_rep_units : forall k a p p' f, rep_units k a p = SOk p' -> names_args a f = false -> get f p' = get f p.
Proof. frame_step rep_units. Qed.
Lemma fr_rep_defaults : forall k a p p' f, rep_defaults k a p = SOk p' -> names_args a f = false -> get f p' = get f p.
Proof. frame_step rep_defaults. Qed.
Lemma fr_del_units : forall k a p p' f, del_units k a p = SOk p' -> names_args a f = false -> get f p' = get f p.
Proof. frame_step del_units. Qed.
Lemma fr_del_defaults : forall k a p p' f, del_defaults k a p = SOk p' -> names_args a f = false -> get f p' = get f p.
Proof. frame_step del_defaults. Qed.
Lemma fr_del_unique : forall k a p p' f, del_unique k a p = SOk p' -> names_args a f = false -> get f p' = get f p.
Proof. frame_step del_unique. Qed.
Lemma fr_del_musts : forall k a p p' f, del_musts k a p = SOk p' -> names_args a f = false -> get f p' = get f p.
Proof. frame_step del_musts. Qed.

Lemma bind_ok r g p' : r >>= g = SOk p' -> exists q, r = SOk q /\ g q = SOk p'.
Proof. destruct r; simpl; intros H; try discriminate. eauto. Qed.

Ltac chain H :=
  repeat match type of H with
         | (_ >>= _) = SOk _ => let q := fresh "q" in let H1 := fresh "H" in
                                apply bind_ok in H as (q & H1 & H); chain H1
         end.

Lemma fr_add_phase k a p p' f : add_phase k a p = SOk p' -> names_args a f = false -> get f p' = get f p.
Proof.
  unfold add_phase. intros H Hn. chain H.
  repeat match goal with
         | H : add_config _ _ _ = SOk _ |- _ => apply (fr_add_config _ _ _ _ f) in H; [|assumption]
         | H : add_mandatory _ _ _ = SOk _ |- _ => apply (fr_add_mandatory _ _ _ _ f) in H; [|assumption]
         | H : add_max _ _ _ = SOk _ |- _ => apply (fr_add_max _ _ _ _ f) in H; [|assumption]
         | H : add_min _ _ _ = SOk _ |- _ => apply (fr_add_min _ _ _ _ f) in H; [|assumption]
         | H : add_musts _ _ _ = SOk _ |- _ => apply (fr_add_musts _ _ _ _ f) in H; [|assumption]
         | H : add_units _ _ _ = SOk _ |- _ => apply (fr_add_units _ _ _ _ f) in H; [|assumption]
         | H : add_defaults _ _ _ = SOk _ |- _ => apply (fr_add_defaults _ _ _ _ f) in H; [|assumption]
         | H : add_unique _ _ _ = SOk _ |- _ => apply (fr_add_unique _ _ _ _ f) in H; [|assumption]
         end.
  congruence.
Qed.

Lemma fr_replace_phase k a p p' f : replace_phase k a p = SOk p' -> names_args a f = false -> get f p' = get f p.
Proof.
  unfold replace_phase. intros H Hn. chain H.
  repeat match goal with
         | H : rep_type _ _ _ = SOk _ |- _ => apply (fr_rep_type _ _ _ _ f) in H; [|assumption]
         | H : rep_config _ _ _ = SOk _ |- _ => apply (fr_rep_config _ _ _ _ f) in H; [|assumption]
         | H : rep_mandatory _ _ _ = SOk _ |- _ => apply (fr_rep_mandatory _ _ _ _ f) in H; [|assumption]
         | H : rep_max _ _ _ = SOk _ |- _ => apply (fr_rep_max _ _ _ _ f) in H; [|assumption]
         | H : rep_min _ _ _ = SOk _ |- _ => apply (fr_rep_min _ _ _ _ f) in H; [|assumption]
         | H : rep_units _ _ _ = SOk _ |- _ => apply (fr_rep_units _ _ _ _ f) in H; [|assumption]
         | H : rep_defaults _ _ _ = SOk _ |- _ => apply (fr_rep_defaults _ _ _ _ f) in H; [|assumption]
         end.
  congruence.
Qed.

Lemma fr_delete_phase k a p p' f : delete_phase k a p = SOk p' -> names_args a f = false -> get f p' = get f p.
Proof.
  unfold delete_phase. intros H Hn. chain H.
  repeat match goal with
         | H : del_units _ _ _ = SOk _ |- _ => apply (fr_del_units _ _ _ _ f) in H; [|assumption]
         | H : del_defaults _ _ _ = SOk _ |- _ => apply (fr_del_defaults _ _ _ _ f) in H; [|assumption]
         | H : del_unique _ _ _ = SOk _ |- _ => apply (fr_del_unique _ _ _ _ f) in H; [|assumption]
         | H : del_musts _ _ _ = SOk _ |- _ => apply (fr_del_musts _ _ _ _ f) in H; [|assumption]
         end.
  congruence.
Qed.

Lemma fr_opt k (ph : kind -> dargs -> props -> sres) o p p' f :
  (forall a p p', ph k a p = SOk p' -> names_args a f = false -> get f p' = get f p) ->
  opt_phase (ph k) o p = SOk p' -> names_opt o f = false -> get f p' = get f p.
Proof.
  intros Hph H Hn. destruct o as [a|]; simpl in *; [eapply Hph; eassumption|congruence].
Qed.

(** FRAME: a property that no deviate statement of the deviation names is unchanged, for every
    node kind, every prior state and every deviation (add, replace and delete together). *)
Theorem deviate_frame : forall k d p p' f,
  apply_deviation k d p = DOk p' -> names d f = false -> get f p' = get f p.
Proof.
  intros k d p p' f H Hn. unfold apply_deviation in H.
  destruct (d_not_supported d); [discriminate|].
  destruct (apply_phases k d p) as [q| |] eqn:E; try discriminate. injection H as <-.
  unfold names in Hn. apply orb_false_iff in Hn as [Hn Hd]. apply orb_false_iff in Hn as [Ha Hr].
  unfold apply_phases in E. chain E.
  apply (fr_opt k add_phase _ _ _ f) in H0; [|intros; eapply fr_add_phase; eassumption|assumption].
  apply (fr_opt k replace_phase _ _ _ f) in H; [|intros; eapply fr_replace_phase; eassumption|assumption].
  apply (fr_opt k delete_phase _ _ _ f) in E; [|intros; eapply fr_delete_phase; eassumption|assumption].
  congruence.
Qed.

(** ** EFFECT: a deviation with one deviate statement naming one property *)
Definition dev_add (a : dargs) := mkDev false (Some a) None None.
Definition dev_replace (a : dargs) := mkDev false None (Some a) None.
Definition dev_delete (a : dargs) := mkDev false None None (Some a).

Definition w_config b := mkArgs (Some b) None None None [] [] None [] None.
Definition w_mandatory b := mkArgs None (Some b) None None [] [] None [] None.
Definition w_min n := mkArgs None None (Some n) None [] [] None [] None.
Definition w_max n := mkArgs None None None (Some n) [] [] None [] None.
Definition w_musts ms := mkArgs None None None None ms [] None [] None.
Definition w_units u := mkArgs None None None None [] u None [] None.
Definition w_defaults ds := mkArgs None None None None [] [] (Some ds) [] None.
Definition w_unique us := mkArgs None None None None [] [] None us None.
Definition w_type t := mkArgs None None None None [] [] None [] (Some t).

Local Opaque bytes_eqb.
Ltac eff := intros; unfold apply_deviation, apply_phases, opt_phase, add_phase, replace_phase, delete_phase; simpl;
  unfold add_config, add_mandatory, add_max, add_min, add_musts, add_units, add_defaults, add_unique,
    rep_type, rep_config, rep_mandatory, rep_max, rep_min, rep_units, rep_defaults,
    del_units, del_defaults, del_unique, del_musts; simpl;
  repeat match goal with H : _ = _ |- _ => rewrite H; simpl end; try reflexivity.

(** add: the property must be absent and becomes the argument; musts/unique are appended once *)
Theorem eff_add_units : forall k p u, has_type k = true -> u <> [] -> p_units p = [] ->
  apply_deviation k (dev_add (w_units u)) p = DOk (set_units p u).
Proof. intros k p u Hk Hu Hp. destruct u; [congruence|]. eff. Qed.
Theorem eff_add_units_conflict : forall k p u, has_type k = true -> u <> [] -> p_units p <> [] ->
  apply_deviation k (dev_add (w_units u)) p = DErr.
Proof. intros k p u Hk Hu Hp. destruct u; [congruence|]. destruct (p_units p) eqn:E; [congruence|]. eff. Qed.
Theorem eff_add_musts : forall k p ms, has_musts k = true ->
  apply_deviation k (dev_add (w_musts ms)) p = DOk (set_musts p (p_musts p ++ ms)).
Proof.
  intros k p ms Hk. destruct ms; [|eff].
  eff. rewrite app_nil_r. destruct p; reflexivity.
Qed.
Theorem eff_add_config : forall k p b, has_dets k = true -> p_config p = None ->
  apply_deviation k (dev_add (w_config b)) p = DOk (set_config p (Some b)).
Proof. eff. Qed.
Theorem eff_add_mandatory : forall k p b, has_dets k = true -> p_mandatory p = None ->
  apply_deviation k (dev_add (w_mandatory b)) p = DOk (set_mandatory p (Some b)).
Proof. eff. Qed.
Theorem eff_add_min : forall k p n, has_listdets k = true -> p_min p = None ->
  apply_deviation k (dev_add (w_min n)) p = DOk (set_min p (Some n)).
Proof. eff. Qed.
Theorem eff_add_max : forall k p n, has_listdets k = true -> p_max p = None ->
  apply_deviation k (dev_add (w_max n)) p = DOk (set_max p (Some n)).
Proof. eff. Qed.
Theorem eff_add_default : forall k p d, has_type k = true -> p_defaults p = None ->
  apply_deviation k (dev_add (w_defaults [d])) p = DOk (set_defaults p (Some [d])).
Proof. eff. Qed.
Theorem eff_add_unique : forall k p us, is_list k = true ->
  apply_deviation k (dev_add (w_unique us)) p = DOk (set_unique p (p_unique p ++ us)).
Proof.
  intros k p us Hk. destruct us; [|eff].
  eff. rewrite app_nil_r. destruct p; reflexivity.
Qed.

(** replace: the property must be present and becomes the argument *)
Theorem eff_replace_units : forall k p u, has_type k = true -> u <> [] -> p_units p <> [] ->
  apply_deviation k (dev_replace (w_units u)) p = DOk (set_units p u).
Proof. intros k p u Hk Hu Hp. destruct u; [congruence|]. destruct (p_units p) eqn:E; [congruence|]. eff. Qed.
Theorem eff_replace_type : forall k p t, has_type k = true ->
  apply_deviation k (dev_replace (w_type t)) p = DOk (set_type p t).
Proof. eff. Qed.
Theorem eff_replace_config : forall k p b b0, has_dets k = true -> p_config p = Some b0 ->
  apply_deviation k (dev_replace (w_config b)) p = DOk (set_config p (Some b)).
Proof. eff. Qed.
Theorem eff_replace_mandatory : forall k p b b0, has_dets k = true -> p_mandatory p = Some b0 ->
  apply_deviation k (dev_replace (w_mandatory b)) p = DOk (set_mandatory p (Some b)).
Proof. eff. Qed.
Theorem eff_replace_min : forall k p n n0, has_listdets k = true -> p_min p = Some n0 ->
  apply_deviation k (dev_replace (w_min n)) p = DOk (set_min p (Some n)).
Proof. eff. Qed.
Theorem eff_replace_max : forall k p n n0, has_listdets k = true -> p_max p = Some n0 ->
  apply_deviation k (dev_replace (w_max n)) p = DOk (set_max p (Some n)).
Proof. eff. Qed.
Theorem eff_replace_default : forall k p d ds0, has_type k = true -> p_defaults p = Some ds0 ->
  apply_deviation k (dev_replace (w_defaults [d])) p = DOk (set_defaults p (Some [d])).
Proof. intros. eff. destruct (single_default k); reflexivity. Qed.

(** delete: the argument must match; the property goes away *)
Theorem eff_delete_units : forall k p u, has_type k = true -> u <> [] -> p_units p = u ->
  apply_deviation k (dev_delete (w_units u)) p = DOk (set_units p []).
Proof. intros k p u Hk Hu Hp. destruct u; [congruence|]. eff. rewrite bytes_eqb_refl. reflexivity. Qed.
Theorem eff_delete_units_mismatch : forall k p u, has_type k = true -> u <> [] -> p_units p <> u ->
  apply_deviation k (dev_delete (w_units u)) p = DErr.
Proof.
  intros k p u Hk Hu Hp. destruct u; [congruence|]. eff.
  rewrite bytes_eqb_neq by assumption. reflexivity.
Qed.
Theorem eff_delete_default : forall k p d, has_type k = true -> p_defaults p = Some [d] ->
  apply_deviation k (dev_delete (w_defaults [d])) p = DOk (set_defaults p None).
Proof. intros. eff. rewrite bytes_eqb_refl. reflexivity. Qed.
Theorem eff_delete_default_mismatch : forall k p d d', has_type k = true -> p_defaults p = Some [d'] -> d' <> d ->
  apply_deviation k (dev_delete (w_defaults [d])) p = DErr.
Proof. intros. eff. rewrite bytes_eqb_neq by assumption. reflexivity. Qed.

Lemma filter_neq_not_in m l : existsb (bytes_eqb m) (filter (fun c => negb (bytes_eqb m c)) l) = false.
Proof.
  induction l as [|x l IH]; simpl; [reflexivity|].
  destruct (bytes_eqb m x) eqn:E; simpl; [assumption|]. rewrite E. assumption.
Qed.

(** deleting a must removes it (every occurrence) and keeps the others in order *)
Theorem eff_delete_must : forall k p m, has_musts k = true -> In m (p_musts p) ->
  apply_deviation k (dev_delete (w_musts [m])) p
  = DOk (set_musts p (filter (fun c => negb (bytes_eqb m c)) (p_musts p))).
Proof.
  intros k p m Hk Hin. eff.
  assert (E : existsb (bytes_eqb m) (p_musts p) = true).
  { apply existsb_exists. exists m. split; [assumption|apply bytes_eqb_refl]. }
  rewrite E. reflexivity.
Qed.
Theorem eff_delete_must_absent : forall k p m, has_musts k = true -> ~ In m (p_musts p) ->
  apply_deviation k (dev_delete (w_musts [m])) p = DErr.
Proof.
  intros k p m Hk Hin. eff.
  assert (E : existsb (bytes_eqb m) (p_musts p) = false).
  { destruct (existsb (bytes_eqb m) (p_musts p)) eqn:E; [|reflexivity].
    apply existsb_exists in E as (x & Hx & Hx'). apply bytes_eqb_eq in Hx'. subst. contradiction. }
  rewrite E. reflexivity.
Qed.

(** not-supported *)
Theorem eff_not_supported : forall k p a r dl, apply_deviation k (mkDev true a r dl) p = DRemoved.
Proof. reflexivity. Qed.

(** it removes exactly the target from the parent's children and keeps the order of the rest *)
Theorem remove_child_spec : forall A (t : text) (cs : list (text * A)) c,
  In c (remove_child t cs) <-> In c cs /\ fst c <> t.
Proof.
  intros A t cs [n v]. unfold remove_child. rewrite filter_In. simpl. split; intros [H1 H2]; split; auto.
  - intros E. subst. rewrite bytes_eqb_refl in H2. discriminate.
  - rewrite bytes_eqb_neq by assumption. reflexivity.
Qed.

Theorem remove_child_order : forall A (t : text) (cs : list (text * A)),
  exists keep, remove_child t cs = filter keep cs.
Proof. intros. eexists. reflexivity. Qed.

Theorem remove_child_unique : forall A (t : text) (pre post : list (text * A)) v,
  (forall c, In c (pre ++ post) -> fst c <> t) ->
  remove_child t (pre ++ (t, v) :: post) = pre ++ post.
Proof.
  intros A t pre post v H. unfold remove_child. rewrite filter_app. simpl. rewrite bytes_eqb_refl. simpl.
  assert (F : forall l, (forall c, In c l -> fst c <> t) -> filter (fun c : text * A => negb (bytes_eqb (fst c) t)) l = l).
  { induction l as [|x l IH]; simpl; intros Hl; [reflexivity|].
    rewrite bytes_eqb_neq by (apply Hl; left; reflexivity). simpl. f_equal. apply IH. intros c Hc. apply Hl. right. assumption. }
  rewrite !F; [reflexivity| |]; intros c Hc; apply H; apply in_or_app; auto.
Qed.

Lemma deviate_add_effect : forall k p,
  (forall u, has_type k = true -> u <> [] -> p_units p = [] ->
     apply_deviation k (dev_add (w_units u)) p = DOk (set_units p u)) /\
  (forall ms, has_musts k = true ->
     apply_deviation k (dev_add (w_musts ms)) p = DOk (set_musts p (p_musts p ++ ms))) /\
  (forall d, has_type k = true -> p_defaults p = None ->
     apply_deviation k (dev_add (w_defaults [d])) p = DOk (set_defaults p (Some [d]))) /\
  (forall us, is_list k = true ->
     apply_deviation k (dev_add (w_unique us)) p = DOk (set_unique p (p_unique p ++ us))) /\
  (forall b, has_dets k = true -> p_config p = None ->
     apply_deviation k (dev_add (w_config b)) p = DOk (set_config p (Some b))) /\
  (forall b, has_dets k = true -> p_mandatory p = None ->
     apply_deviation k (dev_add (w_mandatory b)) p = DOk (set_mandatory p (Some b))) /\
  (forall n, has_listdets k = true -> p_min p = None ->
     apply_deviation k (dev_add (w_min n)) p = DOk (set_min p (Some n))) /\
  (forall n, has_listdets k = true -> p_max p = None ->
     apply_deviation k (dev_add (w_max n)) p = DOk (set_max p (Some n))).
Proof.
  intros k p. repeat split; intros.
  - apply eff_add_units; assumption.
  - apply eff_add_musts; assumption.
  - apply eff_add_default; assumption.
  - apply eff_add_unique; assumption.
  - apply eff_add_config; assumption.
  - apply eff_add_mandatory; assumption.
  - apply eff_add_min; assumption.
  - apply eff_add_max; assumption.
Qed.

Lemma deviate_replace_effect : forall k p,
  (forall u, has_type k = true -> u <> [] -> p_units p <> [] ->
     apply_deviation k (dev_replace (w_units u)) p = DOk (set_units p u)) /\
  (forall t, has_type k = true ->
     apply_deviation k (dev_replace (w_type t)) p = DOk (set_type p t)) /\
  (forall d ds0, has_type k = true -> p_defaults p = Some ds0 ->
     apply_deviation k (dev_replace (w_defaults [d])) p = DOk (set_defaults p (Some [d]))) /\
  (forall b b0, has_dets k = true -> p_config p = Some b0 ->
     apply_deviation k (dev_replace (w_config b)) p = DOk (set_config p (Some b))) /\
  (forall b b0, has_dets k = true -> p_mandatory p = Some b0 ->
     apply_deviation k (dev_replace (w_mandatory b)) p = DOk (set_mandatory p (Some b))) /\
  (forall n n0, has_listdets k = true -> p_min p = Some n0 ->
     apply_deviation k (dev_replace (w_min n)) p = DOk (set_min p (Some n))) /\
  (forall n n0, has_listdets k = true -> p_max p = Some n0 ->
     apply_deviation k (dev_replace (w_max n)) p = DOk (set_max p (Some n))).
Proof.
  intros k p. repeat split; intros.
  - apply eff_replace_units; assumption.
  - apply eff_replace_type; assumption.
  - eapply eff_replace_default; eassumption.
  - eapply eff_replace_config; eassumption.
  - eapply eff_replace_mandatory; eassumption.
  - eapply eff_replace_min; eassumption.
  - eapply eff_replace_max; eassumption.
Qed.

Lemma deviate_delete_effect : forall k p,
  (forall u, has_type k = true -> u <> [] -> p_units p = u ->
     apply_deviation k (dev_delete (w_units u)) p = DOk (set_units p [])) /\
  (forall u, has_type k = true -> u <> [] -> p_units p <> u ->
     apply_deviation k (dev_delete (w_units u)) p = DErr) /\
  (forall d, has_type k = true -> p_defaults p = Some [d] ->
     apply_deviation k (dev_delete (w_defaults [d])) p = DOk (set_defaults p None)) /\
  (forall d d', has_type k = true -> p_defaults p = Some [d'] -> d' <> d ->
     apply_deviation k (dev_delete (w_defaults [d])) p = DErr) /\
  (forall m, has_musts k = true -> In m (p_musts p) ->
     apply_deviation k (dev_delete (w_musts [m])) p
     = DOk (set_musts p (filter (fun c => negb (bytes_eqb m c)) (p_musts p)))) /\
  (forall m, has_musts k = true -> ~ In m (p_musts p) ->
     apply_deviation k (dev_delete (w_musts [m])) p = DErr).
Proof.
  intros k p. repeat split; intros.
  - apply eff_delete_units; assumption.
  - apply eff_delete_units_mismatch; assumption.
  - apply eff_delete_default; assumption.
  - eapply eff_delete_default_mismatch; eassumption.
  - apply eff_delete_must; assumption.
  - apply eff_delete_must_absent; assumption.
Qed.

(** the deviations as they were at the pinned commit (DESIGN.md round 0): add must added twice,
    delete units with the comparison inverted - kept as executable one-liners for the refutation *)
Definition old_add_musts (p : props) (ms : list text) : props := set_musts p ((p_musts p ++ ms) ++ ms).
Definition old_del_units (p : props) (u : text) : option props :=
  if bytes_eqb (p_units p) u then None else Some (set_units p []).
Definition p0 : props := mkProps None None None None [[x61]] [x63; x6d] None [] [x69].
Lemma old_deviate_refuted :
  p_musts (old_add_musts p0 [[x6d]]) <> p_musts p0 ++ [[x6d]] /\
  old_del_units p0 [x63; x6d] = None /\ old_del_units p0 [x6d; x6d] <> None.
Proof. repeat split; vm_compute; congruence. Qed.
