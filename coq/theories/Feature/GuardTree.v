(** Guarded statements at every depth: model of the traversal of meta/resolver.go over a whole
    module (after the "fix:" commits), for the question "which statements are in the compiled
    schema".

      resolver.module            rpcs, notifications and data definitions of the module (enter), then
                                 for each module-level augment: addDefinitions(a, a.pop...) and expandAugment
      resolver.enter             rpc -> input, output; choice -> its cases (checkFeature per case);
                                 actions, notifications, then addDefinitions
      resolver.addDataDefinition checkFeature(child); uses -> expandUses; else add + enter
      resolver.expandUses        the (cloned) definitions of the grouping, its actions, its
                                 notifications, applyRefinements, then expandAugment per augment
      resolver.expandAugment     checkFeature(augment); each definition: a case of a choice target
                                 -> checkFeature + enter, anything else -> addDataDefinition; then
                                 the actions and notifications of the augment
      Builder.IfFeature          every if-feature argument is parsed once when it is read (syntax)

    A statement is a node of a rose tree [Nd kind if-features children].  A uses carries the
    definitions of its grouping as children (the resolver clones them into the place of the uses),
    followed by its refine and augment substatements.  The children are listed in the order in
    which the resolver processes them (e.g. actions before data definitions for a container).
    What is computed is one flag per statement, in the same tree shape: the definition is in the
    compiled schema / the refine was applied.  Where the definitions of an augment end up (Find of
    the target) is not modelled: the targets are assumed to exist whenever the augment is reached.
    rpc/action, input, output and notification are never checked by the resolver: they only carry
    guarded data definitions. *)
From Coq Require Import List Bool Arith Strings.Byte.
From YV Require Import Feature.IfFeature Feature.Guard.
Import ListNotations.

Inductive skind :=
| KnLeaf      (* leaf, leaf-list, anyxml *)
| KnCont      (* container, list *)
| KnChoice
| KnCase
| KnUses
| KnRefine
| KnAug       (* augment written inside a uses *)
| KnMAug      (* augment at module level *)
| KnRpc       (* rpc, action *)
| KnIO        (* input, output *)
| KnNotif.

Inductive node := Nd (k : skind) (ifs : list text) (kids : list node).
Inductive ptree := Pt (b : bool) (kids : list ptree).

(** nothing of this statement is in the schema *)
Fixpoint blank (n : node) : ptree :=
  match n with Nd _ _ kids => Pt false (map blank kids) end.

Inductive res (A : Type) := Done (a : A) (c : cache) | Failed | NoFuel.
Arguments Done {A} a c.
Arguments Failed {A}.
Arguments NoFuel {A}.

Section Seq.
  Variable f : node -> cache -> res ptree.
  (** for _, def := range defs { ...; if err != nil { return err } } *)
  Fixpoint seq (ns : list node) (c : cache) : res (list ptree) :=
    match ns with
    | [] => Done [] c
    | n :: tl =>
        match f n c with
        | Done p c1 =>
            match seq tl c1 with
            | Done ps c2 => Done (p :: ps) c2
            | Failed => Failed
            | NoFuel => NoFuel
            end
        | Failed => Failed
        | NoFuel => NoFuel
        end
    end.
End Seq.

Section Seq2.
  Variable f : node -> ptree -> cache -> res ptree.
  (** the same over statements paired with what the first pass left of them *)
  Fixpoint seq2 (ns : list node) (ps : list ptree) (c : cache) : res (list ptree) :=
    match ns, ps with
    | n :: tl, p :: ptl =>
        match f n p c with
        | Done p' c1 =>
            match seq2 tl ptl c1 with
            | Done ps' c2 => Done (p' :: ps') c2
            | Failed => Failed
            | NoFuel => NoFuel
            end
        | Failed => Failed
        | NoFuel => NoFuel
        end
    | _, _ => Done [] c
    end.
End Seq2.

Definition is_carrier (k : skind) : bool :=
  match k with KnRpc | KnIO | KnNotif => true | _ => false end.
Definition kind_of_node (n : node) : skind := match n with Nd k _ _ => k end.

Section Resolver.
  Variable enabled : list name.

  (** checkFeature(x), then [body] if it is on *)
  Definition guarded (ifs : list text) (kids : list node) (c : cache)
             (body : cache -> res (list ptree)) : res ptree :=
    match check_feature enabled c ifs with
    | (On, c1) =>
        match body c1 with
        | Done ps c2 => Done (Pt true ps) c2
        | Failed => Failed
        | NoFuel => NoFuel
        end
    | (Off, c1) => Done (Pt false (map blank kids)) c1
    | (Bad, _) => Failed
    | (Fuel, _) => NoFuel
    end.

  Definition unguarded (c : cache) (body : cache -> res (list ptree)) : res ptree :=
    match body c with
    | Done ps c2 => Done (Pt true ps) c2
    | Failed => Failed
    | NoFuel => NoFuel
    end.

  (** the second time a definition of a module-level augment is added: the clone of what the first
      pass left is handed to addDataDefinition again (checkFeature again, enter again).  A uses or
      an augment inside it is gone by then - what it added stands among the definitions. *)
  Fixpoint revisit (n : node) (p : ptree) (c : cache) : res ptree :=
    match n, p with
    | Nd k ifs kids, Pt b ps =>
        if negb b then Done p c
        else match k with
             | KnLeaf | KnCont | KnChoice | KnCase => guarded ifs kids c (seq2 revisit kids ps)
             | KnUses | KnAug | KnRpc | KnIO | KnNotif => unguarded c (seq2 revisit kids ps)
             | KnRefine | KnMAug => Done p c
             end
    end.

  Fixpoint visit (n : node) (c : cache) : res ptree :=
    match n with
    | Nd k ifs kids =>
        match k with
        | KnLeaf | KnCont | KnChoice | KnCase      (* addDataDefinition + enter / enter(choice) per case *)
        | KnUses                                (* addDataDefinition: checkFeature before expandUses *)
        | KnRefine                              (* applyRefinements: off -> continue *)
        | KnAug =>                              (* expandAugment *)
            guarded ifs kids c (seq visit kids)
        | KnRpc | KnIO | KnNotif => unguarded c (seq visit kids)
        | KnMAug =>
            (* module(): addDefinitions(a, a.popDataDefinitions()) first, whatever the if-feature of
               the augment says; its actions and notifications are left alone *)
            match seq (fun m c' => if is_carrier (kind_of_node m) then Done (blank m) c' else visit m c') kids c with
            | Done ps c1 =>
                (* expandAugment(a, module): data definitions that are left once more, the
                   actions and notifications for the first time *)
                guarded ifs kids c1
                  (seq2 (fun m p c' => if is_carrier (kind_of_node m) then visit m c' else revisit m p c') kids ps)
            | Failed => Failed
            | NoFuel => NoFuel
            end
        end
    end.
End Resolver.

Fixpoint node_texts (n : node) : list text :=
  match n with Nd _ ifs kids => ifs ++ flat_map node_texts kids end.

Inductive tload := TLoaded (obs : list ptree) | TErr | TFuel.

(** parse (every if-feature argument is checked for syntax), Initialize (fresh cache), resolve *)
Definition compile_tree (cfg : fconfig) (declared : list name) (top : list node) : tload :=
  match validate (flat_map node_texts top) with
  | Bad => TErr
  | Fuel => TFuel
  | _ =>
      match seq (visit (initialize cfg declared)) top [] with
      | Done ps _ => TLoaded ps
      | Failed => TErr
      | NoFuel => TFuel
      end
  end.

(** the resolver before "fix: a malformed if-feature expression is an error wherever it stands" *)
Definition compile_tree_old (cfg : fconfig) (declared : list name) (top : list node) : tload :=
  match seq (visit (initialize cfg declared)) top [] with
  | Done ps _ => TLoaded ps
  | Failed => TErr
  | NoFuel => TFuel
  end.

(** ** Specification *)

Inductive gnode := Gn (k : skind) (gs : list guard) (kids : list gnode).

Fixpoint node_of (g : gnode) : node :=
  match g with Gn k gs kids => Nd k (map guard_text gs) (map node_of kids) end.

(** guards are written expressions; rpc/action, input, output, notification carry none *)
Fixpoint gnode_ok (g : gnode) : bool :=
  match g with
  | Gn k gs kids =>
      forallb guard_ok gs && (if is_carrier k then match gs with [] => true | _ => false end else true)
      && forallb gnode_ok kids
  end.

(** a statement is in the schema exactly when all the if-feature expressions on it and on every
    statement it is written inside are true *)
Fixpoint spec_tree (cfg : fconfig) (declared : list name) (anc : bool) (g : gnode) : ptree :=
  match g with
  | Gn _ gs kids =>
      let here := anc && all_true cfg declared gs in
      Pt here (map (spec_tree cfg declared here) kids)
  end.
