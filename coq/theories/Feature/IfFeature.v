(** Executable model of the if-feature evaluator, meta/core.go (after the commits
    "fix: if-feature expressions are parsed by recursive descent ..." and
    "fix: if-feature expressions accept tab and line break as separators"):

      IfFeature.Evaluate, ifFeatureEval.{end,eatws,next,peek,fail,parseOr,parseAnd,parseNot}

    Text is [list byte].  The Go evaluator keeps the expression and a position [pos]; the model
    keeps the not yet consumed suffix [expr[pos:]] (the code never looks behind [pos]).
    [lastErr] is the boolean [err] of the state.  Recursion is on explicit fuel; Evaluate supplies
    [S (length expr)] and IfFeatureProofs.v shows that this never runs out, for every text.
    The evaluator as it was at the pinned commit (stack machine with the 'greedy' flag) is kept as
    [old_eval_impl] for the refutation example. *)
From Coq Require Import List Bool Arith NArith Strings.Byte.
Import ListNotations.

Inductive result := ROk (b : bool) | RErr | ROutOfFuel.

(** byte equality through the byte's number (evaluates faster than Byte.eqb) *)
Definition beq (a b : byte) : bool := N.eqb (Byte.to_N a) (Byte.to_N b).

Fixpoint bytes_eqb (a b : list byte) : bool :=
  match a, b with
  | [], [] => true
  | x :: a', y :: b' => beq x y && bytes_eqb a' b'
  | _, _ => false
  end.

(** ' ', '\t', '\n', '\r' *)
Definition is_ws (b : byte) : bool :=
  match b with x20 | x09 | x0a | x0d => true | _ => false end.
(** the pinned commit: ' ' only *)
Definition is_ws_old (b : byte) : bool := match b with x20 => true | _ => false end.
Definition is_paren (b : byte) : bool := match b with x28 | x29 => true | _ => false end.

Definition kw_not : list byte := [x6e; x6f; x74].
Definition kw_and : list byte := [x61; x6e; x64].
Definition kw_or : list byte := [x6f; x72].
Definition lp : list byte := [x28].
Definition rp : list byte := [x29].

Section Tokenizer.
  Variable ws : byte -> bool.

  (** eatws: for !end && isspace(expr[pos]) { pos++ } *)
  Fixpoint eatws (s : list byte) : list byte :=
    match s with
    | [] => []
    | b :: tl => if ws b then eatws tl else s
    end.

  (** the scanning loop of next() once the first byte is not a parenthesis: advance to the next
      separator or parenthesis; result (token, rest) *)
  Fixpoint scan (s : list byte) : list byte * list byte :=
    match s with
    | [] => ([], [])
    | b :: tl =>
        if ws b || is_paren b then ([], s)
        else let p := scan tl in (b :: fst p, snd p)
    end.

  (** next(): a parenthesis at the start is a token of its own; "" at the end of the text *)
  Definition next (s : list byte) : list byte * list byte :=
    match eatws s with
    | [] => ([], [])
    | b :: tl => if is_paren b then ([b], tl) else scan (b :: tl)
    end.
End Tokenizer.

Record st := mkSt { rest : list byte; err : bool }.

(** fail(): lastErr is set once and never cleared *)
Definition fail (s : st) : st := mkSt (rest s) true.
(** peek(): next() with pos restored *)
Definition peek (s : st) : list byte := fst (next is_ws (rest s)).
(** next() for its effect on pos *)
Definition advance (s : st) : st := mkSt (snd (next is_ws (rest s))) (err s).

Inductive kind := KEnd | KLp | KRp | KNot | KAnd | KOr | KId.

(** the switch of parseNot *)
Definition kind_of (t : list byte) : kind :=
  match t with
  | [] => KEnd
  | _ => if bytes_eqb t lp then KLp
         else if bytes_eqb t rp then KRp
         else if bytes_eqb t kw_not then KNot
         else if bytes_eqb t kw_and then KAnd
         else if bytes_eqb t kw_or then KOr
         else KId
  end.

(** enabled map: membership of a name among the keys *)
Definition env := list byte -> bool.

(** tok[strings.LastIndexByte(tok, ':')+1:] - the name without its prefix *)
Fixpoint local_name (t : list byte) : list byte :=
  match t with
  | [] => []
  | b :: tl =>
      if existsb (fun c => beq c x3a) tl then local_name tl
      else if beq b x3a then tl else t
  end.

(** features[local name of tok] *)
Definition lookup (e : env) : env := fun tok => e (local_name tok).

Section Loops.
  (** parseNot of the enclosing recursion level *)
  Variable pn : st -> option (bool * st).

  (** for y.lastErr == nil && y.peek() == "and" { y.next(); c := y.parseNot(); b = b && c } *)
  Fixpoint and_loop (n : nat) (b : bool) (s : st) : option (bool * st) :=
    match n with
    | O => None
    | S n' =>
        if negb (err s) && bytes_eqb (peek s) kw_and then
          match pn (advance s) with
          | Some (c, s') => and_loop n' (b && c) s'
          | None => None
          end
        else Some (b, s)
    end.

  (** parseAnd: b := y.parseNot(); loop *)
  Definition parse_and (n : nat) (s : st) : option (bool * st) :=
    match pn s with
    | Some (b, s') => and_loop n b s'
    | None => None
    end.

  (** for y.lastErr == nil && y.peek() == "or" { y.next(); c := y.parseAnd(); b = b || c } *)
  Fixpoint or_loop (n : nat) (b : bool) (s : st) : option (bool * st) :=
    match n with
    | O => None
    | S n' =>
        if negb (err s) && bytes_eqb (peek s) kw_or then
          match parse_and n' (advance s) with
          | Some (c, s') => or_loop n' (b || c) s'
          | None => None
          end
        else Some (b, s)
    end.

  (** parseOr: b := y.parseAnd(); loop *)
  Definition parse_or (n : nat) (s : st) : option (bool * st) :=
    match parse_and n s with
    | Some (b, s') => or_loop n b s'
    | None => None
    end.
End Loops.

(** parseNot: tok := y.next(); switch tok { "not" | "(" | "", ")", "and", "or" | default } *)
Fixpoint parse_not (n : nat) (e : env) (s : st) : option (bool * st) :=
  match n with
  | O => None
  | S n' =>
      let tok := peek s in
      let s1 := advance s in
      match kind_of tok with
      | KNot =>
          match parse_not n' e s1 with
          | Some (b, s2) => Some (negb b, s2)
          | None => None
          end
      | KLp =>
          match parse_or (parse_not n' e) n' s1 with
          | Some (b, s2) =>
              (* if y.next() != ")" { y.fail() } *)
              Some (b, if bytes_eqb (peek s2) rp then advance s2 else fail (advance s2))
          | None => None
          end
      | KId => Some (lookup e tok, s1)
      | KEnd | KRp | KAnd | KOr => Some (false, fail s1)
      end
  end.

(** IfFeature.Evaluate *)
Definition eval_fuel (fuel : nat) (expr : list byte) (e : env) : result :=
  match parse_or (parse_not fuel e) fuel (mkSt expr false) with
  | None => ROutOfFuel
  | Some (b, s) =>
      let s' := if negb (err s) && negb (bytes_eqb (peek s) []) then fail s else s in
      if err s' then RErr else ROk b
  end.

Definition eval_impl (expr : list byte) (e : env) : result :=
  eval_fuel (S (length expr)) expr e.

(** ** The evaluator at the pinned commit: ifFeatureEval.eval(greedy) with its stack *)
Record ost := mkOst { o_rest : list byte; o_stack : list bool; o_err : bool }.

Definition o_pop (s : ost) : bool * ost :=
  match o_stack s with
  | [] => (false, mkOst (o_rest s) [] true)
  | b :: tl => (b, mkOst (o_rest s) tl (o_err s))
  end.
Definition o_push (b : bool) (s : ost) : ost := mkOst (o_rest s) (b :: o_stack s) (o_err s).

Fixpoint old_eval (n : nat) (e : env) (greedy : bool) (s : ost) : option ost :=
  match n with
  | O => None
  | S n' =>
      match o_rest s with
      | [] => Some s                                   (* for !y.end() *)
      | _ =>
          let p := next is_ws_old (o_rest s) in
          let tok := fst p in
          let s1 := mkOst (snd p) (o_stack s) (o_err s) in
          let continue (r : option ost) :=
            match r with
            | None => None
            | Some s2 => if greedy then Some s2 else old_eval n' e greedy s2
            end in
          if bytes_eqb tok lp then continue (old_eval n' e false s1)
          else if bytes_eqb tok rp then Some s1                       (* return *)
          else if bytes_eqb tok kw_and then
            continue (match old_eval n' e true s1 with
                      | None => None
                      | Some s2 => let (a, s3) := o_pop s2 in let (b, s4) := o_pop s3 in
                                   Some (o_push (a && b) s4)
                      end)
          else if bytes_eqb tok kw_not then
            continue (match old_eval n' e true s1 with
                      | None => None
                      | Some s2 => let (a, s3) := o_pop s2 in Some (o_push (negb a) s3)
                      end)
          else if bytes_eqb tok kw_or then
            continue (match old_eval n' e false s1 with
                      | None => None
                      | Some s2 => let (a, s3) := o_pop s2 in let (b, s4) := o_pop s3 in
                                   Some (o_push (a || b) s4)
                      end)
          else continue (Some (o_push (e tok) s1))
      end
  end.

Definition old_eval_impl (expr : list byte) (e : env) : result :=
  match old_eval (S (S (length expr))) e false (mkOst expr [] false) with
  | None => ROutOfFuel
  | Some s =>
      let (b, s') := o_pop s in
      if o_err s' then RErr
      else match o_stack s' with [] => ROk b | _ => RErr end
  end.

(** ** Specification side: abstract syntax, concrete syntax trees and their rendering *)
Inductive fexpr :=
| Feat (id : list byte)
| Not (e : fexpr)
| And (e1 e2 : fexpr)
| Or (e1 e2 : fexpr).

(** RFC 7950 7.20.2: "not" binds tightest, then "and", then "or"; the value under an assignment *)
Fixpoint denote (x : fexpr) (e : env) : bool :=
  match x with
  | Feat id => e id
  | Not a => negb (denote a e)
  | And a b => denote a e && denote b e
  | Or a b => denote a e || denote b e
  end.

(** a written expression: where the parentheses are and which separator text stands where *)
Inductive cst :=
| CId (id : list byte)
| CNot (w : list byte) (c : cst)                    (* "not" w c *)
| CParen (w1 w2 : list byte) (c : cst)              (* "(" w1 c w2 ")" *)
| CAnd (c1 : cst) (w1 w2 : list byte) (c2 : cst)    (* c1 w1 "and" w2 c2 *)
| COr (c1 : cst) (w1 w2 : list byte) (c2 : cst).    (* c1 w1 "or" w2 c2 *)

Fixpoint render (c : cst) : list byte :=
  match c with
  | CId id => id
  | CNot w c => kw_not ++ w ++ render c
  | CParen w1 w2 c => lp ++ w1 ++ render c ++ w2 ++ rp
  | CAnd c1 w1 w2 c2 => render c1 ++ w1 ++ kw_and ++ w2 ++ render c2
  | COr c1 w1 w2 c2 => render c1 ++ w1 ++ kw_or ++ w2 ++ render c2
  end.

(** what the written expression means: parentheses and spacing dropped *)
Fixpoint abstract (c : cst) : fexpr :=
  match c with
  | CId id => Feat id
  | CNot _ c => Not (abstract c)
  | CParen _ _ c => abstract c
  | CAnd c1 _ _ c2 => And (abstract c1) (abstract c2)
  | COr c1 _ _ c2 => Or (abstract c1) (abstract c2)
  end.

(** precedence level of the outermost construct: 0 or-expression, 1 and-term, 2 factor *)
Definition lvl (c : cst) : nat :=
  match c with COr _ _ _ _ => 0 | CAnd _ _ _ _ => 1 | _ => 2 end.

Definition all_ws (w : list byte) : bool := forallb is_ws w.
(** RFC 7950 sep = 1*(WSP / line-break) *)
Definition is_sep (w : list byte) : bool :=
  match w with [] => false | _ => all_ws w end.

(** a feature name: non-empty, no separator or parenthesis byte, not one of the keywords *)
Definition ident_ok (id : list byte) : bool :=
  match id with [] => false | _ => true end
  && forallb (fun b => negb (is_ws b || is_paren b)) id
  && negb (bytes_eqb id kw_not) && negb (bytes_eqb id kw_and) && negb (bytes_eqb id kw_or).

(** the written expression follows the RFC 7950 grammar: an operand of "not" is a factor, the
    operands of "and" are and-terms or factors (either nesting: the grammar's right-nested chain
    as well as a left-nested one print the same text), separators are non-empty around the
    keywords and optional inside parentheses *)
Fixpoint wf (c : cst) : bool :=
  match c with
  | CId id => ident_ok id
  | CNot w c => is_sep w && (2 <=? lvl c) && wf c
  | CParen w1 w2 c => all_ws w1 && all_ws w2 && wf c
  | CAnd c1 w1 w2 c2 => is_sep w1 && is_sep w2 && (1 <=? lvl c1) && (1 <=? lvl c2) && wf c1 && wf c2
  | COr c1 w1 w2 c2 => is_sep w1 && is_sep w2 && wf c1 && wf c2
  end.

(** ** A printer family: abstract syntax -> written expression *)
Record style := mkStyle {
  gap : list byte;        (* the separator written around keywords *)
  pad : list byte;        (* written inside each parenthesis *)
  extra : nat             (* redundant parenthesis layers around every sub-expression *)
}.

Definition style_ok (sty : style) : bool := is_sep (gap sty) && all_ws (pad sty).

Definition paren (sty : style) (c : cst) : cst := CParen (pad sty) (pad sty) c.
(** parenthesise only when the context needs a tighter level *)
Definition atleast (sty : style) (l : nat) (c : cst) : cst :=
  if l <=? lvl c then c else paren sty c.
Fixpoint wrap (sty : style) (k : nat) (c : cst) : cst :=
  match k with O => c | S k' => paren sty (wrap sty k' c) end.

Fixpoint print (sty : style) (x : fexpr) : cst :=
  wrap sty (extra sty)
    match x with
    | Feat id => CId id
    | Not a => CNot (gap sty) (atleast sty 2 (print sty a))
    | And a b => CAnd (atleast sty 1 (print sty a)) (gap sty) (gap sty) (atleast sty 1 (print sty b))
    | Or a b => COr (print sty a) (gap sty) (gap sty) (print sty b)
    end.

Definition print_text (sty : style) (x : fexpr) : list byte := render (print sty x).

Fixpoint idents_ok (x : fexpr) : bool :=
  match x with
  | Feat id => ident_ok id
  | Not a => idents_ok a
  | And a b | Or a b => idents_ok a && idents_ok b
  end.

(** ** Independent executable reading of the RFC used as the correspondence oracle
    (Check/C11Check.v): cut the text into words and parentheses in one pass, then evaluate by
    splitting at the loosest operator outside parentheses. *)
Inductive tok := TLp | TRp | TNot | TAnd | TOr | TId (id : list byte).

Definition tok_of_word (w : list byte) : tok :=
  if bytes_eqb w kw_not then TNot else if bytes_eqb w kw_and then TAnd
  else if bytes_eqb w kw_or then TOr else TId w.

Definition flush (cur : list byte) (acc : list tok) : list tok :=
  match cur with [] => acc | _ => tok_of_word (rev cur) :: acc end.

(** [cur]: bytes of the word being read, reversed; [acc]: tokens so far, reversed *)
Fixpoint lex_go (s : list byte) (cur : list byte) (acc : list tok) : list tok :=
  match s with
  | [] => rev (flush cur acc)
  | b :: tl =>
      if is_ws b then lex_go tl [] (flush cur acc)
      else if beq b x28 then lex_go tl [] (TLp :: flush cur acc)
      else if beq b x29 then lex_go tl [] (TRp :: flush cur acc)
      else lex_go tl (b :: cur) acc
  end.
Definition spec_lex (s : list byte) : list tok := lex_go s [] [].

(** position of the first token satisfying [p] at parenthesis depth 0 (depth as Z-like pair:
    [d] opened, negative depth never matches again because [neg] latches) *)
Fixpoint find0 (p : tok -> bool) (ts : list tok) (d : nat) (i : nat) : option nat :=
  match ts with
  | [] => None
  | t :: tl =>
      match t with
      | TLp => find0 p tl (S d) (S i)
      | TRp => match d with O => None | S d' => find0 p tl d' (S i) end
      | _ => if (d =? 0) && p t then Some i else find0 p tl d (S i)
      end
  end.

Definition is_or (t : tok) := match t with TOr => true | _ => false end.
Definition is_and (t : tok) := match t with TAnd => true | _ => false end.

Definition opt2 (f : bool -> bool -> bool) (a b : option bool) : option bool :=
  match a, b with Some x, Some y => Some (f x y) | _, _ => None end.

(** None = not an expression *)
Fixpoint spec_eval (n : nat) (ts : list tok) (e : env) : option bool :=
  match n with
  | O => None
  | S n' =>
      match find0 is_or ts 0 0 with
      | Some i => opt2 orb (spec_eval n' (firstn i ts) e) (spec_eval n' (skipn (S i) ts) e)
      | None =>
          match find0 is_and ts 0 0 with
          | Some i => opt2 andb (spec_eval n' (firstn i ts) e) (spec_eval n' (skipn (S i) ts) e)
          | None =>
              match ts with
              | [TId id] => Some (e id)
              | TNot :: tl => option_map negb (spec_eval n' tl e)
              | TLp :: tl =>
                  match rev tl with
                  | TRp :: mid => spec_eval n' (rev mid) e
                  | _ => None
                  end
              | _ => None
              end
          end
      end
  end.

Definition spec_tokens (ts : list tok) (e : env) : result :=
  match spec_eval (S (length ts)) ts e with Some b => ROk b | None => RErr end.

(** RFC 7950 requires a separator between a keyword and a parenthesis ("not (a)", "(a) and (b)");
    a word byte touching a parenthesis from outside is where the strict grammar and the lenient
    reading differ *)
Fixpoint touches (s : list byte) : bool :=
  match s with
  | a :: ((b :: _) as tl) =>
      (negb (is_ws a || is_paren a) && beq b x28)
      || (beq a x29 && negb (is_ws b || is_paren b))
      || touches tl
  | _ => false
  end.

Definition spec_text (s : list byte) (e : env) : result :=
  match spec_tokens (spec_lex s) e with
  | ROk b => if touches s then RErr else ROk b
  | r => r
  end.
