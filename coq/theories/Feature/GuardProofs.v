(** Guard presence: under every feature configuration a guarded statement is present exactly when
    all its if-feature expressions denote true (Feature/Guard.v). *)
From Coq Require Import List Bool Arith Lia Strings.Byte.
From YV Require Import Feature.IfFeature Feature.IfFeatureProofs Feature.IfFeatureEnvProofs Feature.Guard.
Import ListNotations.

Lemma mem_filter (p : name -> bool) l f : mem f (filter p l) = mem f l && p f.
Proof.
  induction l as [|a l IH]; simpl; [reflexivity|].
  destruct (p a) eqn:Pa; simpl; rewrite IH.
  - destruct (bytes_eqb f a) eqn:E; simpl; [|reflexivity].
    apply bytes_eqb_eq in E. subst. rewrite Pa. reflexivity.
  - destruct (bytes_eqb f a) eqn:E; simpl; [|reflexivity].
    apply bytes_eqb_eq in E. subst. rewrite Pa. rewrite andb_false_r. reflexivity.
Qed.

(** Initialize computes exactly the declared features the configuration turns on *)
Lemma mem_initialize cfg declared f : mem f (initialize cfg declared) = is_enabled cfg declared f.
Proof.
  destruct cfg as [l|l]; unfold initialize, is_enabled; rewrite mem_filter; [apply andb_comm|reflexivity].
Qed.

Lemma denote_ext x e1 e2 : (forall id, e1 id = e2 id) -> denote x e1 = denote x e2.
Proof. intros H. induction x; simpl; congruence. Qed.

Definition cache_ok (enabled : list name) (c : cache) : Prop :=
  forall t b, cache_get t c = Some b -> eval_impl t (env_of enabled) = ROk b.

(** the cache is transparent *)
Lemma resolve_spec enabled c t : cache_ok enabled c ->
  fst (resolve enabled c t) = eval_impl t (env_of enabled) /\ cache_ok enabled (snd (resolve enabled c t)).
Proof.
  intros H. unfold resolve. destruct (cache_get t c) eqn:E.
  - simpl. split; [symmetry; apply H; exact E|exact H].
  - destruct (eval_impl t (env_of enabled)) eqn:Ev; simpl; split; auto.
    intros t' b'. simpl. destruct (bytes_eqb t' t) eqn:Eq; [|apply H].
    apply bytes_eqb_eq in Eq. subst. intros [= <-]. exact Ev.
Qed.

Section Presence.
  Variable cfg : fconfig.
  Variable declared : list name.
  Let enabled := initialize cfg declared.

  Lemma guard_value g : guard_ok g = true ->
    eval_impl (guard_text g) (env_of enabled) = ROk (denote (snd g) (lookup (is_enabled cfg declared))).
  Proof.
    intros H. unfold guard_ok in H. apply andb_true_iff in H as [Hs Hi].
    unfold guard_text. rewrite eval_correct by assumption. f_equal.
    apply denote_ext. intros id. unfold lookup, env_of. subst enabled. apply mem_initialize.
  Qed.

  Lemma check_spec : forall gs c, cache_ok enabled c -> forallb guard_ok gs = true ->
    exists c', check_feature enabled c (map guard_text gs)
               = (if all_true cfg declared gs then On else Off, c') /\ cache_ok enabled c'.
  Proof.
    induction gs as [|g gs IH]; intros c Hc Hok; simpl.
    - exists c. split; [reflexivity|assumption].
    - simpl in Hok. apply andb_true_iff in Hok as [Hg Hgs].
      destruct (resolve_spec enabled c (guard_text g) Hc) as [Hr Hc'].
      rewrite (guard_value g Hg) in Hr.
      destruct (resolve enabled c (guard_text g)) as [r c1]. simpl in Hr, Hc'. subst r.
      unfold all_true. simpl.
      destruct (denote (snd g) (lookup (is_enabled cfg declared))).
      + simpl. apply IH; assumption.
      + simpl. exists c1. split; [reflexivity|assumption].
  Qed.

  Lemma refines_spec : forall rs c, cache_ok enabled c -> forallb (forallb guard_ok) rs = true ->
    exists c', refines enabled c (map (map guard_text) rs)
               = (Some (Some (map (all_true cfg declared) rs)), c') /\ cache_ok enabled c'.
  Proof.
    induction rs as [|gs rs IH]; intros c Hc Hok; simpl.
    - exists c. split; [reflexivity|assumption].
    - simpl in Hok. apply andb_true_iff in Hok as [Hg Hrs].
      destruct (check_spec gs c Hc Hg) as (c1 & E & Hc1). rewrite E.
      destruct (IH c1 Hc1 Hrs) as (c2 & E2 & Hc2).
      destruct (all_true cfg declared gs); rewrite E2; exists c2; split; auto.
  Qed.

  Lemma stmt_spec : forall s c, cache_ok enabled c -> gstmt_ok s = true ->
    exists c', stmt_obs enabled c (texts_of s) = (Some (Some (spec_obs cfg declared s)), c') /\ cache_ok enabled c'.
  Proof.
    intros s c Hc Hok.
    destruct s as [gs|gs|gs|gs|rs]; simpl in *;
      try (destruct (check_spec gs c Hc Hok) as (c1 & E & Hc1); rewrite E;
           destruct (all_true cfg declared gs); exists c1; split; auto).
    apply refines_spec; assumption.
  Qed.

  Lemma compile_from_spec : forall ss c, cache_ok enabled c -> forallb gstmt_ok ss = true ->
    compile_from enabled c (map texts_of ss) = Loaded (map (spec_obs cfg declared) ss).
  Proof.
    induction ss as [|s ss IH]; intros c Hc Hok; simpl; [reflexivity|].
    simpl in Hok. apply andb_true_iff in Hok as [Hs Hss].
    destruct (stmt_spec s c Hc Hs) as (c1 & E & Hc1). rewrite E.
    rewrite (IH c1 Hc1 Hss). reflexivity.
  Qed.
End Presence.

(** ** the syntax check of Builder.IfFeature *)

Definition evaluates (t : text) : Prop := exists b, eval_impl t (env_of []) = ROk b.

Lemma validate_ok : forall ts, Forall evaluates ts -> validate ts = On.
Proof.
  induction 1 as [|t ts [b Hb] _ IH]; simpl; [reflexivity|]. rewrite Hb. exact IH.
Qed.

(** a malformed argument anywhere fails the load, whatever the features *)
Lemma validate_bad : forall ts t e, In t ts -> eval_impl t e = RErr -> validate ts = Bad.
Proof.
  induction ts as [|a ts IH]; intros t e Hin He; [destruct Hin|]. simpl.
  destruct (eval_impl a (env_of [])) as [b| |] eqn:Ea.
  - destruct Hin as [->|Hin]; [|exact (IH t e Hin He)].
    rewrite (eval_err_indep t e (env_of []) He) in Ea. discriminate.
  - reflexivity.
  - exfalso. exact (eval_total a (env_of []) Ea).
Qed.

Lemma guard_evaluates g : guard_ok g = true -> evaluates (guard_text g).
Proof.
  intros H. unfold guard_ok in H. apply andb_true_iff in H as [Hs Hi].
  eexists. unfold guard_text. apply eval_correct; assumption.
Qed.

Lemma guards_evaluate gs : forallb guard_ok gs = true -> Forall evaluates (map guard_text gs).
Proof.
  induction gs as [|g gs IH]; simpl; intros H; [constructor|].
  apply andb_true_iff in H as [Hg Hgs]. constructor; [apply guard_evaluates; exact Hg|apply IH; exact Hgs].
Qed.

Lemma stmt_texts_evaluate s : gstmt_ok s = true -> Forall evaluates (stmt_texts (texts_of s)).
Proof.
  destruct s as [gs|gs|gs|gs|rs]; simpl; try apply guards_evaluate.
  induction rs as [|gs rs IH]; simpl; intros H; [constructor|].
  apply andb_true_iff in H as [Hg Hrs]. apply Forall_app. split; [apply guards_evaluate; exact Hg|apply IH; exact Hrs].
Qed.

(** GUARD PRESENCE: for every configuration (allow-list, deny-list, all on), every set of declared
    features and every list of guarded statements whose guards are written expressions, the load
    succeeds and each guarded data node / case / uses / augment is present, each refine applied,
    exactly when all its if-feature expressions are true of the features the configuration enables *)
Theorem guard_presence : forall cfg declared ss, forallb gstmt_ok ss = true ->
  compile cfg declared (map texts_of ss) = Loaded (map (spec_obs cfg declared) ss).
Proof.
  intros cfg declared ss H. unfold compile.
  rewrite validate_ok.
  - apply compile_from_spec; [|assumption]. intros t b E. discriminate E.
  - clear cfg declared. induction ss as [|s ss IH]; simpl; [constructor|].
    simpl in H. apply andb_true_iff in H as [Hs Hss].
    apply Forall_app. split; [apply stmt_texts_evaluate; exact Hs|apply IH; exact Hss].
Qed.

(** A MALFORMED EXPRESSION IS AN ERROR: if any if-feature argument of any statement is not an
    expression (under whatever assignment one tries it), the load fails *)
Theorem guard_malformed : forall cfg declared ss t e,
  In t (flat_map stmt_texts ss) -> eval_impl t e = RErr -> compile cfg declared ss = LoadErr.
Proof.
  intros cfg declared ss t e Hin He. unfold compile. rewrite (validate_bad _ t e Hin He). reflexivity.
Qed.

(** before "fix: a malformed if-feature expression is an error wherever it stands" an argument was
    only looked at when a checkFeature call reached it: after an expression that is off on the same
    statement it never was (formerly known finding 2) *)
Definition kf2_texts : list text := [[x7a; x7a]; [x61; x6e; x64; x20; x61; x6e; x64]].   (* "zz"; "and and" *)
Lemma lazy_malformed :
  eval_impl [x61; x6e; x64; x20; x61; x6e; x64] (env_of []) = RErr /\
  compile_old (AllBut []) [[x61]] [SData kf2_texts] = Loaded [[false]] /\
  compile (AllBut []) [[x61]] [SData kf2_texts] = LoadErr.
Proof. repeat split; vm_compute; reflexivity. Qed.

(** non-vacuity *)
Lemma guard_hyps_met :
  forallb gstmt_ok [GData [(mkStyle [x20] [] 0, witness_expr)];
                    GRefines [[(mkStyle [x20] [] 0, Feat [x61])]; [(mkStyle [x20] [] 0, Not (Feat [x61]))]]] = true.
Proof. reflexivity. Qed.
