(** Model of meta/resolver.go applyDeviation (after the "fix: deviate ..." commits) as updates of
    a record of the properties a deviation may name.  The target is found by path beforehand
    (meta.Find); [apply_deviation] is what happens to it, [remove_child] what not-supported does to
    the parent's children.  Values are as they stand when deviations are applied (before config
    inheritance): a pointer field is an [option]. *)
From Coq Require Import ZArith List Bool Strings.Byte.
From YV Require Import Feature.IfFeature.
Import ListNotations.

Definition text := list byte.

Record props := mkProps {
  p_config : option bool;            (* configPtr *)
  p_mandatory : option bool;         (* mandatoryPtr *)
  p_min : option Z;                  (* minElementsPtr *)
  p_max : option Z;                  (* maxElementsPtr *)
  p_musts : list text;               (* must expressions, in order *)
  p_units : text;                    (* "" = no units *)
  p_defaults : option (list text);   (* Leaf.defaultVal (at most one) / LeafList.defaultVals; None = nil *)
  p_unique : list (list text);       (* List.unique *)
  p_type : text                      (* name of the type *)
}.

(** which interfaces the target implements: HasDetails, HasListDetails, Leafable, HasMusts, *List;
    [single_default]: a Leaf (addDefault panics on a second value, replace allows one value) *)
Record kind := mkKind {
  has_dets : bool; has_listdets : bool; has_type : bool; has_musts : bool; is_list : bool; single_default : bool }.
Definition KLeaf := mkKind true false true true false true.
Definition KLeafList := mkKind true true true true false false.
Definition KList := mkKind true true false true true false.
Definition KContainer := mkKind true false false true false false.

(** the sub-statements of one deviate statement (AddDeviate / ReplaceDeviate / DeleteDeviate) *)
Record dargs := mkArgs {
  a_config : option bool;
  a_mandatory : option bool;
  a_min : option Z;
  a_max : option Z;
  a_musts : list text;
  a_units : text;
  a_defaults : option (list text);
  a_unique : list (list text);
  a_type : option text
}.
Definition noargs := mkArgs None None None None [] [] None [] None.

Record deviation := mkDev {
  d_not_supported : bool;
  d_add : option dargs;
  d_replace : option dargs;
  d_delete : option dargs
}.

Inductive sres := SOk (p : props) | SErr | SPanic.
Definition bind (r : sres) (f : props -> sres) : sres :=
  match r with SOk p => f p | e => e end.
Notation "r >>= f" := (bind r f) (at level 50, left associativity).

Definition is_empty {A} (l : list A) : bool := match l with [] => true | _ => false end.

Definition set_config p v := mkProps v (p_mandatory p) (p_min p) (p_max p) (p_musts p) (p_units p) (p_defaults p) (p_unique p) (p_type p).
Definition set_mandatory p v := mkProps (p_config p) v (p_min p) (p_max p) (p_musts p) (p_units p) (p_defaults p) (p_unique p) (p_type p).
Definition set_min p v := mkProps (p_config p) (p_mandatory p) v (p_max p) (p_musts p) (p_units p) (p_defaults p) (p_unique p) (p_type p).
Definition set_max p v := mkProps (p_config p) (p_mandatory p) (p_min p) v (p_musts p) (p_units p) (p_defaults p) (p_unique p) (p_type p).
Definition set_musts p v := mkProps (p_config p) (p_mandatory p) (p_min p) (p_max p) v (p_units p) (p_defaults p) (p_unique p) (p_type p).
Definition set_units p v := mkProps (p_config p) (p_mandatory p) (p_min p) (p_max p) (p_musts p) v (p_defaults p) (p_unique p) (p_type p).
Definition set_defaults p v := mkProps (p_config p) (p_mandatory p) (p_min p) (p_max p) (p_musts p) (p_units p) v (p_unique p) (p_type p).
Definition set_unique p v := mkProps (p_config p) (p_mandatory p) (p_min p) (p_max p) (p_musts p) (p_units p) (p_defaults p) v (p_type p).
Definition set_type p v := mkProps (p_config p) (p_mandatory p) (p_min p) (p_max p) (p_musts p) (p_units p) (p_defaults p) (p_unique p) v.

Section Apply.
  Variable k : kind.

  (** ** deviate add: "already set" is an error *)
  Definition add_config (a : dargs) (p : props) : sres :=
    match a_config a with
    | None => SOk p
    | Some b => if negb (has_dets k) then SPanic
                else match p_config p with Some _ => SErr | None => SOk (set_config p (Some b)) end
    end.
  Definition add_mandatory (a : dargs) (p : props) : sres :=
    match a_mandatory a with
    | None => SOk p
    | Some b => if negb (has_dets k) then SPanic
                else match p_mandatory p with Some _ => SErr | None => SOk (set_mandatory p (Some b)) end
    end.
  Definition add_max (a : dargs) (p : props) : sres :=
    match a_max a with
    | None => SOk p
    | Some n => if negb (has_listdets k) then SPanic
                else match p_max p with Some _ => SErr | None => SOk (set_max p (Some n)) end
    end.
  Definition add_min (a : dargs) (p : props) : sres :=
    match a_min a with
    | None => SOk p
    | Some n => if negb (has_listdets k) then SPanic
                else match p_min p with Some _ => SErr | None => SOk (set_min p (Some n)) end
    end.
  (** for _, must := range d.Add.musts { target.(HasMusts).addMust(must) }   (once) *)
  Definition add_musts (a : dargs) (p : props) : sres :=
    if is_empty (a_musts a) then SOk p
    else if negb (has_musts k) then SPanic
    else SOk (set_musts p (p_musts p ++ a_musts a)).
  Definition add_units (a : dargs) (p : props) : sres :=
    if is_empty (a_units a) then SOk p
    else if negb (has_type k) then SPanic
    else if is_empty (p_units p) then SOk (set_units p (a_units a)) else SErr.
  Definition add_defaults (a : dargs) (p : props) : sres :=
    match a_defaults a with
    | None => SOk p
    | Some ds =>
        if negb (has_type k) then SPanic
        else match p_defaults p with
             | Some _ => SErr
             | None =>
                 match ds with
                 | [] => SOk p
                 | [d] => SOk (set_defaults p (Some [d]))
                 | _ => if single_default k then SPanic     (* Leaf.addDefault: "default already set" *)
                        else SOk (set_defaults p (Some ds))
                 end
             end
    end.
  Definition add_unique (a : dargs) (p : props) : sres :=
    if is_empty (a_unique a) then SOk p
    else if negb (is_list k) then SPanic
    else SOk (set_unique p (p_unique p ++ a_unique a)).

  Definition add_phase (a : dargs) (p : props) : sres :=
    add_config a p >>= add_mandatory a >>= add_max a >>= add_min a >>= add_musts a
      >>= add_units a >>= add_defaults a >>= add_unique a.

  (** ** deviate replace: "not set" is an error *)
  Definition rep_type (a : dargs) (p : props) : sres :=
    match a_type a with
    | None => SOk p
    | Some t => if negb (has_type k) then SErr else SOk (set_type p t)
    end.
  Definition rep_config (a : dargs) (p : props) : sres :=
    match a_config a with
    | None => SOk p
    | Some b => if negb (has_dets k) then SPanic
                else match p_config p with None => SErr | Some _ => SOk (set_config p (Some b)) end
    end.
  Definition rep_mandatory (a : dargs) (p : props) : sres :=
    match a_mandatory a with
    | None => SOk p
    | Some b => if negb (has_dets k) then SPanic
                else match p_mandatory p with None => SErr | Some _ => SOk (set_mandatory p (Some b)) end
    end.
  Definition rep_max (a : dargs) (p : props) : sres :=
    match a_max a with
    | None => SOk p
    | Some n => if negb (has_listdets k) then SPanic
                else match p_max p with None => SErr | Some _ => SOk (set_max p (Some n)) end
    end.
  Definition rep_min (a : dargs) (p : props) : sres :=
    match a_min a with
    | None => SOk p
    | Some n => if negb (has_listdets k) then SPanic
                else match p_min p with None => SErr | Some _ => SOk (set_min p (Some n)) end
    end.
  Definition rep_units (a : dargs) (p : props) : sres :=
    if is_empty (a_units a) then SOk p
    else if negb (has_type k) then SPanic
    else if is_empty (p_units p) then SErr else SOk (set_units p (a_units a)).
  Definition rep_defaults (a : dargs) (p : props) : sres :=
    match a_defaults a with
    | None => SOk p
    | Some ds =>
        if negb (has_type k) then SPanic
        else match p_defaults p with
             | None => SErr
             | Some _ =>
                 if single_default k then
                   match ds with
                   | [d] => SOk (set_defaults p (Some [d]))
                   | [] => SPanic                       (* defaults[0] on an empty slice *)
                   | _ => SErr                          (* only supports single default *)
                   end
                 else SOk (set_defaults p (Some ds))
             end
    end.

  Definition replace_phase (a : dargs) (p : props) : sres :=
    rep_type a p >>= rep_config a >>= rep_mandatory a >>= rep_max a >>= rep_min a
      >>= rep_units a >>= rep_defaults a.

  (** ** deviate delete: the argument must match what is there *)
  Definition del_units (a : dargs) (p : props) : sres :=
    if is_empty (a_units a) then SOk p
    else if negb (has_type k) then SPanic
    else if bytes_eqb (p_units p) (a_units a) then SOk (set_units p []) else SErr.

  (** remove the first occurrence; None when absent *)
  Fixpoint remove_first (x : text) (l : list text) : option (list text) :=
    match l with
    | [] => None
    | y :: tl => if bytes_eqb y x then Some tl
                 else match remove_first x tl with Some r => Some (y :: r) | None => None end
    end.
  Fixpoint remove_each (xs : list text) (l : list text) : option (list text) :=
    match xs with
    | [] => Some l
    | x :: tl => match remove_first x l with Some r => remove_each tl r | None => None end
    end.
  Definition del_defaults (a : dargs) (p : props) : sres :=
    match a_defaults a with
    | None => SOk p
    | Some ds =>
        if negb (has_type k) then SPanic
        else match remove_each ds (match p_defaults p with Some l => l | None => [] end) with
             | None => SErr
             | Some [] => SOk (set_defaults p None)           (* clearDefault, nothing re-added *)
             | Some r => SOk (set_defaults p (Some r))
             end
    end.

  (** isArrayStringEqual: same length and equal after sorting = equal as multisets.
      (The Go helper sorts its arguments in place; the order of the leaves inside a unique entry
      is not part of the observation.) *)
  Definition same_multiset (a b : list text) : bool :=
    match remove_each a b with Some [] => true | _ => false end.

  (** for each named entry: drop every candidate equal to it; error when there was none *)
  Fixpoint del_unique_each (us : list (list text)) (cur : list (list text)) : option (list (list text)) :=
    match us with
    | [] => Some cur
    | u :: tl =>
        if existsb (same_multiset u) cur
        then del_unique_each tl (filter (fun c => negb (same_multiset u c)) cur)
        else None
    end.
  Definition del_unique (a : dargs) (p : props) : sres :=
    if is_empty (a_unique a) then SOk p
    else if negb (is_list k) then SPanic
    else match del_unique_each (a_unique a) (p_unique p) with
         | Some r => SOk (set_unique p r)
         | None => SErr
         end.

  Fixpoint del_musts_each (ms : list text) (cur : list text) : option (list text) :=
    match ms with
    | [] => Some cur
    | m :: tl =>
        if existsb (bytes_eqb m) cur
        then del_musts_each tl (filter (fun c => negb (bytes_eqb m c)) cur)
        else None
    end.
  Definition del_musts (a : dargs) (p : props) : sres :=
    if is_empty (a_musts a) then SOk p
    else if negb (has_musts k) then SPanic
    else match del_musts_each (a_musts a) (p_musts p) with
         | Some r => SOk (set_musts p r)
         | None => SErr
         end.

  Definition delete_phase (a : dargs) (p : props) : sres :=
    del_units a p >>= del_defaults a >>= del_unique a >>= del_musts a.

  Definition opt_phase (f : dargs -> props -> sres) (o : option dargs) (p : props) : sres :=
    match o with Some a => f a p | None => SOk p end.

  (** add, then replace, then delete (a deviation may carry all three) *)
  Definition apply_phases (d : deviation) (p : props) : sres :=
    opt_phase add_phase (d_add d) p >>= opt_phase replace_phase (d_replace d)
      >>= opt_phase delete_phase (d_delete d).
End Apply.

Inductive dres := DRemoved | DOk (p : props) | DErr | DPanic.

Definition apply_deviation (k : kind) (d : deviation) (p : props) : dres :=
  if d_not_supported d then DRemoved
  else match apply_phases k d p with SOk p' => DOk p' | SErr => DErr | SPanic => DPanic end.

(** not-supported on a data node: pop all children of the parent, add back all but the target *)
Definition remove_child {A} (target : text) (children : list (text * A)) : list (text * A) :=
  filter (fun c => negb (bytes_eqb (fst c) target)) children.

(** ** Specification vocabulary *)
Inductive field := FConfig | FMandatory | FMin | FMax | FMusts | FUnits | FDefault | FUnique | FType.

Inductive fval :=
| VOB (o : option bool) | VOZ (o : option Z) | VTexts (l : list text) | VText (t : text)
| VODef (o : option (list text)) | VUniq (l : list (list text)).

Definition get (f : field) (p : props) : fval :=
  match f with
  | FConfig => VOB (p_config p) | FMandatory => VOB (p_mandatory p)
  | FMin => VOZ (p_min p) | FMax => VOZ (p_max p)
  | FMusts => VTexts (p_musts p) | FUnits => VText (p_units p)
  | FDefault => VODef (p_defaults p) | FUnique => VUniq (p_unique p) | FType => VText (p_type p)
  end.

(** the deviate statement names the property *)
Definition names_args (a : dargs) (f : field) : bool :=
  match f with
  | FConfig => match a_config a with Some _ => true | None => false end
  | FMandatory => match a_mandatory a with Some _ => true | None => false end
  | FMin => match a_min a with Some _ => true | None => false end
  | FMax => match a_max a with Some _ => true | None => false end
  | FMusts => negb (is_empty (a_musts a))
  | FUnits => negb (is_empty (a_units a))
  | FDefault => match a_defaults a with Some _ => true | None => false end
  | FUnique => negb (is_empty (a_unique a))
  | FType => match a_type a with Some _ => true | None => false end
  end.
Definition names_opt (o : option dargs) (f : field) : bool :=
  match o with Some a => names_args a f | None => false end.
Definition names (d : deviation) (f : field) : bool :=
  names_opt (d_add d) f || names_opt (d_replace d) f || names_opt (d_delete d) f.
