(** Guard presence at every depth (Feature/GuardTree.v): whatever the module looks like, the
    resolver leaves a statement in the schema exactly when every if-feature expression on it and
    on each statement it is written inside is true; a malformed expression anywhere is an error. *)
From Coq Require Import List Bool Arith Lia Strings.Byte.
From YV Require Import Feature.IfFeature Feature.IfFeatureProofs Feature.IfFeatureEnvProofs
  Feature.Guard Feature.GuardProofs Feature.GuardTree.
Import ListNotations.

(** induction over statements with their children *)
Section GnodeInd.
  Variable Q : gnode -> Prop.
  Hypothesis step : forall k gs kids, Forall Q kids -> Q (Gn k gs kids).
  Fixpoint gnode_ind' (g : gnode) : Q g :=
    match g with
    | Gn k gs kids =>
        step k gs kids
          ((fix go (l : list gnode) : Forall Q l :=
              match l with
              | [] => Forall_nil Q
              | x :: tl => Forall_cons x (gnode_ind' x) (go tl)
              end) kids)
    end.
End GnodeInd.

Lemma gnode_ok_inv k gs kids : gnode_ok (Gn k gs kids) = true ->
  forallb guard_ok gs = true /\ (is_carrier k = true -> gs = []) /\ forallb gnode_ok kids = true.
Proof.
  simpl. intros H. apply andb_true_iff in H as [H Hk]. apply andb_true_iff in H as [Hg Hc].
  repeat split; try assumption. intros C. rewrite C in Hc. destruct gs; [reflexivity|discriminate].
Qed.

Lemma kind_of_node_of g : kind_of_node (node_of g) = match g with Gn k _ _ => k end.
Proof. destruct g; reflexivity. Qed.

Section Tree.
  Variable cfg : fconfig.
  Variable declared : list name.
  Let enabled := initialize cfg declared.
  Let ok (c : cache) := cache_ok enabled c.

  (** nothing below a statement that is not there is there *)
  Lemma spec_tree_false : forall g, spec_tree cfg declared false g = blank (node_of g).
  Proof.
    induction g as [k gs kids IH] using gnode_ind'. simpl. f_equal.
    rewrite map_map. apply map_ext_Forall. exact IH.
  Qed.

  Definition yields {A} (r : res A) (a : A) : Prop := exists c', r = Done a c' /\ ok c'.

  Lemma guarded_spec gs kids c body ps :
    ok c -> forallb guard_ok gs = true ->
    (all_true cfg declared gs = true -> forall c1, ok c1 -> yields (body c1) ps) ->
    yields (guarded enabled (map guard_text gs) kids c body)
           (if all_true cfg declared gs then Pt true ps else Pt false (map blank kids)).
  Proof.
    intros Hc Hg Hb. unfold guarded.
    destruct (check_spec cfg declared gs c Hc Hg) as (c1 & E & Hc1). fold enabled in E. rewrite E.
    destruct (all_true cfg declared gs).
    - destruct (Hb eq_refl c1 Hc1) as (c2 & E2 & Hc2). rewrite E2. exists c2. split; [reflexivity|assumption].
    - exists c1. split; [reflexivity|assumption].
  Qed.

  Lemma unguarded_spec c body ps :
    ok c -> (forall c1, ok c1 -> yields (body c1) ps) -> yields (unguarded c body) (Pt true ps).
  Proof.
    intros Hc Hb. unfold unguarded. destruct (Hb c Hc) as (c2 & E2 & Hc2). rewrite E2.
    exists c2. split; [reflexivity|assumption].
  Qed.

  Lemma seq_spec f (h : gnode -> ptree) : forall gs,
    Forall (fun g => forall c, ok c -> yields (f (node_of g) c) (h g)) gs ->
    forall c, ok c -> yields (seq f (map node_of gs) c) (map h gs).
  Proof.
    induction 1 as [|g gs Hg _ IH]; intros c Hc; simpl.
    - exists c. split; [reflexivity|assumption].
    - destruct (Hg c Hc) as (c1 & E1 & Hc1). rewrite E1.
      destruct (IH c1 Hc1) as (c2 & E2 & Hc2). rewrite E2. exists c2. split; [reflexivity|assumption].
  Qed.

  Lemma seq2_spec f (h0 h : gnode -> ptree) : forall gs,
    Forall (fun g => forall c, ok c -> yields (f (node_of g) (h0 g) c) (h g)) gs ->
    forall c, ok c -> yields (seq2 f (map node_of gs) (map h0 gs) c) (map h gs).
  Proof.
    induction 1 as [|g gs Hg _ IH]; intros c Hc; simpl.
    - exists c. split; [reflexivity|assumption].
    - destruct (Hg c Hc) as (c1 & E1 & Hc1). rewrite E1.
      destruct (IH c1 Hc1) as (c2 & E2 & Hc2). rewrite E2. exists c2. split; [reflexivity|assumption].
  Qed.

  Lemma Forall_ok_kids (Q : gnode -> Prop) kids :
    Forall (fun g => gnode_ok g = true -> Q g) kids -> forallb gnode_ok kids = true -> Forall Q kids.
  Proof.
    induction 1 as [|g gs Hg _ IH]; simpl; intros H; [constructor|].
    apply andb_true_iff in H as [H1 H2]. constructor; auto.
  Qed.

  (** the second pass over what the first pass left changes nothing *)
  Lemma revisit_spec : forall g, gnode_ok g = true -> forall anc c, ok c ->
    yields (revisit enabled (node_of g) (spec_tree cfg declared anc g) c) (spec_tree cfg declared anc g).
  Proof.
    induction g as [k gs kids IH] using gnode_ind'. intros Hok anc c Hc.
    apply gnode_ok_inv in Hok as (Hg & Hcar & Hkids).
    pose proof (Forall_ok_kids _ kids IH Hkids) as IHk. clear IH.
    simpl.
    destruct (anc && all_true cfg declared gs) eqn:Here; simpl.
    2:{ exists c. split; [reflexivity|assumption]. }
    apply andb_true_iff in Here as [-> Hall].
    assert (Hseq : forall c1, ok c1 ->
              yields (seq2 (revisit enabled) (map node_of kids) (map (spec_tree cfg declared true) kids) c1)
                     (map (spec_tree cfg declared true) kids)).
    { intros c1 Hc1. apply seq2_spec; [|assumption].
      eapply Forall_impl; [|exact IHk]. intros g Hgk c2 Hc2. apply Hgk. assumption. }
    destruct k; simpl;
      try (pose proof (guarded_spec gs (map node_of kids) c _ _ Hc Hg (fun _ => Hseq)) as R;
           rewrite Hall in R; exact R);
      try (apply unguarded_spec; assumption);
      exists c; (split; [reflexivity|assumption]).
  Qed.

  (** what the resolver leaves of a statement that is reached *)
  Lemma visit_spec : forall g, gnode_ok g = true -> forall c, ok c ->
    yields (visit enabled (node_of g) c) (spec_tree cfg declared true g).
  Proof.
    induction g as [k gs kids IH] using gnode_ind'. intros Hok c Hc.
    pose proof Hok as Hok0.
    apply gnode_ok_inv in Hok as (Hg & Hcar & Hkids).
    pose proof (Forall_ok_kids _ kids IH Hkids) as IHk. clear IH.
    assert (Hseq : forall c1, ok c1 ->
              yields (seq (visit enabled) (map node_of kids) c1) (map (spec_tree cfg declared true) kids)).
    { intros c1 Hc1. apply seq_spec; assumption. }
    assert (Hoff : map (spec_tree cfg declared false) kids = map blank (map node_of kids)).
    { rewrite map_map. apply map_ext. apply spec_tree_false. }
    assert (Hguarded : yields (guarded enabled (map guard_text gs) (map node_of kids) c
                                 (seq (visit enabled) (map node_of kids)))
                              (spec_tree cfg declared true (Gn k gs kids))).
    { pose proof (guarded_spec gs (map node_of kids) c _ _ Hc Hg (fun _ => Hseq)) as R.
      simpl. destruct (all_true cfg declared gs); [exact R|]. rewrite Hoff. exact R. }
    destruct k; simpl; try exact Hguarded.
    - (* module-level augment *)
      set (h1 := fun g => if is_carrier (match g with Gn k _ _ => k end) then blank (node_of g)
                          else spec_tree cfg declared true g).
      assert (P1 : yields (seq (fun m c' => if is_carrier (kind_of_node m) then Done (blank m) c'
                                            else visit enabled m c') (map node_of kids) c) (map h1 kids)).
      { apply seq_spec; [|assumption].
        eapply Forall_impl; [|exact IHk]. intros g Hgk c2 Hc2. rewrite kind_of_node_of. unfold h1.
        destruct (is_carrier (match g with Gn k _ _ => k end)).
        - exists c2. split; [reflexivity|assumption].
        - apply Hgk. assumption. }
      destruct P1 as (c1 & E1 & Hc1). rewrite E1.
      assert (P2 : forall c2, ok c2 ->
                yields (seq2 (fun m p c' => if is_carrier (kind_of_node m) then visit enabled m c'
                                            else revisit enabled m p c') (map node_of kids) (map h1 kids) c2)
                       (map (spec_tree cfg declared true) kids)).
      { intros c2 Hc2. apply seq2_spec; [|assumption].
        rewrite Forall_forall. intros g Hin c3 Hc3. rewrite kind_of_node_of. unfold h1.
        destruct (is_carrier (match g with Gn k _ _ => k end)).
        - rewrite Forall_forall in IHk. apply IHk; assumption.
        - apply revisit_spec; [|assumption]. rewrite forallb_forall in Hkids. apply Hkids. exact Hin. }
      pose proof (guarded_spec gs (map node_of kids) c1 _ _ Hc1 Hg (fun _ => P2)) as R.
      destruct (all_true cfg declared gs); [exact R|]. rewrite Hoff. exact R.
    - rewrite (Hcar eq_refl). simpl. apply unguarded_spec; assumption.
    - rewrite (Hcar eq_refl). simpl. apply unguarded_spec; assumption.
    - rewrite (Hcar eq_refl). simpl. apply unguarded_spec; assumption.
  Qed.
End Tree.

Lemma node_texts_evaluate : forall g, gnode_ok g = true -> Forall evaluates (node_texts (node_of g)).
Proof.
  induction g as [k gs kids IH] using gnode_ind'. intros Hok.
  apply gnode_ok_inv in Hok as (Hg & _ & Hkids). simpl.
  apply Forall_app. split; [apply guards_evaluate; exact Hg|].
  clear Hg. induction kids as [|x kids IHk]; simpl; [constructor|].
  simpl in Hkids. apply andb_true_iff in Hkids as [Hx Hkids].
  inversion IH as [|? ? Hx' Hk']; subst.
  apply Forall_app. split; [apply Hx'; exact Hx|apply IHk; assumption].
Qed.

(** GUARD PRESENCE AT EVERY DEPTH.  For every configuration, every set of declared features and
    every module - statements of every kind nested in each other in any way, as long as the
    if-feature arguments are written expressions - the load succeeds and the flag of every
    statement is the conjunction of all the expressions on it and on the statements around it. *)
Theorem guard_tree_presence : forall cfg declared ts, forallb gnode_ok ts = true ->
  compile_tree cfg declared (map node_of ts) = TLoaded (map (spec_tree cfg declared true) ts).
Proof.
  intros cfg declared ts H. unfold compile_tree.
  rewrite validate_ok.
  - assert (Hs : yields cfg declared (seq (visit (initialize cfg declared)) (map node_of ts) [])
                        (map (spec_tree cfg declared true) ts)).
    { apply seq_spec.
      - clear -H. induction ts as [|g ts IH]; simpl in *; [constructor|].
        apply andb_true_iff in H as [Hg Hts]. constructor; [|apply IH; exact Hts].
        intros c Hc. apply visit_spec; assumption.
      - intros t b E. discriminate E. }
    destruct Hs as (c' & E & _). rewrite E. reflexivity.
  - clear cfg declared. induction ts as [|g ts IH]; simpl; [constructor|].
    simpl in H. apply andb_true_iff in H as [Hg Hts].
    apply Forall_app. split; [apply node_texts_evaluate; exact Hg|apply IH; exact Hts].
Qed.

(** ** reading a flag tree: the statement reached by a path of child positions *)
Fixpoint flag_at (p : ptree) (path : list nat) : option bool :=
  match p, path with
  | Pt b _, [] => Some b
  | Pt _ kids, i :: tl => match nth_error kids i with Some k => flag_at k tl | None => None end
  end.

(** the if-feature statements of the statements from [g] down to the one at [path] *)
Fixpoint guards_at (g : gnode) (path : list nat) : option (list (list guard)) :=
  match g, path with
  | Gn _ gs _, [] => Some [gs]
  | Gn _ gs kids, i :: tl =>
      match nth_error kids i with
      | Some k => option_map (cons gs) (guards_at k tl)
      | None => None
      end
  end.

Lemma spec_tree_at cfg declared : forall path g anc,
  flag_at (spec_tree cfg declared anc g) path
  = option_map (fun gss => anc && forallb (all_true cfg declared) gss) (guards_at g path).
Proof.
  induction path as [|i path IH]; intros [k gs kids] anc; simpl.
  - rewrite andb_true_r. reflexivity.
  - rewrite nth_error_map. destruct (nth_error kids i) as [g'|]; simpl; [|reflexivity].
    rewrite IH. destruct (guards_at g' path); simpl; [|reflexivity].
    rewrite andb_assoc. reflexivity.
Qed.

(** the same said statement by statement: the statement at any position, at any depth, is in the
    schema exactly when all the expressions from the top statement down to it are true *)
Theorem guard_tree_presence_at : forall cfg declared ts, forallb gnode_ok ts = true ->
  exists obs, compile_tree cfg declared (map node_of ts) = TLoaded obs /\
    forall i g path gss, nth_error ts i = Some g -> guards_at g path = Some gss ->
      exists p, nth_error obs i = Some p /\
                flag_at p path = Some (forallb (all_true cfg declared) gss).
Proof.
  intros cfg declared ts H. eexists. split; [apply guard_tree_presence; exact H|].
  intros i g path gss Hi Hp. exists (spec_tree cfg declared true g). split.
  - rewrite nth_error_map, Hi. reflexivity.
  - rewrite spec_tree_at, Hp. reflexivity.
Qed.

(** A MALFORMED EXPRESSION IS AN ERROR wherever it stands in the module - also below a statement
    that is itself off, where no checkFeature call ever reaches it *)
Theorem tree_malformed : forall cfg declared top t e,
  In t (flat_map node_texts top) -> eval_impl t e = RErr -> compile_tree cfg declared top = TErr.
Proof.
  intros cfg declared top t e Hin He. unfold compile_tree. rewrite (validate_bad _ t e Hin He). reflexivity.
Qed.

(** before the fix it was not: container { if-feature a; leaf { if-feature "and and"; } } with a off *)
Definition shadowed_module : list node :=
  [Nd KnCont [[x61]] [Nd KnLeaf [[x61; x6e; x64; x20; x61; x6e; x64]] []]].
Lemma tree_lazy_malformed :
  compile_tree_old (OnlyOn []) [[x61]] shadowed_module = TLoaded [Pt false [Pt false []]] /\
  compile_tree (OnlyOn []) [[x61]] shadowed_module = TErr.
Proof. split; vm_compute; reflexivity. Qed.

(** non-vacuity: a grouping used with a guarded leaf in an augment of the uses, a module-level
    augment with an action, a choice with a guarded case *)
Definition sty1 : style := mkStyle [x20] [] 0.
Definition sample_module : list gnode :=
  [Gn KnCont [] [Gn KnRpc [] [Gn KnIO [] [Gn KnLeaf [(sty1, Feat [x61])] []]];
                 Gn KnUses [(sty1, Or (Feat [x61]) (Feat [x62]))]
                    [Gn KnLeaf [] []; Gn KnCont [] [];
                     Gn KnRefine [(sty1, Not (Feat [x61]))] [];
                     Gn KnAug [] [Gn KnLeaf [] []; Gn KnLeaf [(sty1, Feat [x61])] []]];
                 Gn KnChoice [] [Gn KnCase [(sty1, Feat [x62])] [Gn KnLeaf [] []]]];
   Gn KnMAug [(sty1, Feat [x62])] [Gn KnLeaf [] []; Gn KnCont [(sty1, witness_expr)] [Gn KnLeaf [] []];
                                   Gn KnRpc [] []]].
Lemma tree_hyps_met :
  forallb gnode_ok sample_module = true /\
  compile_tree (OnlyOn [[x62]]) [[x61]; [x62]] (map node_of sample_module)
  = TLoaded [Pt true [Pt true [Pt true [Pt false []]];
                      Pt true [Pt true []; Pt true []; Pt true []; Pt true [Pt true []; Pt false []]];
                      Pt true [Pt true [Pt true []]]];
             Pt true [Pt true []; Pt false [Pt false []]; Pt true []]].
Proof. split; vm_compute; reflexivity. Qed.
