(** Whether an if-feature text is an expression does not depend on the features: the evaluator of
    Feature/IfFeature.v moves through the text in the same way under every assignment (only the
    boolean it carries differs).  Used for Builder.IfFeature, which checks the syntax of every
    if-feature argument by evaluating it against no features at all. *)
From Coq Require Import List Bool Arith Strings.Byte.
From YV Require Import Feature.IfFeature Feature.IfFeatureProofs.
Import ListNotations.

Definition same_st (a b : option (bool * st)) : Prop :=
  match a, b with
  | Some (_, s1), Some (_, s2) => s1 = s2
  | None, None => True
  | _, _ => False
  end.

Section Loops.
  Variables pn1 pn2 : st -> option (bool * st).
  Hypothesis Hpn : forall s, same_st (pn1 s) (pn2 s).

  Lemma and_loop_same : forall n b1 b2 s, same_st (and_loop pn1 n b1 s) (and_loop pn2 n b2 s).
  Proof.
    induction n as [|n IH]; intros b1 b2 s; simpl; [exact I|].
    destruct (negb (err s) && bytes_eqb (peek s) kw_and); [|reflexivity].
    pose proof (Hpn (advance s)) as H.
    destruct (pn1 (advance s)) as [[c1 s1]|], (pn2 (advance s)) as [[c2 s2]|]; simpl in H; try contradiction; [|exact I].
    subst s2. apply IH.
  Qed.

  Lemma parse_and_same : forall n s, same_st (parse_and pn1 n s) (parse_and pn2 n s).
  Proof.
    intros n s. unfold parse_and. pose proof (Hpn s) as H.
    destruct (pn1 s) as [[c1 s1]|], (pn2 s) as [[c2 s2]|]; simpl in H; try contradiction; [|exact I].
    subst s2. apply and_loop_same.
  Qed.

  Lemma or_loop_same : forall n b1 b2 s, same_st (or_loop pn1 n b1 s) (or_loop pn2 n b2 s).
  Proof.
    induction n as [|n IH]; intros b1 b2 s; simpl; [exact I|].
    destruct (negb (err s) && bytes_eqb (peek s) kw_or); [|reflexivity].
    pose proof (parse_and_same n (advance s)) as H.
    destruct (parse_and pn1 n (advance s)) as [[c1 s1]|], (parse_and pn2 n (advance s)) as [[c2 s2]|];
      simpl in H; try contradiction; [|exact I].
    subst s2. apply IH.
  Qed.

  Lemma parse_or_same : forall n s, same_st (parse_or pn1 n s) (parse_or pn2 n s).
  Proof.
    intros n s. unfold parse_or. pose proof (parse_and_same n s) as H.
    destruct (parse_and pn1 n s) as [[c1 s1]|], (parse_and pn2 n s) as [[c2 s2]|]; simpl in H; try contradiction; [|exact I].
    subst s2. apply or_loop_same.
  Qed.
End Loops.

Lemma parse_not_same : forall n e1 e2 s, same_st (parse_not n e1 s) (parse_not n e2 s).
Proof.
  induction n as [|n IH]; intros e1 e2 s; simpl; [exact I|].
  destruct (kind_of (peek s)); try reflexivity.
  - pose proof (parse_or_same (parse_not n e1) (parse_not n e2) (IH e1 e2) n (advance s)) as H.
    destruct (parse_or (parse_not n e1) n (advance s)) as [[c1 s1]|],
             (parse_or (parse_not n e2) n (advance s)) as [[c2 s2]|]; simpl in H; try contradiction; [|exact I].
    subst s2. reflexivity.
  - pose proof (IH e1 e2 (advance s)) as H.
    destruct (parse_not n e1 (advance s)) as [[c1 s1]|], (parse_not n e2 (advance s)) as [[c2 s2]|];
      simpl in H; try contradiction; [|exact I].
    subst s2. reflexivity.
Qed.

(** a text that is a syntax error under one assignment is one under every assignment *)
Lemma eval_err_indep : forall t e1 e2, eval_impl t e1 = RErr -> eval_impl t e2 = RErr.
Proof.
  intros t e1 e2. unfold eval_impl, eval_fuel.
  pose proof (parse_or_same (parse_not (S (length t)) e1) (parse_not (S (length t)) e2)
                (parse_not_same (S (length t)) e1 e2) (S (length t)) (mkSt t false)) as H.
  destruct (parse_or (parse_not (S (length t)) e1) (S (length t)) (mkSt t false)) as [[c1 s1]|],
           (parse_or (parse_not (S (length t)) e2) (S (length t)) (mkSt t false)) as [[c2 s2]|];
    simpl in H; try contradiction; [|discriminate].
  subst s2.
  destruct (err (if negb (err s1) && negb (bytes_eqb (peek s1) []) then fail s1 else s1)); [reflexivity|discriminate].
Qed.

(** ... and one that evaluates under one assignment evaluates under every assignment *)
Lemma eval_ok_indep : forall t e1 e2 b, eval_impl t e1 = ROk b -> exists b', eval_impl t e2 = ROk b'.
Proof.
  intros t e1 e2 b H.
  destruct (eval_impl t e2) as [b'| |] eqn:E.
  - exists b'. reflexivity.
  - rewrite (eval_err_indep t e2 e1 E) in H. discriminate.
  - exfalso. exact (eval_total t e2 E).
Qed.
