(** Model of meta/feature_set.go (supportedFeatures.Initialize / Resolve with its cache,
    checkFeature) and of the checkFeature call sites of meta/resolver.go as they stand after the
    "fix:" commits: addDataDefinition (data nodes and uses), resolver.enter for the cases of a
    choice, expandAugment, applyRefinements (a disabled refine is skipped, the next ones are still
    applied), and of the syntax check of Builder.IfFeature.  One module, no imports. *)
From Coq Require Import List Bool Arith Strings.Byte.
From YV Require Import Feature.IfFeature.
Import ListNotations.

Definition name := list byte.
Definition text := list byte.

Definition mem (x : name) (l : list name) : bool := existsb (bytes_eqb x) l.

(** parser.Options.Features *)
Inductive fconfig :=
| OnlyOn (l : list name)     (* meta.FeaturesOn(l): every other feature is off *)
| AllBut (l : list name).    (* meta.FeaturesOff(l): every other feature is on; AllFeaturesOn() = AllBut [] *)

(** supportedFeatures.Initialize: the keys of [enabled] for a module declaring [declared] *)
Definition initialize (cfg : fconfig) (declared : list name) : list name :=
  match cfg with
  | AllBut l => filter (fun f => negb (mem f l)) declared     (* copy all in, remove blacklisted *)
  | OnlyOn l => filter (fun f => mem f declared) l            (* copy in only whitelisted that exist *)
  end.

Definition env_of (enabled : list name) : env := fun id => mem id enabled.

(** supportedFeatures.cache: expression text -> result *)
Definition cache := list (text * bool).
Fixpoint cache_get (t : text) (c : cache) : option bool :=
  match c with
  | [] => None
  | (t', b) :: tl => if bytes_eqb t t' then Some b else cache_get t tl
  end.

(** supportedFeatures.Resolve *)
Definition resolve (enabled : list name) (c : cache) (t : text) : result * cache :=
  match cache_get t c with
  | Some b => (ROk b, c)
  | None =>
      match eval_impl t (env_of enabled) with
      | ROk b => (ROk b, (t, b) :: c)
      | r => (r, c)
      end
  end.

Inductive chk := On | Off | Bad | Fuel.

(** checkFeature: the first expression that is off or in error decides *)
Fixpoint check_feature (enabled : list name) (c : cache) (ifs : list text) : chk * cache :=
  match ifs with
  | [] => (On, c)
  | t :: tl =>
      match resolve enabled c t with
      | (ROk true, c') => check_feature enabled c' tl
      | (ROk false, c') => (Off, c')
      | (RErr, c') => (Bad, c')
      | (ROutOfFuel, c') => (Fuel, c')
      end
  end.

(** a guarded statement, by the call site that checks it *)
Inductive stmt :=
| SData (ifs : list text)               (* leaf, leaf-list, container, list, choice, anyxml: addDataDefinition *)
| SCase (ifs : list text)               (* case of a choice: resolver.enter / expandAugment *)
| SUses (ifs : list text)               (* uses: addDataDefinition, before expandUses *)
| SAugment (ifs : list text)            (* augment: expandAugment *)
| SRefines (rs : list (list text)).     (* the refine statements of one uses: applyRefinements *)

Inductive load := Loaded (obs : list (list bool)) | LoadErr | LoadFuel.

(** applyRefinements: for each refine: error -> return it; off -> continue; on -> apply *)
Fixpoint refines (enabled : list name) (c : cache) (rs : list (list text)) : option (option (list bool)) * cache :=
  match rs with
  | [] => (Some (Some []), c)
  | ifs :: tl =>
      match check_feature enabled c ifs with
      | (Bad, c') => (Some None, c')
      | (Fuel, c') => (None, c')
      | (k, c') =>
          match refines enabled c' tl with
          | (Some (Some fl), c'') => (Some (Some (match k with On => true | _ => false end :: fl)), c'')
          | r => r
          end
      end
  end.

(** what is observable of one statement: is the guarded definition there / was the refine applied *)
Definition stmt_obs (enabled : list name) (c : cache) (s : stmt) : option (option (list bool)) * cache :=
  match s with
  | SData ifs | SCase ifs | SUses ifs | SAugment ifs =>
      match check_feature enabled c ifs with
      | (On, c') => (Some (Some [true]), c')
      | (Off, c') => (Some (Some [false]), c')
      | (Bad, c') => (Some None, c')
      | (Fuel, c') => (None, c')
      end
  | SRefines rs => refines enabled c rs
  end.

Fixpoint compile_from (enabled : list name) (c : cache) (ss : list stmt) : load :=
  match ss with
  | [] => Loaded []
  | s :: tl =>
      match stmt_obs enabled c s with
      | (None, _) => LoadFuel
      | (Some None, _) => LoadErr
      | (Some (Some o), c') =>
          match compile_from enabled c' tl with
          | Loaded os => Loaded (o :: os)
          | r => r
          end
      end
  end.

(** Builder.IfFeature (meta/builder.go): when the parser reads an if-feature statement its argument
    is evaluated once against no features, for its syntax only; an error fails the load before
    anything is resolved.  [On]: every argument is an expression. *)
Fixpoint validate (ts : list text) : chk :=
  match ts with
  | [] => On
  | t :: tl =>
      match eval_impl t (env_of []) with
      | ROk _ => validate tl
      | RErr => Bad
      | ROutOfFuel => Fuel
      end
  end.

Definition stmt_texts (s : stmt) : list text :=
  match s with
  | SData ifs | SCase ifs | SUses ifs | SAugment ifs => ifs
  | SRefines rs => concat rs
  end.

(** parse, Initialize (fresh cache), then the statements *)
Definition compile (cfg : fconfig) (declared : list name) (ss : list stmt) : load :=
  match validate (flat_map stmt_texts ss) with
  | Bad => LoadErr
  | Fuel => LoadFuel
  | _ => compile_from (initialize cfg declared) [] ss
  end.

(** the loader before "fix: a malformed if-feature expression is an error wherever it stands":
    an argument was only looked at when a checkFeature call reached it *)
Definition compile_old (cfg : fconfig) (declared : list name) (ss : list stmt) : load :=
  compile_from (initialize cfg declared) [] ss.

(** ** Specification *)

(** a feature is on: it is declared, and listed (allow-list) / not listed (deny-list) *)
Definition is_enabled (cfg : fconfig) (declared : list name) (f : name) : bool :=
  mem f declared && match cfg with OnlyOn l => mem f l | AllBut l => negb (mem f l) end.

(** a guard as written: style and abstract expression *)
Definition guard := (style * fexpr)%type.
Definition guard_text (g : guard) : text := print_text (fst g) (snd g).
Definition guard_ok (g : guard) : bool := style_ok (fst g) && idents_ok (snd g).

Inductive gstmt :=
| GData (gs : list guard) | GCase (gs : list guard) | GUses (gs : list guard) | GAugment (gs : list guard)
| GRefines (rs : list (list guard)).

Definition texts_of (s : gstmt) : stmt :=
  match s with
  | GData gs => SData (map guard_text gs)
  | GCase gs => SCase (map guard_text gs)
  | GUses gs => SUses (map guard_text gs)
  | GAugment gs => SAugment (map guard_text gs)
  | GRefines rs => SRefines (map (map guard_text) rs)
  end.

Definition gstmt_ok (s : gstmt) : bool :=
  match s with
  | GData gs | GCase gs | GUses gs | GAugment gs => forallb guard_ok gs
  | GRefines rs => forallb (forallb guard_ok) rs
  end.

(** all the if-feature expressions of the statement are true *)
Definition all_true (cfg : fconfig) (declared : list name) (gs : list guard) : bool :=
  forallb (fun g => denote (snd g) (lookup (is_enabled cfg declared))) gs.

Definition spec_obs (cfg : fconfig) (declared : list name) (s : gstmt) : list bool :=
  match s with
  | GData gs | GCase gs | GUses gs | GAugment gs => [all_true cfg declared gs]
  | GRefines rs => map (all_true cfg declared) rs
  end.
