(** A printer for range / length expressions with integer bounds (RFC 7950 9.2.4 grammar:
    range-part *( "|" range-part ), range-part = boundary [ ".." boundary ], boundary = min / max /
    integer-value).  Restrict/PrintProofs.v shows that the model of newRange reads every printed
    expression back as the syntax it was printed from - for all integers of any size. *)
From Coq Require Import ZArith List Bool Strings.Byte.
From YV Require Import Restrict.RangeParse Restrict.Model Restrict.Spec.
Import ListNotations.
Open Scope Z_scope.

Definition digit_byte (d : Z) : byte :=
  match d with
  | 0 => x30 | 1 => x31 | 2 => x32 | 3 => x33 | 4 => x34
  | 5 => x35 | 6 => x36 | 7 => x37 | 8 => x38 | _ => x39
  end.

(** decimal digits, least significant first; [fuel] = number of binary digits is always enough *)
Fixpoint digits_rev (fuel : nat) (n : Z) : list Z :=
  match fuel with
  | O => [n]
  | S f => if n <? 10 then [n] else (n mod 10) :: digits_rev f (n / 10)
  end.

Definition print_nat (n : Z) : text := map digit_byte (rev (digits_rev (Z.to_nat (Z.log2 n + 1)) n)).
Definition print_int (z : Z) : text := if z <? 0 then b_minus :: print_nat (- z) else print_nat z.

Definition print_bound (b : bound) : text :=
  match b with BdMin => kw_min | BdMax => kw_max | BdNum z _ => print_int z end.

Inductive pentry := PSingle (b : bound) | PRange (lo hi : bound).

Definition print_entry (e : pentry) : text :=
  match e with
  | PSingle b => print_bound b
  | PRange lo hi => print_bound lo ++ [b_dot; b_dot] ++ print_bound hi
  end.

Fixpoint print_range (es : list pentry) : text :=
  match es with
  | [] => []
  | [e] => print_entry e
  | e :: tl => print_entry e ++ [b_bar] ++ print_range tl
  end.

Definition alt_of (e : pentry) : alt :=
  match e with PSingle b => mkAlt b b | PRange lo hi => mkAlt lo hi end.

(** the bounds are integers (scale 0) or keywords *)
Definition int_bound (b : bound) : Prop := match b with BdNum _ k => k = O | _ => True end.
Definition int_pentry (e : pentry) : Prop :=
  match e with PSingle b => int_bound b | PRange lo hi => int_bound lo /\ int_bound hi end.

(** min only as lower bound, max only as upper bound, a single value is a number *)
Definition placed_p (e : pentry) : Prop :=
  match e with
  | PSingle b => match b with BdNum _ _ => True | _ => False end
  | PRange lo hi => lo <> BdMax /\ hi <> BdMin
  end.

(** a typedef chain of integer restrictions as syntax: per level, leaf first, an optional range *)
Definition lvl := option (list pentry).
Definition lvl_ok (o : lvl) : Prop :=
  match o with None => True | Some es => es <> [] /\ Forall int_pentry es end.
Definition lvl_placed (o : lvl) : Prop :=
  match o with None => True | Some es => Forall placed_p es end.
Definition chain_text (lv : list lvl) : list tlevel :=
  map (fun o => mkT (option_map print_range o) None []) lv.
Definition chain_syntax (lv : list lvl) : list slevel :=
  map (fun o => mkS (option_map (map alt_of) o) None []) lv.
