(** The model of newRange inverts the printer of Restrict/Print.v: for every non-empty list of
    alternatives whose bounds are integers of any size or the min / max keywords,
    parse_range (print_range es) succeeds and denotes exactly es. *)
From Coq Require Import ZArith List Bool Lia Strings.Byte.
From YV Require Import Restrict.RangeParse Restrict.Model Restrict.Spec Restrict.Proofs Restrict.Print.
Import ListNotations.
Open Scope Z_scope.

Definition is_digit (d : Z) : Prop := 0 <= d < 10.

Fixpoint val_rev (l : list Z) : Z :=
  match l with [] => 0 | d :: tl => d + 10 * val_rev tl end.

Lemma digits_rev_spec : forall fuel n, 0 <= n < 2 ^ Z.of_nat fuel ->
  val_rev (digits_rev fuel n) = n /\ Forall is_digit (digits_rev fuel n) /\ digits_rev fuel n <> [].
Proof.
  induction fuel as [|f IH]; intros n Hn.
  - assert (n = 0) by (cbn in Hn; lia). subst. cbn.
    repeat split; [constructor; [unfold is_digit; lia|constructor]|discriminate].
  - cbn [digits_rev]. destruct (Z.ltb_spec n 10).
    + cbn. repeat split; [lia|constructor; [unfold is_digit; lia|constructor]|discriminate].
    + assert (Hq : 0 <= n / 10 < 2 ^ Z.of_nat f).
      { split; [apply Z.div_pos; lia|].
        rewrite Nat2Z.inj_succ, Z.pow_succ_r in Hn by lia.
        apply Z.div_lt_upper_bound; lia. }
      destruct (IH (n / 10) Hq) as [Hv [Hd _]]. cbn [val_rev]. rewrite Hv.
      repeat split.
      * pose proof (Z.div_mod n 10). lia.
      * constructor; [|exact Hd]. unfold is_digit. apply Z.mod_pos_bound. lia.
      * discriminate.
Qed.

Lemma log2_fuel n : 0 <= n -> 0 <= n < 2 ^ Z.of_nat (Z.to_nat (Z.log2 n + 1)).
Proof.
  intros Hn. pose proof (Z.log2_nonneg n). rewrite Z2Nat.id by lia. split; [exact Hn|].
  destruct (Z.eq_dec n 0) as [->|Hz]; [cbn; lia|].
  replace (Z.log2 n + 1) with (Z.succ (Z.log2 n)) by lia. apply Z.log2_spec. lia.
Qed.

Lemma digit_of_byte d : is_digit d -> digit_of (digit_byte d) = Some d.
Proof.
  unfold is_digit. intros H.
  assert (d = 0 \/ d = 1 \/ d = 2 \/ d = 3 \/ d = 4 \/ d = 5 \/ d = 6 \/ d = 7 \/ d = 8 \/ d = 9) by lia.
  repeat match goal with H : _ \/ _ |- _ => destruct H as [H|H] end; subst; reflexivity.
Qed.

(** what a printed byte can be: not '|', not '.', not white space, not the first letter of a keyword,
    not a sign *)
Definition plain (c : byte) : bool :=
  negb (Byte.eqb c b_bar) && negb (Byte.eqb c b_dot) && negb (is_space c).

Lemma digit_byte_plain d : is_digit d -> plain (digit_byte d) = true.
Proof.
  unfold is_digit. intros H.
  assert (d = 0 \/ d = 1 \/ d = 2 \/ d = 3 \/ d = 4 \/ d = 5 \/ d = 6 \/ d = 7 \/ d = 8 \/ d = 9) by lia.
  repeat match goal with H : _ \/ _ |- _ => destruct H as [H|H] end; subst; reflexivity.
Qed.

Lemma digits_val_app a b acc :
  digits_val (a ++ b) acc = match digits_val a acc with Some x => digits_val b x | None => None end.
Proof.
  revert acc. induction a as [|c tl IH]; intros acc; [reflexivity|].
  cbn. destruct (digit_of c); [apply IH|reflexivity].
Qed.

Lemma digits_val_print l acc : Forall is_digit l ->
  digits_val (map digit_byte (rev l)) acc = Some (acc * 10 ^ Z.of_nat (length l) + val_rev l).
Proof.
  revert acc. induction l as [|d tl IH]; intros acc H.
  - cbn. f_equal. lia.
  - inversion H; subst. cbn [rev]. rewrite map_app, digits_val_app, IH by assumption.
    cbn [map digits_val]. rewrite digit_of_byte by assumption. f_equal.
    cbn [length val_rev]. rewrite Nat2Z.inj_succ, Z.pow_succ_r by lia. ring.
Qed.

Lemma print_nat_spec n : 0 <= n ->
  parse_udigits (print_nat n) = Some n /\ forallb plain (print_nat n) = true /\
  exists d tl, print_nat n = digit_byte d :: tl /\ is_digit d.
Proof.
  intros Hn. unfold print_nat.
  destruct (digits_rev_spec (Z.to_nat (Z.log2 n + 1)) n (log2_fuel n Hn)) as [Hv [Hd Hne]].
  set (l := digits_rev (Z.to_nat (Z.log2 n + 1)) n) in *.
  assert (Hs : digits_val (map digit_byte (rev l)) 0 = Some n).
  { rewrite digits_val_print by exact Hd. f_equal. lia. }
  split; [|split].
  - unfold parse_udigits. destruct (map digit_byte (rev l)) eqn:E; [|exact Hs].
    apply map_eq_nil in E. apply (f_equal (@rev Z)) in E. rewrite rev_involutive in E. cbn in E. congruence.
  - apply forallb_forall. intros c Hc. apply in_map_iff in Hc. destruct Hc as [d [<- Hin]].
    apply digit_byte_plain. rewrite Forall_forall in Hd. apply Hd. apply in_rev. exact Hin.
  - assert (Hr : Forall is_digit (rev l)).
    { apply Forall_forall. intros x Hx. rewrite Forall_forall in Hd. apply Hd. apply in_rev. exact Hx. }
    destruct (rev l) as [|d tl] eqn:E.
    + apply (f_equal (@rev Z)) in E. rewrite rev_involutive in E. cbn in E. congruence.
    + exists d, (map digit_byte tl). split; [reflexivity|]. inversion Hr; assumption.
Qed.

Lemma digits_take s : forall acc n v, digits_val s acc = Some v ->
  take_digits s acc n = (v, (n + length s)%nat, []).
Proof.
  induction s as [|c tl IH]; intros acc n v H; cbn in *.
  - inversion H. f_equal. f_equal. lia.
  - destruct (digit_of c); [|discriminate]. rewrite (IH _ _ _ H). f_equal. f_equal. lia.
Qed.

Lemma digit_byte_not_sign d : is_digit d ->
  Byte.eqb (digit_byte d) b_minus = false /\ Byte.eqb (digit_byte d) b_plus = false /\
  Byte.eqb (digit_byte d) x6d = false.
Proof.
  unfold is_digit. intros H.
  assert (d = 0 \/ d = 1 \/ d = 2 \/ d = 3 \/ d = 4 \/ d = 5 \/ d = 6 \/ d = 7 \/ d = 8 \/ d = 9) by lia.
  repeat match goal with H : _ \/ _ |- _ => destruct H as [H|H] end; subst; repeat split; reflexivity.
Qed.

(** all-plain text is untouched by TrimSpace *)
Lemma ltrim_plain s : forallb plain s = true -> ltrim s = s.
Proof.
  destruct s as [|c tl]; [reflexivity|]. cbn. intros H. apply andb_true_iff in H. destruct H as [H _].
  unfold plain in H. apply andb_true_iff in H. destruct H as [_ H]. apply negb_true_iff in H. rewrite H. reflexivity.
Qed.
Lemma forallb_rev {A} (f : A -> bool) l : forallb f l = true -> forallb f (rev l) = true.
Proof. rewrite !forallb_forall. intros H x Hx. apply H. apply in_rev. exact Hx. Qed.
Lemma trim_plain s : forallb plain s = true -> trim s = s.
Proof.
  intros H. unfold trim. rewrite (ltrim_plain s H). rewrite (ltrim_plain (rev s) (forallb_rev _ _ H)).
  apply rev_involutive.
Qed.

Lemma text_eqb_head c tl k ktl : Byte.eqb c k = false -> text_eqb (c :: tl) (k :: ktl) = false.
Proof. intros H. cbn. rewrite H. reflexivity. Qed.

Definition float_body (neg : bool) (body : text) : option (Z * nat) :=
  let '(ip, ni, rest) := take_digits body 0 O in
  match rest with
  | [] => if Nat.eqb ni 0 then None else Some (if neg then - ip else ip, O)
  | c :: tl =>
      if Byte.eqb c b_dot then
        let '(m, nf, rest2) := take_digits tl ip O in
        match rest2 with
        | [] => if Nat.eqb (ni + nf) 0 then None else Some (if neg then - m else m, nf)
        | _ => None
        end
      else None
  end.

Lemma parse_float_minus t : parse_float (b_minus :: t) = float_body true t.
Proof. reflexivity. Qed.
Lemma parse_float_digit c tl :
  Byte.eqb c b_minus = false -> Byte.eqb c b_plus = false -> parse_float (c :: tl) = float_body false (c :: tl).
Proof. intros H1 H2. unfold parse_float. rewrite H1, H2. reflexivity. Qed.
Lemma float_body_digits neg s v :
  s <> [] -> digits_val s 0 = Some v -> float_body neg s = Some (if neg then - v else v, O).
Proof.
  intros Hne H. unfold float_body. rewrite (digits_take s 0 O v H).
  destruct s as [|c tl]; [congruence|]. reflexivity.
Qed.

Lemma parse_int_minus t :
  parse_int (b_minus :: t) = match parse_udigits t with
                             | Some z => if z <=? max_int64 + 1 then Some (- z) else None
                             | None => None
                             end.
Proof. reflexivity. Qed.
Lemma parse_int_digit c tl :
  Byte.eqb c b_minus = false -> Byte.eqb c b_plus = false ->
  parse_int (c :: tl) = match parse_udigits (c :: tl) with
                        | Some z => if z <=? max_int64 then Some z else None
                        | None => None
                        end.
Proof. intros H1 H2. unfold parse_int. rewrite H1, H2. reflexivity. Qed.
Lemma parse_uint_minus t : parse_uint (b_minus :: t) = None.
Proof. reflexivity. Qed.

Lemma udigits_val s v : parse_udigits s = Some v -> s <> [] /\ digits_val s 0 = Some v.
Proof. destruct s; [discriminate|]. intros H. split; [discriminate|exact H]. Qed.

(** an integer of any size is read back as itself *)
Lemma parse_print_int z :
  forallb plain (print_int z) = true /\
  exists n, parse_rnum (print_int z) = Some n /\ den n = BdNum z O.
Proof.
  unfold print_int. destruct (Z.ltb_spec z 0) as [Hneg|Hpos].
  - destruct (print_nat_spec (- z)) as [Hp [Hpl _]]; [lia|].
    assert (Hplain : forallb plain (b_minus :: print_nat (- z)) = true) by (cbn [forallb]; rewrite Hpl; reflexivity).
    split; [exact Hplain|].
    unfold parse_rnum. rewrite (trim_plain _ Hplain).
    unfold kw_max, kw_min.
    rewrite (text_eqb_head b_minus (print_nat (- z)) x6d [x61; x78] eq_refl).
    rewrite (text_eqb_head b_minus (print_nat (- z)) x6d [x69; x6e] eq_refl).
    rewrite parse_int_minus, Hp.
    destruct (Z.leb_spec (- z) (max_int64 + 1)).
    + eexists. split; [reflexivity|]. cbn. f_equal. lia.
    + rewrite parse_uint_minus, parse_float_minus.
      destruct (udigits_val _ _ Hp) as [Hne Hv].
      rewrite (float_body_digits true _ _ Hne Hv).
      eexists. split; [reflexivity|]. cbn. f_equal. lia.
  - destruct (print_nat_spec z Hpos) as [Hp [Hpl [d [tl [E Hd]]]]].
    split; [exact Hpl|].
    destruct (digit_byte_not_sign d Hd) as [Hm [Hpls Hkw]].
    unfold parse_rnum. rewrite (trim_plain _ Hpl).
    destruct (udigits_val _ _ Hp) as [Hne Hv].
    assert (K1 : text_eqb (print_nat z) kw_max = false).
    { rewrite E. unfold kw_max. apply text_eqb_head. exact Hkw. }
    assert (K2 : text_eqb (print_nat z) kw_min = false).
    { rewrite E. unfold kw_min. apply text_eqb_head. exact Hkw. }
    rewrite K1, K2.
    assert (PI : parse_int (print_nat z) = if z <=? max_int64 then Some z else None).
    { rewrite E, (parse_int_digit _ _ Hm Hpls), <- E, Hp. reflexivity. }
    rewrite PI. destruct (Z.leb_spec z max_int64).
    + eexists. split; [reflexivity|]. reflexivity.
    + unfold parse_uint. rewrite Hp. destruct (Z.leb_spec z max_uint64).
      * eexists. split; [reflexivity|]. reflexivity.
      * assert (PF : parse_float (print_nat z) = Some (z, O)).
        { rewrite E, (parse_float_digit _ _ Hm Hpls), <- E. apply (float_body_digits false _ _ Hne Hv). }
        rewrite PF. eexists. split; [reflexivity|]. reflexivity.
Qed.

(** a bound *)
Lemma parse_print_bound b : int_bound b ->
  forallb plain (print_bound b) = true /\
  exists n, parse_rnum (print_bound b) = Some n /\ den n = b.
Proof.
  destruct b as [| |z k]; cbn [print_bound int_bound]; intros H.
  - split; [reflexivity|]. exists RMin. split; reflexivity.
  - split; [reflexivity|]. exists RMax. split; reflexivity.
  - subst k. apply parse_print_int.
Qed.

(** strings.Split on text without the separator *)
Lemma plain_not_dot c : plain c = true -> Byte.eqb c b_dot = false.
Proof.
  unfold plain. intros H. apply andb_true_iff in H. destruct H as [H _].
  apply andb_true_iff in H. destruct H as [_ H]. apply negb_true_iff in H. exact H.
Qed.
Lemma plain_not_bar c : plain c = true -> Byte.eqb c b_bar = false.
Proof.
  unfold plain. intros H. apply andb_true_iff in H. destruct H as [H _].
  apply andb_true_iff in H. destruct H as [H _]. apply negb_true_iff in H. exact H.
Qed.

Lemma split_dotdot_cons c c2 tl2 acc :
  split_dotdot (c :: c2 :: tl2) acc =
  if Byte.eqb c b_dot && Byte.eqb c2 b_dot then rev acc :: split_dotdot tl2 []
  else split_dotdot (c2 :: tl2) (c :: acc).
Proof. reflexivity. Qed.

Lemma split_dotdot_plain s : forall acc, forallb plain s = true -> split_dotdot s acc = [rev acc ++ s].
Proof.
  induction s as [|c tl IH]; intros acc H.
  - cbn. rewrite app_nil_r. reflexivity.
  - cbn [forallb] in H. apply andb_true_iff in H. destruct H as [Hc Ht].
    destruct tl as [|c2 tl2].
    + cbn. reflexivity.
    + rewrite split_dotdot_cons, (plain_not_dot c Hc). cbn [andb]. rewrite (IH (c :: acc) Ht). cbn [rev].
      rewrite <- app_assoc. reflexivity.
Qed.

Lemma split_dotdot_mid a b : forall acc, forallb plain a = true ->
  split_dotdot (a ++ [b_dot; b_dot] ++ b) acc = (rev acc ++ a) :: split_dotdot b [].
Proof.
  induction a as [|c tl IH]; intros acc H.
  - cbn [app]. rewrite split_dotdot_cons. change (Byte.eqb b_dot b_dot) with true. cbn [andb].
    rewrite app_nil_r. reflexivity.
  - cbn [forallb] in H. apply andb_true_iff in H. destruct H as [Hc Ht].
    change ((c :: tl) ++ [b_dot; b_dot] ++ b) with (c :: (tl ++ [b_dot; b_dot] ++ b)).
    specialize (IH (c :: acc) Ht).
    destruct (tl ++ [b_dot; b_dot] ++ b) as [|c2 tl2] eqn:E.
    + destruct tl; discriminate.
    + rewrite split_dotdot_cons, (plain_not_dot c Hc). cbn [andb]. rewrite IH. cbn [rev].
      rewrite <- app_assoc. reflexivity.
Qed.

Lemma split_bar_plain s : forall acc, forallb (fun c => negb (Byte.eqb c b_bar)) s = true ->
  split_bar s acc = [rev acc ++ s].
Proof.
  induction s as [|c tl IH]; intros acc H.
  - cbn. rewrite app_nil_r. reflexivity.
  - cbn [forallb] in H. apply andb_true_iff in H. destruct H as [Hc Ht]. apply negb_true_iff in Hc.
    cbn [split_bar]. rewrite Hc. rewrite (IH (c :: acc) Ht). cbn [rev]. rewrite <- app_assoc. reflexivity.
Qed.

Lemma split_bar_mid a b : forall acc, forallb (fun c => negb (Byte.eqb c b_bar)) a = true ->
  split_bar (a ++ [b_bar] ++ b) acc = (rev acc ++ a) :: split_bar b [].
Proof.
  induction a as [|c tl IH]; intros acc H.
  - change ([] ++ [b_bar] ++ b) with (b_bar :: b). cbn [split_bar]. change (Byte.eqb b_bar b_bar) with true.
    cbn iota. rewrite app_nil_r. reflexivity.
  - cbn [forallb] in H. apply andb_true_iff in H. destruct H as [Hc Ht]. apply negb_true_iff in Hc.
    change ((c :: tl) ++ [b_bar] ++ b) with (c :: (tl ++ [b_bar] ++ b)).
    specialize (IH (c :: acc) Ht). remember (tl ++ [b_bar] ++ b) as rest.
    cbn [split_bar]. rewrite Hc. rewrite IH. cbn [rev]. rewrite <- app_assoc. reflexivity.
Qed.

(** one alternative: free of '|', and read back as printed *)
Definition no_bar (s : text) : bool := forallb (fun c => negb (Byte.eqb c b_bar)) s.

Lemma plain_no_bar s : forallb plain s = true -> no_bar s = true.
Proof.
  unfold no_bar. rewrite !forallb_forall. intros H c Hc. apply negb_true_iff. apply plain_not_bar. auto.
Qed.

Lemma parse_print_entry e : int_pentry e ->
  no_bar (print_entry e) = true /\
  exists r, parse_entry (print_entry e) = Some r /\ den_entry r = alt_of e.
Proof.
  destruct e as [b|lo hi]; cbn [int_pentry print_entry alt_of]; intros H.
  - destruct (parse_print_bound b H) as [Hpl [n [Hn Hd]]].
    split; [apply plain_no_bar; exact Hpl|].
    unfold parse_entry. rewrite (split_dotdot_plain _ [] Hpl). cbn [rev app].
    rewrite Hn. exists (EExact n). split; [reflexivity|]. cbn. rewrite Hd. reflexivity.
  - destruct H as [Hlo Hhi].
    destruct (parse_print_bound lo Hlo) as [Pl [nl [Hnl Hdl]]].
    destruct (parse_print_bound hi Hhi) as [Ph [nh [Hnh Hdh]]].
    split.
    + unfold no_bar. rewrite !forallb_app. fold (no_bar (print_bound lo)). fold (no_bar (print_bound hi)).
      rewrite (plain_no_bar _ Pl), (plain_no_bar _ Ph). reflexivity.
    + unfold parse_entry. rewrite (split_dotdot_mid _ _ [] Pl). rewrite (split_dotdot_plain _ [] Ph).
      cbn [rev app]. rewrite Hnl, Hnh. exists (ERange nl nh). split; [reflexivity|]. cbn. rewrite Hdl, Hdh. reflexivity.
Qed.

Lemma split_bar_print es : es <> [] -> Forall int_pentry es ->
  split_bar (print_range es) [] = map print_entry es.
Proof.
  induction es as [|e tl IH]; intros Hne H; [congruence|].
  inversion H as [|? ? He Htl]; subst.
  destruct (parse_print_entry e He) as [Hb _].
  destruct tl as [|e2 tl2].
  - cbn [print_range map]. rewrite (split_bar_plain _ [] Hb). reflexivity.
  - change (print_range (e :: e2 :: tl2)) with (print_entry e ++ [b_bar] ++ print_range (e2 :: tl2)).
    rewrite (split_bar_mid _ _ [] Hb). cbn [rev app map]. f_equal. apply IH; [discriminate|exact Htl].
Qed.

(** the expression as a whole *)
Theorem parse_print_range : forall es, es <> [] -> Forall int_pentry es ->
  exists r, parse_range (print_range es) = Some r /\ map den_entry r = map alt_of es.
Proof.
  intros es Hne H. unfold parse_range. rewrite (split_bar_print es Hne H). clear Hne.
  induction es as [|e tl IH]; [exists []; split; reflexivity|].
  inversion H as [|? ? He Htl]; subst.
  destruct (parse_print_entry e He) as [_ [r [Hr Hd]]].
  destruct (IH Htl) as [rs [Hrs Hds]].
  exists (r :: rs). cbn [map traverse]. rewrite Hr, Hrs. split; [reflexivity|]. cbn. rewrite Hd, Hds. reflexivity.
Qed.

(** * The same with what the soundness / completeness theorems need to know about the output *)
Lemma den_int_integral n b : den n = b -> int_bound b -> integralb n = true.
Proof.
  intros <- H. destruct n; cbn in *; try reflexivity. subst k. unfold pow10. cbn.
  rewrite Z.rem_1_r. reflexivity.
Qed.

Lemma entry_facts e r : int_pentry e -> den_entry r = alt_of e ->
  integral_entry r = true /\ (placed_p e -> placed r = true).
Proof.
  intros Hi Hd. destruct e as [b|lo hi], r as [n|nl nh]; cbn [int_pentry den_entry alt_of integral_entry placed_p placed] in *;
    injection Hd as H1 H2.
  - split; [eapply den_int_integral; eauto|].
    intros Hp. subst b. destruct n; cbn in *; tauto.
  - split.
    + apply andb_true_iff. split; eapply den_int_integral; eauto.
    + intros Hp. subst b. destruct nl; cbn in Hp; try tauto; destruct nh; cbn in H2; try discriminate; reflexivity.
  - destruct Hi as [Hl Hh]. split.
    + eapply den_int_integral; eauto.
    + intros [Hp1 Hp2]. subst lo hi. destruct n; cbn in *; try reflexivity; congruence.
  - destruct Hi as [Hl Hh]. split.
    + apply andb_true_iff. split; eapply den_int_integral; eauto.
    + intros [Hp1 Hp2]. subst lo hi. apply andb_true_iff. split; apply negb_true_iff.
      * destruct nl; cbn in *; try reflexivity; congruence.
      * destruct nh; cbn in *; try reflexivity; congruence.
Qed.

Lemma range_facts es r : Forall int_pentry es -> map den_entry r = map alt_of es ->
  forallb integral_entry r = true /\ (Forall placed_p es -> forallb placed r = true).
Proof.
  revert r. induction es as [|e tl IH]; intros r Hi Hd.
  - destruct r; [|discriminate]. split; reflexivity.
  - destruct r as [|x xs]; [discriminate|]. cbn in Hd. injection Hd as H1 H2.
    inversion Hi as [|? ? He Htl]; subst.
    destruct (entry_facts e x He H1) as [A B]. destruct (IH xs Htl H2) as [C D].
    cbn [forallb]. rewrite A, C. split; [reflexivity|].
    intros Hp. inversion Hp; subst. rewrite B, D by assumption. reflexivity.
Qed.

Lemma sel_all_cons f sel l pc :
  sel_all f sel (l :: pc) = (match sel l with Some r => forallb f r | None => true end) && sel_all f sel pc.
Proof. reflexivity. Qed.

Lemma parse_chain_print lv : Forall lvl_ok lv ->
  exists pc, parse_chain (chain_text lv) = Some pc /\ map den_level pc = chain_syntax lv /\
             sel_all integral_entry pl_range pc = true /\
             (Forall lvl_placed lv -> placed_chain pc = true) /\
             flat_map pl_pats pc = [].
Proof.
  induction lv as [|o tl IH]; intros H.
  - exists []. repeat split; reflexivity.
  - inversion H as [|? ? Ho Htl]; subst. destruct (IH Htl) as [pc [Hp [Hd [Hi [Hpl Hpat]]]]].
    unfold parse_chain in *. cbn [chain_text map traverse]. unfold parse_level at 1. cbn [tl_range tl_length tl_pats parse_opt].
    destruct o as [es|]; cbn [option_map parse_opt].
    + destruct Ho as [Hne Hint]. destruct (parse_print_range es Hne Hint) as [r [Hr Hdr]].
      rewrite Hr. fold (chain_text tl). rewrite Hp.
      destruct (range_facts es r Hint Hdr) as [Fi Fp].
      exists (mkP (Some r) None [] :: pc). split; [reflexivity|]. split.
      * cbn [map chain_syntax]. unfold den_level at 1. cbn [pl_range pl_length pl_pats option_map].
        rewrite Hdr. fold (chain_syntax tl). rewrite Hd. reflexivity.
      * split; [rewrite sel_all_cons; cbn [pl_range]; rewrite Fi, Hi; reflexivity|]. split; [|cbn; exact Hpat].
        intros Hall. inversion Hall as [|? ? Ho2 Htl2]; subst. unfold placed_chain in *.
        specialize (Hpl Htl2). apply andb_true_iff in Hpl. destruct Hpl as [P1 P2].
        rewrite !sel_all_cons. cbn [pl_range pl_length]. rewrite (Fp Ho2), P1, P2. reflexivity.
    + fold (chain_text tl). rewrite Hp.
      exists (mkP None None [] :: pc). split; [reflexivity|]. split.
      * cbn [map chain_syntax]. fold (chain_syntax tl). rewrite Hd. reflexivity.
      * split; [rewrite sel_all_cons; cbn [pl_range]; exact Hi|]. split; [|cbn; exact Hpat].
        intros Hall. inversion Hall as [|? ? Ho2 Htl2]; subst. unfold placed_chain in *.
        rewrite !sel_all_cons. cbn [pl_range pl_length]. apply Hpl. exact Htl2.
Qed.

(** ** End to end for integer leaves and leaf-lists: restriction SYNTAX printed to text, loaded and
    checked by the model, against the effective type of that syntax. *)
Section EndToEnd.
Variable rx : text -> text -> bool.

Theorem integer_end_to_end : forall k il lv v,
  Forall lvl_ok lv -> Forall lvl_placed lv -> wf_value v ->
  (accept rx (BNum k) il (chain_text lv) v = Accepted <->
   in_effective_type rx (BNum k) il (chain_syntax lv) v).
Proof.
  intros k il lv v Hok Hpl Wv.
  destruct (parse_chain_print lv Hok) as [pc [Hp [Hd [Hi [Hplc Hpat]]]]].
  assert (Hs : pats_simple pc) by (unfold pats_simple; rewrite Hpat; cbn; lia).
  rewrite <- Hd. split.
  - apply accept_sound; auto.
  - apply accept_complete; auto.
Qed.

(** soundness alone needs no placement hypothesis: whatever the keywords' positions *)
Theorem integer_end_to_end_sound : forall k il lv v,
  Forall lvl_ok lv -> wf_value v ->
  accept rx (BNum k) il (chain_text lv) v = Accepted ->
  in_effective_type rx (BNum k) il (chain_syntax lv) v.
Proof.
  intros k il lv v Hok Wv.
  destruct (parse_chain_print lv Hok) as [pc [Hp [Hd [Hi [Hplc Hpat]]]]].
  assert (Hs : pats_simple pc) by (unfold pats_simple; rewrite Hpat; cbn; lia).
  rewrite <- Hd. apply accept_sound; auto.
Qed.
End EndToEnd.

Lemma printer_example :
  print_range [PRange BdMin (BdNum (-10) 0); PSingle (BdNum 18446744073709551616 0)] =
  [x6d;x69;x6e;x2e;x2e;x2d;x31;x30;x7c;x31;x38;x34;x34;x36;x37;x34;x34;x30;x37;x33;x37;x30;x39;x35;x35;x31;x36;x31;x36].
Proof. vm_compute. reflexivity. Qed.
