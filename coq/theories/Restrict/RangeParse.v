(** Model of the range / length expression parser of meta/core.go on bytes:
      newRange        strings.Split(encoded, "|"), per part strings.Split(part, "..")
      newRangeNumber  strings.TrimSpace, then  "max" | "min" | strconv.ParseInt(s,10,64)
                      | strconv.ParseUint(s,10,64) | strconv.ParseFloat(s,64)
    Text is [list byte].  Domain notes (also in bin/props.d/C05.json):
      - TrimSpace is modelled for the ASCII white space bytes 09..0d and 20 (restriction text is
        ASCII);
      - ParseFloat is modelled on plain decimal notation  [+-]? digits [. digits] | [+-]? . digits
        and yields the exact decimal  m / 10^k ; exponent, hexadecimal, inf and nan spellings are
        outside the model (the YANG grammar has none of them). *)
From Coq Require Import ZArith List Bool Strings.Byte.
Import ListNotations.
Open Scope Z_scope.

Definition text := list byte.

Fixpoint text_eqb (a b : text) : bool :=
  match a, b with
  | [], [] => true
  | x :: a', y :: b' => Byte.eqb x y && text_eqb a' b'
  | _, _ => false
  end.

Definition b_bar : byte := x7c.   (* | *)
Definition b_dot : byte := x2e.   (* . *)
Definition b_plus : byte := x2b.
Definition b_minus : byte := x2d.

(** strings.Split(s, "|"): never empty, k separators give k+1 fields *)
Fixpoint split_bar (s acc : text) : list text :=
  match s with
  | [] => [rev acc]
  | c :: tl => if Byte.eqb c b_bar then rev acc :: split_bar tl [] else split_bar tl (c :: acc)
  end.

(** strings.Split(s, ".."): leftmost non-overlapping occurrences ("1...5" = ["1"; ".5"]) *)
Fixpoint split_dotdot (s acc : text) : list text :=
  match s with
  | [] => [rev acc]
  | c :: tl =>
      match tl with
      | c2 :: tl2 =>
          if Byte.eqb c b_dot && Byte.eqb c2 b_dot then rev acc :: split_dotdot tl2 []
          else split_dotdot tl (c :: acc)
      | [] => [rev (c :: acc)]
      end
  end.

(** strings.TrimSpace restricted to ASCII white space *)
Definition is_space (b : byte) : bool :=
  match b with x09 | x0a | x0b | x0c | x0d | x20 => true | _ => false end.
Fixpoint ltrim (s : text) : text :=
  match s with
  | c :: tl => if is_space c then ltrim tl else s
  | [] => []
  end.
Definition trim (s : text) : text := rev (ltrim (rev (ltrim s))).

Definition digit_of (b : byte) : option Z :=
  let n := Z.of_N (Byte.to_N b) in
  if (48 <=? n) && (n <=? 57) then Some (n - 48) else None.

(** value of a run of decimal digits (leading zeros allowed), [None] on any other byte *)
Fixpoint digits_val (s : text) (acc : Z) : option Z :=
  match s with
  | [] => Some acc
  | c :: tl => match digit_of c with Some d => digits_val tl (acc * 10 + d) | None => None end
  end.
Definition parse_udigits (s : text) : option Z :=
  match s with [] => None | _ => digits_val s 0 end.

Definition max_int64 : Z := 9223372036854775807.
Definition min_int64 : Z := -9223372036854775808.
Definition max_uint64 : Z := 18446744073709551615.

(** strconv.ParseUint(s, 10, 64): digits only, no sign, no underscore (base 10), <= 2^64-1 *)
Definition parse_uint (s : text) : option Z :=
  match parse_udigits s with
  | Some z => if z <=? max_uint64 then Some z else None
  | None => None
  end.

(** strconv.ParseInt(s, 10, 64): optional sign, digits, result within int64 *)
Definition parse_int (s : text) : option Z :=
  match s with
  | [] => None
  | c :: tl =>
      if Byte.eqb c b_minus then
        match parse_udigits tl with
        | Some z => if z <=? max_int64 + 1 then Some (- z) else None
        | None => None
        end
      else
        match parse_udigits (if Byte.eqb c b_plus then tl else s) with
        | Some z => if z <=? max_int64 then Some z else None
        | None => None
        end
  end.

(** digits up to the first byte that is not a digit: (value, number of digits, rest) *)
Fixpoint take_digits (s : text) (acc : Z) (n : nat) : Z * nat * text :=
  match s with
  | [] => (acc, n, [])
  | c :: tl => match digit_of c with
               | Some d => take_digits tl (acc * 10 + d) (S n)
               | None => (acc, n, s)
               end
  end.

(** strconv.ParseFloat on plain decimal notation: the exact decimal (m, k) = m / 10^k.
    At least one digit is required overall ("5." and ".5" parse, "." and "" do not). *)
Definition parse_float (s : text) : option (Z * nat) :=
  let '(neg, body) :=
    match s with
    | c :: tl => if Byte.eqb c b_minus then (true, tl) else if Byte.eqb c b_plus then (false, tl) else (false, s)
    | [] => (false, [])
    end in
  let '(ip, ni, rest) := take_digits body 0 O in
  match rest with
  | [] => if Nat.eqb ni 0 then None else Some (if neg then - ip else ip, O)
  | c :: tl =>
      if Byte.eqb c b_dot then
        let '(m, nf, rest2) := take_digits tl ip O in
        match rest2 with
        | [] => if Nat.eqb (ni + nf) 0 then None else Some (if neg then - m else m, nf)
        | _ => None
        end
      else None
  end.

(** meta/core.go RangeNumber: exactly one of isMax, isMin, integer, unsigned, float is set.
    [RInt]: ParseInt succeeded; [RUns]: only ParseUint did (so the number is above MaxInt64);
    [RFlt m k]: only ParseFloat did, the number is m / 10^k. *)
Inductive rnum :=
| RMin | RMax
| RInt (z : Z)
| RUns (z : Z)
| RFlt (m : Z) (k : nat).

Definition kw_max : text := [x6d; x61; x78].
Definition kw_min : text := [x6d; x69; x6e].

(** meta/core.go newRangeNumber *)
Definition parse_rnum (s0 : text) : option rnum :=
  let s := trim s0 in
  if text_eqb s kw_max then Some RMax
  else if text_eqb s kw_min then Some RMin
  else match parse_int s with
       | Some z => Some (RInt z)
       | None =>
           match parse_uint s with
           | Some z => Some (RUns z)
           | None =>
               match parse_float s with
               | Some (m, k) => Some (RFlt m k)
               | None => None
               end
           end
       end.

(** meta/core.go RangeEntry: either Exact, or Min and Max, are non-empty after newRange *)
Inductive rentry :=
| EExact (n : rnum)
| ERange (lo hi : rnum).

Definition parse_entry (sr : text) : option rentry :=
  match split_dotdot sr [] with
  | [a; b] =>
      match parse_rnum a with
      | Some x => match parse_rnum b with Some y => Some (ERange x y) | None => None end
      | None => None
      end
  | _ => match parse_rnum sr with Some x => Some (EExact x) | None => None end
  end.

Fixpoint traverse {A B} (f : A -> option B) (l : list A) : option (list B) :=
  match l with
  | [] => Some []
  | a :: tl => match f a with
               | Some b => match traverse f tl with Some r => Some (b :: r) | None => None end
               | None => None
               end
  end.

(** meta/core.go newRange: the first part that does not parse fails the whole expression *)
Definition parse_range (s : text) : option (list rentry) :=
  traverse parse_entry (split_bar s []).
