(** Proofs about Restrict/Model.v against Restrict/Spec.v. *)
From Coq Require Import ZArith List Bool Lia Strings.Byte.
From YV Require Import Restrict.RangeParse Restrict.Model Restrict.Spec.
Import ListNotations.
Open Scope Z_scope.

(** * 1. Restriction checking never panics (repaired code) *)

Lemma compare_no_panic : forall n v, compare_num n v <> CmpPanic.
Proof.
  intros n v. unfold compare_num.
  destruct n; cbn [is_kw]; try discriminate; destruct v; cbn; try discriminate.
  - destruct (Z.ltb_spec z 0); [discriminate|].
    destruct (Z.leb_spec 0 z); [discriminate|lia].
  - destruct (Z.ltb_spec m 0); [discriminate|].
    destruct (Z.leb_spec 0 m); [discriminate|lia].
Qed.

Lemma entry_no_panic : forall e v, entry_check e v <> ChkPanic.
Proof.
  intros e v. destruct e as [n|lo hi]; cbn.
  - pose proof (compare_no_panic n v). destruct (compare_num n v) as [c| |]; try congruence.
    destruct (c =? 0); discriminate.
  - assert (A : forall (b : bool) (n : rnum), (if b then CmpOk 0 else compare_num n v) <> CmpPanic).
    { intros b n. destruct b; [discriminate|apply compare_no_panic]. }
    pose proof (A (is_min lo) lo). pose proof (A (is_max hi) hi).
    destruct (if is_min lo then CmpOk 0 else compare_num lo v) as [c| |]; try congruence.
    destruct (0 <? c); [discriminate|].
    destruct (if is_max hi then CmpOk 0 else compare_num hi v) as [c0| |]; try congruence.
    destruct (c0 <? 0); discriminate.
Qed.

Lemma any_entry_no_panic : forall r v, any_entry entry_check r v <> ChkPanic.
Proof.
  induction r as [|e tl IH]; intros v; cbn; [discriminate|].
  pose proof (entry_no_panic e v). destruct (entry_check e v); try congruence; apply IH.
Qed.

Lemma range_no_panic : forall r v, range_check r v <> ChkPanic.
Proof. intros [|e tl] v; [discriminate|]. apply any_entry_no_panic. Qed.

Lemma all_levels_no_panic : forall rs v, all_levels rs v <> ChkPanic.
Proof.
  induction rs as [|r tl IH]; intros v; cbn; [discriminate|].
  pose proof (range_no_panic r v). destruct (range_check r v); try congruence; apply IH.
Qed.

Section WithRegex.
Variable rx : text -> text -> bool.

Lemma scalar_no_panic : forall b ct s, check_scalar rx b ct s <> ChkPanic.
Proof.
  intros b ct s. destruct b, s; cbn; try discriminate.
  - destruct (in_kind k z); [apply all_levels_no_panic|discriminate].
  - apply all_levels_no_panic.
  - destruct (pattern_check rx (c_pats ct) s); [apply all_levels_no_panic|discriminate].
  - destruct (existsb _ enums); discriminate.
  - destruct (existsb _ enums); discriminate.
  - destruct (bits_ok bits names); discriminate.
Qed.

Lemma check_all_no_panic : forall b ct l, check_all rx b ct l <> ChkPanic.
Proof.
  induction l as [|s tl IH]; cbn; [discriminate|].
  pose proof (scalar_no_panic b ct s). destruct (check_scalar rx b ct s); try congruence.
Qed.

Lemma value_no_panic : forall b il ct v, check_value rx b il ct v <> ChkPanic.
Proof.
  intros b il ct v. destruct il, v; cbn; try discriminate.
  - apply check_all_no_panic.
  - apply scalar_no_panic.
Qed.

Theorem check_no_panic : forall b il chain v, accept rx b il chain v <> Panicked.
Proof.
  intros. unfold accept. destruct (parse_chain chain); [|discriminate].
  pose proof (value_no_panic b il (compile l) v). destruct (check_value rx b il (compile l) v); congruence.
Qed.

(** * 2. A rejected (or crashed, or unloadable) write leaves the store as it was *)
Theorem reject_frame : forall b il chain st v,
  fst (set_model rx b il chain st v) <> Accepted -> snd (set_model rx b il chain st v) = st.
Proof.
  intros b il chain st v. unfold set_model. destruct (accept rx b il chain v); cbn; congruence.
Qed.

Theorem accept_stores : forall b il chain st v,
  fst (set_model rx b il chain st v) = Accepted -> snd (set_model rx b il chain st v) = Some v.
Proof.
  intros b il chain st v. unfold set_model. destruct (accept rx b il chain v); cbn; congruence.
Qed.

Theorem set_outcome_is_accept : forall b il chain st v,
  fst (set_model rx b il chain st v) = accept rx b il chain v.
Proof.
  intros b il chain st v. unfold set_model. destruct (accept rx b il chain v); reflexivity.
Qed.
End WithRegex.

(** the unrepaired comparison did panic on the keywords *)
Lemma compare_old_panics :
  entry_check_old (ERange RMin (RInt 10)) (NInt 5) = ChkPanic /\
  entry_check_old (ERange (RInt 5) RMax) (NInt 7) = ChkPanic /\
  entry_check_old (ERange (RInt (-5)) (RInt 10)) (NU64 5) = ChkPanic /\
  entry_check_old (ERange (RInt 0) (RUns 9223372036854775808)) (NInt 5) = ChkPanic.
Proof. repeat split; vm_compute; reflexivity. Qed.

(** * 3. Comparison is the exact comparison of the numbers denoted *)

Definition qv (v : num) : dec :=
  match v with NInt z => (z, O) | NU64 z => (z, O) | NDec m k => (m, k) end.
Definition rq (n : rnum) : dec :=
  match n with RInt z => (z, O) | RUns z => (z, O) | RFlt m k => (m, k) | _ => (0, O) end.

(** what newRangeNumber guarantees *)
Definition wf_rnum (n : rnum) : Prop :=
  match n with RUns z => max_int64 < z | _ => True end.
(** a value of the Go type behind the format *)
Definition wf_num (v : num) : Prop :=
  match v with
  | NInt z => min_int64 <= z <= max_int64
  | NU64 z => 0 <= z <= max_uint64
  | NDec _ _ => True
  end.
(** a bound written with a decimal point denotes an integer (RFC 7950 9.2.4: bounds are values
    of the restricted type, so this holds for every valid integer or length restriction) *)
Definition integralb (n : rnum) : bool :=
  match n with RFlt m k => Z.rem m (pow10 k) =? 0 | _ => true end.
Definition is_dec (v : num) : bool := match v with NDec _ _ => true | _ => false end.

Lemma pow10_pos k : 0 < pow10 k.
Proof. unfold pow10. apply Z.pow_pos_nonneg; lia. Qed.

Lemma cmp3_scale a b p : 0 < p -> cmp3 (a * p) (b * p) = cmp3 a b.
Proof.
  intros Hp. unfold cmp3.
  destruct (Z.ltb_spec (a * p) (b * p)), (Z.ltb_spec a b); try nia.
  destruct (Z.ltb_spec (b * p) (a * p)), (Z.ltb_spec b a); try nia. all: reflexivity.
Qed.

Lemma cmp3_le a b : cmp3 a b <= 0 <-> a <= b.
Proof. unfold cmp3. destruct (Z.ltb_spec a b), (Z.ltb_spec b a); lia. Qed.
Lemma cmp3_ge a b : 0 <= cmp3 a b <-> b <= a.
Proof. unfold cmp3. destruct (Z.ltb_spec a b), (Z.ltb_spec b a); lia. Qed.
Lemma cmp3_eq a b : cmp3 a b = 0 <-> a = b.
Proof. unfold cmp3. destruct (Z.ltb_spec a b), (Z.ltb_spec b a); lia. Qed.

Lemma integral_quot m k : Z.rem m (pow10 k) =? 0 = true -> m = Z.quot m (pow10 k) * pow10 k.
Proof.
  intros H. apply Z.eqb_eq in H. pose proof (pow10_pos k).
  apply Z.quot_exact in H; [|lia]. lia.
Qed.

Lemma compare_exact : forall n v,
  is_kw n = false -> wf_rnum n -> wf_num v -> (is_dec v = true \/ integralb n = true) ->
  compare_num n v = CmpOk (cmp_dec (fst (rq n)) (snd (rq n)) (fst (qv v)) (snd (qv v))).
Proof.
  intros n v Hk Hn Hv Hi. unfold compare_num. rewrite Hk.
  destruct n; try discriminate; destruct v; cbn in *; unfold cmp_dec;
    change (pow10 0) with 1; rewrite ?Z.mul_1_r; try reflexivity.
  - (* RInt / NU64 *)
    destruct (Z.ltb_spec z 0).
    + f_equal. unfold cmp3. destruct (Z.ltb_spec z z0); [reflexivity|lia].
    + destruct (Z.leb_spec 0 z); [reflexivity|lia].
  - (* RUns / NInt *)
    f_equal. unfold cmp3. destruct (Z.ltb_spec z z0); [lia|].
    destruct (Z.ltb_spec z0 z); [reflexivity|]. unfold max_int64 in *. lia.
  - (* RFlt / NInt *)
    destruct Hi as [Hi|Hi]; [discriminate|]. apply integral_quot in Hi.
    f_equal. rewrite Hi at 2. apply eq_sym, cmp3_scale, pow10_pos.
  - (* RFlt / NU64 *)
    destruct Hi as [Hi|Hi]; [discriminate|]. apply integral_quot in Hi.
    pose proof (pow10_pos k).
    destruct (Z.ltb_spec m 0).
    + f_equal. unfold cmp3. destruct (Z.ltb_spec m (z * pow10 k)); [reflexivity|nia].
    + destruct (Z.leb_spec 0 m); [|lia]. f_equal. rewrite Hi at 2. apply eq_sym, cmp3_scale, pow10_pos.
Qed.

(** * 4. One alternative *)

Definition wf_entry (e : rentry) : Prop :=
  match e with EExact n => wf_rnum n | ERange lo hi => wf_rnum lo /\ wf_rnum hi end.
Definition integral_entry (e : rentry) : bool :=
  match e with EExact n => integralb n | ERange lo hi => integralb lo && integralb hi end.
(** the min / max keywords stand only where the repaired code reads them: "min" as lower bound,
    "max" as upper bound *)
Definition placed (e : rentry) : bool :=
  match e with
  | EExact n => negb (is_kw n)
  | ERange lo hi => negb (is_max lo) && negb (is_min hi)
  end.

Lemma den_num n : is_kw n = false -> den n = BdNum (fst (rq n)) (snd (rq n)).
Proof. destruct n; cbn; congruence. Qed.

Lemma cmp_dec_le m1 k1 m2 k2 : cmp_dec m1 k1 m2 k2 <= 0 <-> le_dec (m1, k1) (m2, k2).
Proof. unfold cmp_dec, le_dec. cbn. apply cmp3_le. Qed.
Lemma cmp_dec_ge m1 k1 m2 k2 : 0 <= cmp_dec m1 k1 m2 k2 <-> le_dec (m2, k2) (m1, k1).
Proof. unfold cmp_dec, le_dec. cbn. apply cmp3_ge. Qed.

Lemma qv_eta v : qv v = (fst (qv v), snd (qv v)).
Proof. destruct (qv v); reflexivity. Qed.

Lemma compare_kw n v : is_kw n = true -> compare_num n v = CmpErr.
Proof. intros H. unfold compare_num. rewrite H. reflexivity. Qed.

Definition lo_spec (tmax v : dec) (b : bound) : Prop :=
  match b with BdMin => True | BdNum m k => le_dec (m, k) v | BdMax => le_dec tmax v end.
Definition hi_spec (tmin v : dec) (b : bound) : Prop :=
  match b with BdMax => True | BdNum m k => le_dec v (m, k) | BdMin => le_dec v tmin end.

Lemma lo_sound tmax lo v c :
  wf_rnum lo -> wf_num v -> (is_dec v = true \/ integralb lo = true) ->
  (if is_min lo then CmpOk 0 else compare_num lo v) = CmpOk c -> c <= 0 ->
  lo_spec tmax (fst (qv v), snd (qv v)) (den lo).
Proof.
  intros W Wv Hi H Hc. destruct (is_kw lo) eqn:Hk.
  - destruct lo; try discriminate; exact I.
  - assert (is_min lo = false) as Hm by (destruct lo; try reflexivity; discriminate).
    rewrite Hm, (compare_exact lo v Hk W Wv Hi) in H. inversion H; subst c.
    rewrite (den_num lo Hk). cbn. apply cmp_dec_le. exact Hc.
Qed.

Lemma hi_sound tmin hi v c :
  wf_rnum hi -> wf_num v -> (is_dec v = true \/ integralb hi = true) ->
  (if is_max hi then CmpOk 0 else compare_num hi v) = CmpOk c -> 0 <= c ->
  hi_spec tmin (fst (qv v), snd (qv v)) (den hi).
Proof.
  intros W Wv Hi H Hc. destruct (is_kw hi) eqn:Hk.
  - destruct hi; try discriminate; exact I.
  - assert (is_max hi = false) as Hm by (destruct hi; try reflexivity; discriminate).
    rewrite Hm, (compare_exact hi v Hk W Wv Hi) in H. inversion H; subst c.
    rewrite (den_num hi Hk). cbn. apply cmp_dec_ge. exact Hc.
Qed.

Lemma lo_complete tmax lo v :
  wf_rnum lo -> wf_num v -> (is_dec v = true \/ integralb lo = true) -> is_max lo = false ->
  lo_spec tmax (fst (qv v), snd (qv v)) (den lo) ->
  exists c, (if is_min lo then CmpOk 0 else compare_num lo v) = CmpOk c /\ c <= 0.
Proof.
  intros W Wv Hi Hp H. destruct (is_kw lo) eqn:Hk.
  - destruct lo; try discriminate. exists 0. split; [reflexivity|lia].
  - assert (is_min lo = false) as Hm by (destruct lo; try reflexivity; discriminate).
    rewrite Hm, (compare_exact lo v Hk W Wv Hi). eexists. split; [reflexivity|].
    rewrite (den_num lo Hk) in H. cbn in H. apply cmp_dec_le. exact H.
Qed.

Lemma hi_complete tmin hi v :
  wf_rnum hi -> wf_num v -> (is_dec v = true \/ integralb hi = true) -> is_min hi = false ->
  hi_spec tmin (fst (qv v), snd (qv v)) (den hi) ->
  exists c, (if is_max hi then CmpOk 0 else compare_num hi v) = CmpOk c /\ 0 <= c.
Proof.
  intros W Wv Hi Hp H. destruct (is_kw hi) eqn:Hk.
  - destruct hi; try discriminate. exists 0. split; [reflexivity|lia].
  - assert (is_max hi = false) as Hm by (destruct hi; try reflexivity; discriminate).
    rewrite Hm, (compare_exact hi v Hk W Wv Hi). eexists. split; [reflexivity|].
    rewrite (den_num hi Hk) in H. cbn in H. apply cmp_dec_ge. exact H.
Qed.

Lemma split_integral v lo hi :
  (is_dec v = true \/ integralb lo && integralb hi = true) ->
  (is_dec v = true \/ integralb lo = true) /\ (is_dec v = true \/ integralb hi = true).
Proof. intros [H|H]; [tauto|]. apply andb_true_iff in H. tauto. Qed.

Lemma entry_sound : forall tmin tmax e v,
  wf_entry e -> wf_num v -> (is_dec v = true \/ integral_entry e = true) ->
  entry_check e v = Pass -> in_alt tmin tmax (qv v) (den_entry e).
Proof.
  intros tmin tmax e v We Wv Hi H. rewrite (qv_eta v). destruct e as [n|lo hi].
  - cbn [entry_check wf_entry integral_entry den_entry] in *.
    destruct (is_kw n) eqn:Hk.
    { rewrite compare_kw in H by exact Hk. discriminate. }
    rewrite (compare_exact n v Hk We Wv Hi) in H.
    destruct (Z.eqb_spec (cmp_dec (fst (rq n)) (snd (rq n)) (fst (qv v)) (snd (qv v))) 0) as [E|E]; [|discriminate].
    unfold in_alt. cbn [a_lo a_hi]. rewrite (den_num n Hk). split.
    + apply cmp_dec_le. lia.
    + apply cmp_dec_ge. lia.
  - cbn [entry_check wf_entry integral_entry den_entry] in *.
    destruct We as [Wlo Whi]. destruct (split_integral _ _ _ Hi) as [Hilo Hihi].
    destruct (if is_min lo then CmpOk 0 else compare_num lo v) as [c| |] eqn:E1; try discriminate.
    destruct (Z.ltb_spec 0 c); [discriminate|].
    destruct (if is_max hi then CmpOk 0 else compare_num hi v) as [c'| |] eqn:E2; try discriminate.
    destruct (Z.ltb_spec c' 0); [discriminate|].
    split.
    + apply (lo_sound tmax lo v c); assumption.
    + apply (hi_sound tmin hi v c'); assumption.
Qed.

Lemma entry_complete : forall tmin tmax e v,
  wf_entry e -> wf_num v -> (is_dec v = true \/ integral_entry e = true) -> placed e = true ->
  in_alt tmin tmax (qv v) (den_entry e) -> entry_check e v = Pass.
Proof.
  intros tmin tmax e v We Wv Hi Hp H. rewrite (qv_eta v) in H. destruct e as [n|lo hi].
  - cbn [entry_check wf_entry integral_entry den_entry placed] in *.
    apply negb_true_iff in Hp.
    rewrite (compare_exact n v Hp We Wv Hi).
    unfold in_alt in H. cbn [a_lo a_hi] in H. rewrite (den_num n Hp) in H. destruct H as [H1 H2].
    apply cmp_dec_le in H1. apply cmp_dec_ge in H2.
    destruct (Z.eqb_spec (cmp_dec (fst (rq n)) (snd (rq n)) (fst (qv v)) (snd (qv v))) 0); [reflexivity|lia].
  - cbn [entry_check wf_entry integral_entry den_entry placed] in *.
    destruct We as [Wlo Whi]. apply andb_true_iff in Hp. destruct Hp as [Pl Ph].
    apply negb_true_iff in Pl. apply negb_true_iff in Ph.
    destruct (split_integral _ _ _ Hi) as [Hilo Hihi].
    destruct H as [H1 H2]. cbn [a_lo a_hi] in H1, H2.
    destruct (lo_complete tmax lo v Wlo Wv Hilo Pl H1) as [c [Ec Hc]]. rewrite Ec.
    destruct (Z.ltb_spec 0 c); [lia|].
    destruct (hi_complete tmin hi v Whi Wv Hihi Ph H2) as [c' [Ec' Hc']]. rewrite Ec'.
    destruct (Z.ltb_spec c' 0); [lia|reflexivity].
Qed.
