(** Proofs about Restrict/Model.v against Restrict/Spec.v. *)
From Coq Require Import ZArith List Bool Lia Strings.Byte.
From YV Require Import Restrict.RangeParse Restrict.Model Restrict.Spec.
Import ListNotations.
Open Scope Z_scope.

(** * 1. Restriction checking never panics (repaired code) *)

Lemma compare_no_panic : forall n v, compare_num n v <> CmpPanic.
Proof.
  intros n v. unfold compare_num.
  destruct n; cbn [is_kw]; try discriminate; destruct v; cbn; try discriminate.
  - destruct (Z.ltb_spec z 0); [discriminate|].
    destruct (Z.leb_spec 0 z); [discriminate|lia].
  - destruct (Z.ltb_spec m 0); [discriminate|].
    destruct (Z.leb_spec 0 m); [discriminate|lia].
Qed.

Lemma entry_no_panic : forall e v, entry_check e v <> ChkPanic.
Proof.
  intros e v. destruct e as [n|lo hi]; cbn.
  - pose proof (compare_no_panic n v). destruct (compare_num n v) as [c| |]; try congruence.
    destruct (c =? 0); discriminate.
  - assert (A : forall (b : bool) (n : rnum), (if b then CmpOk 0 else compare_num n v) <> CmpPanic).
    { intros b n. destruct b; [discriminate|apply compare_no_panic]. }
    pose proof (A (is_min lo) lo). pose proof (A (is_max hi) hi).
    destruct (if is_min lo then CmpOk 0 else compare_num lo v) as [c| |]; try congruence.
    destruct (0 <? c); [discriminate|].
    destruct (if is_max hi then CmpOk 0 else compare_num hi v) as [c0| |]; try congruence.
    destruct (c0 <? 0); discriminate.
Qed.

Lemma any_entry_no_panic : forall r v, any_entry entry_check r v <> ChkPanic.
Proof.
  induction r as [|e tl IH]; intros v; cbn; [discriminate|].
  pose proof (entry_no_panic e v). destruct (entry_check e v); try congruence; apply IH.
Qed.

Lemma range_no_panic : forall r v, range_check r v <> ChkPanic.
Proof. intros [|e tl] v; [discriminate|]. apply any_entry_no_panic. Qed.

Lemma all_levels_no_panic : forall rs v, all_levels rs v <> ChkPanic.
Proof.
  induction rs as [|r tl IH]; intros v; cbn; [discriminate|].
  pose proof (range_no_panic r v). destruct (range_check r v); try congruence; apply IH.
Qed.

Section WithRegex.
Variable rx : text -> text -> bool.

Lemma scalar_no_panic : forall b ct s, check_scalar rx b ct s <> ChkPanic.
Proof.
  intros b ct s. destruct b, s; cbn; try discriminate.
  - destruct (in_kind k z); [apply all_levels_no_panic|discriminate].
  - apply all_levels_no_panic.
  - destruct (pattern_check rx (c_pats ct) s); [apply all_levels_no_panic|discriminate].
  - destruct (existsb _ enums); discriminate.
  - destruct (existsb _ enums); discriminate.
  - destruct (bits_ok bits names); discriminate.
Qed.

Lemma check_all_no_panic : forall b ct l, check_all rx b ct l <> ChkPanic.
Proof.
  induction l as [|s tl IH]; cbn; [discriminate|].
  pose proof (scalar_no_panic b ct s). destruct (check_scalar rx b ct s); try congruence.
Qed.

Lemma value_no_panic : forall b il ct v, check_value rx b il ct v <> ChkPanic.
Proof.
  intros b il ct v. destruct il, v; cbn; try discriminate.
  - apply check_all_no_panic.
  - apply scalar_no_panic.
Qed.

Theorem check_no_panic : forall b il chain v, accept rx b il chain v <> Panicked.
Proof.
  intros. unfold accept. destruct (parse_chain chain); [|discriminate].
  pose proof (value_no_panic b il (compile l) v). destruct (check_value rx b il (compile l) v); congruence.
Qed.

(** * 2. A rejected (or crashed, or unloadable) write leaves the store as it was *)
Theorem reject_frame : forall b il chain st v,
  fst (set_model rx b il chain st v) <> Accepted -> snd (set_model rx b il chain st v) = st.
Proof.
  intros b il chain st v. unfold set_model. destruct (accept rx b il chain v); cbn; congruence.
Qed.

Theorem accept_stores : forall b il chain st v,
  fst (set_model rx b il chain st v) = Accepted -> snd (set_model rx b il chain st v) = Some v.
Proof.
  intros b il chain st v. unfold set_model. destruct (accept rx b il chain v); cbn; congruence.
Qed.

Theorem set_outcome_is_accept : forall b il chain st v,
  fst (set_model rx b il chain st v) = accept rx b il chain v.
Proof.
  intros b il chain st v. unfold set_model. destruct (accept rx b il chain v); reflexivity.
Qed.
End WithRegex.

(** the unrepaired comparison did panic on the keywords *)
Lemma compare_old_panics :
  entry_check_old (ERange RMin (RInt 10)) (NInt 5) = ChkPanic /\
  entry_check_old (ERange (RInt 5) RMax) (NInt 7) = ChkPanic /\
  entry_check_old (ERange (RInt (-5)) (RInt 10)) (NU64 5) = ChkPanic /\
  entry_check_old (ERange (RInt 0) (RUns 9223372036854775808)) (NInt 5) = ChkPanic.
Proof. repeat split; vm_compute; reflexivity. Qed.

(** * 3. Comparison is the exact comparison of the numbers denoted *)

Definition qv (v : num) : dec :=
  match v with NInt z => (z, O) | NU64 z => (z, O) | NDec m k => (m, k) end.
Definition rq (n : rnum) : dec :=
  match n with RInt z => (z, O) | RUns z => (z, O) | RFlt m k => (m, k) | _ => (0, O) end.

(** what newRangeNumber guarantees *)
Definition wf_rnum (n : rnum) : Prop :=
  match n with RUns z => max_int64 < z | _ => True end.
(** a value of the Go type behind the format *)
Definition wf_num (v : num) : Prop :=
  match v with
  | NInt z => min_int64 <= z <= max_int64
  | NU64 z => 0 <= z <= max_uint64
  | NDec _ _ => True
  end.
(** a bound written with a decimal point denotes an integer (RFC 7950 9.2.4: bounds are values
    of the restricted type, so this holds for every valid integer or length restriction) *)
Definition integralb (n : rnum) : bool :=
  match n with RFlt m k => Z.rem m (pow10 k) =? 0 | _ => true end.
Definition is_dec (v : num) : bool := match v with NDec _ _ => true | _ => false end.

Lemma pow10_pos k : 0 < pow10 k.
Proof. unfold pow10. apply Z.pow_pos_nonneg; lia. Qed.

Lemma cmp3_scale a b p : 0 < p -> cmp3 (a * p) (b * p) = cmp3 a b.
Proof.
  intros Hp. unfold cmp3.
  destruct (Z.ltb_spec (a * p) (b * p)), (Z.ltb_spec a b); try nia.
  destruct (Z.ltb_spec (b * p) (a * p)), (Z.ltb_spec b a); try nia. all: reflexivity.
Qed.

Lemma cmp3_le a b : cmp3 a b <= 0 <-> a <= b.
Proof. unfold cmp3. destruct (Z.ltb_spec a b), (Z.ltb_spec b a); lia. Qed.
Lemma cmp3_ge a b : 0 <= cmp3 a b <-> b <= a.
Proof. unfold cmp3. destruct (Z.ltb_spec a b), (Z.ltb_spec b a); lia. Qed.
Lemma cmp3_eq a b : cmp3 a b = 0 <-> a = b.
Proof. unfold cmp3. destruct (Z.ltb_spec a b), (Z.ltb_spec b a); lia. Qed.

Lemma integral_quot m k : Z.rem m (pow10 k) =? 0 = true -> m = Z.quot m (pow10 k) * pow10 k.
Proof.
  intros H. apply Z.eqb_eq in H. pose proof (pow10_pos k).
  apply Z.quot_exact in H; [|lia]. lia.
Qed.

Lemma compare_exact : forall n v,
  is_kw n = false -> wf_rnum n -> wf_num v -> (is_dec v = true \/ integralb n = true) ->
  compare_num n v = CmpOk (cmp_dec (fst (rq n)) (snd (rq n)) (fst (qv v)) (snd (qv v))).
Proof.
  intros n v Hk Hn Hv Hi. unfold compare_num. rewrite Hk.
  destruct n; try discriminate; destruct v; cbn in *; unfold cmp_dec;
    change (pow10 0) with 1; rewrite ?Z.mul_1_r; try reflexivity.
  - (* RInt / NU64 *)
    destruct (Z.ltb_spec z 0).
    + f_equal. unfold cmp3. destruct (Z.ltb_spec z z0); [reflexivity|lia].
    + destruct (Z.leb_spec 0 z); [reflexivity|lia].
  - (* RUns / NInt *)
    f_equal. unfold cmp3. destruct (Z.ltb_spec z z0); [lia|].
    destruct (Z.ltb_spec z0 z); [reflexivity|]. unfold max_int64 in *. lia.
  - (* RFlt / NInt *)
    destruct Hi as [Hi|Hi]; [discriminate|]. apply integral_quot in Hi.
    f_equal. rewrite Hi at 2. apply eq_sym, cmp3_scale, pow10_pos.
  - (* RFlt / NU64 *)
    destruct Hi as [Hi|Hi]; [discriminate|]. apply integral_quot in Hi.
    pose proof (pow10_pos k).
    destruct (Z.ltb_spec m 0).
    + f_equal. unfold cmp3. destruct (Z.ltb_spec m (z * pow10 k)); [reflexivity|nia].
    + destruct (Z.leb_spec 0 m); [|lia]. f_equal. rewrite Hi at 2. apply eq_sym, cmp3_scale, pow10_pos.
Qed.

(** * 4. One alternative *)

Definition wf_entry (e : rentry) : Prop :=
  match e with EExact n => wf_rnum n | ERange lo hi => wf_rnum lo /\ wf_rnum hi end.
Definition integral_entry (e : rentry) : bool :=
  match e with EExact n => integralb n | ERange lo hi => integralb lo && integralb hi end.
(** the min / max keywords stand only where the repaired code reads them: "min" as lower bound,
    "max" as upper bound *)
Definition placed (e : rentry) : bool :=
  match e with
  | EExact n => negb (is_kw n)
  | ERange lo hi => negb (is_max lo) && negb (is_min hi)
  end.

Lemma den_num n : is_kw n = false -> den n = BdNum (fst (rq n)) (snd (rq n)).
Proof. destruct n; cbn; congruence. Qed.

Lemma cmp_dec_le m1 k1 m2 k2 : cmp_dec m1 k1 m2 k2 <= 0 <-> le_dec (m1, k1) (m2, k2).
Proof. unfold cmp_dec, le_dec. cbn. apply cmp3_le. Qed.
Lemma cmp_dec_ge m1 k1 m2 k2 : 0 <= cmp_dec m1 k1 m2 k2 <-> le_dec (m2, k2) (m1, k1).
Proof. unfold cmp_dec, le_dec. cbn. apply cmp3_ge. Qed.

Lemma qv_eta v : qv v = (fst (qv v), snd (qv v)).
Proof. destruct (qv v); reflexivity. Qed.

Lemma compare_kw n v : is_kw n = true -> compare_num n v = CmpErr.
Proof. intros H. unfold compare_num. rewrite H. reflexivity. Qed.

Definition lo_spec (tmax v : dec) (b : bound) : Prop :=
  match b with BdMin => True | BdNum m k => le_dec (m, k) v | BdMax => le_dec tmax v end.
Definition hi_spec (tmin v : dec) (b : bound) : Prop :=
  match b with BdMax => True | BdNum m k => le_dec v (m, k) | BdMin => le_dec v tmin end.

Lemma lo_sound tmax lo v c :
  wf_rnum lo -> wf_num v -> (is_dec v = true \/ integralb lo = true) ->
  (if is_min lo then CmpOk 0 else compare_num lo v) = CmpOk c -> c <= 0 ->
  lo_spec tmax (fst (qv v), snd (qv v)) (den lo).
Proof.
  intros W Wv Hi H Hc. destruct (is_kw lo) eqn:Hk.
  - destruct lo; try discriminate; exact I.
  - assert (is_min lo = false) as Hm by (destruct lo; try reflexivity; discriminate).
    rewrite Hm, (compare_exact lo v Hk W Wv Hi) in H. inversion H; subst c.
    rewrite (den_num lo Hk). cbn. apply cmp_dec_le. exact Hc.
Qed.

Lemma hi_sound tmin hi v c :
  wf_rnum hi -> wf_num v -> (is_dec v = true \/ integralb hi = true) ->
  (if is_max hi then CmpOk 0 else compare_num hi v) = CmpOk c -> 0 <= c ->
  hi_spec tmin (fst (qv v), snd (qv v)) (den hi).
Proof.
  intros W Wv Hi H Hc. destruct (is_kw hi) eqn:Hk.
  - destruct hi; try discriminate; exact I.
  - assert (is_max hi = false) as Hm by (destruct hi; try reflexivity; discriminate).
    rewrite Hm, (compare_exact hi v Hk W Wv Hi) in H. inversion H; subst c.
    rewrite (den_num hi Hk). cbn. apply cmp_dec_ge. exact Hc.
Qed.

Lemma lo_complete tmax lo v :
  wf_rnum lo -> wf_num v -> (is_dec v = true \/ integralb lo = true) -> is_max lo = false ->
  lo_spec tmax (fst (qv v), snd (qv v)) (den lo) ->
  exists c, (if is_min lo then CmpOk 0 else compare_num lo v) = CmpOk c /\ c <= 0.
Proof.
  intros W Wv Hi Hp H. destruct (is_kw lo) eqn:Hk.
  - destruct lo; try discriminate. exists 0. split; [reflexivity|lia].
  - assert (is_min lo = false) as Hm by (destruct lo; try reflexivity; discriminate).
    rewrite Hm, (compare_exact lo v Hk W Wv Hi). eexists. split; [reflexivity|].
    rewrite (den_num lo Hk) in H. cbn in H. apply cmp_dec_le. exact H.
Qed.

Lemma hi_complete tmin hi v :
  wf_rnum hi -> wf_num v -> (is_dec v = true \/ integralb hi = true) -> is_min hi = false ->
  hi_spec tmin (fst (qv v), snd (qv v)) (den hi) ->
  exists c, (if is_max hi then CmpOk 0 else compare_num hi v) = CmpOk c /\ 0 <= c.
Proof.
  intros W Wv Hi Hp H. destruct (is_kw hi) eqn:Hk.
  - destruct hi; try discriminate. exists 0. split; [reflexivity|lia].
  - assert (is_max hi = false) as Hm by (destruct hi; try reflexivity; discriminate).
    rewrite Hm, (compare_exact hi v Hk W Wv Hi). eexists. split; [reflexivity|].
    rewrite (den_num hi Hk) in H. cbn in H. apply cmp_dec_ge. exact H.
Qed.

Lemma split_integral v lo hi :
  (is_dec v = true \/ integralb lo && integralb hi = true) ->
  (is_dec v = true \/ integralb lo = true) /\ (is_dec v = true \/ integralb hi = true).
Proof. intros [H|H]; [tauto|]. apply andb_true_iff in H. tauto. Qed.

Lemma entry_sound : forall tmin tmax e v,
  wf_entry e -> wf_num v -> (is_dec v = true \/ integral_entry e = true) ->
  entry_check e v = Pass -> in_alt tmin tmax (qv v) (den_entry e).
Proof.
  intros tmin tmax e v We Wv Hi H. rewrite (qv_eta v). destruct e as [n|lo hi].
  - cbn [entry_check wf_entry integral_entry den_entry] in *.
    destruct (is_kw n) eqn:Hk.
    { rewrite compare_kw in H by exact Hk. discriminate. }
    rewrite (compare_exact n v Hk We Wv Hi) in H.
    destruct (Z.eqb_spec (cmp_dec (fst (rq n)) (snd (rq n)) (fst (qv v)) (snd (qv v))) 0) as [E|E]; [|discriminate].
    unfold in_alt. cbn [a_lo a_hi]. rewrite (den_num n Hk). split.
    + apply cmp_dec_le. lia.
    + apply cmp_dec_ge. lia.
  - cbn [entry_check wf_entry integral_entry den_entry] in *.
    destruct We as [Wlo Whi]. destruct (split_integral _ _ _ Hi) as [Hilo Hihi].
    destruct (if is_min lo then CmpOk 0 else compare_num lo v) as [c| |] eqn:E1; try discriminate.
    destruct (Z.ltb_spec 0 c); [discriminate|].
    destruct (if is_max hi then CmpOk 0 else compare_num hi v) as [c'| |] eqn:E2; try discriminate.
    destruct (Z.ltb_spec c' 0); [discriminate|].
    split.
    + apply (lo_sound tmax lo v c); assumption.
    + apply (hi_sound tmin hi v c'); assumption.
Qed.

Lemma entry_complete : forall tmin tmax e v,
  wf_entry e -> wf_num v -> (is_dec v = true \/ integral_entry e = true) -> placed e = true ->
  in_alt tmin tmax (qv v) (den_entry e) -> entry_check e v = Pass.
Proof.
  intros tmin tmax e v We Wv Hi Hp H. rewrite (qv_eta v) in H. destruct e as [n|lo hi].
  - cbn [entry_check wf_entry integral_entry den_entry placed] in *.
    apply negb_true_iff in Hp.
    rewrite (compare_exact n v Hp We Wv Hi).
    unfold in_alt in H. cbn [a_lo a_hi] in H. rewrite (den_num n Hp) in H. destruct H as [H1 H2].
    apply cmp_dec_le in H1. apply cmp_dec_ge in H2.
    destruct (Z.eqb_spec (cmp_dec (fst (rq n)) (snd (rq n)) (fst (qv v)) (snd (qv v))) 0); [reflexivity|lia].
  - cbn [entry_check wf_entry integral_entry den_entry placed] in *.
    destruct We as [Wlo Whi]. apply andb_true_iff in Hp. destruct Hp as [Pl Ph].
    apply negb_true_iff in Pl. apply negb_true_iff in Ph.
    destruct (split_integral _ _ _ Hi) as [Hilo Hihi].
    destruct H as [H1 H2]. cbn [a_lo a_hi] in H1, H2.
    destruct (lo_complete tmax lo v Wlo Wv Hilo Pl H1) as [c [Ec Hc]]. rewrite Ec.
    destruct (Z.ltb_spec 0 c); [lia|].
    destruct (hi_complete tmin hi v Whi Wv Hihi Ph H2) as [c' [Ec' Hc']]. rewrite Ec'.
    destruct (Z.ltb_spec c' 0); [lia|reflexivity].
Qed.

(** * 5. One range / length statement, and all levels *)

Definition wf_range (r : list rentry) : Prop := r <> [] /\ Forall wf_entry r.

Lemma any_entry_pass r v :
  any_entry entry_check r v = Pass <-> exists e, In e r /\ entry_check e v = Pass.
Proof.
  induction r as [|a tl IH]; cbn.
  - split; [discriminate|]. intros [e [[] _]].
  - pose proof (entry_no_panic a v) as NP. destruct (entry_check a v) eqn:E.
    + split; [intros _; exists a; auto|reflexivity].
    + rewrite IH. split; intros [e [Hin He]].
      * exists e; auto.
      * destruct Hin as [->|Hin]; [congruence|exists e; auto].
    + congruence.
Qed.

Lemma range_sound tmin tmax r v :
  wf_range r -> wf_num v -> (is_dec v = true \/ forallb integral_entry r = true) ->
  range_check r v = Pass -> in_restr tmin tmax (qv v) (Some (map den_entry r)).
Proof.
  intros [Hne Hwf] Wv Hi H. destruct r as [|e0 tl]; [congruence|].
  unfold range_check in H. apply any_entry_pass in H. destruct H as [e [Hin He]].
  cbn [in_restr]. exists (den_entry e). split; [apply in_map; exact Hin|].
  apply entry_sound; auto.
  - rewrite Forall_forall in Hwf. auto.
  - destruct Hi as [Hi|Hi]; [auto|right]. rewrite forallb_forall in Hi. auto.
Qed.

Lemma range_complete tmin tmax r v :
  wf_range r -> wf_num v -> (is_dec v = true \/ forallb integral_entry r = true) ->
  forallb placed r = true ->
  in_restr tmin tmax (qv v) (Some (map den_entry r)) -> range_check r v = Pass.
Proof.
  intros [Hne Hwf] Wv Hi Hp H. destruct r as [|e0 tl]; [congruence|].
  unfold range_check. apply any_entry_pass. cbn [in_restr] in H. destruct H as [a [Hin Ha]].
  apply in_map_iff in Hin. destruct Hin as [e [<- Hin]]. exists e. split; [exact Hin|].
  apply (entry_complete tmin tmax); auto.
  - rewrite Forall_forall in Hwf. auto.
  - destruct Hi as [Hi|Hi]; [auto|right]. rewrite forallb_forall in Hi. auto.
  - rewrite forallb_forall in Hp. auto.
Qed.

Lemma all_levels_iff rs v :
  all_levels rs v = Pass <-> Forall (fun r => range_check r v = Pass) rs.
Proof.
  induction rs as [|r tl IH]; cbn.
  - split; auto.
  - rewrite Forall_cons_iff, <- IH. destruct (range_check r v); split; try tauto; try discriminate.
    all: intros [? ?]; discriminate.
Qed.

(** the Range objects a selector (range or length) contributes along the chain, leaf first *)
Definition restrs_of (sel : plevel -> option (list rentry)) (pc : list plevel) : list (list rentry) :=
  flat_map (fun l => match sel l with Some r => [r] | None => [] end) pc.

Lemma compile_ranges pc : c_ranges (compile pc) = restrs_of pl_range pc.
Proof.
  induction pc as [|l tl IH]; [reflexivity|]. cbn. rewrite IH. reflexivity.
Qed.
Lemma compile_lengths pc : c_lengths (compile pc) = restrs_of pl_length pc.
Proof.
  induction pc as [|l tl IH]; [reflexivity|]. cbn. rewrite IH. reflexivity.
Qed.
Lemma compile_pats pc :
  c_pats (compile pc) = match pc with
                        | [] => []
                        | l :: tl => match pl_pats l with [] => c_pats (compile tl) | ps => ps end
                        end.
Proof. destruct pc as [|l tl]; [reflexivity|]. cbn. destruct (pl_pats l); reflexivity. Qed.

Definition sel_wf (sel : plevel -> option (list rentry)) (pc : list plevel) : Prop :=
  Forall (fun l => forall r, sel l = Some r -> wf_range r) pc.
Definition sel_all (f : rentry -> bool) (sel : plevel -> option (list rentry)) (pc : list plevel) : bool :=
  forallb (fun l => match sel l with Some r => forallb f r | None => true end) pc.

Lemma levels_sound tmin tmax sel pc v :
  sel_wf sel pc -> wf_num v -> (is_dec v = true \/ sel_all integral_entry sel pc = true) ->
  all_levels (restrs_of sel pc) v = Pass ->
  Forall (fun l => in_restr tmin tmax (qv v) (option_map (map den_entry) (sel l))) pc.
Proof.
  intros Hwf Wv Hi H. apply all_levels_iff in H.
  induction pc as [|l tl IH]; [constructor|].
  inversion Hwf as [|? ? Hl Htl]; subst.
  assert (Hi' : (is_dec v = true \/ match sel l with Some r => forallb integral_entry r | None => true end = true)
                /\ (is_dec v = true \/ sel_all integral_entry sel tl = true)).
  { destruct Hi as [Hi|Hi]; [tauto|]. cbn in Hi. apply andb_true_iff in Hi. tauto. }
  destruct Hi' as [Hi1 Hi2].
  unfold restrs_of in H. cbn [flat_map] in H. apply Forall_app in H. destruct H as [H1 H2].
  constructor; [|apply IH; assumption].
  destruct (sel l) as [r|] eqn:E; [|exact I].
  cbn [option_map]. inversion H1; subst. apply range_sound; auto.
Qed.

Lemma levels_complete tmin tmax sel pc v :
  sel_wf sel pc -> wf_num v -> (is_dec v = true \/ sel_all integral_entry sel pc = true) ->
  sel_all placed sel pc = true ->
  Forall (fun l => in_restr tmin tmax (qv v) (option_map (map den_entry) (sel l))) pc ->
  all_levels (restrs_of sel pc) v = Pass.
Proof.
  intros Hwf Wv Hi Hp H. apply all_levels_iff.
  induction pc as [|l tl IH]; [constructor|].
  inversion Hwf as [|? ? Hl Htl]; subst. inversion H as [|? ? Hl2 Htl2]; subst.
  assert (Hi' : (is_dec v = true \/ match sel l with Some r => forallb integral_entry r | None => true end = true)
                /\ (is_dec v = true \/ sel_all integral_entry sel tl = true)).
  { destruct Hi as [Hi|Hi]; [tauto|]. cbn in Hi. apply andb_true_iff in Hi. tauto. }
  destruct Hi' as [Hi1 Hi2]. cbn in Hp. apply andb_true_iff in Hp. destruct Hp as [Hp1 Hp2].
  unfold restrs_of. cbn [flat_map]. apply Forall_app. split; [|apply IH; assumption].
  destruct (sel l) as [r|] eqn:E; [|constructor].
  constructor; [|constructor]. cbn [option_map] in Hl2. apply (range_complete tmin tmax); auto.
Qed.

(** * 6. Text equality, membership *)
Lemma text_eqb_eq a b : text_eqb a b = true <-> a = b.
Proof.
  revert b. induction a as [|x a IH]; destruct b as [|y b]; cbn; split; try discriminate; auto.
  - intros H. apply andb_true_iff in H. destruct H as [H1 H2].
    apply byte_dec_bl in H1. apply IH in H2. congruence.
  - intros H. inversion H; subst. apply andb_true_iff. split; [apply byte_dec_lb; reflexivity|apply IH; reflexivity].
Qed.

Lemma mem_text_in s l : mem_text s l = true <-> In s l.
Proof.
  induction l as [|x tl IH]; cbn; [split; [discriminate|tauto]|].
  rewrite orb_true_iff, text_eqb_eq, IH. split; intros [H|H]; auto.
Qed.

(** * 7. Characters: counting non-continuation bytes is counting decoded characters *)
Lemma all_cont_skip n s : all_cont n s = true -> rune_count s = rune_count (skipn n s).
Proof.
  revert s. induction n as [|n IH]; intros s H; [reflexivity|].
  destruct s as [|c tl]; [discriminate|]. cbn in H. apply andb_true_iff in H. destruct H as [Hc Ht].
  cbn [skipn rune_count]. rewrite Hc. rewrite (IH tl Ht). lia.
Qed.

Lemma skipn_length_le {A} n (l : list A) : (length (skipn n l) <= length l)%nat.
Proof. rewrite skipn_length. lia. Qed.

Lemma chars_fuel_runes fuel s :
  (length s <= fuel)%nat -> utf8_fuel fuel s = true -> chars_fuel fuel s = rune_count s.
Proof.
  revert s. induction fuel as [|f IH]; intros s Hl H.
  - destruct s; [reflexivity|cbn in Hl; lia].
  - destruct s as [|c tl]; [reflexivity|]. cbn [utf8_fuel] in H.
    apply andb_true_iff in H. destruct H as [H H3]. apply andb_true_iff in H. destruct H as [H1 H2].
    cbn [chars_fuel rune_count]. apply negb_true_iff in H1. rewrite H1.
    rewrite IH; [rewrite <- (all_cont_skip _ _ H2); reflexivity| |exact H3].
    cbn in Hl. pose proof (skipn_length_le (lead_len c) tl). lia.
Qed.

Lemma char_count_runes s : utf8_ok s = true -> char_count s = rune_count s.
Proof. intros H. unfold char_count. apply chars_fuel_runes; [lia|exact H]. Qed.

(** * 8. What newRange guarantees about its output *)

Lemma traverse_Forall {A B} (f : A -> option B) (P : B -> Prop) :
  (forall a b, f a = Some b -> P b) -> forall l r, traverse f l = Some r -> Forall P r.
Proof.
  intros Hf. induction l as [|a tl IH]; intros r H; cbn in H.
  - inversion H. constructor.
  - destruct (f a) eqn:E; [|discriminate]. destruct (traverse f tl) eqn:E2; [|discriminate].
    inversion H; subst. constructor; eauto.
Qed.

Lemma traverse_nonempty {A B} (f : A -> option B) l r :
  l <> [] -> traverse f l = Some r -> r <> [].
Proof.
  destruct l as [|a tl]; [congruence|]. intros _ H. cbn in H.
  destruct (f a); [|discriminate]. destruct (traverse f tl); [|discriminate].
  inversion H. discriminate.
Qed.

Lemma split_bar_nonempty s acc : split_bar s acc <> [].
Proof.
  revert acc. induction s as [|c tl IH]; intros acc; cbn; [discriminate|].
  destruct (Byte.eqb c b_bar); [discriminate|apply IH].
Qed.

Lemma parse_rnum_wf s n : parse_rnum s = Some n -> wf_rnum n.
Proof.
  unfold parse_rnum. generalize (trim s) as t. intros t.
  destruct (text_eqb t kw_max); [intros H; inversion H; exact I|].
  destruct (text_eqb t kw_min); [intros H; inversion H; exact I|].
  destruct (parse_int t) eqn:Ei; [intros H; inversion H; exact I|].
  destruct (parse_uint t) eqn:Eu.
  - intros H; inversion H; subst; cbn. clear H.
    unfold parse_uint in Eu. destruct (parse_udigits t) as [z0|] eqn:Ed; [|discriminate].
    destruct (z0 <=? max_uint64); inversion Eu; subst. clear Eu.
    unfold parse_int in Ei. destruct t as [|c tl]; [discriminate Ed|].
    assert (Hd : digit_of c <> None).
    { cbn in Ed. destruct (digit_of c); congruence. }
    destruct (Byte.eqb c b_minus) eqn:Em.
    { apply byte_dec_bl in Em; subst. exfalso; apply Hd; reflexivity. }
    destruct (Byte.eqb c b_plus) eqn:Ep.
    { apply byte_dec_bl in Ep; subst. exfalso; apply Hd; reflexivity. }
    rewrite Ed in Ei. destruct (Z.leb_spec z max_int64); [discriminate|lia].
  - destruct (parse_float t) as [[m k]|]; intros H; inversion H; exact I.
Qed.

Lemma parse_entry_wf s e : parse_entry s = Some e -> wf_entry e.
Proof.
  unfold parse_entry. intros H.
  assert (A : match parse_rnum s with Some x => Some (EExact x) | None => None end = Some e -> wf_entry e).
  { intros H0. destruct (parse_rnum s) eqn:E; inversion H0; subst. cbn. eapply parse_rnum_wf; eauto. }
  destruct (split_dotdot s []) as [|a [|b [|c l]]]; try (apply A; exact H).
  destruct (parse_rnum a) eqn:Ea; [|discriminate]. destruct (parse_rnum b) eqn:Eb; [|discriminate].
  inversion H; subst. cbn. split; eapply parse_rnum_wf; eauto.
Qed.

Lemma parse_range_wf s r : parse_range s = Some r -> wf_range r.
Proof.
  unfold parse_range. intros H. split.
  - eapply traverse_nonempty; [apply split_bar_nonempty|exact H].
  - eapply traverse_Forall; [|exact H]. intros a b. apply parse_entry_wf.
Qed.

Definition wf_chain (pc : list plevel) : Prop := sel_wf pl_range pc /\ sel_wf pl_length pc.

Lemma parse_chain_wf chain pc : parse_chain chain = Some pc -> wf_chain pc.
Proof.
  unfold parse_chain. intros H.
  assert (A : Forall (fun l => (forall r, pl_range l = Some r -> wf_range r) /\
                               (forall r, pl_length l = Some r -> wf_range r)) pc).
  { eapply traverse_Forall; [|exact H]. intros a b Hb. unfold parse_level in Hb.
    unfold parse_opt in Hb.
    destruct (tl_range a) as [tr|] eqn:Er.
    - destruct (parse_range tr) eqn:Epr; [|discriminate].
      destruct (tl_length a) as [tln|] eqn:El.
      + destruct (parse_range tln) eqn:Epl; [|discriminate]. inversion Hb; subst; cbn.
        split; intros r Hr; inversion Hr; subst; eapply parse_range_wf; eauto.
      + inversion Hb; subst; cbn. split; intros r Hr; inversion Hr; subst. eapply parse_range_wf; eauto.
    - destruct (tl_length a) as [tln|] eqn:El.
      + destruct (parse_range tln) eqn:Epl; [|discriminate]. inversion Hb; subst; cbn.
        split; intros r Hr; inversion Hr; subst. eapply parse_range_wf; eauto.
      + inversion Hb; subst; cbn. split; intros r Hr; inversion Hr. }
  apply Forall_and_inv in A. exact A.
Qed.

(** * 9. The whole check against the effective type *)

(** at most one pattern along the whole chain: the region outside the two pattern findings *)
Definition pats_simple (pc : list plevel) : Prop := (length (flat_map pl_pats pc) <= 1)%nat.
(** every bound of an integer or length restriction denotes an integer *)
Definition integral_chain (b : base) (pc : list plevel) : bool :=
  match b with
  | BNum _ => sel_all integral_entry pl_range pc
  | BStr => sel_all integral_entry pl_length pc
  | _ => true
  end.
Definition placed_chain (pc : list plevel) : bool :=
  sel_all placed pl_range pc && sel_all placed pl_length pc.
(** a string is well-formed UTF-8 and short enough for Go's val.Int32(length) to be exact *)
Definition wf_sval (s : sval) : Prop :=
  match s with SStr t => utf8_ok t = true /\ rune_count t <= 2147483647 | _ => True end.
Definition wf_value (v : value) : Prop :=
  match v with VOne s => wf_sval s | VMany l => Forall wf_sval l end.

Lemma compile_pats_simple pc : pats_simple pc -> c_pats (compile pc) = flat_map pl_pats pc.
Proof.
  unfold pats_simple. induction pc as [|l tl IH]; intros H; [reflexivity|].
  rewrite compile_pats. cbn [flat_map] in *. rewrite app_length in H.
  destruct (pl_pats l) as [|p ps] eqn:E.
  - cbn. apply IH. cbn in H. lia.
  - cbn in H. assert (length ps = 0%nat /\ length (flat_map pl_pats tl) = 0%nat) as [H1 H2] by lia.
    apply length_zero_iff_nil in H1. apply length_zero_iff_nil in H2. rewrite H1, H2. reflexivity.
Qed.

Lemma rune_count_nonneg s : 0 <= rune_count s.
Proof. induction s as [|c tl IH]; cbn; [lia|]. destruct (is_cont c); lia. Qed.

Lemma in_kind_wf k z : in_kind k z = true ->
  kind_min k <= z <= kind_max k /\ wf_num (match k with U64 => NU64 z | _ => NInt z end).
Proof.
  unfold in_kind. intros H. apply andb_true_iff in H. destruct H as [H1 H2].
  apply Z.leb_le in H1. apply Z.leb_le in H2. split; [lia|].
  destruct k; cbn in *; unfold min_int64, max_int64, max_uint64 in *; lia.
Qed.

Lemma qv_kind k z : qv (match k with U64 => NU64 z | _ => NInt z end) = (z, O).
Proof. destruct k; reflexivity. Qed.
Lemma is_dec_kind k z : is_dec (match k with U64 => NU64 z | _ => NInt z end) = false.
Proof. destruct k; reflexivity. Qed.

Lemma Forall_den_level (P : option (list alt) -> Prop) sel sel' pc :
  (forall l, sel' (den_level l) = option_map (map den_entry) (sel l)) ->
  Forall (fun l => P (option_map (map den_entry) (sel l))) pc <->
  Forall (fun l => P (sel' l)) (map den_level pc).
Proof.
  intros E. rewrite Forall_map. split; apply Forall_impl; intros l; rewrite E; auto.
Qed.

Section WithRegex2.
Variable rx : text -> text -> bool.

Lemma pat_ok_holds t p : pat_ok rx t p = true <-> pat_holds rx t p.
Proof.
  unfold pat_ok, pat_holds. destruct (rx (fst p) t), (snd p); cbn; split; congruence.
Qed.

Lemma scalar_sound b pc s :
  wf_chain pc -> integral_chain b pc = true -> pats_simple pc -> wf_sval s ->
  check_scalar rx b (compile pc) s = Pass -> in_scalar rx b (map den_level pc) s.
Proof.
  intros [Wr Wl] Hi Hp Ws H. destruct b, s; cbn in H; try discriminate.
  - (* integer *)
    destruct (in_kind k z) eqn:Ek; [|discriminate]. apply in_kind_wf in Ek. destruct Ek as [Hz Wv].
    cbn. split; [exact Hz|]. rewrite compile_ranges in H.
    apply (Forall_den_level (in_restr (kind_min k, O) (kind_max k, O) (z, O)) pl_range sl_range); [reflexivity|].
    rewrite <- (qv_kind k z). apply levels_sound; auto.
  - (* decimal64 *)
    cbn. rewrite compile_ranges in H.
    apply (Forall_den_level (in_restr (dec_min fd) (dec_max fd) (m, k)) pl_range sl_range); [reflexivity|].
    change (m, k) with (qv (NDec m k)). apply levels_sound; cbn; auto.
  - (* string *)
    destruct (pattern_check rx (c_pats (compile pc)) s) eqn:Epat; [|discriminate].
    destruct Ws as [Wu Wn]. cbn. rewrite Forall_map. rewrite compile_lengths in H.
    assert (Hlen : Forall (fun l => in_restr len_min len_max (char_count s, O)
                                      (option_map (map den_entry) (pl_length l))) pc).
    { rewrite (char_count_runes s Wu). change (rune_count s, O) with (qv (NInt (rune_count s))).
      apply levels_sound; auto. cbn. pose proof (rune_count_nonneg s). unfold min_int64, max_int64. lia. }
    assert (Hpat : Forall (pat_holds rx s) (flat_map pl_pats pc)).
    { rewrite compile_pats_simple in Epat by exact Hp. unfold pattern_check in Epat.
      destruct (flat_map pl_pats pc) as [|p ps] eqn:E; [constructor|].
      unfold pats_simple in Hp. rewrite E in Hp. cbn in Hp.
      assert (ps = []) by (apply length_zero_iff_nil; lia). subst ps.
      cbn in Epat. rewrite orb_false_r in Epat. constructor; [apply pat_ok_holds; exact Epat|constructor]. }
    rewrite Forall_forall in Hlen, Hpat. apply Forall_forall. intros l Hl. split.
    + apply Hlen. exact Hl.
    + cbn. apply Forall_forall. intros p Hpin. apply Hpat. apply in_flat_map. exists l. auto.
  - (* enum by name *)
    destruct (existsb _ enums) eqn:E; [|discriminate]. apply existsb_exists in E.
    destruct E as [e [Hin He]]. apply text_eqb_eq in He. cbn. exists e. auto.
  - (* enum by value *)
    destruct (existsb _ enums) eqn:E; [|discriminate]. apply existsb_exists in E.
    destruct E as [e [Hin He]]. apply Z.eqb_eq in He. cbn. exists e. auto.
  - (* bits *)
    destruct (bits_ok bits names) eqn:E; [|discriminate]. cbn. intros n Hn Hne.
    unfold bits_ok in E. rewrite forallb_forall in E. specialize (E n Hn).
    destruct n; [congruence|]. apply mem_text_in. exact E.
Qed.

Lemma scalar_complete b pc s :
  wf_chain pc -> integral_chain b pc = true -> pats_simple pc -> placed_chain pc = true -> wf_sval s ->
  in_scalar rx b (map den_level pc) s -> check_scalar rx b (compile pc) s = Pass.
Proof.
  intros [Wr Wl] Hi Hp Hpl Ws H. unfold placed_chain in Hpl. apply andb_true_iff in Hpl.
  destruct Hpl as [Plr Pll]. destruct b, s; cbn in H; try contradiction; cbn.
  - destruct H as [Hz H].
    assert (Ek : in_kind k z = true).
    { unfold in_kind. apply andb_true_iff. split; apply Z.leb_le; lia. }
    rewrite Ek. apply in_kind_wf in Ek. destruct Ek as [_ Wv]. rewrite compile_ranges.
    apply (Forall_den_level (in_restr (kind_min k, O) (kind_max k, O) (z, O)) pl_range sl_range) in H; [|reflexivity].
    rewrite <- (qv_kind k z) in H. eapply levels_complete; eauto.
  - rewrite compile_ranges.
    apply (Forall_den_level (in_restr (dec_min fd) (dec_max fd) (m, k)) pl_range sl_range) in H; [|reflexivity].
    change (m, k) with (qv (NDec m k)) in H. eapply levels_complete; eauto; cbn; auto.
  - destruct Ws as [Wu Wn]. rewrite Forall_map in H. apply Forall_and_inv in H. destruct H as [Hlen Hpat].
    assert (Epat : pattern_check rx (c_pats (compile pc)) s = true).
    { rewrite compile_pats_simple by exact Hp. unfold pattern_check.
      destruct (flat_map pl_pats pc) as [|p ps] eqn:E; [reflexivity|].
      cbn. apply orb_true_iff. left. apply pat_ok_holds.
      assert (Hin : In p (flat_map pl_pats pc)) by (rewrite E; left; reflexivity).
      apply in_flat_map in Hin. destruct Hin as [l [Hl Hpl]].
      rewrite Forall_forall in Hpat. specialize (Hpat l Hl). cbn in Hpat.
      rewrite Forall_forall in Hpat. auto. }
    rewrite Epat. rewrite compile_lengths.
    rewrite (char_count_runes s Wu) in Hlen. change (rune_count s, O) with (qv (NInt (rune_count s))) in Hlen.
    eapply levels_complete; eauto. cbn. pose proof (rune_count_nonneg s). unfold min_int64, max_int64. lia.
  - destruct H as [e [Hin He]].
    replace (existsb (fun e0 => text_eqb s (fst e0)) enums) with true; [reflexivity|].
    symmetry. apply existsb_exists. exists e. split; [exact Hin|]. apply text_eqb_eq. auto.
  - destruct H as [e [Hin He]].
    replace (existsb (fun e0 => z =? snd e0) enums) with true; [reflexivity|].
    symmetry. apply existsb_exists. exists e. split; [exact Hin|]. apply Z.eqb_eq. auto.
  - replace (bits_ok bits names) with true; [reflexivity|]. symmetry.
    unfold bits_ok. apply forallb_forall. intros n Hn. destruct n as [|c n']; [reflexivity|].
    apply mem_text_in. apply H; [exact Hn|discriminate].
Qed.

Lemma check_all_iff b ct l :
  check_all rx b ct l = Pass <-> Forall (fun s => check_scalar rx b ct s = Pass) l.
Proof.
  induction l as [|s tl IH]; cbn; [split; auto|].
  rewrite Forall_cons_iff, <- IH. destruct (check_scalar rx b ct s); split; try tauto; try discriminate.
  all: intros [? ?]; discriminate.
Qed.

Theorem accept_sound : forall b il chain pc v,
  parse_chain chain = Some pc -> integral_chain b pc = true -> pats_simple pc -> wf_value v ->
  accept rx b il chain v = Accepted ->
  in_effective_type rx b il (map den_level pc) v.
Proof.
  intros b il chain pc v Hparse Hi Hp Wv H. unfold accept in H. rewrite Hparse in H.
  pose proof (parse_chain_wf _ _ Hparse) as Wc.
  destruct (check_value rx b il (compile pc) v) eqn:E; try discriminate. clear H.
  destruct il, v; cbn in *; try discriminate.
  - apply check_all_iff in E. rewrite Forall_forall in *. intros s Hs.
    apply scalar_sound; auto.
  - apply scalar_sound; auto.
Qed.

Theorem accept_complete : forall b il chain pc v,
  parse_chain chain = Some pc -> integral_chain b pc = true -> pats_simple pc ->
  placed_chain pc = true -> wf_value v ->
  in_effective_type rx b il (map den_level pc) v ->
  accept rx b il chain v = Accepted.
Proof.
  intros b il chain pc v Hparse Hi Hp Hpl Wv H. unfold accept. rewrite Hparse.
  pose proof (parse_chain_wf _ _ Hparse) as Wc.
  assert (E : check_value rx b il (compile pc) v = Pass).
  { destruct il, v; cbn in *; try contradiction.
    - apply check_all_iff. rewrite Forall_forall in *. intros s Hs. apply scalar_complete; auto.
    - apply scalar_complete; auto. }
  rewrite E. reflexivity.
Qed.

(** the module loads exactly when every restriction expression parses *)
Theorem load_iff_parses : forall b il chain v,
  accept rx b il chain v = LoadErr <-> parse_chain chain = None.
Proof.
  intros. unfold accept. destruct (parse_chain chain).
  - destruct (check_value rx b il (compile l) v); split; discriminate.
  - split; reflexivity.
Qed.
End WithRegex2.

(** * 10. The executable spec oracle decides the spec *)
Lemma le_decb_iff a b : le_decb a b = true <-> le_dec a b.
Proof. unfold le_decb, le_dec. apply Z.leb_le. Qed.

Lemma in_altb_iff tmin tmax v a : in_altb tmin tmax v a = true <-> in_alt tmin tmax v a.
Proof.
  unfold in_altb, in_alt. rewrite andb_true_iff.
  destruct (a_lo a), (a_hi a); rewrite ?le_decb_iff; intuition.
Qed.

Lemma in_restrb_iff tmin tmax v o : in_restrb tmin tmax v o = true <-> in_restr tmin tmax v o.
Proof.
  destruct o as [alts|]; cbn; [|tauto]. rewrite existsb_exists.
  split; intros [a [Hin Ha]]; exists a; (split; [exact Hin|]); apply in_altb_iff; exact Ha.
Qed.

Lemma forallb_Forall {A} (f : A -> bool) (P : A -> Prop) l :
  (forall x, f x = true <-> P x) -> forallb f l = true <-> Forall P l.
Proof.
  intros H. rewrite forallb_forall, Forall_forall. split; intros G x Hx; apply H; auto.
Qed.

Section WithRegex3.
Variable rx : text -> text -> bool.

Lemma pat_holdsb_iff t p : pat_holdsb rx t p = true <-> pat_holds rx t p.
Proof. unfold pat_holdsb, pat_holds. apply eqb_true_iff. Qed.

Lemma in_scalarb_iff b levels s : in_scalarb rx b levels s = true <-> in_scalar rx b levels s.
Proof.
  destruct b, s; cbn; try (split; [discriminate|contradiction]).
  - rewrite !andb_true_iff, !Z.leb_le.
    rewrite (forallb_Forall _ (fun l => in_restr (kind_min k, 0%nat) (kind_max k, 0%nat) (z, 0%nat) (sl_range l)));
      [tauto|]. intros l. apply in_restrb_iff.
  - apply forallb_Forall. intros l. apply in_restrb_iff.
  - apply forallb_Forall. intros l. rewrite andb_true_iff, in_restrb_iff.
    rewrite (forallb_Forall _ (pat_holds rx s)); [tauto|]. intros p. apply pat_holdsb_iff.
  - rewrite existsb_exists. split; intros [e [Hin He]]; exists e; (split; [exact Hin|]); apply text_eqb_eq; auto.
  - rewrite existsb_exists. split; intros [e [Hin He]]; exists e; (split; [exact Hin|]); apply Z.eqb_eq; auto.
  - rewrite forallb_forall. split.
    + intros H n Hn Hne. specialize (H n Hn). destruct n; [congruence|].
      apply existsb_exists in H. destruct H as [d [Hd He]]. apply text_eqb_eq in He. subst. exact Hd.
    + intros H n Hn. destruct n as [|c n']; [reflexivity|]. apply existsb_exists.
      exists (c :: n'). split; [apply H; [exact Hn|discriminate]|apply text_eqb_eq; reflexivity].
Qed.

Theorem in_effective_typeb_iff b il levels v :
  in_effective_typeb rx b il levels v = true <-> in_effective_type rx b il levels v.
Proof.
  destruct il, v; cbn; try (split; [discriminate|contradiction]).
  - apply forallb_Forall. intros s. apply in_scalarb_iff.
  - apply in_scalarb_iff.
Qed.
End WithRegex3.

(** * 11. The code before the repairs violated the property (kept as refutations) *)

(** levels OR-ed: typedef 0..100 narrowed to 1..10 accepted 50 *)
Lemma or_levels_old_accepts :
  check_range_old [[ERange (RInt 1) (RInt 10)]; [ERange (RInt 0) (RInt 100)]] (NInt 50) = Pass /\
  all_levels [[ERange (RInt 1) (RInt 10)]; [ERange (RInt 0) (RInt 100)]] (NInt 50) = Fail.
Proof. split; vm_compute; reflexivity. Qed.

(** * 12. Selection.Set with an already typed value *)
Definition membership_base (b : base) : bool :=
  match b with BEnum _ | BBits _ => true | _ => false end.

Section WithRegex4.
Variable rx : text -> text -> bool.

Lemma typed_scalar_same b ct s :
  membership_base b = false -> check_scalar_typed rx b ct s = check_scalar rx b ct s.
Proof. destruct b; cbn; try discriminate; reflexivity. Qed.

Lemma typed_all_same b ct l :
  membership_base b = false -> check_all_typed rx b ct l = check_all rx b ct l.
Proof.
  intros H. induction l as [|s tl IH]; [reflexivity|]. cbn. rewrite typed_scalar_same by exact H.
  rewrite IH. reflexivity.
Qed.

(** for the numeric and string types (whose whole check lives in the pre-constraints) Set with a
    typed value decides exactly like the converting write paths *)
Theorem typed_same : forall b il chain v,
  membership_base b = false -> accept_typed rx b il chain v = accept rx b il chain v.
Proof.
  intros b il chain v H. unfold accept_typed, accept. destruct (parse_chain chain) as [pc|]; [|reflexivity].
  assert (E : check_value_typed rx b il (compile pc) v = check_value rx b il (compile pc) v).
  { destruct il, v; cbn; try reflexivity; [apply typed_all_same|apply typed_scalar_same]; exact H. }
  rewrite E. reflexivity.
Qed.

Theorem typed_no_panic : forall b il chain v, accept_typed rx b il chain v <> Panicked.
Proof.
  intros b il chain v. destruct (membership_base b) eqn:E.
  - unfold accept_typed. destruct (parse_chain chain) as [pc|]; [|discriminate].
    assert (A : forall s, check_scalar_typed rx b (compile pc) s <> ChkPanic).
    { intros s. destruct b; try discriminate; destruct s; cbn; try discriminate. }
    assert (B : forall l, check_all_typed rx b (compile pc) l <> ChkPanic).
    { induction l as [|s tl IH]; cbn; [discriminate|].
      pose proof (A s). destruct (check_scalar_typed rx b (compile pc) s); congruence. }
    destruct il, v; cbn; try discriminate.
    + pose proof (B l). destruct (check_all_typed rx b (compile pc) l); congruence.
    + pose proof (A s). destruct (check_scalar_typed rx b (compile pc) s); congruence.
  - rewrite typed_same by exact E. apply check_no_panic.
Qed.

Theorem typed_frame : forall b il chain st v,
  fst (set_typed_model rx b il chain st v) <> Accepted -> snd (set_typed_model rx b il chain st v) = st.
Proof.
  intros b il chain st v. unfold set_typed_model. destruct (accept_typed rx b il chain v); cbn; congruence.
Qed.
End WithRegex4.

(** * 13. Unions of integer types *)
Lemma in_unionb_iff ms z : in_unionb ms z = true <-> in_union ms z.
Proof.
  unfold in_unionb, in_union. rewrite existsb_exists. split; intros [m [Hin H]]; exists m; (split; [exact Hin|]).
  - rewrite !andb_true_iff, !Z.leb_le, in_restrb_iff in H. tauto.
  - rewrite !andb_true_iff, !Z.leb_le, in_restrb_iff. tauto.
Qed.

(** without member restrictions the conversion IS the membership test *)
Lemma union_unrestricted ms z :
  union_accept (map (fun k => (k, None)) ms) z = Accepted <-> in_union (map (fun k => (k, None)) ms) z.
Proof.
  unfold union_accept.
  assert (L : union_loads (map (fun k => (k, @None text)) ms) = true).
  { unfold union_loads. apply forallb_forall. intros m Hm. apply in_map_iff in Hm.
    destruct Hm as [k [<- _]]. reflexivity. }
  rewrite L. rewrite <- in_unionb_iff. unfold in_unionb.
  assert (E : existsb (fun m : ikind * option text => in_kind (fst m) z) (map (fun k => (k, None)) ms) =
              existsb (fun m : ikind * option (list alt) =>
                         (kind_min (fst m) <=? z) && (z <=? kind_max (fst m)) &&
                         in_restrb (kind_min (fst m), 0%nat) (kind_max (fst m), 0%nat) (z, 0%nat) (snd m))
                      (map (fun k => (k, None)) ms)).
  { clear L. induction ms as [|k tl IH]; [reflexivity|]. cbn [map existsb fst snd in_restrb]. rewrite IH. unfold in_kind. rewrite andb_true_r. reflexivity. }
  rewrite <- E. destruct (existsb _ _); split; congruence.
Qed.

Lemma union_no_panic ms z : union_accept ms z <> Panicked.
Proof. unfold union_accept. destruct (union_loads ms); [destruct (existsb _ ms)|]; discriminate. Qed.
