(** The effective type of a leaf, written from the property text and RFC 7950 (9.2.4 range,
    9.4.4 length, 9.4.5/9.4.6 pattern + invert-match, 9.6 enumeration, 9.7 bits) without reference
    to the control structure of the code:
      a number is inside SOME alternative of the range of EVERY level of the typedef chain;
      the length IN CHARACTERS of a string likewise for the length statements;
      ALL patterns of EVERY level match (a pattern with invert-match must not match);
      an enum is a declared name or a declared value; bits are declared names only;
      every entry of a leaf-list on its own.
    Restrictions are abstract syntax here (bounds are exact decimals or the min/max keywords);
    [den_*] maps what the model's parser produced into this syntax. *)
From Coq Require Import ZArith List Bool Strings.Byte.
From YV Require Import Restrict.RangeParse Restrict.Model.
Import ListNotations.
Open Scope Z_scope.

Inductive bound := BdMin | BdMax | BdNum (m : Z) (k : nat).   (* m / 10^k *)
Record alt := mkAlt { a_lo : bound; a_hi : bound }.            (* "x" alone is x..x *)
Record slevel := mkS { sl_range : option (list alt); sl_length : option (list alt);
                       sl_pats : list (text * bool) }.

Definition dec := (Z * nat)%type.
Definition le_dec (a b : dec) : Prop := fst a * pow10 (snd b) <= fst b * pow10 (snd a).
Definition le_decb (a b : dec) : bool := fst a * pow10 (snd b) <=? fst b * pow10 (snd a).

(** [tmin], [tmax]: the extremes of the built-in type, which is what the keywords denote on the
    level that restricts the built-in type directly.  On a derived level "min" as lower bound and
    "max" as upper bound constrain nothing beyond what the base levels already require (every
    level is required separately), so this reading is exact for them on every level; a keyword in
    any other position is read exactly only on the innermost restricting level. *)
Definition in_alt (tmin tmax v : dec) (a : alt) : Prop :=
  match a_lo a with BdMin => True | BdNum m k => le_dec (m, k) v | BdMax => le_dec tmax v end /\
  match a_hi a with BdMax => True | BdNum m k => le_dec v (m, k) | BdMin => le_dec v tmin end.
Definition in_altb (tmin tmax v : dec) (a : alt) : bool :=
  match a_lo a with BdMin => true | BdNum m k => le_decb (m, k) v | BdMax => le_decb tmax v end &&
  match a_hi a with BdMax => true | BdNum m k => le_decb v (m, k) | BdMin => le_decb v tmin end.

Definition in_restr (tmin tmax v : dec) (o : option (list alt)) : Prop :=
  match o with None => True | Some alts => exists a, In a alts /\ in_alt tmin tmax v a end.
Definition in_restrb (tmin tmax v : dec) (o : option (list alt)) : bool :=
  match o with None => true | Some alts => existsb (in_altb tmin tmax v) alts end.

(** number of characters of a UTF-8 text, by decoding: the lead byte tells how many continuation
    bytes belong to the character (ill-formed input: a stray continuation byte, or a lead byte
    with too few followers, counts as one character per lead-or-stray byte consumed here; the
    theorems are stated for well-formed UTF-8) *)
Definition lead_len (b : byte) : nat :=
  let n := Z.of_N (Byte.to_N b) in
  if n <? 128 then 0%nat else if n <? 192 then 0%nat else if n <? 224 then 1%nat
  else if n <? 240 then 2%nat else 3%nat.
Fixpoint chars_fuel (fuel : nat) (s : text) : Z :=
  match fuel with
  | O => 0
  | S f => match s with
           | [] => 0
           | c :: tl => 1 + chars_fuel f (skipn (lead_len c) tl)
           end
  end.
Definition char_count (s : text) : Z := chars_fuel (length s) s.

(** well-formedness of UTF-8 as far as counting needs it: every lead byte is followed by exactly
    its continuation bytes *)
Fixpoint all_cont (n : nat) (s : text) : bool :=
  match n with
  | O => true
  | S n' => match s with c :: tl => is_cont c && all_cont n' tl | [] => false end
  end.
Fixpoint utf8_fuel (fuel : nat) (s : text) : bool :=
  match fuel with
  | O => match s with [] => true | _ => false end
  | S f => match s with
           | [] => true
           | c :: tl => negb (is_cont c) && all_cont (lead_len c) tl && utf8_fuel f (skipn (lead_len c) tl)
           end
  end.
Definition utf8_ok (s : text) : bool := utf8_fuel (length s) s.

Definition dec_min (fd : nat) : dec := (min_int64, fd).
Definition dec_max (fd : nat) : dec := (max_int64, fd).
Definition len_min : dec := (0, O).
Definition len_max : dec := (max_uint64, O).

Section WithRegex.
Variable rx : text -> text -> bool.

(** the pattern matches, or, with invert-match, does not *)
Definition pat_holds (s : text) (p : text * bool) : Prop := rx (fst p) s = negb (snd p).
Definition pat_holdsb (s : text) (p : text * bool) : bool := Bool.eqb (rx (fst p) s) (negb (snd p)).

Definition in_scalar (b : base) (levels : list slevel) (s : sval) : Prop :=
  match b, s with
  | BNum k, SNum z =>
      kind_min k <= z <= kind_max k /\
      Forall (fun l => in_restr (kind_min k, O) (kind_max k, O) (z, O) (sl_range l)) levels
  | BDec fd, SDec m k =>
      Forall (fun l => in_restr (dec_min fd) (dec_max fd) (m, k) (sl_range l)) levels
  | BStr, SStr t =>
      Forall (fun l => in_restr len_min len_max (char_count t, O) (sl_length l) /\
                       Forall (pat_holds t) (sl_pats l)) levels
  | BEnum es, SEnumName n => exists e, In e es /\ fst e = n
  | BEnum es, SEnumVal z => exists e, In e es /\ snd e = z
  | BBits ds, SBits ns => forall n, In n ns -> n <> [] -> In n ds
  | _, _ => False
  end.

Definition in_scalarb (b : base) (levels : list slevel) (s : sval) : bool :=
  match b, s with
  | BNum k, SNum z =>
      (kind_min k <=? z) && (z <=? kind_max k) &&
      forallb (fun l => in_restrb (kind_min k, O) (kind_max k, O) (z, O) (sl_range l)) levels
  | BDec fd, SDec m k =>
      forallb (fun l => in_restrb (dec_min fd) (dec_max fd) (m, k) (sl_range l)) levels
  | BStr, SStr t =>
      forallb (fun l => in_restrb len_min len_max (char_count t, O) (sl_length l) &&
                        forallb (pat_holdsb t) (sl_pats l)) levels
  | BEnum es, SEnumName n => existsb (fun e => text_eqb (fst e) n) es
  | BEnum es, SEnumVal z => existsb (fun e => snd e =? z) es
  | BBits ds, SBits ns => forallb (fun n => match n with [] => true | _ => existsb (text_eqb n) ds end) ns
  | _, _ => false
  end.

(** the effective type of the leaf (is_list = false) or leaf-list (true) *)
Definition in_effective_type (b : base) (is_list : bool) (levels : list slevel) (v : value) : Prop :=
  match is_list, v with
  | false, VOne s => in_scalar b levels s
  | true, VMany l => Forall (in_scalar b levels) l
  | _, _ => False
  end.
Definition in_effective_typeb (b : base) (is_list : bool) (levels : list slevel) (v : value) : bool :=
  match is_list, v with
  | false, VOne s => in_scalarb b levels s
  | true, VMany l => forallb (in_scalarb b levels) l
  | _, _ => false
  end.

End WithRegex.

(** ** From the parser's output to the abstract syntax *)
Definition den (n : rnum) : bound :=
  match n with
  | RMin => BdMin | RMax => BdMax
  | RInt z => BdNum z O | RUns z => BdNum z O
  | RFlt m k => BdNum m k
  end.
Definition den_entry (e : rentry) : alt :=
  match e with EExact n => mkAlt (den n) (den n) | ERange lo hi => mkAlt (den lo) (den hi) end.
Definition den_level (l : plevel) : slevel :=
  mkS (option_map (map den_entry) (pl_range l)) (option_map (map den_entry) (pl_length l)) (pl_pats l).

(** same restriction up to the spelling of numbers (5 = 5.0 = 05) *)
Definition bound_eqv (a b : bound) : bool :=
  match a, b with
  | BdMin, BdMin | BdMax, BdMax => true
  | BdNum m k, BdNum m' k' => m * pow10 k' =? m' * pow10 k
  | _, _ => false
  end.
Definition alt_eqv (a b : alt) : bool := bound_eqv (a_lo a) (a_lo b) && bound_eqv (a_hi a) (a_hi b).
Fixpoint list_eqv {A} (f : A -> A -> bool) (a b : list A) : bool :=
  match a, b with
  | [], [] => true
  | x :: a', y :: b' => f x y && list_eqv f a' b'
  | _, _ => false
  end.
Definition opt_eqv {A} (f : A -> A -> bool) (a b : option A) : bool :=
  match a, b with None, None => true | Some x, Some y => f x y | _, _ => false end.
Definition pat_eqb (a b : text * bool) : bool := text_eqb (fst a) (fst b) && Bool.eqb (snd a) (snd b).
Definition slevel_eqv (a b : slevel) : bool :=
  opt_eqv (list_eqv alt_eqv) (sl_range a) (sl_range b) &&
  opt_eqv (list_eqv alt_eqv) (sl_length a) (sl_length b) &&
  list_eqv pat_eqb (sl_pats a) (sl_pats b).

(** a number is in a union of restricted integer types when it is in the effective type of some member *)
Definition in_union (ms : list (ikind * option (list alt))) (z : Z) : Prop :=
  exists m, In m ms /\ kind_min (fst m) <= z <= kind_max (fst m) /\
            in_restr (kind_min (fst m), O) (kind_max (fst m), O) (z, O) (snd m).
Definition in_unionb (ms : list (ikind * option (list alt))) (z : Z) : bool :=
  existsb (fun m => (kind_min (fst m) <=? z) && (z <=? kind_max (fst m)) &&
                    in_restrb (kind_min (fst m), O) (kind_max (fst m), O) (z, O) (snd m)) ms.
