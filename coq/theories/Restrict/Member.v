(** Executable model of the types whose membership is established while the written value is
    CONVERTED (node/value.go NewValue), not by the pre-constraints:
      enumeration   toEnum / toEnumList, with the enums a restricting typedef level keeps
                    (meta/core.go Type.mixin "a restricted enumeration keeps the values assigned in
                    the base type", meta/compile.go compileType)
      bits          toBits / toBitsList (string form), restricted the same way
      identityref   toIdentRef / toIdentRefList over meta.FindIdentity (meta/core.go) and the
                    derived-identity links built by meta/compile.go compiler.identity
    on a leaf or a leaf-list, and of the three kinds of write path:
      converting    UpsertFrom / UpdateFrom / InsertFrom (JSON, XML, reflect node), SetValue(native)
      Set           Selection.Set(val.Value): no conversion, hence no membership test (finding 6)
      SetValue(val.Value)  node/selection.go SetValue handed a value that already is a val.Value of
                    the leaf's format: NewValue converts it AGAIN (toEnum reads the label through
                    val.Conv(FmtString, v), toIdentRef through fmt.Sprintf("%v", v); toBits,
                    toBitsList and toIdentRefList have no case for the library's own value types).
    The code modelled is the code after the two "fix:" commits of this round (KNOWN_FINDINGS.txt):
    toIdentRef searches the identities DERIVED from the base (the base itself was accepted), and
    toEnumList wraps a single value only when toEnum accepted it (the test was inverted).
    The spec ([in_member]) is written from the property text and RFC 7950 9.6, 9.7, 9.10. *)
From Coq Require Import ZArith List Bool Strings.Byte.
From YV Require Import Restrict.RangeParse Restrict.Model.
Import ListNotations.
Open Scope Z_scope.

(** ** Identities: "identity n { base b1; base b2; }" as (n, [b1; b2]) *)
Definition idecl := (text * list text)%type.

(** compiler.identity: "identity.derived = append(identity.derived, y)" for every base of y *)
Definition derived_direct (ids : list idecl) (b : text) : list text :=
  map fst (filter (fun d => mem_text b (snd d)) ids).

Inductive fres := Found | NotFound | OutOfFuel.

(** meta.FindIdentity(candidates, target): depth first through the derived links; the recursion
    follows pointers, so the model takes fuel and reports running out of it as its own outcome *)
Fixpoint find_identity (fuel : nat) (ids : list idecl) (cands : list text) (x : text) : fres :=
  match fuel with
  | O => OutOfFuel
  | S f =>
      (fix go (cs : list text) : fres :=
         match cs with
         | [] => NotFound
         | c :: tl =>
             if text_eqb c x then Found
             else match find_identity f ids (derived_direct ids c) x with
                  | Found => Found
                  | OutOfFuel => OutOfFuel
                  | NotFound => go tl
                  end
         end) cands
  end.

(** toIdentRef (repaired): for every base of the type, FindIdentity(base.DerivedDirect(), x) *)
Fixpoint ident_lookup (fuel : nat) (ids : list idecl) (bases : list text) (x : text) : fres :=
  match bases with
  | [] => NotFound
  | b :: tl => match find_identity fuel ids (derived_direct ids b) x with
               | Found => Found
               | OutOfFuel => OutOfFuel
               | NotFound => ident_lookup fuel ids tl x
               end
  end.
(** before the repair: FindIdentity(bases, x) - the base itself is the first candidate *)
Definition ident_lookup_old (fuel : nat) (ids : list idecl) (bases : list text) (x : text) : fres :=
  find_identity fuel ids bases x.

(** the derivation chains of identities declared before their derived identities are shorter than
    the number of identities *)
Definition ident_fuel (ids : list idecl) : nat := S (length ids).

(** ** The type as written: the innermost type statement declares, every typedef level between it
    and the leaf may restrict ("type color { enum red; }"); [restr] lists the restricting levels
    leaf first *)
Inductive mtype :=
| MEnum (enums : list (text * Z)) (restr : list (list text))
| MBits (bits : list text) (restr : list (list text))
| MIdent (ids : list idecl) (bases : list text).

(** what Type carries after compileType *)
Inductive etype :=
| EEnum (enums : list (text * Z))
| EBits (bits : list text)
| EIdent (ids : list idecl) (bases : list text).

Definition enum_value (n : text) (es : list (text * Z)) : option Z :=
  match find (fun e => text_eqb n (fst e)) es with Some e => Some (snd e) | None => None end.
(** mixin on enums: the derived level's names, each with the value of the base type's enum of that
    name.  A name the base type does not have gets an automatic value in the code (RFC 7950 9.6.4
    makes that schema invalid: property C01/C02); the model stops there ([None]). *)
Definition enum_keep (names : list text) (base : list (text * Z)) : option (list (text * Z)) :=
  traverse (fun n => match enum_value n base with Some z => Some (n, z) | None => None end) names.
Definition bits_keep (names : list text) (base : list text) : option (list text) :=
  traverse (fun n => if mem_text n base then Some n else None) names.

(** base.mixin(derived) from the innermost level outwards *)
Fixpoint keep_chain {A} (keep : list text -> A -> option A) (restr : list (list text)) (inner : A) : option A :=
  match restr with
  | [] => Some inner
  | names :: tl => match keep_chain keep tl inner with
                   | Some b => keep names b
                   | None => None
                   end
  end.

Definition compile_m (t : mtype) : option etype :=
  match t with
  | MEnum es restr => option_map EEnum (keep_chain enum_keep restr es)
  | MBits ds restr => option_map EBits (keep_chain bits_keep restr ds)
  | MIdent ids bases => Some (EIdent ids bases)
  end.

(** ** Values *)
Inductive msval :=
| MName (s : text)             (* an enum label / an identity name *)
| MNum (z : Z)                 (* an enum value *)
| MBitNames (names : list text).
Inductive mvalue := MOne (s : msval) | MMany (l : list msval).

Inductive mres := MPass | MFail | MOut.

(** NewValue on one scalar: toEnum (number: by value only; otherwise by label), toBits (every
    non-empty name declared), toIdentRef *)
Definition member_scalar (t : etype) (s : msval) : mres :=
  match t, s with
  | EEnum es, MName n => if existsb (fun e => text_eqb n (fst e)) es then MPass else MFail
  | EEnum es, MNum z => if existsb (fun e => z =? snd e) es then MPass else MFail
  | EBits ds, MBitNames ns => if bits_ok ds ns then MPass else MFail
  | EIdent ids bases, MName n =>
      match ident_lookup (ident_fuel ids) ids bases n with
      | Found => MPass | NotFound => MFail | OutOfFuel => MOut
      end
  | _, _ => MFail
  end.

(** toEnumList / toBitsList / toIdentRefList on a Go slice: element by element, first error wins *)
Fixpoint member_all (t : etype) (l : list msval) : mres :=
  match l with
  | [] => MPass
  | s :: tl => match member_scalar t s with MPass => member_all t tl | other => other end
  end.

Definition member_value (t : etype) (is_list : bool) (v : mvalue) : mres :=
  match is_list, v with
  | false, MOne s => member_scalar t s
  | true, MMany l => member_all t l
  | _, _ => MFail
  end.

(** the outcome [Panicked] of Restrict/Model.v stands here for "the identity search did not
    terminate within the model's fuel" (never, for identities declared base first: theorem) *)
Definition mout (load : option etype) (f : etype -> mres) : outcome :=
  match load with
  | None => LoadErr
  | Some et => match f et with MPass => Accepted | MFail => Rejected | MOut => Panicked end
  end.

(** the converting write paths *)
Definition accept_m (t : mtype) (is_list : bool) (v : mvalue) : outcome :=
  mout (compile_m t) (fun et => member_value et is_list v).

(** Selection.Set(val.Value): only the shape is given by the Go type of the value; nothing is
    looked up (known finding 6) *)
Definition accept_m_set (t : mtype) (is_list : bool) (v : mvalue) : outcome :=
  mout (compile_m t) (fun et => match is_list, v with
                                | false, MOne _ => MPass
                                | true, MMany _ => MPass
                                | _, _ => MFail
                                end).

(** SetValue handed the typed value (val.Enum, val.EnumList, val.Bits, val.BitsList, val.IdentRef,
    val.IdentRefList): NewValue runs on it.
      val.Enum       toEnum: not a number, so by the label            -> as the converting paths
      val.EnumList   toEnumList default branch: toEnum on the LIST, whose text is the labels joined
                     by ","; a label has no comma, so only a list of one can be found
      val.Bits, val.BitsList   toBits / toBitsList: no case             -> error
      val.IdentRef   toIdentRef: "%v" prints the label                  -> as the converting paths
      val.IdentRefList  toIdentRefList: no case                         -> error *)
Definition member_sv_typed (t : etype) (is_list : bool) (v : mvalue) : mres :=
  match t, is_list, v with
  | EEnum _, false, MOne s => member_scalar t s
  | EEnum _, true, MMany [s] => member_scalar t s
  | EIdent _ _, false, MOne s => member_scalar t s
  | _, _, _ => MFail
  end.
Definition accept_m_sv_typed (t : mtype) (is_list : bool) (v : mvalue) : outcome :=
  mout (compile_m t) (fun et => member_sv_typed et is_list v).

(** a single Go value (not a slice) written to a LEAF-LIST, by SetValue or as a JSON scalar; [v] is
    the list of one it stands for:
      toEnumList      default branch (repaired): toEnum on the value, wrapped if declared
      toIdentRefList  case string: toIdentRef, wrapped
      toBitsList      no case for a string or a number                  -> error *)
Definition member_single (t : etype) (is_list : bool) (v : mvalue) : mres :=
  match t, is_list, v with
  | EEnum _, true, MMany [s] => member_scalar t s
  | EIdent _ _, true, MMany [s] => member_scalar t s
  | _, _, _ => MFail
  end.
Definition accept_m_single (t : mtype) (is_list : bool) (v : mvalue) : outcome :=
  mout (compile_m t) (fun et => member_single et is_list v).

Definition set_m (acc : mtype -> bool -> mvalue -> outcome) (t : mtype) (is_list : bool)
  (st : option mvalue) (v : mvalue) : outcome * option mvalue :=
  match acc t is_list v with
  | Accepted => (Accepted, Some v)
  | o => (o, st)
  end.

(** toEnumList before the repair, on a single (non-slice) value: "if e, err := toEnum(src, v);
    err != nil { return EnumList{e}, nil }" - an undeclared value was stored as the empty enum and a
    declared one was rejected *)
Definition enum_list_single_old (es : list (text * Z)) (s : msval) : mres :=
  match member_scalar (EEnum es) s with MPass => MFail | _ => MPass end.
Definition enum_list_single (es : list (text * Z)) (s : msval) : mres := member_scalar (EEnum es) s.

(** ** The spec: membership in the effective type, from the property text and RFC 7950
      9.6.4  a restricted enumeration's enums are a subset of the base type's: the value is
             declared by the enumeration AND kept by every restricting level
      9.7.4  the same for bits, every name of the set on its own
      9.10.2 an identityref's value is an identity derived from the base (transitively; not the
             base itself) *)
Inductive derived (ids : list idecl) : text -> text -> Prop :=
| d_base x bs b : In (x, bs) ids -> In b bs -> derived ids x b
| d_step x bs y b : In (x, bs) ids -> In y bs -> derived ids y b -> derived ids x b.

Definition in_member_scalar (t : mtype) (s : msval) : Prop :=
  match t, s with
  | MEnum es restr, MName n => (exists e, In e es /\ fst e = n) /\ Forall (fun lvl => In n lvl) restr
  | MEnum es restr, MNum z => exists e, In e es /\ snd e = z /\ Forall (fun lvl => In (fst e) lvl) restr
  | MBits ds restr, MBitNames ns =>
      forall n, In n ns -> n <> [] -> In n ds /\ Forall (fun lvl => In n lvl) restr
  | MIdent ids bases, MName n => exists b, In b bases /\ derived ids n b
  | _, _ => False
  end.
Definition in_member (t : mtype) (is_list : bool) (v : mvalue) : Prop :=
  match is_list, v with
  | false, MOne s => in_member_scalar t s
  | true, MMany l => Forall (in_member_scalar t) l
  | _, _ => False
  end.

(** executable oracle: the ancestors of an identity, collected upwards from the identity (the
    code searches downwards from the base) *)
Definition bases_of (ids : list idecl) (x : text) : list text :=
  flat_map (fun d => if text_eqb (fst d) x then snd d else []) ids.
Fixpoint reaches_up (n : nat) (ids : list idecl) (frontier : list text) (b : text) : bool :=
  match n with
  | O => false
  | S n' => mem_text b frontier || reaches_up n' ids (flat_map (bases_of ids) frontier) b
  end.
Definition derivedb (ids : list idecl) (x b : text) : bool :=
  reaches_up (length ids) ids (bases_of ids x) b.

Definition in_member_scalarb (t : mtype) (s : msval) : bool :=
  match t, s with
  | MEnum es restr, MName n =>
      existsb (fun e => text_eqb (fst e) n) es && forallb (mem_text n) restr
  | MEnum es restr, MNum z =>
      existsb (fun e => (snd e =? z) && forallb (mem_text (fst e)) restr) es
  | MBits ds restr, MBitNames ns =>
      forallb (fun n => match n with
                        | [] => true
                        | _ => mem_text n ds && forallb (mem_text n) restr
                        end) ns
  | MIdent ids bases, MName n => existsb (fun b => derivedb ids n b) bases
  | _, _ => false
  end.
Definition in_memberb (t : mtype) (is_list : bool) (v : mvalue) : bool :=
  match is_list, v with
  | false, MOne s => in_member_scalarb t s
  | true, MMany l => forallb (in_member_scalarb t) l
  | _, _ => false
  end.

(** ** Hypotheses under which the theorems are stated *)
(** every restricting level lists enums of the level below it (RFC 7950 9.6.4 / 9.7.4) *)
Fixpoint subset_chain (restr : list (list text)) (inner : list text) : Prop :=
  match restr with
  | [] => True
  | names :: tl =>
      (forall n, In n names -> In n (match tl with [] => inner | below :: _ => below end)) /\
      subset_chain tl inner
  end.
(** identities are declared after their bases and under distinct names *)
Fixpoint ordered_ids (seen : list text) (ids : list idecl) : Prop :=
  match ids with
  | [] => True
  | d :: tl => (forall b, In b (snd d) -> In b seen) /\ ~ In (fst d) seen /\ ordered_ids (fst d :: seen) tl
  end.
Fixpoint ordered_idsb (seen : list text) (ids : list idecl) : bool :=
  match ids with
  | [] => true
  | d :: tl => forallb (fun b => mem_text b seen) (snd d) && negb (mem_text (fst d) seen) &&
               ordered_idsb (fst d :: seen) tl
  end.
Definition wf_mtype (t : mtype) : Prop :=
  match t with
  | MEnum es restr => subset_chain restr (map fst es) /\ NoDup (map fst es)   (* RFC 7950 9.6.4: distinct names *)
  | MBits ds restr => subset_chain restr ds
  | MIdent ids _ => ordered_ids [] ids
  end.

(** ** SetValue handed an already typed value, for the types of Restrict/Model.v.  NewValue hands
    it to val.Conv with the leaf's format (val/conv.go):
      val.Int8 .. val.UInt64, val.String   converted by reflection (CanInt / CanUint / "%v")
      val.StringList                       toStringList falls back on reflection over the slice
      val.Int8List .. val.UInt64List, val.Decimal64, val.Decimal64List
                                           no case in the type switches of toXxxList / toDecimal64
                                           (they name []int, float64, ... not the named types): error
      val.Enum                             toEnum by label (see above);  val.Bits: error
    after which Selection.Set runs the pre-constraints as on every path. *)
Definition typed_converts (b : base) (is_list : bool) (v : value) : bool :=
  match b, is_list with
  | BNum _, il => negb il
  | BDec _, _ => false
  | BStr, _ => true
  | BEnum _, false => true
  | BEnum _, true => match v with VMany [_] => true | _ => false end   (* val.EnumList: a list of one *)
  | BBits _, _ => false
  end.

Section WithRegex.
Variable rx : text -> text -> bool.

Definition accept_sv_typed (b : base) (is_list : bool) (chain : list tlevel) (v : value) : outcome :=
  match parse_chain chain with
  | None => LoadErr
  | Some pc => if typed_converts b is_list v then accept rx b is_list chain v else Rejected
  end.
Definition set_sv_typed_model (b : base) (is_list : bool) (chain : list tlevel) (st : option value)
  (v : value) : outcome * option value :=
  match accept_sv_typed b is_list chain v with
  | Accepted => (Accepted, Some v)
  | o => (o, st)
  end.

(** the variant a "do not convert what is already converted" shortcut would give: the typed value
    goes straight to Set (the seeded change NC05-B); kept to state what the repaired order of
    calls rules out *)
Definition accept_sv_shortcut (b : base) (is_list : bool) (chain : list tlevel) (v : value) : outcome :=
  accept_typed rx b is_list chain v.
End WithRegex.
