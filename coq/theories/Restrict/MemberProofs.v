(** Proofs about Restrict/Member.v: the membership clause of C05 (declared enum name or value,
    declared bit names, identity derived from a declared base, leaf-list entries one by one) on
    every write path, for all enumerations / bits with any number of restricting typedef levels, all
    identity declarations, all values. *)
From Coq Require Import ZArith List Bool Lia Strings.Byte.
From YV Require Import Restrict.RangeParse Restrict.Model Restrict.Spec Restrict.Proofs Restrict.Member.
Import ListNotations.
Open Scope Z_scope.

(** * 1. traverse *)
Lemma traverse_in {A B} (f : A -> option B) l r :
  traverse f l = Some r -> forall y, In y r -> exists x, In x l /\ f x = Some y.
Proof.
  revert r. induction l as [|a tl IH]; intros r H y Hy; cbn in H.
  - inversion H; subst. contradiction.
  - destruct (f a) eqn:E; [|discriminate]. destruct (traverse f tl) eqn:E2; [|discriminate].
    inversion H; subst. destruct Hy as [<-|Hy].
    + exists a. split; [left; reflexivity|exact E].
    + destruct (IH _ eq_refl y Hy) as [x [Hx Hf]]. exists x. split; [right; exact Hx|exact Hf].
Qed.

Lemma traverse_all {A B} (f : A -> option B) l r :
  traverse f l = Some r -> forall x, In x l -> exists y, In y r /\ f x = Some y.
Proof.
  revert r. induction l as [|a tl IH]; intros r H x Hx; cbn in H; [contradiction|].
  destruct (f a) eqn:E; [|discriminate]. destruct (traverse f tl) eqn:E2; [|discriminate].
  inversion H; subst. destruct Hx as [<-|Hx].
  - exists b. split; [left; reflexivity|exact E].
  - destruct (IH _ eq_refl x Hx) as [y [Hy Hf]]. exists y. split; [right; exact Hy|exact Hf].
Qed.

Lemma traverse_some {A B} (f : A -> option B) l :
  (forall x, In x l -> f x <> None) -> exists r, traverse f l = Some r.
Proof.
  induction l as [|a tl IH]; intros H; cbn; [eexists; reflexivity|].
  destruct (f a) eqn:E; [|exfalso; apply (H a); [left; reflexivity|exact E]].
  destruct IH as [r Hr]; [intros x Hx; apply H; right; exact Hx|]. rewrite Hr. eexists; reflexivity.
Qed.

(** * 2. Restricting levels keep a subset, and the values, of the level below *)
Lemma enum_value_in n es z : enum_value n es = Some z -> In (n, z) es.
Proof.
  unfold enum_value. destruct (find _ es) as [e|] eqn:E; [|discriminate].
  intros H. inversion H; subst. apply find_some in E. destruct E as [Hin He].
  apply text_eqb_eq in He. subst n. destruct e; exact Hin.
Qed.

Lemma enum_keep_in names base eff :
  enum_keep names base = Some eff -> forall e, In e eff -> In e base /\ In (fst e) names.
Proof.
  intros H e He. destruct (traverse_in _ _ _ H e He) as [n [Hn Hf]].
  destruct (enum_value n base) eqn:E; [|discriminate]. inversion Hf; subst. cbn.
  split; [apply enum_value_in; exact E|exact Hn].
Qed.

Lemma bits_keep_in names base eff :
  bits_keep names base = Some eff -> forall n, In n eff -> In n base /\ In n names.
Proof.
  intros H n Hn. destruct (traverse_in _ _ _ H n Hn) as [m [Hm Hf]].
  destruct (mem_text m base) eqn:E; [|discriminate]. inversion Hf; subst.
  split; [apply mem_text_in; exact E|exact Hm].
Qed.

Lemma keep_chain_enum restr es eff :
  keep_chain enum_keep restr es = Some eff ->
  forall e, In e eff -> In e es /\ Forall (fun lvl => In (fst e) lvl) restr.
Proof.
  revert eff. induction restr as [|names tl IH]; intros eff H e He; cbn in H.
  - inversion H; subst. split; [exact He|constructor].
  - destruct (keep_chain enum_keep tl es) as [b|] eqn:E; [|discriminate].
    destruct (enum_keep_in _ _ _ H e He) as [Hb Hn]. destruct (IH _ eq_refl e Hb) as [Hes Hall].
    split; [exact Hes|constructor; assumption].
Qed.

Lemma keep_chain_bits restr ds eff :
  keep_chain bits_keep restr ds = Some eff ->
  forall n, In n eff -> In n ds /\ Forall (fun lvl => In n lvl) restr.
Proof.
  revert eff. induction restr as [|names tl IH]; intros eff H n Hn; cbn in H.
  - inversion H; subst. split; [exact Hn|constructor].
  - destruct (keep_chain bits_keep tl ds) as [b|] eqn:E; [|discriminate].
    destruct (bits_keep_in _ _ _ H n Hn) as [Hb Hnm]. destruct (IH _ eq_refl n Hb) as [Hds Hall].
    split; [exact Hds|constructor; assumption].
Qed.

(** * 3. FindIdentity finds only identities derived from a candidate *)
Lemma derived_direct_in ids b c :
  In c (derived_direct ids b) <-> exists bs, In (c, bs) ids /\ In b bs.
Proof.
  unfold derived_direct. rewrite in_map_iff. split.
  - intros [d [Hc Hd]]. apply filter_In in Hd. destruct Hd as [Hin Hm]. apply mem_text_in in Hm.
    destruct d as [n bs]. cbn in *. subst. exists bs. auto.
  - intros [bs [Hin Hb]]. exists (c, bs). split; [reflexivity|]. apply filter_In. split; [exact Hin|].
    apply mem_text_in. exact Hb.
Qed.

(** a derivation can be extended at the base end *)
Lemma derived_up ids x y : derived ids x y -> forall bs c, In (y, bs) ids -> In c bs -> derived ids x c.
Proof.
  induction 1 as [x bs b Hin Hb|x bs y b Hin Hy Hd IH]; intros bs' c Hy' Hc.
  - eapply d_step; [exact Hin|exact Hb|]. eapply d_base; eauto.
  - eapply d_step; [exact Hin|exact Hy|]. eapply IH; eauto.
Qed.

(** a derivation read from the base end: its last link is a direct derivation from the base *)
Lemma derived_down ids x c :
  derived ids x c -> exists c', In c' (derived_direct ids c) /\ (c' = x \/ derived ids x c').
Proof.
  induction 1 as [x bs b Hin Hb|x bs y b Hin Hy Hd IH].
  - exists x. split; [apply derived_direct_in; exists bs; auto|left; reflexivity].
  - destruct IH as [c' [Hc' [->|Hd']]].
    + exists y. split; [exact Hc'|right]. eapply d_base; eauto.
    + exists c'. split; [exact Hc'|right]. eapply d_step; eauto.
Qed.

Lemma find_identity_sound fuel ids : forall cands x,
  find_identity fuel ids cands x = Found ->
  exists c, In c cands /\ (c = x \/ derived ids x c).
Proof.
  induction fuel as [|f IH]; intros cands x H; [discriminate|].
  induction cands as [|c tl IHc]; [discriminate|].
  cbn in H. destruct (text_eqb c x) eqn:E.
  - apply text_eqb_eq in E. exists c. split; [left; reflexivity|left; exact E].
  - destruct (find_identity f ids (derived_direct ids c) x) eqn:R; try discriminate.
    + destruct (IH _ _ R) as [c' [Hc' Hx]]. apply derived_direct_in in Hc'. destruct Hc' as [bs [Hin Hb]].
      exists c. split; [left; reflexivity|right]. destruct Hx as [->|Hd].
      * eapply d_base; eauto.
      * eapply derived_up; eauto.
    + destruct (IHc H) as [c' [Hc' Hx]]. exists c'. split; [right; exact Hc'|exact Hx].
Qed.

(** exhaustive search: NotFound means nothing among the candidates and below them is the target *)
Lemma find_identity_notfound fuel ids : forall cands x,
  find_identity fuel ids cands x = NotFound ->
  forall c, In c cands -> c <> x /\ ~ derived ids x c.
Proof.
  induction fuel as [|f IH]; intros cands x H; [discriminate|].
  induction cands as [|c tl IHc]; intros c0 Hc0; [contradiction|].
  cbn in H. destruct (text_eqb c x) eqn:E; [discriminate|].
  destruct (find_identity f ids (derived_direct ids c) x) eqn:R; try discriminate.
  destruct Hc0 as [<-|Hc0].
  - split.
    + intros ->. assert (text_eqb x x = true) by (apply text_eqb_eq; reflexivity). congruence.
    + intros Hd. destruct (derived_down _ _ _ Hd) as [c' [Hc' Hx]].
      destruct (IH _ _ R c' Hc') as [Hne Hnd]. destruct Hx as [->|Hx]; [apply Hne; reflexivity|apply Hnd; exact Hx].
  - apply IHc; assumption.
Qed.

Lemma ident_lookup_sound fuel ids bases x :
  ident_lookup fuel ids bases x = Found -> exists b, In b bases /\ derived ids x b.
Proof.
  induction bases as [|b tl IH]; intros H; cbn in H; [discriminate|].
  destruct (find_identity fuel ids (derived_direct ids b) x) eqn:R; try discriminate.
  - destruct (find_identity_sound _ _ _ _ R) as [c [Hc Hx]]. apply derived_direct_in in Hc.
    destruct Hc as [bs [Hin Hb]]. exists b. split; [left; reflexivity|]. destruct Hx as [->|Hd].
    + eapply d_base; eauto.
    + eapply derived_up; eauto.
  - destruct (IH H) as [b' [Hb' Hd]]. exists b'. split; [right; exact Hb'|exact Hd].
Qed.

Lemma ident_lookup_notfound fuel ids bases x :
  ident_lookup fuel ids bases x = NotFound -> forall b, In b bases -> ~ derived ids x b.
Proof.
  induction bases as [|b tl IH]; intros H b0 Hb0; cbn in H; [contradiction|].
  destruct (find_identity fuel ids (derived_direct ids b) x) eqn:R; try discriminate.
  destruct Hb0 as [<-|Hb0]; [|apply IH; assumption].
  intros Hd. destruct (derived_down _ _ _ Hd) as [c' [Hc' Hx]].
  destruct (find_identity_notfound _ _ _ _ R c' Hc') as [Hne Hnd].
  destruct Hx as [->|Hx]; [apply Hne; reflexivity|apply Hnd; exact Hx].
Qed.

(** * 4. The search ends within the fuel when identities are declared after their bases *)
Definition names (ids : list idecl) : list text := map fst ids.

Lemma ordered_app seen p d s :
  ordered_ids seen (p ++ d :: s) ->
  (forall b, In b (snd d) -> In b seen \/ In b (names p)) /\
  ~ In (fst d) seen /\ ~ In (fst d) (names p).
Proof.
  revert seen. induction p as [|a p IH]; intros seen H; cbn in H.
  - destruct H as [Hb [Hn _]]. split; [intros b Hbb; left; apply Hb; exact Hbb|]. split; [exact Hn|intros []].
  - destruct H as [_ [Ha Ho]]. destruct (IH _ Ho) as [Hb [Hn Hp]]. split; [|split].
    + intros b Hbb. destruct (Hb b Hbb) as [[<-|Hs]|Hpn]; [right; left; reflexivity|left; exact Hs|right; right; exact Hpn].
    + intros Hs. apply Hn. right. exact Hs.
    + intros [He|Hpn]; [apply Hn; left; exact He|apply Hp; exact Hpn].
Qed.

(** a declaration that names [c] as a base stands after the declaration of [c] *)
Lemma derived_after ids p c bs s d :
  ordered_ids [] ids -> ids = p ++ (c, bs) :: s -> In d ids -> In c (snd d) -> In d s.
Proof.
  intros Ho -> Hd Hc. destruct (ordered_app _ _ _ _ Ho) as [Hb [_ Hnp]]. cbn in Hb, Hnp.
  apply in_app_or in Hd. destruct Hd as [Hd|[<-|Hd]]; [| |exact Hd].
  - exfalso. apply in_split in Hd. destruct Hd as [p1 [p2 ->]].
    rewrite <- app_assoc in Ho. cbn in Ho. destruct (ordered_app _ _ _ _ Ho) as [Hb' _].
    destruct (Hb' c Hc) as [[]|Hin]. apply Hnp. unfold names. rewrite map_app. apply in_or_app. left. exact Hin.
  - exfalso. cbn in Hc. destruct (Hb c Hc) as [[]|Hin]. apply Hnp. exact Hin.
Qed.

Lemma find_identity_fuel ids x : ordered_ids [] ids ->
  forall fuel p s cands, ids = p ++ s -> (length s < fuel)%nat ->
  (forall c, In c cands -> In c (names s)) ->
  find_identity fuel ids cands x <> OutOfFuel.
Proof.
  intros Ho. induction fuel as [|f IH]; intros p s cands Hids Hlen Hc; [lia|].
  induction cands as [|c tl IHc]; [discriminate|].
  cbn. destruct (text_eqb c x); [discriminate|].
  assert (Hcs : In c (names s)) by (apply Hc; left; reflexivity).
  unfold names in Hcs. apply in_map_iff in Hcs. destruct Hcs as [[c' bs] [Hcc Hin]]. cbn in Hcc. subst c'.
  apply in_split in Hin. destruct Hin as [s1 [s2 ->]].
  assert (R : find_identity f ids (derived_direct ids c) x <> OutOfFuel).
  { apply (IH (p ++ s1 ++ [(c, bs)]) s2).
    - rewrite Hids. rewrite <- !app_assoc. reflexivity.
    - rewrite app_length in Hlen. cbn in Hlen. unfold idecl in *. lia.
    - intros c' Hc'. apply derived_direct_in in Hc'. destruct Hc' as [bs' [Hin' Hb']].
      assert (In (c', bs') s2).
      { eapply (derived_after ids (p ++ s1) c bs s2 (c', bs')); auto.
        rewrite Hids. rewrite <- app_assoc. reflexivity. }
      unfold names. apply in_map_iff. exists (c', bs'). auto. }
  destruct (find_identity f ids (derived_direct ids c) x); [discriminate|  |congruence].
  apply IHc. intros c' Hc'. apply Hc. right. exact Hc'.
Qed.

Lemma ident_lookup_cons f ids b tl x :
  ident_lookup f ids (b :: tl) x =
  match find_identity f ids (derived_direct ids b) x with
  | Found => Found | OutOfFuel => OutOfFuel | NotFound => ident_lookup f ids tl x
  end.
Proof. reflexivity. Qed.

Lemma ident_lookup_fuel ids bases x :
  ordered_ids [] ids -> ident_lookup (ident_fuel ids) ids bases x <> OutOfFuel.
Proof.
  intros Ho. induction bases as [|b tl IH]; [discriminate|]. rewrite ident_lookup_cons.
  assert (R : find_identity (ident_fuel ids) ids (derived_direct ids b) x <> OutOfFuel).
  { apply (find_identity_fuel ids x Ho (ident_fuel ids) [] ids); [reflexivity|unfold ident_fuel; lia|].
    intros c Hc. apply derived_direct_in in Hc. destruct Hc as [bs [Hin _]].
    unfold names. apply in_map_iff. exists (c, bs). auto. }
  destruct (find_identity (ident_fuel ids) ids (derived_direct ids b) x); [discriminate|exact IH|congruence].
Qed.

(** identityref: the decision IS derivation from a declared base *)
Theorem ident_lookup_iff ids bases x :
  ordered_ids [] ids ->
  (ident_lookup (ident_fuel ids) ids bases x = Found <-> exists b, In b bases /\ derived ids x b).
Proof.
  intros Ho. split; [apply ident_lookup_sound|].
  intros [b [Hb Hd]]. pose proof (ident_lookup_fuel ids bases x Ho) as NF.
  destruct (ident_lookup (ident_fuel ids) ids bases x) eqn:R; [reflexivity| |congruence].
  exfalso. exact (ident_lookup_notfound _ _ _ _ R b Hb Hd).
Qed.

(** nothing is derived from itself when identities are declared after their bases, so the base
    identity itself is never accepted *)
Lemma derived_declared_after ids x b :
  derived ids x b -> forall p bs s, ordered_ids [] ids -> ids = p ++ (b, bs) :: s -> In x (names s).
Proof.
  induction 1 as [x bs0 b Hin Hb|x bs0 y b Hin Hy Hd IH]; intros p bs s Ho Hids.
  - assert (In (x, bs0) s) by (eapply (derived_after ids p b bs s (x, bs0)); eauto).
    unfold names. apply in_map_iff. exists (x, bs0). auto.
  - pose proof (IH p bs s Ho Hids) as Hys. unfold names in Hys. apply in_map_iff in Hys.
    destruct Hys as [[y' bsy] [Hy' Hiny]]. cbn in Hy'. subst y'.
    apply in_split in Hiny. destruct Hiny as [s1 [s2 ->]].
    assert (In (x, bs0) s2).
    { eapply (derived_after ids (p ++ (b, bs) :: s1) y bsy s2 (x, bs0)); eauto.
      rewrite Hids. rewrite <- app_assoc. reflexivity. }
    unfold names. rewrite map_app. apply in_or_app. right. right. apply in_map_iff. exists (x, bs0). auto.
Qed.

Lemma derived_irrefl ids x : ordered_ids [] ids -> ~ derived ids x x.
Proof.
  intros Ho Hd.
  assert (exists bs, In (x, bs) ids) as [bs Hin].
  { inversion Hd; subst; eexists; eauto. }
  apply in_split in Hin. destruct Hin as [p [s Hids]].
  pose proof (derived_declared_after _ _ _ Hd p bs s Ho Hids) as Hs.
  rewrite Hids in Ho. pose proof Ho as Ho'.
  unfold names in Hs. apply in_map_iff in Hs. destruct Hs as [[x' bs'] [Hx' Hin']]. cbn in Hx'. subst x'.
  apply in_split in Hin'. destruct Hin' as [s1 [s2 ->]].
  replace (p ++ (x, bs) :: s1 ++ (x, bs') :: s2) with ((p ++ (x, bs) :: s1) ++ (x, bs') :: s2) in Ho'
    by (rewrite <- app_assoc; reflexivity).
  destruct (ordered_app _ _ _ _ Ho') as [_ [_ Hn]]. apply Hn. cbn.
  unfold names. rewrite map_app. apply in_or_app. right. left. reflexivity.
Qed.

(** * 5. The converting write paths decide membership *)
Lemma member_scalar_sound t et s :
  compile_m t = Some et -> member_scalar et s = MPass -> in_member_scalar t s.
Proof.
  intros Hc H. destruct t as [es restr|ds restr|ids bases]; cbn in Hc.
  - destruct (keep_chain enum_keep restr es) as [eff|] eqn:K; [|discriminate]. inversion Hc; subst et.
    destruct s as [n|z|ns]; cbn in H; try discriminate.
    + destruct (existsb _ eff) eqn:E; [|discriminate]. apply existsb_exists in E.
      destruct E as [e [He Hn]]. apply text_eqb_eq in Hn. subst n.
      destruct (keep_chain_enum _ _ _ K e He) as [Hes Hall]. cbn. split; [exists e; auto|exact Hall].
    + destruct (existsb _ eff) eqn:E; [|discriminate]. apply existsb_exists in E.
      destruct E as [e [He Hz]]. apply Z.eqb_eq in Hz.
      destruct (keep_chain_enum _ _ _ K e He) as [Hes Hall]. cbn. exists e. auto.
  - destruct (keep_chain bits_keep restr ds) as [eff|] eqn:K; [|discriminate]. inversion Hc; subst et.
    destruct s as [n|z|ns]; cbn in H; try discriminate.
    destruct (bits_ok eff ns) eqn:E; [|discriminate]. cbn. intros n Hn Hne.
    unfold bits_ok in E. rewrite forallb_forall in E. specialize (E n Hn).
    destruct n as [|c n']; [congruence|]. apply mem_text_in in E. exact (keep_chain_bits _ _ _ K _ E).
  - inversion Hc; subst et. destruct s as [n|z|ns]; cbn in H; try discriminate.
    destruct (ident_lookup (ident_fuel ids) ids bases n) eqn:R; try discriminate.
    cbn. apply ident_lookup_sound in R. exact R.
Qed.

Lemma member_all_iff et l :
  member_all et l = MPass <-> Forall (fun s => member_scalar et s = MPass) l.
Proof.
  induction l as [|s tl IH]; cbn; [split; auto|].
  rewrite Forall_cons_iff, <- IH. destruct (member_scalar et s); split; try tauto; try discriminate.
  all: intros [? ?]; discriminate.
Qed.

Lemma mout_accepted load f : mout load f = Accepted -> exists et, load = Some et /\ f et = MPass.
Proof.
  unfold mout. destruct load as [et|]; [|discriminate]. destruct (f et) eqn:E; try discriminate.
  intros _. exists et. auto.
Qed.

(** Soundness on the converting paths, no hypothesis: whatever the enumeration / bits / identities
    and restricting levels, a write that is accepted wrote a member - a declared enum name or value
    kept by every restricting level, declared and kept bit names, an identity derived from a
    declared base; every leaf-list entry on its own. *)
Theorem accept_m_sound : forall t il v, accept_m t il v = Accepted -> in_member t il v.
Proof.
  intros t il v H. apply mout_accepted in H. destruct H as [et [Hc H]].
  destruct il, v; cbn in *; try discriminate.
  - apply member_all_iff in H. rewrite Forall_forall in *. intros s Hs.
    eapply member_scalar_sound; eauto.
  - eapply member_scalar_sound; eauto.
Qed.

(** * 6. SetValue handed an already typed value accepts nothing the converting paths reject *)
Lemma member_sv_typed_le et il v : member_sv_typed et il v = MPass -> member_value et il v = MPass.
Proof.
  destruct et, il, v as [s|l]; cbn; try discriminate; try (intros H; exact H).
  destruct l as [|s [|s' tl]]; try discriminate. cbn. intros H. rewrite H. reflexivity.
Qed.

Theorem sv_typed_m_le : forall t il v, accept_m_sv_typed t il v = Accepted -> accept_m t il v = Accepted.
Proof.
  intros t il v H. apply mout_accepted in H. destruct H as [et [Hc H]].
  apply member_sv_typed_le in H. unfold accept_m. rewrite Hc. cbn. rewrite H. reflexivity.
Qed.

Lemma member_single_le et il v : member_single et il v = MPass -> member_value et il v = MPass.
Proof.
  destruct et, il, v as [s|l]; cbn; try discriminate.
  all: destruct l as [|s [|s' tl]]; try discriminate; cbn; intros H; rewrite H; reflexivity.
Qed.

(** a single value written to a leaf-list is accepted only if the list of one is *)
Theorem single_m_le : forall t il v, accept_m_single t il v = Accepted -> accept_m t il v = Accepted.
Proof.
  intros t il v H. apply mout_accepted in H. destruct H as [et [Hc H]].
  apply member_single_le in H. unfold accept_m. rewrite Hc. cbn. rewrite H. reflexivity.
Qed.

Theorem sv_typed_m_sound : forall t il v, accept_m_sv_typed t il v = Accepted -> in_member t il v.
Proof. intros t il v H. apply accept_m_sound. apply sv_typed_m_le. exact H. Qed.

(** the store: untouched unless accepted, and then it holds the written value - for every path *)
Theorem set_m_frame : forall acc t il st v,
  fst (set_m acc t il st v) <> Accepted -> snd (set_m acc t il st v) = st.
Proof. intros acc t il st v. unfold set_m. destruct (acc t il v); cbn; congruence. Qed.
Theorem set_m_stores : forall acc t il st v,
  fst (set_m acc t il st v) = Accepted -> snd (set_m acc t il st v) = Some v.
Proof. intros acc t il st v. unfold set_m. destruct (acc t il v); cbn; congruence. Qed.

(** no path ends in the out-of-fuel outcome when identities are declared after their bases *)
Lemma member_scalar_no_out et s :
  match et with EIdent ids _ => ordered_ids [] ids | _ => True end -> member_scalar et s <> MOut.
Proof.
  destruct et as [es|ds|ids bases], s as [n|z|ns]; cbn; intros Ho; try discriminate.
  - destruct (existsb _ es); discriminate.
  - destruct (existsb _ es); discriminate.
  - destruct (bits_ok ds ns); discriminate.
  - pose proof (ident_lookup_fuel ids bases n Ho). destruct (ident_lookup (ident_fuel ids) ids bases n); congruence.
Qed.

Definition ordered_mtype (t : mtype) : Prop :=
  match t with MIdent ids _ => ordered_ids [] ids | _ => True end.

Lemma compile_m_ordered t et : compile_m t = Some et -> ordered_mtype t ->
  match et with EIdent ids _ => ordered_ids [] ids | _ => True end.
Proof.
  destruct t; cbn; intros H Ho.
  - destruct (keep_chain enum_keep restr enums); inversion H; exact I.
  - destruct (keep_chain bits_keep restr bits); inversion H; exact I.
  - inversion H; subst. exact Ho.
Qed.

Theorem accept_m_terminates : forall t il v, ordered_mtype t -> accept_m t il v <> Panicked.
Proof.
  intros t il v Ho. unfold accept_m, mout. destruct (compile_m t) as [et|] eqn:Hc; [|discriminate].
  pose proof (compile_m_ordered _ _ Hc Ho) as Ho'.
  assert (A : forall s, member_scalar et s <> MOut) by (intros s; apply member_scalar_no_out; exact Ho').
  assert (B : forall l, member_all et l <> MOut).
  { induction l as [|s tl IH]; cbn; [discriminate|]. pose proof (A s). destruct (member_scalar et s); congruence. }
  destruct il, v as [s|l]; cbn; try discriminate.
  - pose proof (B l). destruct (member_all et l); congruence.
  - pose proof (A s). destruct (member_scalar et s); congruence.
Qed.

(** * 7. SetValue handed a typed value of the types of Restrict/Model.v *)
Section WithRegex.
Variable rx : text -> text -> bool.

Theorem sv_typed_le : forall b il chain v,
  accept_sv_typed rx b il chain v = Accepted -> accept rx b il chain v = Accepted.
Proof.
  intros b il chain v. unfold accept_sv_typed. destruct (parse_chain chain) as [pc|] eqn:E; [|discriminate].
  destruct (typed_converts b il v); [auto|discriminate].
Qed.

(** hence every soundness statement about the converting paths holds for it *)
Theorem sv_typed_sound : forall b il chain pc v,
  parse_chain chain = Some pc -> integral_chain b pc = true -> pats_simple pc -> wf_value v ->
  accept_sv_typed rx b il chain v = Accepted ->
  in_effective_type rx b il (map den_level pc) v.
Proof. intros b il chain pc v Hp Hi Hs Wv H. eapply accept_sound; eauto. apply sv_typed_le. exact H. Qed.

Theorem sv_typed_no_panic : forall b il chain v, accept_sv_typed rx b il chain v <> Panicked.
Proof.
  intros b il chain v. unfold accept_sv_typed. destruct (parse_chain chain); [|discriminate].
  destruct (typed_converts b il v); [apply check_no_panic|discriminate].
Qed.

Theorem sv_typed_frame : forall b il chain st v,
  fst (set_sv_typed_model rx b il chain st v) <> Accepted -> snd (set_sv_typed_model rx b il chain st v) = st.
Proof.
  intros b il chain st v. unfold set_sv_typed_model. destruct (accept_sv_typed rx b il chain v); cbn; congruence.
Qed.
End WithRegex.

Lemma ordered_idsb_ok ids : forall seen, ordered_idsb seen ids = true -> ordered_ids seen ids.
Proof.
  induction ids as [|d tl IH]; intros seen H; cbn in *; [exact I|].
  apply andb_true_iff in H. destruct H as [H H3]. apply andb_true_iff in H. destruct H as [H1 H2].
  split; [|split].
  - intros b Hb. rewrite forallb_forall in H1. apply mem_text_in. apply H1. exact Hb.
  - intros Hin. apply mem_text_in in Hin. rewrite Hin in H2. discriminate.
  - apply IH. exact H3.
Qed.

(** * 8. What the repaired code rules out *)

(** handing the typed value straight to Set (the shortcut) stores an undeclared enum *)
Lemma shortcut_refuted :
  accept_sv_shortcut (fun _ _ => false) (BEnum [([x61], 0)]) false [mkT None None []] (VOne (SEnumName [x7a; x7a])) = Accepted /\
  accept_sv_typed (fun _ _ => false) (BEnum [([x61], 0)]) false [mkT None None []] (VOne (SEnumName [x7a; x7a])) = Rejected.
Proof. split; vm_compute; reflexivity. Qed.

(** identity a; identity b { base a; }  with  type identityref { base a; } *)
Definition ids_ab : list idecl := [([x61], []); ([x62], [[x61]])].
Lemma base_itself_old_accepted :
  ident_lookup_old (ident_fuel ids_ab) ids_ab [[x61]] [x61] = Found /\
  ident_lookup (ident_fuel ids_ab) ids_ab [[x61]] [x61] = NotFound /\
  ident_lookup (ident_fuel ids_ab) ids_ab [[x61]] [x62] = Found /\
  ~ derived ids_ab [x61] [x61].
Proof.
  split; [vm_compute; reflexivity|]. split; [vm_compute; reflexivity|]. split; [vm_compute; reflexivity|].
  apply derived_irrefl. apply ordered_idsb_ok. vm_compute. reflexivity.
Qed.

(** the single value "z" written to a leaf-list of enumeration { a } *)
Lemma enum_list_single_old_refuted :
  enum_list_single_old [([x61], 0)] (MName [x7a]) = MPass /\
  enum_list_single [([x61], 0)] (MName [x7a]) = MFail /\
  enum_list_single_old [([x61], 0)] (MName [x61]) = MFail /\
  enum_list_single [([x61], 0)] (MName [x61]) = MPass.
Proof. repeat split; vm_compute; reflexivity. Qed.

(** Set with a typed value looks nothing up (finding 6), here for an identity of another base *)
Lemma set_typed_ident_refuted :
  accept_m_set (MIdent ids_ab [[x61]]) false (MOne (MName [x7a])) = Accepted /\
  accept_m (MIdent ids_ab [[x61]]) false (MOne (MName [x7a])) = Rejected /\
  ~ in_member (MIdent ids_ab [[x61]]) false (MOne (MName [x7a])).
Proof.
  split; [vm_compute; reflexivity|]. split; [vm_compute; reflexivity|].
  cbn. intros [b [[<-|[]] Hd]]. inversion Hd as [x bs b Hin Hb|x bs y b Hin Hy Hd']; subst;
    cbn in Hin; destruct Hin as [H|[H|[]]]; inversion H.
Qed.

(** non-vacuity: a restricted enumeration, three levels, and an identity two derivations away *)
Definition ids_abc : list idecl := [([x61], []); ([x62], [[x61]]); ([x63], [[x62]; [x61]])].
Lemma member_hyps_met :
  ordered_ids [] ids_abc /\
  accept_m (MIdent ids_abc [[x61]]) false (MOne (MName [x63])) = Accepted /\
  accept_m (MEnum [([x61], 0); ([x62], 5); ([x63], 6)] [[[x62]]; [[x62]; [x63]]]) true
           (MMany [MName [x62]; MNum 5]) = Accepted /\
  accept_m (MEnum [([x61], 0); ([x62], 5); ([x63], 6)] [[[x62]]; [[x62]; [x63]]]) true
           (MMany [MName [x62]; MNum 6]) = Rejected /\
  accept_m_sv_typed (MEnum [([x61], 0); ([x62], 5)] []) true (MMany [MName [x62]]) = Accepted.
Proof.
  split; [apply ordered_idsb_ok; vm_compute; reflexivity|repeat split; vm_compute; reflexivity].
Qed.

(** * 9. Completeness (auxiliary: the property says "accepted only if"): on well-formed types the
    converting paths accept every member, so their decision IS membership *)
Definition top {A} (restr : list (list A)) (inner : list A) : list A :=
  match restr with [] => inner | l :: _ => l end.

Lemma subset_chain_tail restr inner : subset_chain restr inner ->
  match restr with [] => True | names :: tl => (forall n, In n names -> In n (top tl inner)) /\ subset_chain tl inner end.
Proof. destruct restr as [|names tl]; cbn; [auto|]. intros [H1 H2]. split; [|exact H2]. destruct tl; exact H1. Qed.

Lemma enum_keep_names names base eff : enum_keep names base = Some eff -> map fst eff = names.
Proof.
  unfold enum_keep. revert eff. induction names as [|n tl IH]; intros eff H; cbn in H.
  - inversion H. reflexivity.
  - destruct (enum_value n base); [|discriminate].
    destruct (traverse _ tl) eqn:E; [|discriminate]. inversion H; subst. cbn. rewrite (IH _ eq_refl). reflexivity.
Qed.

Lemma keep_chain_enum_names restr es eff :
  keep_chain enum_keep restr es = Some eff -> map fst eff = top restr (map fst es).
Proof.
  destruct restr as [|names tl]; cbn; intros H.
  - inversion H. reflexivity.
  - destruct (keep_chain enum_keep tl es); [|discriminate]. eapply enum_keep_names; eauto.
Qed.

Lemma enum_value_some n es : In n (map fst es) -> exists z, enum_value n es = Some z.
Proof.
  intros H. apply in_map_iff in H. destruct H as [e [He Hin]]. unfold enum_value.
  destruct (find (fun e0 => text_eqb n (fst e0)) es) as [e'|] eqn:F; [eexists; reflexivity|].
  exfalso. pose proof (find_none _ _ F e Hin) as Hn. cbn in Hn.
  assert (text_eqb n (fst e) = true) by (apply text_eqb_eq; auto). congruence.
Qed.

Lemma nodup_fst_inj {A B} (l : list (A * B)) a b b' :
  NoDup (map fst l) -> In (a, b) l -> In (a, b') l -> b = b'.
Proof.
  induction l as [|[x y] tl IH]; intros Hn H1 H2; [contradiction|]. cbn in Hn. inversion Hn as [|? ? Hx Hn']; subst.
  destruct H1 as [H1|H1], H2 as [H2|H2].
  - congruence.
  - inversion H1; subst. exfalso. apply Hx. apply in_map_iff. exists (a, b'). auto.
  - inversion H2; subst. exfalso. apply Hx. apply in_map_iff. exists (a, b). auto.
  - eapply IH; eauto.
Qed.

Lemma keep_chain_enum_complete restr es :
  subset_chain restr (map fst es) -> NoDup (map fst es) ->
  exists eff, keep_chain enum_keep restr es = Some eff /\
              forall e, In e es -> Forall (fun lvl => In (fst e) lvl) restr -> In e eff.
Proof.
  intros Hs Hn. induction restr as [|names tl IH].
  - exists es. split; [reflexivity|auto].
  - apply subset_chain_tail in Hs. destruct Hs as [Hsub Hs]. destruct (IH Hs) as [b [Hb Hall]].
    pose proof (keep_chain_enum_names _ _ _ Hb) as Hnames.
    assert (exists eff, enum_keep names b = Some eff) as [eff He].
    { apply traverse_some. intros n Hnn. destruct (enum_value_some n b) as [z Hz].
      - rewrite Hnames. apply Hsub. exact Hnn.
      - rewrite Hz. discriminate. }
    exists eff. split; [cbn; rewrite Hb; exact He|].
    intros e Hes Hf. inversion Hf as [|? ? Hin Hf']; subst.
    pose proof (Hall e Hes Hf') as Heb.
    destruct (traverse_all _ _ _ He (fst e) Hin) as [y [Hy Hfy]].
    destruct (enum_value (fst e) b) as [z|] eqn:Ez; [|discriminate]. inversion Hfy; subst y.
    apply enum_value_in in Ez.
    destruct (keep_chain_enum _ _ _ Hb _ Ez) as [Hz_es _].
    destruct e as [n z0]. cbn in *.
    assert (z0 = z) by (eapply nodup_fst_inj; eauto). subst. exact Hy.
Qed.

Lemma bits_keep_some names base : (forall n, In n names -> In n base) -> bits_keep names base = Some names.
Proof.
  unfold bits_keep. induction names as [|n tl IH]; intros H; cbn; [reflexivity|].
  assert (mem_text n base = true) by (apply mem_text_in; apply H; left; reflexivity).
  rewrite H0. rewrite IH; [reflexivity|]. intros m Hm. apply H. right. exact Hm.
Qed.

Lemma keep_chain_bits_complete restr ds :
  subset_chain restr ds -> keep_chain bits_keep restr ds = Some (top restr ds).
Proof.
  induction restr as [|names tl IH]; intros Hs; [reflexivity|].
  apply subset_chain_tail in Hs. destruct Hs as [Hsub Hs]. cbn. rewrite (IH Hs).
  apply bits_keep_some. exact Hsub.
Qed.

Lemma member_scalar_complete t s :
  wf_mtype t -> in_member_scalar t s -> exists et, compile_m t = Some et /\ member_scalar et s = MPass.
Proof.
  intros W H. destruct t as [es restr|ds restr|ids bases]; cbn in W.
  - destruct W as [Hs Hn]. destruct (keep_chain_enum_complete restr es Hs Hn) as [eff [Hk Hall]].
    exists (EEnum eff). cbn. rewrite Hk. split; [reflexivity|].
    destruct s as [n|z|ns]; cbn in H; try contradiction.
    + destruct H as [[e [He Hf]] Hr]. subst n. pose proof (Hall e He Hr) as Hin. cbn.
      replace (existsb (fun e0 => text_eqb (fst e) (fst e0)) eff) with true; [reflexivity|].
      symmetry. apply existsb_exists. exists e. split; [exact Hin|apply text_eqb_eq; reflexivity].
    + destruct H as [e [He [Hz Hr]]]. pose proof (Hall e He Hr) as Hin. cbn.
      replace (existsb (fun e0 => z =? snd e0) eff) with true; [reflexivity|].
      symmetry. apply existsb_exists. exists e. split; [exact Hin|apply Z.eqb_eq; auto].
  - exists (EBits (top restr ds)). cbn. rewrite (keep_chain_bits_complete restr ds W). split; [reflexivity|].
    destruct s as [n|z|ns]; cbn in H; try contradiction. cbn.
    replace (bits_ok (top restr ds) ns) with true; [reflexivity|]. symmetry.
    unfold bits_ok. apply forallb_forall. intros n Hn. destruct n as [|c n']; [reflexivity|].
    apply mem_text_in. destruct (H (c :: n') Hn) as [Hd Hr]; [discriminate|].
    destruct restr as [|l tl]; cbn; [exact Hd|]. inversion Hr; assumption.
  - exists (EIdent ids bases). split; [reflexivity|].
    destruct s as [n|z|ns]; cbn in H; try contradiction. cbn.
    apply (ident_lookup_iff ids bases n W) in H. rewrite H. reflexivity.
Qed.

Theorem accept_m_complete : forall t il v, wf_mtype t -> in_member t il v -> accept_m t il v = Accepted.
Proof.
  intros t il v W H. unfold accept_m, mout.
  destruct il, v as [s|l]; cbn in H; try contradiction.
  - (* leaf-list: the type compiles (take any entry, or the empty list) *)
    assert (exists et, compile_m t = Some et /\ member_all et l = MPass) as [et [Hc Hm]].
    { induction l as [|s tl IH].
      - destruct t as [es restr|ds restr|ids bases]; cbn in W.
        + destruct W as [Hs Hn]. destruct (keep_chain_enum_complete restr es Hs Hn) as [eff [Hk _]].
          exists (EEnum eff). cbn. rewrite Hk. auto.
        + exists (EBits (top restr ds)). cbn. rewrite (keep_chain_bits_complete restr ds W). auto.
        + exists (EIdent ids bases). auto.
      - inversion H as [|? ? Hs Htl]; subst. destruct (IH Htl) as [et [Hc Hm]].
        destruct (member_scalar_complete t s W Hs) as [et' [Hc' Hs']].
        rewrite Hc in Hc'. inversion Hc'; subst et'. exists et. split; [exact Hc|]. cbn. rewrite Hs'. exact Hm. }
    rewrite Hc. cbn. rewrite Hm. reflexivity.
  - destruct (member_scalar_complete t s W H) as [et [Hc Hs]]. rewrite Hc. cbn. rewrite Hs. reflexivity.
Qed.

Theorem accept_m_iff : forall t il v, wf_mtype t -> (accept_m t il v = Accepted <-> in_member t il v).
Proof. intros t il v W. split; [apply accept_m_sound|apply accept_m_complete; exact W]. Qed.

(** * 10. The executable oracle decides the spec *)
Lemma bases_of_in ids x y : In y (bases_of ids x) <-> exists bs, In (x, bs) ids /\ In y bs.
Proof.
  unfold bases_of. rewrite in_flat_map. split.
  - intros [[n bs] [Hin Hy]]. cbn in Hy. destruct (text_eqb n x) eqn:E; [|contradiction].
    apply text_eqb_eq in E. subst. exists bs. auto.
  - intros [bs [Hin Hy]]. exists (x, bs). split; [exact Hin|]. cbn.
    assert (text_eqb x x = true) by (apply text_eqb_eq; reflexivity). rewrite H. exact Hy.
Qed.

Lemma reaches_up_sound n ids : forall frontier b,
  reaches_up n ids frontier b = true -> exists y, In y frontier /\ (y = b \/ derived ids y b).
Proof.
  induction n as [|n IH]; intros frontier b H; cbn in H; [discriminate|].
  apply orb_true_iff in H. destruct H as [H|H].
  - apply mem_text_in in H. exists b. auto.
  - destruct (IH _ _ H) as [y [Hy Hd]]. apply in_flat_map in Hy. destruct Hy as [y0 [Hy0 Hy]].
    apply bases_of_in in Hy. destruct Hy as [bs [Hin Hb]]. exists y0. split; [exact Hy0|right].
    destruct Hd as [->|Hd]; [eapply d_base; eauto|eapply d_step; eauto].
Qed.

Lemma derivedb_sound ids x b : derivedb ids x b = true -> derived ids x b.
Proof.
  unfold derivedb. intros H. destruct (reaches_up_sound _ _ _ _ H) as [y [Hy Hd]].
  apply bases_of_in in Hy. destruct Hy as [bs [Hin Hb]].
  destruct Hd as [->|Hd]; [eapply d_base; eauto|eapply d_step; eauto].
Qed.

(** derivations counted by their number of links *)
Inductive derived_len (ids : list idecl) : text -> text -> nat -> Prop :=
| dl_base x bs b : In (x, bs) ids -> In b bs -> derived_len ids x b 1
| dl_step x bs y b k : In (x, bs) ids -> In y bs -> derived_len ids y b k -> derived_len ids x b (S k).

Lemma derived_has_len ids x b : derived ids x b -> exists k, derived_len ids x b k.
Proof.
  induction 1 as [x bs b Hin Hb|x bs y b Hin Hy Hd [k IH]].
  - exists 1%nat. eapply dl_base; eauto.
  - exists (S k). eapply dl_step; eauto.
Qed.

Lemma reaches_up_complete ids b : forall k n frontier y,
  In y frontier -> (k < n)%nat -> (y = b /\ k = 0%nat \/ derived_len ids y b k) ->
  reaches_up n ids frontier b = true.
Proof.
  induction k as [|k IH]; intros n frontier y Hy Hlt H.
  - destruct H as [[-> _]|H]; [|inversion H].
    destruct n; [lia|]. cbn. apply orb_true_iff. left. apply mem_text_in. exact Hy.
  - destruct H as [[_ H]|H]; [discriminate|]. destruct n; [lia|]. cbn. apply orb_true_iff. right.
    inversion H as [x bs b' Hin Hb|x bs y' b' k' Hin Hy' Hd]; subst.
    + apply (IH n _ b); [|lia|left; auto].
      apply in_flat_map. exists y. split; [exact Hy|]. apply bases_of_in. exists bs. auto.
    + apply (IH n _ y'); [|lia|right; exact Hd].
      apply in_flat_map. exists y. split; [exact Hy|]. apply bases_of_in. exists bs. auto.
Qed.

(** declared once: the declaration found under a name is the one at its position *)
Lemma decl_unique ids p x bs s bs0 :
  ordered_ids [] ids -> ids = p ++ (x, bs) :: s -> In (x, bs0) ids -> bs0 = bs.
Proof.
  intros Ho Hids Hin. rewrite Hids in Ho, Hin. destruct (ordered_app _ _ _ _ Ho) as [_ [_ Hnp]]. cbn in Hnp.
  apply in_app_or in Hin. destruct Hin as [Hin|[Hin|Hin]].
  - exfalso. apply Hnp. unfold names. apply in_map_iff. exists (x, bs0). auto.
  - inversion Hin. reflexivity.
  - exfalso. apply in_split in Hin. destruct Hin as [s1 [s2 ->]].
    replace (p ++ (x, bs) :: s1 ++ (x, bs0) :: s2) with ((p ++ (x, bs) :: s1) ++ (x, bs0) :: s2) in Ho
      by (rewrite <- app_assoc; reflexivity).
    destruct (ordered_app _ _ _ _ Ho) as [_ [_ Hn]]. apply Hn. cbn.
    unfold names. rewrite map_app. apply in_or_app. right. left. reflexivity.
Qed.

(** a derivation from an identity has at most as many links as identities are declared before it *)
Lemma derived_len_bound ids : ordered_ids [] ids ->
  forall k x b, derived_len ids x b k -> forall p bs s, ids = p ++ (x, bs) :: s -> (k <= length p)%nat.
Proof.
  intros Ho. induction k as [|k IH]; intros x b H p bs s Hids; [lia|].
  assert (Hb : forall y bs0, In (x, bs0) ids -> In y bs0 -> In y (names p)).
  { intros y bs0 Hin Hy. rewrite (decl_unique ids p x bs s bs0 Ho Hids Hin) in Hy.
    rewrite Hids in Ho. destruct (ordered_app _ _ _ _ Ho) as [Hbb _]. cbn in Hbb.
    destruct (Hbb y Hy) as [[]|Hp]. exact Hp. }
  revert Hids. inversion H as [x' bs0 b' Hin Hy|x' bs0 y b' k' Hin Hy Hd]; subst; intros Hids.
  - pose proof (Hb b bs0 Hin Hy) as Hp. destruct p; [contradiction|cbn; lia].
  - pose proof (Hb y bs0 Hin Hy) as Hp. unfold names in Hp. apply in_map_iff in Hp.
    destruct Hp as [[y' bsy] [Hy' Hiny]]. cbn in Hy'. subst y'. apply in_split in Hiny.
    destruct Hiny as [p1 [p2 ->]].
    assert (k <= length p1)%nat.
    { eapply (IH y b Hd p1 bsy (p2 ++ (x, bs) :: s)). rewrite Hids. rewrite <- app_assoc. reflexivity. }
    rewrite app_length. cbn. lia.
Qed.

Lemma derivedb_complete ids x b : ordered_ids [] ids -> derived ids x b -> derivedb ids x b = true.
Proof.
  intros Ho Hd. destruct (derived_has_len _ _ _ Hd) as [k Hk]. unfold derivedb.
  assert (exists bs, In (x, bs) ids) as [bs Hin] by (inversion Hd; subst; eexists; eauto).
  apply in_split in Hin. destruct Hin as [p [s Hids]].
  pose proof (derived_len_bound ids Ho k x b Hk p bs s Hids) as Hle.
  assert (Hlen : (length p < length ids)%nat).
  { rewrite Hids. rewrite app_length. cbn. unfold idecl in *. lia. }
  clear Hids. inversion Hk as [x' bs0 b' Hin0 Hb|x' bs0 y b' k' Hin0 Hy Hd']; subst.
  - apply (reaches_up_complete ids b 0 _ _ b); [apply bases_of_in; exists bs0; auto|unfold idecl in *; lia|left; auto].
  - apply (reaches_up_complete ids b k' _ _ y); [apply bases_of_in; exists bs0; auto|unfold idecl in *; lia|right; exact Hd'].
Qed.

Lemma forallb_mem_Forall n (restr : list (list text)) :
  forallb (mem_text n) restr = true <-> Forall (fun lvl => In n lvl) restr.
Proof. apply forallb_Forall. intros l. apply mem_text_in. Qed.

Lemma in_member_scalarb_sound t s : in_member_scalarb t s = true -> in_member_scalar t s.
Proof.
  destruct t as [es restr|ds restr|ids bases], s as [n|z|ns]; cbn; try discriminate.
  - intros H. apply andb_true_iff in H. destruct H as [H1 H2]. apply forallb_mem_Forall in H2.
    apply existsb_exists in H1. destruct H1 as [e [He Hn]]. apply text_eqb_eq in Hn. split; [exists e; auto|exact H2].
  - intros H. apply existsb_exists in H. destruct H as [e [He H]]. apply andb_true_iff in H. destruct H as [Hz Hr].
    apply Z.eqb_eq in Hz. apply forallb_mem_Forall in Hr. exists e. auto.
  - intros H m Hm Hne. rewrite forallb_forall in H. specialize (H m Hm). destruct m as [|c m']; [congruence|].
    apply andb_true_iff in H. destruct H as [H1 H2]. apply mem_text_in in H1. apply forallb_mem_Forall in H2. auto.
  - intros H. apply existsb_exists in H. destruct H as [b [Hb Hd]]. exists b. split; [exact Hb|apply derivedb_sound; exact Hd].
Qed.

Lemma in_member_scalarb_complete t s :
  (match t with MIdent ids _ => ordered_ids [] ids | _ => True end) ->
  in_member_scalar t s -> in_member_scalarb t s = true.
Proof.
  destruct t as [es restr|ds restr|ids bases], s as [n|z|ns]; cbn; intros Ho H; try contradiction.
  - destruct H as [[e [He Hn]] Hr]. apply andb_true_iff. split; [|apply forallb_mem_Forall; exact Hr].
    apply existsb_exists. exists e. split; [exact He|apply text_eqb_eq; exact Hn].
  - destruct H as [e [He [Hz Hr]]]. apply existsb_exists. exists e. split; [exact He|].
    apply andb_true_iff. split; [apply Z.eqb_eq; exact Hz|apply forallb_mem_Forall; exact Hr].
  - apply forallb_forall. intros m Hm. destruct m as [|c m']; [reflexivity|].
    destruct (H (c :: m') Hm) as [H1 H2]; [discriminate|]. apply andb_true_iff.
    split; [apply mem_text_in; exact H1|apply forallb_mem_Forall; exact H2].
  - destruct H as [b [Hb Hd]]. apply existsb_exists. exists b. split; [exact Hb|apply derivedb_complete; assumption].
Qed.

Theorem in_memberb_iff t il v :
  (match t with MIdent ids _ => ordered_ids [] ids | _ => True end) ->
  (in_memberb t il v = true <-> in_member t il v).
Proof.
  intros Ho. destruct il, v as [s|l]; cbn; try (split; [discriminate|contradiction]).
  - apply forallb_Forall. intros s. split; [apply in_member_scalarb_sound|apply in_member_scalarb_complete; exact Ho].
  - split; [apply in_member_scalarb_sound|apply in_member_scalarb_complete; exact Ho].
Qed.
