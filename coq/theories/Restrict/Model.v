(** Executable model of restriction checking on write, as the code stands after the C05 repairs:
      meta/core.go     RangeNumber.{getInt64,getUnit64,getFloat64,Compare}, RangeEntry.CheckValue,
                       Range.CheckValue, Pattern.CheckValue, Type.mixin
      meta/compile.go  compileType (typedef chain: base.mixin(derived), innermost first)
      node/field_constraints.go  CheckFieldPreConstraints, checkString, patternCheck, lenCheck,
                       checkRange
      node/value.go    toEnum, toBits (string form)
      node/selection.go Selection.set (pre-constraints run before Node.Field stores)
    A Go panic is the explicit result [CmpPanic] / [ChkPanic] / [Panicked].
    Regular-expression matching is not modelled: [rx p s] is an oracle argument standing for
    "the whole of s matches the XSD pattern p" (the repaired newPattern compiles ^(?:p)$). *)
From Coq Require Import ZArith List Bool Strings.Byte.
From YV Require Import Restrict.RangeParse.
Import ListNotations.
Open Scope Z_scope.

(** ** Numbers as seen by RangeNumber.Compare
    [NInt]: a val.Int64able value (int8..int64, uint8..uint32, and val.Int32(length));
    [NU64]: val.UInt64;  [NDec m k]: val.Decimal64 holding the decimal m / 10^k. *)
Inductive num :=
| NInt (z : Z)
| NU64 (z : Z)
| NDec (m : Z) (k : nat).

Inductive cmpres := CmpOk (c : Z) | CmpErr | CmpPanic.

Definition cmp3 (a b : Z) : Z := if a <? b then -1 else if b <? a then 1 else 0.
Definition pow10 (k : nat) : Z := 10 ^ Z.of_nat k.
(** comparison of the decimals m1/10^k1 and m2/10^k2 *)
Definition cmp_dec (m1 : Z) (k1 : nat) (m2 : Z) (k2 : nat) : Z :=
  cmp3 (m1 * pow10 k2) (m2 * pow10 k1).

(** getInt64: integer, else int64(float) (truncation toward zero), else panic *)
Definition get_int64 (n : rnum) : option Z :=
  match n with
  | RInt z => Some z
  | RFlt m k => Some (Z.quot m (pow10 k))
  | _ => None
  end.
(** getUnit64: unsigned, else integer >= 0, else uint64(float) for float >= 0, else panic *)
Definition get_uint64 (n : rnum) : option Z :=
  match n with
  | RUns z => Some z
  | RInt z => if 0 <=? z then Some z else None
  | RFlt m k => if 0 <=? m then Some (Z.quot m (pow10 k)) else None
  | _ => None
  end.
(** getFloat64: float, else float64(integer), else float64(unsigned), else panic *)
Definition get_float64 (n : rnum) : option (Z * nat) :=
  match n with
  | RFlt m k => Some (m, k)
  | RInt z => Some (z, O)
  | RUns z => Some (z, O)
  | _ => None
  end.

Definition is_kw (n : rnum) : bool := match n with RMin | RMax => true | _ => false end.
(** "n.unsigned == nil && (integer < 0 || float < 0)" : the bound is below every uint64 *)
Definition below_zero (n : rnum) : bool :=
  match n with RInt z => z <? 0 | RFlt m _ => m <? 0 | _ => false end.
(** "n.integer == nil && n.float == nil && n.unsigned != nil" : above MaxInt64 *)
Definition uns_only (n : rnum) : bool := match n with RUns _ => true | _ => false end.

(** RangeNumber.Compare on a single (non-list) value, repaired code *)
Definition compare_num (n : rnum) (v : num) : cmpres :=
  if is_kw n then CmpErr
  else match v with
       | NDec m k =>
           match get_float64 n with
           | Some (a, ka) => CmpOk (cmp_dec a ka m k)
           | None => CmpPanic
           end
       | NU64 b =>
           if below_zero n then CmpOk (-1)
           else match get_uint64 n with Some a => CmpOk (cmp3 a b) | None => CmpPanic end
       | NInt b =>
           if uns_only n then CmpOk 1
           else match get_int64 n with Some a => CmpOk (cmp3 a b) | None => CmpPanic end
       end.

(** the same function before the repairs (no keyword test, no out-of-type guards) *)
Definition compare_num_old (n : rnum) (v : num) : cmpres :=
  match v with
  | NDec m k =>
      match get_float64 n with Some (a, ka) => CmpOk (cmp_dec a ka m k) | None => CmpPanic end
  | NU64 b => match get_uint64 n with Some a => CmpOk (cmp3 a b) | None => CmpPanic end
  | NInt b => match get_int64 n with Some a => CmpOk (cmp3 a b) | None => CmpPanic end
  end.

Inductive chk := Pass | Fail | ChkPanic.

Definition is_min (n : rnum) : bool := match n with RMin => true | _ => false end.
Definition is_max (n : rnum) : bool := match n with RMax => true | _ => false end.

(** RangeEntry.CheckValue (repaired): Exact; else Min unless it is the min keyword, then Max
    unless it is the max keyword; any Compare error fails the entry *)
Definition entry_check (e : rentry) (v : num) : chk :=
  match e with
  | EExact n =>
      match compare_num n v with
      | CmpOk c => if c =? 0 then Pass else Fail
      | CmpErr => Fail
      | CmpPanic => ChkPanic
      end
  | ERange lo hi =>
      match (if is_min lo then CmpOk 0 else compare_num lo v) with
      | CmpPanic => ChkPanic
      | CmpErr => Fail
      | CmpOk c =>
          if 0 <? c then Fail
          else match (if is_max hi then CmpOk 0 else compare_num hi v) with
               | CmpPanic => ChkPanic
               | CmpErr => Fail
               | CmpOk c' => if c' <? 0 then Fail else Pass
               end
      end
  end.

Definition entry_check_old (e : rentry) (v : num) : chk :=
  match e with
  | EExact n =>
      match compare_num_old n v with
      | CmpOk c => if c =? 0 then Pass else Fail | CmpErr => Fail | CmpPanic => ChkPanic
      end
  | ERange lo hi =>
      match compare_num_old lo v with
      | CmpPanic => ChkPanic
      | CmpErr => Fail
      | CmpOk c =>
          if 0 <? c then Fail
          else match compare_num_old hi v with
               | CmpPanic => ChkPanic
               | CmpErr => Fail
               | CmpOk c' => if c' <? 0 then Fail else Pass
               end
      end
  end.

(** Range.CheckValue: no entries = no restriction; else the first entry that passes *)
Fixpoint any_entry (ec : rentry -> num -> chk) (r : list rentry) (v : num) : chk :=
  match r with
  | [] => Fail
  | e :: tl => match ec e v with
               | Pass => Pass
               | ChkPanic => ChkPanic
               | Fail => any_entry ec tl v
               end
  end.
Definition range_check (r : list rentry) (v : num) : chk :=
  match r with [] => Pass | _ => any_entry entry_check r v end.
Definition range_check_old (r : list rentry) (v : num) : chk :=
  match r with [] => Pass | _ => any_entry entry_check_old r v end.

(** checkRange / lenCheck (repaired): t.Range() holds one Range per level; every one must pass *)
Fixpoint all_levels (rs : list (list rentry)) (v : num) : chk :=
  match rs with
  | [] => Pass
  | r :: tl => match range_check r v with
               | Pass => all_levels tl v
               | other => other
               end
  end.
(** before the repair: the first level that passes accepts the value *)
Fixpoint some_level_old (rs : list (list rentry)) (v : num) : chk :=
  match rs with
  | [] => Fail
  | r :: tl => match range_check_old r v with
               | Pass => Pass
               | ChkPanic => ChkPanic
               | Fail => some_level_old tl v
               end
  end.
Definition check_range_old (rs : list (list rentry)) (v : num) : chk :=
  match rs with [] => Pass | _ => some_level_old rs v end.

(** ** Types *)
Inductive ikind := I8 | I16 | I32 | I64 | U8 | U16 | U32 | U64.
Definition kind_min (k : ikind) : Z :=
  match k with
  | I8 => -128 | I16 => -32768 | I32 => -2147483648 | I64 => min_int64
  | _ => 0
  end.
Definition kind_max (k : ikind) : Z :=
  match k with
  | I8 => 127 | I16 => 32767 | I32 => 2147483647 | I64 => max_int64
  | U8 => 255 | U16 => 65535 | U32 => 4294967295 | U64 => max_uint64
  end.
Definition in_kind (k : ikind) (z : Z) : bool := (kind_min k <=? z) && (z <=? kind_max k).

Inductive base :=
| BNum (k : ikind)
| BDec (fd : nat)                      (* decimal64, fraction-digits (not used by the code) *)
| BStr
| BEnum (enums : list (text * Z))      (* declared label, value *)
| BBits (bits : list text).            (* declared names *)

(** one level of a typedef chain as written: the text of its range / length statement and its
    patterns (text, invert-match) in source order *)
Record tlevel := mkT { tl_range : option text; tl_length : option text; tl_pats : list (text * bool) }.
(** the same after newRange *)
Record plevel := mkP { pl_range : option (list rentry); pl_length : option (list rentry);
                       pl_pats : list (text * bool) }.

Definition parse_opt (o : option text) : option (option (list rentry)) :=
  match o with
  | None => Some None
  | Some s => match parse_range s with Some r => Some (Some r) | None => None end
  end.
Definition parse_level (l : tlevel) : option plevel :=
  match parse_opt (tl_range l) with
  | Some r => match parse_opt (tl_length l) with
              | Some ln => Some (mkP r ln (tl_pats l))
              | None => None
              end
  | None => None
  end.
(** the chain is listed from the leaf's own type statement to the typedef nearest the built-in *)
Definition parse_chain (c : list tlevel) : option (list plevel) := traverse parse_level c.

(** what Type carries after compileType: ranges and lengths one Range per level, leaf first *)
Record ctype := mkC { c_ranges : list (list rentry); c_lengths : list (list rentry);
                      c_pats : list (text * bool) }.
Definition own (l : plevel) : ctype :=
  mkC (match pl_range l with Some r => [r] | None => [] end)
      (match pl_length l with Some r => [r] | None => [] end)
      (pl_pats l).
(** Type.mixin: base.mixin(derived) - the derived type keeps its own patterns if it has any,
    ranges and lengths of the base are appended *)
Definition mixin (b d : ctype) : ctype :=
  mkC (c_ranges d ++ c_ranges b) (c_lengths d ++ c_lengths b)
      (match c_pats d with [] => c_pats b | _ => c_pats d end).
Fixpoint compile (c : list plevel) : ctype :=
  match c with
  | [] => mkC [] [] []
  | l :: tl => mixin (compile tl) (own l)
  end.

(** ** Values *)
Inductive sval :=
| SNum (z : Z)                (* a number written to an integer leaf *)
| SDec (m : Z) (k : nat)      (* m / 10^k written to a decimal64 leaf *)
| SStr (s : text)
| SEnumName (s : text)
| SEnumVal (z : Z)
| SBits (names : list text).  (* "a b c" split on the space *)
Inductive value := VOne (s : sval) | VMany (l : list sval).

(** utf8.RuneCountInString on valid UTF-8: bytes that are not continuation bytes (10xxxxxx) *)
Definition is_cont (b : byte) : bool :=
  let n := Z.of_N (Byte.to_N b) in (128 <=? n) && (n <=? 191).
Fixpoint rune_count (s : text) : Z :=
  match s with [] => 0 | c :: tl => (if is_cont c then 0 else 1) + rune_count tl end.

Section WithRegex.
Variable rx : text -> text -> bool.

(** Pattern.CheckValue *)
Definition pat_ok (s : text) (p : text * bool) : bool := negb (Bool.eqb (rx (fst p) s) (snd p)).
(** patternCheck: none = pass, else some pattern accepts (known finding: should be all) *)
Definition pattern_check (ps : list (text * bool)) (s : text) : bool :=
  match ps with [] => true | _ => existsb (pat_ok s) ps end.

Fixpoint mem_text (s : text) (l : list text) : bool :=
  match l with [] => false | x :: tl => text_eqb s x || mem_text s tl end.

(** toBits on a string (repaired): every non-empty name must be declared *)
Definition bits_ok (decl names : list text) : bool :=
  forallb (fun n => match n with [] => true | _ => mem_text n decl end) names.

(** what NewValue + CheckFieldPreConstraints do with one scalar *)
Definition check_scalar (b : base) (ct : ctype) (s : sval) : chk :=
  match b, s with
  | BNum k, SNum z =>
      if in_kind k z then all_levels (c_ranges ct) (match k with U64 => NU64 z | _ => NInt z end)
      else Fail
  | BDec _, SDec m k => all_levels (c_ranges ct) (NDec m k)
  | BStr, SStr t =>
      if pattern_check (c_pats ct) t then all_levels (c_lengths ct) (NInt (rune_count t)) else Fail
  | BEnum es, SEnumName n => if existsb (fun e => text_eqb n (fst e)) es then Pass else Fail
  | BEnum es, SEnumVal z => if existsb (fun e => z =? snd e) es then Pass else Fail
  | BBits ds, SBits ns => if bits_ok ds ns then Pass else Fail
  | _, _ => Fail
  end.

Fixpoint check_all (b : base) (ct : ctype) (l : list sval) : chk :=
  match l with
  | [] => Pass
  | s :: tl => match check_scalar b ct s with Pass => check_all b ct tl | other => other end
  end.

(** leaf: one scalar; leaf-list: every entry on its own *)
Definition check_value (b : base) (is_list : bool) (ct : ctype) (v : value) : chk :=
  match is_list, v with
  | false, VOne s => check_scalar b ct s
  | true, VMany l => check_all b ct l
  | _, _ => Fail
  end.

Inductive outcome := Accepted | Rejected | Panicked | LoadErr.

(** the decision function: load (parse every level), then check *)
Definition accept (b : base) (is_list : bool) (chain : list tlevel) (v : value) : outcome :=
  match parse_chain chain with
  | None => LoadErr
  | Some pc => match check_value b is_list (compile pc) v with
               | Pass => Accepted
               | Fail => Rejected
               | ChkPanic => Panicked
               end
  end.

(** Selection.set against the store of that leaf: Node.Field is reached only after the
    pre-constraints passed *)
Definition set_model (b : base) (is_list : bool) (chain : list tlevel) (st : option value) (v : value)
  : outcome * option value :=
  match accept b is_list chain v with
  | Accepted => (Accepted, Some v)
  | o => (o, st)
  end.

(** ** Selection.Set(val.Value): the caller hands over an already typed value, so NewValue (and
    with it toEnum / toBits membership) is not run; only the pre-constraints are.  Known finding 6:
    a hand-built val.Enum / val.Bits that is not declared is stored. *)
Definition check_scalar_typed (b : base) (ct : ctype) (s : sval) : chk :=
  match b, s with
  | BEnum _, SEnumName _ => Pass
  | BEnum _, SEnumVal _ => Pass
  | BBits _, SBits _ => Pass
  | _, _ => check_scalar b ct s
  end.
Fixpoint check_all_typed (b : base) (ct : ctype) (l : list sval) : chk :=
  match l with
  | [] => Pass
  | s :: tl => match check_scalar_typed b ct s with Pass => check_all_typed b ct tl | other => other end
  end.
Definition check_value_typed (b : base) (is_list : bool) (ct : ctype) (v : value) : chk :=
  match is_list, v with
  | false, VOne s => check_scalar_typed b ct s
  | true, VMany l => check_all_typed b ct l
  | _, _ => Fail
  end.
Definition accept_typed (b : base) (is_list : bool) (chain : list tlevel) (v : value) : outcome :=
  match parse_chain chain with
  | None => LoadErr
  | Some pc => match check_value_typed b is_list (compile pc) v with
               | Pass => Accepted
               | Fail => Rejected
               | ChkPanic => Panicked
               end
  end.
Definition set_typed_model (b : base) (is_list : bool) (chain : list tlevel) (st : option value) (v : value)
  : outcome * option value :=
  match accept_typed b is_list chain v with
  | Accepted => (Accepted, Some v)
  | o => (o, st)
  end.

End WithRegex.

(** ** Unions of integer types (node/value.go NewValue, case val.FmtUnion): val.ConvOneOf takes the
    first member format the value converts to; CheckFieldPreConstraints has no case for
    FmtUnion, so the members' own restrictions are never looked at (known finding 3).  A member
    is its built-in integer kind and the text of its range statement. *)
Definition union_loads (ms : list (ikind * option text)) : bool :=
  forallb (fun m => match snd m with
                    | None => true
                    | Some t => match parse_range t with Some _ => true | None => false end
                    end) ms.
Definition union_accept (ms : list (ikind * option text)) (z : Z) : outcome :=
  if union_loads ms then
    if existsb (fun m => in_kind (fst m) z) ms then Accepted else Rejected
  else LoadErr.
