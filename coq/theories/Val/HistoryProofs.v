(** Proofs about Val/History.v (one live Reflect list node serving a stream of keyed requests):
    (a) the cached sorted index is, after every history of requests, the index a fresh node would
        build from the rows now in the slice, so every answer of the long-lived node is the answer of
        a node created for that single request (no history dependence);
    (b) the lookup through the (cached or fresh) index is the stateless Reflect lookup of
        Val/Model.v on the current rows' keys, to which the lookup theorems of Val/Lookup.v apply:
        it hands out exactly the row whose key leaves denote the requested key. *)
From Coq Require Import ZArith List Bool Lia Arith Strings.Byte Sorting.Permutation Sorting.Sorted.
From YV Require Import Base.Wrap Val.Model Val.Proofs Val.Lookup Val.History.
Import ListNotations.
Open Scope Z_scope.

(** * (a) the cache *)

Definition cache_ok (s : lstate) : Prop :=
  ls_idx s = None \/ ls_idx s = Some (build_keys (ls_rows s)).

Lemma ensure_idx_ok s : cache_ok s -> ensure_idx s = build_keys (ls_rows s).
Proof. unfold ensure_idx. intros [H|H]; rewrite H; reflexivity. Qed.

Lemma enum_keys_set_tag pos t rows : forall p, enum_keys p (set_tag pos t rows) = enum_keys p rows.
Proof.
  revert pos. induction rows as [|r tl IH]; intros pos p; [reflexivity|].
  destruct pos; simpl; [reflexivity|]. now rewrite IH.
Qed.

(** writing the payload leaf of a row does not change the key index *)
Lemma build_keys_set_tag pos t rows : build_keys (set_tag pos t rows) = build_keys rows.
Proof. unfold build_keys. now rewrite enum_keys_set_tag. Qed.

(** the request as served by a node created just for it *)
Definition hstep_fresh (rows : list row) (o : hop) : list row * Z :=
  let '(s', c) := hstep (mk_lstate rows None) o in (ls_rows s', c).

Lemma hstep_cache s o : cache_ok s ->
  cache_ok (fst (hstep s o)) /\
  (ls_rows (fst (hstep s o)), snd (hstep s o)) = hstep_fresh (ls_rows s) o.
Proof.
  intros C. unfold hstep_fresh, hstep. rewrite (ensure_idx_ok s C).
  unfold ensure_idx; simpl ls_idx; simpl ls_rows.
  destruct o as [k t|k|k t]; destruct (entries_find (build_keys (ls_rows s)) k) as [pos|];
    simpl; (split; [|reflexivity]); unfold cache_ok; simpl;
    try (left; reflexivity); right; try reflexivity; now rewrite build_keys_set_tag.
Qed.

(** the trace of requests each served by a fresh node *)
Fixpoint hrun_fresh (rows : list row) (ops : list hop) : list (Z * list row) :=
  match ops with
  | [] => []
  | o :: tl => let '(rows', c) := hstep_fresh rows o in (c, rows') :: hrun_fresh rows' tl
  end.

Lemma hrun_cache ops : forall s, cache_ok s -> hrun s ops = hrun_fresh (ls_rows s) ops.
Proof.
  induction ops as [|o tl IH]; intros s C; [reflexivity|].
  simpl. destruct (hstep_cache s o C) as [C' E].
  destruct (hstep s o) as [s' c] eqn:H. simpl in C', E. rewrite <- E. now rewrite (IH s' C').
Qed.

(** MAIN (a): for every initial content and every history of lookups, deletes and upserts through
    one live list node, the node answers each request as a freshly created node would *)
Theorem hist_no_history_dependence rows ops : hist_impl rows ops = hrun_fresh rows ops.
Proof. unfold hist_impl. apply (hrun_cache ops (mk_lstate rows None)). left; reflexivity. Qed.

(** reachable states keep the invariant *)
Fixpoint hstate_after (s : lstate) (ops : list hop) : lstate :=
  match ops with [] => s | o :: tl => hstate_after (fst (hstep s o)) tl end.

Theorem cache_ok_reachable rows ops : cache_ok (hstate_after (mk_lstate rows None) ops).
Proof.
  assert (G : forall ops s, cache_ok s -> cache_ok (hstate_after s ops)).
  { clear. induction ops as [|o tl IH]; intros s C; [exact C|]. simpl. apply IH. now apply hstep_cache. }
  apply G. left; reflexivity.
Qed.

(** * (b) the indexed lookup is the stateless Reflect lookup *)

Lemma insert_entry_fst e l : map fst (insert_entry e l) = insert_key (fst e) (map fst l).
Proof.
  induction l as [|h t IH]; [reflexivity|]. simpl.
  destruct (key_lt (fst h) (fst e)); simpl; [now rewrite IH|reflexivity].
Qed.

Lemma sort_entries_fst l : map fst (sort_entries l) = sort_keys (map fst l).
Proof.
  induction l as [|h t IH]; [reflexivity|]. simpl. now rewrite insert_entry_fst, IH.
Qed.

Lemma enum_keys_fst rows : forall p, map fst (enum_keys p rows) = map fst rows.
Proof. induction rows as [|r tl IH]; intros p; [reflexivity|]. simpl. now rewrite IH. Qed.

Lemma build_keys_fst rows : map fst (build_keys rows) = sort_keys (map fst rows).
Proof. unfold build_keys. now rewrite sort_entries_fst, enum_keys_fst. Qed.

Lemma search_loop_ext f g : (forall i, f i = g i) ->
  forall fuel i j, search_loop fuel f i j = search_loop fuel g i j.
Proof.
  intros E. induction fuel as [|n IH]; intros i j; [reflexivity|].
  simpl. rewrite E. destruct (Nat.ltb i j); [|reflexivity]. now rewrite !IH.
Qed.

Lemma nth_map_fst (idx : list entry) : forall i, nth i (map fst idx) [] = fst (nth i idx ([], O)).
Proof. induction idx as [|h t IH]; destruct i; simpl; auto. Qed.

(** the key the indexed lookup lands on is the key the stateless lookup lands on *)
Lemma entries_find_sorted_find idx k :
  entries_find idx k =
  match sorted_find (map fst idx) k with
  | Some i => option_map snd (nth_error idx i)
  | None => None
  end.
Proof.
  unfold entries_find, sorted_find. cbv zeta. rewrite map_length.
  match goal with |- context [nth_error (map fst idx) (go_search ?n ?g)] =>
    replace (go_search n g)
      with (go_search (length idx) (fun i => negb (key_cmp (fst (nth i idx ([], O))) k <? 0)))
  end.
  2: { unfold go_search. apply search_loop_ext. intros i. cbv beta.
       exact (f_equal (fun x => negb (key_cmp x k <? 0)) (eq_sym (nth_map_fst idx i))). }
  set (found := go_search _ _). rewrite nth_error_map.
  assert (G : forall o : option entry, nth_error idx found = o ->
    match o with Some e => if key_eq (fst e) k then Some (snd e) else None | None => None end =
    match match option_map fst o with Some k' => if key_eq k' k then Some found else None | None => None end
    with Some i => option_map snd (nth_error idx i) | None => None end).
  { intros [e|] E; simpl; [|reflexivity]. destruct (key_eq (fst e) k); [|reflexivity].
    symmetry. exact (f_equal (option_map snd) E). }
  exact (G _ eq_refl).
Qed.

(** every index entry carries the position of a row with that key *)
Lemma enum_keys_pos rows : forall p e, In e (enum_keys p rows) ->
  (p <= snd e)%nat /\ exists t, nth_error rows (snd e - p) = Some (fst e, t).
Proof.
  induction rows as [|r tl IH]; intros p e H; [destruct H|].
  simpl in H. destruct H as [H|H].
  - subst e. simpl. split; [lia|]. rewrite Nat.sub_diag. exists (snd r). now destruct r.
  - destruct (IH _ _ H) as [L [t Ht]]. split; [lia|]. exists t.
    replace (snd e - p)%nat with (S (snd e - S p)) by lia. exact Ht.
Qed.

Lemma insert_entry_in e l x : In x (insert_entry e l) -> x = e \/ In x l.
Proof.
  induction l as [|h t IH]; simpl; [intuition|].
  destruct (key_lt (fst h) (fst e)); simpl; intros [H|H]; auto.
  destruct (IH H); auto.
Qed.

Lemma sort_entries_in l x : In x (sort_entries l) -> In x l.
Proof.
  induction l as [|h t IH]; [auto|]. simpl. intros H.
  destruct (insert_entry_in _ _ _ H); auto.
Qed.

Lemma build_keys_pos rows e : In e (build_keys rows) ->
  exists t, nth_error rows (snd e) = Some (fst e, t).
Proof.
  intros H. apply sort_entries_in in H. destruct (enum_keys_pos _ _ _ H) as [_ [t Ht]].
  rewrite Nat.sub_0_r in Ht. eauto.
Qed.

Lemma nth_error_map_some {A B} (f : A -> B) l i b : nth_error (map f l) i = Some b ->
  exists a, nth_error l i = Some a /\ f a = b.
Proof. rewrite nth_error_map. destruct (nth_error l i); simpl; intros H; inversion H; eauto. Qed.
Lemma nth_error_map_of {A B} (f : A -> B) l i a : nth_error l i = Some a ->
  nth_error (map f l) i = Some (f a).
Proof. intros H. rewrite nth_error_map, H. reflexivity. Qed.

(** MAIN (b): in any state reachable by a history, a keyed request finds position [pos] only if
    the row at [pos] is the row whose key leaves denote the requested key, finds some position
    whenever such a row exists, and finds nothing exactly when no row's key denotes it *)
Theorem hist_lookup_correct sh rows0 ops k :
  let s := hstate_after (mk_lstate rows0 None) ops in
  let rows := ls_rows s in
  Forall (kdom sh) (map fst rows) -> kdom sh k -> distinct_keys (map fst rows) ->
  (forall pos, entries_find (ensure_idx s) k = Some pos ->
     exists r t, nth_error rows pos = Some (r, t) /\ key_same r k) /\
  (forall r t, In (r, t) rows -> key_same r k -> exists pos, entries_find (ensure_idx s) k = Some pos) /\
  (entries_find (ensure_idx s) k = None <-> forall r t, In (r, t) rows -> ~ key_same r k).
Proof.
  intros s rows Hd Hk Hn.
  rewrite (ensure_idx_ok s (cache_ok_reachable rows0 ops)). fold rows.
  destruct (reflect_find_correct sh (map fst rows) k Hd Hk Hn) as [M N].
  pose proof (entries_find_sorted_find (build_keys rows) k) as F.
  rewrite build_keys_fst in F. unfold reflect_find in M, N.
  cbv zeta in M, N.
  assert (P1 : forall pos, entries_find (build_keys rows) k = Some pos ->
                 exists r t, nth_error rows pos = Some (r, t) /\ key_same r k).
  { intros pos H. rewrite H in F.
    destruct (sorted_find (sort_keys (map fst rows)) k) as [i|] eqn:S; [|discriminate].
    destruct (nth_error (build_keys rows) i) as [e|] eqn:Ei; [|discriminate].
    simpl in F. inversion F; subst pos.
    destruct (build_keys_pos rows e (nth_error_In _ _ Ei)) as [t Ht].
    exists (fst e), t. split; [exact Ht|].
    apply (M (fst e)). rewrite <- build_keys_fst. apply nth_error_map_of. exact Ei. }
  assert (P2 : forall r t, In (r, t) rows -> key_same r k ->
                 exists pos, entries_find (build_keys rows) k = Some pos).
  { intros r t Ir Sr.
    assert (R := proj2 (M r) (conj (in_map fst rows (r, t) Ir) Sr)).
    destruct (sorted_find (sort_keys (map fst rows)) k) as [i|] eqn:S; [|discriminate].
    rewrite <- build_keys_fst in R. destruct (nth_error_map_some _ _ _ _ R) as [e [Ei _]].
    exists (snd e). exact (eq_trans F (f_equal (option_map snd) Ei)). }
  split; [exact P1|]. split; [exact P2|]. split.
  - intros H r t Ir Sr. destruct (P2 r t Ir Sr) as [pos Hp]. congruence.
  - intros H. destruct (entries_find (build_keys rows) k) as [pos|] eqn:E; [|reflexivity].
    destruct (P1 pos eq_refl) as [r [t [Hr Sr]]]. exfalso.
    exact (H r t (nth_error_In _ _ Hr) Sr).
Qed.

(** non-vacuity and the regression this guards against: delete the first row, then look a later
    row up through the same node - the tag lands on the row with the requested key *)
Example hist_hyps_met :
  let sh := [FInt32] in
  let k n := [VInt FInt32 n] in
  let rows := [(k 10, 1); (k 20, 2); (k 30, 3); (k 40, 4)] in
  let ops := [HFind (k 30) 5; HDel (k 10); HFind (k 30) 6; HUpsert (k 40) 7; HUpsert (k 10) 8; HFind (k 10) 9] in
  Forall (kdom sh) (map fst rows) /\ distinct_keys (map fst rows) /\ Forall (fun o => kdom sh (hop_key o)) ops /\
  hist_impl rows ops = hist_spec rows ops /\
  map snd (hist_impl rows ops) =
    [ [(k 10, 1); (k 20, 2); (k 30, 5); (k 40, 4)];
      [(k 20, 2); (k 30, 5); (k 40, 4)];
      [(k 20, 2); (k 30, 6); (k 40, 4)];
      [(k 20, 2); (k 30, 6); (k 40, 7)];
      [(k 20, 2); (k 30, 6); (k 40, 7); (k 10, 8)];
      [(k 20, 2); (k 30, 6); (k 40, 7); (k 10, 9)] ].
Proof.
  assert (D : forall z, -2147483648 <= z <= 2147483647 -> kdom [FInt32] [VInt FInt32 z]).
  { intros z Hz. split; [|reflexivity]. apply Forall_cons; [|apply Forall_nil].
    split; [left; reflexivity|]. unfold in_range; simpl. unfold in_s; simpl. lia. }
  assert (N : forall a b, a <> b -> ~ key_same [VInt FInt32 a] [VInt FInt32 b]).
  { intros a b Hab H. inversion H as [|? ? ? ? S _]; subst. simpl in S. destruct S as [_ S]. congruence. }
  cbv zeta. split; [|split; [|split; [|split]]].
  - repeat (apply Forall_cons; [apply D; lia|]). apply Forall_nil.
  - repeat (constructor; [repeat (apply Forall_cons; [apply N; lia|]); apply Forall_nil|]). constructor.
  - repeat (apply Forall_cons; [apply D; lia|]). apply Forall_nil.
  - vm_compute. reflexivity.
  - vm_compute. reflexivity.
Qed.
