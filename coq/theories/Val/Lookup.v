(** Lookup theorems of C17 (proofs about Val/Model.v, continued):
    (a) sort.Search returns the least index at which a monotone predicate holds;
    (b) sliceSorter.Less (lexicographic CompareVals) is a strict total order on well-formed keys of
        one shape and EqualVals is its equivalence;
    (c) sorting pairwise-distinct keys yields the strictly sorted permutation;
    (d) the Reflect lookup (sorted index + sort.Search) and the Node slice lookup (linear scan)
        return exactly the row whose key denotes the requested key, and nothing when there is none. *)
From Coq Require Import ZArith List Bool Lia Arith Strings.Byte Sorting.Permutation Sorting.Sorted.
From YV Require Import Base.Wrap Val.Model Val.Proofs.
Import ListNotations.

(** * (a) sort.Search *)
Section Search.
Local Open Scope nat_scope.

(** false...false true...true on [0,n) *)
Definition monotone_on (n : nat) (f : nat -> bool) : Prop :=
  forall i j, i <= j -> j < n -> f i = true -> f j = true.

Lemma half_between i j : i < j -> i <= (i + j) / 2 < j.
Proof.
  intros H. pose proof (Nat.div_mod (i + j) 2 ltac:(lia)).
  pose proof (Nat.mod_upper_bound (i + j) 2 ltac:(lia)). lia.
Qed.

Lemma search_loop_S fuel f i j :
  search_loop (S fuel) f i j =
  if Nat.ltb i j then if f ((i + j) / 2) then search_loop fuel f i ((i + j) / 2)
                      else search_loop fuel f (S ((i + j) / 2)) j
  else i.
Proof. reflexivity. Qed.

Lemma search_loop_spec f n : monotone_on n f ->
  forall fuel i j, i <= j -> j <= n -> j - i < fuel ->
  i <= search_loop fuel f i j <= j /\
  (forall k, i <= k -> k < search_loop fuel f i j -> f k = false) /\
  (search_loop fuel f i j < j -> f (search_loop fuel f i j) = true).
Proof.
  intros Hm. induction fuel as [|fuel IH]; intros i j Hij Hjn Hf; [lia|].
  rewrite search_loop_S. destruct (Nat.ltb_spec i j) as [Hlt|Hge].
  - pose proof (half_between i j Hlt) as Hh. set (h := (i + j) / 2) in *.
    destruct (f h) eqn:Fh.
    + destruct (IH i h) as [A [B C]]; try lia.
      split; [lia|]. split; [exact B|]. intros _.
      destruct (Nat.eq_dec (search_loop fuel f i h) h) as [E|E]; [rewrite E; exact Fh|apply C; lia].
    + destruct (IH (S h) j) as [A [B C]]; try lia.
      split; [lia|]. split; [|exact C].
      intros k Hk1 Hk2. destruct (Nat.le_gt_cases k h) as [Hkh|Hkh].
      * destruct (f k) eqn:Fk; [|reflexivity].
        rewrite (Hm k h Hkh ltac:(lia) Fk) in Fh. discriminate.
      * apply B; lia.
  - split; [lia|]. split; intros; lia.
Qed.

(** sort.Search(n, f): the least index in [0,n) where f holds, n if there is none *)
Theorem go_search_spec n f : monotone_on n f ->
  go_search n f <= n /\
  (forall k, k < go_search n f -> f k = false) /\
  (go_search n f < n -> f (go_search n f) = true) /\
  (forall k, k < n -> f k = true -> go_search n f <= k).
Proof.
  intros Hm. unfold go_search.
  destruct (search_loop_spec f n Hm (S n) 0 n) as [A [B C]]; try lia.
  split; [lia|]. split; [intros k Hk; apply B; lia|]. split; [exact C|].
  intros k Hk Fk. destruct (Nat.le_gt_cases (search_loop (S n) f 0 n) k) as [H|H]; [exact H|].
  rewrite B in Fk by lia. discriminate.
Qed.
End Search.

Open Scope Z_scope.

(** * (b) the key order *)

Lemma sgn_le0_iff z : Z.sgn z <= 0 <-> z <= 0. Proof. destruct z; simpl; lia. Qed.

Lemma lex_cmp_trans_le a b c : lex_cmp a b <= 0 -> lex_cmp b c <= 0 ->
  lex_cmp a c <= 0 /\ (lex_cmp a c = 0 <-> lex_cmp a b = 0 /\ lex_cmp b c = 0).
Proof.
  intros H1 H2.
  destruct (Z.eq_dec (lex_cmp a b) 0) as [E1|N1].
  - pose proof E1 as E1'. apply lex_cmp_eq in E1'. subst b. split; [exact H2|]. tauto.
  - destruct (Z.eq_dec (lex_cmp b c) 0) as [E2|N2].
    + pose proof E2 as E2'. apply lex_cmp_eq in E2'. subst c. split; [exact H1|]. tauto.
    + assert (lex_cmp a c < 0) by (apply lex_cmp_trans with b; lia). split; [lia|]. split; lia.
Qed.

(** scalar "less or same" is transitive, and the composite is "same" only if both steps are *)
Lemma spec_sgn_trans_le x y z a b :
  spec_sgn x y = Some a -> spec_sgn y z = Some b -> a <= 0 -> b <= 0 ->
  exists c, spec_sgn x z = Some c /\ c <= 0 /\ (c = 0 <-> a = 0 /\ b = 0).
Proof.
  destruct x, y; simpl; try discriminate; destruct z; simpl; try discriminate.
  - destruct (fmt_eqb f f0) eqn:E1; [|discriminate]. destruct (fmt_eqb f0 f1) eqn:E2; [|discriminate].
    apply fmt_eqb_eq in E1, E2; subst. rewrite fmt_eqb_refl.
    intros H1 H2; inversion H1; inversion H2; subst. intros Ha Hb.
    apply sgn_le0_iff in Ha, Hb. eexists; split; [reflexivity|].
    rewrite sgn_le0_iff, !sgn_zero_iff. lia.
  - intros H1 H2; inversion H1; inversion H2; subst; clear H1 H2. intros Ha Hb.
    set (E := Z.min e (Z.min e0 e1)).
    rewrite (dec_spec_scale _ _ _ _ E) in Ha by (unfold E; lia).
    rewrite (dec_spec_scale _ _ _ _ E) in Hb by (unfold E; lia).
    eexists; split; [reflexivity|].
    rewrite (dec_spec_scale m e m0 e0 E) by (unfold E; lia).
    rewrite (dec_spec_scale m0 e0 m1 e1 E) by (unfold E; lia).
    rewrite (dec_spec_scale m e m1 e1 E) by (unfold E; lia).
    apply sgn_le0_iff in Ha, Hb. rewrite sgn_le0_iff, !sgn_zero_iff. lia.
  - intros H1 H2; inversion H1; inversion H2; subst. intros. eexists; split; [reflexivity|].
    now apply lex_cmp_trans_le.
  - intros H1 H2; inversion H1; inversion H2; subst. intros. eexists; split; [reflexivity|].
    now apply lex_cmp_trans_le.
  - intros H1 H2; inversion H1; inversion H2; subst. intros Ha Hb. eexists; split; [reflexivity|].
    destruct b0, b1, b2; simpl in *; lia.
  - intros H1 H2; inversion H1; inversion H2; subst. intros Ha Hb.
    apply sgn_le0_iff in Ha, Hb. eexists; split; [reflexivity|].
    rewrite sgn_le0_iff, !sgn_zero_iff. lia.
  - intros H1 H2; inversion H1; inversion H2; subst. intros. eexists; split; [reflexivity|].
    now apply lex_cmp_trans_le.
Qed.

(** ** the lexicographic spec order on tuples *)
Lemma spec_lex_antisym a b c : spec_lex a b = Some c -> spec_lex b a = Some (- c).
Proof.
  revert b c; induction a as [|x a IH]; intros [|y b] c; simpl; try discriminate.
  - intros H; inversion H; reflexivity.
  - destruct (spec_sgn x y) as [s|] eqn:S; [|discriminate].
    rewrite (spec_sgn_antisym _ _ _ S).
    destruct (Z.eqb_spec s 0) as [->|N]; simpl.
    + apply IH.
    + intros H; inversion H; subst. destruct (Z.eqb_spec (- c) 0); [lia|reflexivity].
Qed.

Lemma spec_lex_trans_le a b c p q :
  spec_lex a b = Some p -> spec_lex b c = Some q -> p <= 0 -> q <= 0 ->
  exists r, spec_lex a c = Some r /\ r <= 0 /\ (r = 0 <-> p = 0 /\ q = 0).
Proof.
  revert b c p q; induction a as [|x a IH]; intros [|y b] [|z c] p q; simpl; try discriminate.
  - intros H1 H2; inversion H1; inversion H2; subst. intros. exists 0. repeat split; lia.
  - destruct (spec_sgn x y) as [s1|] eqn:S1; [|discriminate].
    destruct (spec_sgn y z) as [s2|] eqn:S2; [|discriminate].
    intros H1 H2 Hp Hq.
    assert (L1 : s1 <= 0) by (destruct (Z.eqb_spec s1 0); [lia|inversion H1; lia]).
    assert (L2 : s2 <= 0) by (destruct (Z.eqb_spec s2 0); [lia|inversion H2; lia]).
    destruct (spec_sgn_trans_le x y z s1 s2 S1 S2 L1 L2) as [s3 [S3 [L3 Z3]]].
    rewrite S3.
    destruct (Z.eqb_spec s3 0) as [E3|N3].
    + destruct Z3 as [Z3 _]. destruct (Z3 E3) as [-> ->]. simpl in H1, H2.
      eapply IH; eauto.
    + exists s3. split; [reflexivity|]. split; [exact L3|].
      split; [lia|]. intros [-> ->]. exfalso. apply N3. apply Z3.
      destruct (Z.eqb_spec s1 0) as [->|N1]; [|inversion H1; lia].
      destruct (Z.eqb_spec s2 0) as [->|N2]; [|inversion H2; lia]. lia.
Qed.

(** two key tuples denote the same key *)
Definition key_same (a b : key) : Prop := Forall2 same_denotation a b.

Lemma spec_lex_zero a b : spec_lex a b = Some 0 <-> key_same a b.
Proof.
  unfold key_same. revert b; induction a as [|x a IH]; intros [|y b]; simpl.
  - split; [constructor|reflexivity].
  - split; [discriminate|intros H; inversion H].
  - split; [discriminate|intros H; inversion H].
  - destruct (spec_sgn x y) as [s|] eqn:S.
    + destruct (Z.eqb_spec s 0) as [->|N].
      * rewrite IH. split; [intros H; constructor; [now apply spec_sgn_zero|exact H]|intros H; now inversion H].
      * split; [intros H; inversion H; lia|].
        intros H; inversion H; subst. apply spec_sgn_zero in H3. congruence.
    + split; [discriminate|]. intros H; inversion H; subst. apply spec_sgn_zero in H3. congruence.
Qed.

Lemma key_same_refl a : key_same a a.
Proof. induction a; constructor; [apply same_denotation_refl|assumption]. Qed.
Lemma key_same_sym a b : key_same a b -> key_same b a.
Proof. induction 1; constructor; [now apply same_denotation_sym|assumption]. Qed.
Lemma key_same_trans a b c : key_same a b -> key_same b c -> key_same a c.
Proof.
  unfold key_same. intros H; revert c; induction H; intros c H2; inversion H2; subst; constructor.
  - eapply same_denotation_trans; eauto.
  - apply IHForall2; assumption.
Qed.

(** ** the implementation's key order.  [kdom sh]: well-formed keys of shape [sh] (the key leaf
    formats of one list) *)
Definition kdom (sh : list fmt) (k : key) : Prop := wf_key k /\ map format_of k = sh.

Lemma kdom_shape sh a b : kdom sh a -> kdom sh b -> same_shape a b.
Proof. intros [_ A] [_ B]. unfold same_shape. congruence. Qed.

Lemma key_cmp_spec sh a b : kdom sh a -> kdom sh b -> spec_lex a b = Some (Z.sgn (key_cmp a b)).
Proof.
  intros Ha Hb. destruct (compare_vals_lex a b (proj1 Ha) (proj1 Hb) (kdom_shape _ _ _ Ha Hb)) as [c [Hc Hs]].
  unfold key_cmp. rewrite Hc. symmetry; exact Hs.
Qed.

Theorem key_cmp_antisym sh a b : kdom sh a -> kdom sh b ->
  Z.sgn (key_cmp b a) = - Z.sgn (key_cmp a b).
Proof.
  intros Ha Hb. pose proof (key_cmp_spec sh a b Ha Hb) as H1. pose proof (key_cmp_spec sh b a Hb Ha) as H2.
  apply spec_lex_antisym in H1. congruence.
Qed.

Theorem key_cmp_trans_le sh a b c : kdom sh a -> kdom sh b -> kdom sh c ->
  key_cmp a b <= 0 -> key_cmp b c <= 0 ->
  key_cmp a c <= 0 /\ (key_cmp a c = 0 <-> key_cmp a b = 0 /\ key_cmp b c = 0).
Proof.
  intros Ha Hb Hc L1 L2.
  pose proof (key_cmp_spec sh a b Ha Hb) as H1. pose proof (key_cmp_spec sh b c Hb Hc) as H2.
  pose proof (key_cmp_spec sh a c Ha Hc) as H3.
  destruct (spec_lex_trans_le a b c _ _ H1 H2) as [r [R [Lr Zr]]]; try (apply sgn_le0_iff; assumption).
  rewrite H3 in R. inversion R; subst r.
  rewrite sgn_le0_iff in Lr. rewrite !sgn_zero_iff in Zr. tauto.
Qed.

Theorem key_cmp_zero_iff sh a b : kdom sh a -> kdom sh b -> (key_cmp a b = 0 <-> key_same a b).
Proof.
  intros Ha Hb. rewrite <- spec_lex_zero, (key_cmp_spec sh a b Ha Hb).
  split; [intros ->; reflexivity|]. intros H. apply sgn_zero_iff. congruence.
Qed.

(** EqualVals decides [key_same] (no shape hypothesis needed) *)
Theorem key_eq_iff a b : wf_key a -> wf_key b -> (key_eq a b = true <-> key_same a b).
Proof.
  unfold key_eq, key_same. revert b; induction a as [|x a IH]; intros [|y b] Ha Hb; simpl.
  - split; [constructor|reflexivity].
  - split; [discriminate|intros H; inversion H].
  - split; [discriminate|intros H; inversion H].
  - inversion Ha as [|? ? Hx Ha']; inversion Hb as [|? ? Hy Hb']; subst.
    destruct (equal_impl_spec x y Hx Hy) as [e [He Hd]]. rewrite He.
    destruct e.
    + rewrite (IH b Ha' Hb'). split; [intros H; constructor; [now apply Hd|exact H]|intros H; now inversion H].
    + split; [discriminate|]. intros H; inversion H; subst. apply Hd in H3. discriminate.
Qed.

Theorem key_eq_cmp sh a b : kdom sh a -> kdom sh b -> (key_eq a b = true <-> key_cmp a b = 0).
Proof.
  intros Ha Hb. rewrite (key_eq_iff a b (proj1 Ha) (proj1 Hb)). symmetry. now apply key_cmp_zero_iff with sh.
Qed.

(** strict total order *)
Definition klt (a b : key) : Prop := key_lt a b = true.
Lemma klt_iff a b : klt a b <-> key_cmp a b < 0.
Proof. unfold klt, key_lt. apply Z.ltb_lt. Qed.

Theorem klt_irrefl sh a : kdom sh a -> ~ klt a a.
Proof.
  intros Ha H. apply klt_iff in H.
  assert (key_cmp a a = 0) by (apply (key_cmp_zero_iff sh); auto; apply key_same_refl). lia.
Qed.

Theorem klt_trans sh a b c : kdom sh a -> kdom sh b -> kdom sh c -> klt a b -> klt b c -> klt a c.
Proof.
  rewrite !klt_iff. intros Ha Hb Hc H1 H2.
  destruct (key_cmp_trans_le sh a b c Ha Hb Hc) as [L Z]; try lia.
Qed.

Theorem klt_asym sh a b : kdom sh a -> kdom sh b -> klt a b -> ~ klt b a.
Proof.
  rewrite !klt_iff. intros Ha Hb H1 H2. pose proof (key_cmp_antisym sh a b Ha Hb) as H.
  apply sgn_neg_iff in H1, H2. lia.
Qed.

(** trichotomy: exactly one of a<b, a~b, b<a *)
Theorem klt_total sh a b : kdom sh a -> kdom sh b -> klt a b \/ key_same a b \/ klt b a.
Proof.
  intros Ha Hb. rewrite !klt_iff, <- (key_cmp_zero_iff sh a b Ha Hb).
  pose proof (key_cmp_antisym sh a b Ha Hb) as H.
  destruct (Z.lt_trichotomy (key_cmp a b) 0) as [L|[E|G]]; [auto|auto|].
  right; right. apply sgn_neg_iff. rewrite H. apply Z.sgn_pos in G. lia.
Qed.

Theorem klt_not_same sh a b : kdom sh a -> kdom sh b -> klt a b -> ~ key_same a b.
Proof. intros Ha Hb H S. apply klt_iff in H. apply (key_cmp_zero_iff sh a b Ha Hb) in S. lia. Qed.

(** less-then-same and same-then-less compose to less *)
Lemma klt_same_r sh a b c : kdom sh a -> kdom sh b -> kdom sh c -> klt a b -> key_same b c -> klt a c.
Proof.
  rewrite !klt_iff. intros Ha Hb Hc H1 H2. apply (key_cmp_zero_iff sh b c Hb Hc) in H2.
  destruct (key_cmp_trans_le sh a b c Ha Hb Hc) as [L Z]; try lia.
Qed.
Lemma klt_same_l sh a b c : kdom sh a -> kdom sh b -> kdom sh c -> key_same a b -> klt b c -> klt a c.
Proof.
  rewrite !klt_iff. intros Ha Hb Hc H1 H2. apply (key_cmp_zero_iff sh a b Ha Hb) in H1.
  destruct (key_cmp_trans_le sh a b c Ha Hb Hc) as [L Z]; try lia.
Qed.

(** * (c) sort.Sort: insertion sort as representative *)
Lemma insert_key_perm k l : Permutation (k :: l) (insert_key k l).
Proof.
  induction l as [|h t IH]; simpl; [reflexivity|].
  destruct (key_lt h k); [|reflexivity].
  eapply perm_trans; [apply perm_swap|apply perm_skip; exact IH].
Qed.

Theorem sort_keys_perm l : Permutation l (sort_keys l).
Proof.
  induction l as [|a l IH]; simpl; [constructor|].
  eapply perm_trans; [apply perm_skip; exact IH|apply insert_key_perm].
Qed.

Lemma insert_key_in k l x : In x (insert_key k l) -> x = k \/ In x l.
Proof.
  intros H. apply (Permutation_in _ (Permutation_sym (insert_key_perm k l))) in H.
  destruct H; auto.
Qed.

(** pairwise distinct keys: no two rows denote the same key *)
Definition distinct_keys (l : list key) : Prop := ForallOrdPairs (fun a b => ~ key_same a b) l.

Lemma insert_key_sorted sh k s : kdom sh k -> Forall (kdom sh) s ->
  Forall (fun x => ~ key_same k x) s -> StronglySorted klt s -> StronglySorted klt (insert_key k s).
Proof.
  intros Hk. induction s as [|h t IH]; intros Hd Hn Hs; simpl.
  - constructor; constructor.
  - inversion Hd as [|? ? Hh Hd']; inversion Hn as [|? ? Nh Hn']; inversion Hs as [|? ? Hs' Hlt]; subst.
    destruct (key_lt h k) eqn:E.
    + constructor; [apply IH; assumption|].
      apply Forall_forall. intros x Hx. apply insert_key_in in Hx as [->|Hx]; [exact E|].
      rewrite Forall_forall in Hlt; auto.
    + assert (L : klt k h).
      { destruct (klt_total sh k h Hk Hh) as [L|[S|G]]; [exact L|contradiction|unfold klt in G; congruence]. }
      constructor; [exact Hs|]. constructor; [exact L|].
      rewrite Forall_forall in *. intros x Hx. apply (klt_trans sh k h x); auto.
Qed.

Theorem sort_keys_sorted sh l : Forall (kdom sh) l -> distinct_keys l -> StronglySorted klt (sort_keys l).
Proof.
  induction l as [|a l IH]; intros Hd Hn; simpl; [constructor|].
  inversion Hd as [|? ? Ha Hd']; subst. inversion Hn as [|? ? Na Hn']; subst.
  apply (insert_key_sorted sh); auto.
  - eapply Permutation_Forall; [apply sort_keys_perm|exact Hd'].
  - eapply Permutation_Forall; [apply sort_keys_perm|exact Na].
Qed.

(** * (d) lookups *)
Lemma sorted_nth_lt s : StronglySorted klt s ->
  forall i j, (i < j < length s)%nat -> klt (nth i s []) (nth j s []).
Proof.
  induction 1 as [|a l Hs IH Hall]; intros i j Hij; simpl in *; [lia|].
  destruct i, j; try lia.
  - rewrite Forall_forall in Hall. apply Hall. apply nth_In. lia.
  - apply IH. lia.
Qed.

Definition ge_key (s : list key) (k : key) (i : nat) : bool := negb (key_cmp (nth i s []) k <? 0).

Lemma ge_key_monotone sh s k : StronglySorted klt s -> Forall (kdom sh) s -> kdom sh k ->
  monotone_on (length s) (ge_key s k).
Proof.
  intros Hs Hd Hk i j Hij Hj Fi. unfold ge_key in *.
  destruct (Nat.eq_dec i j) as [->|N]; [exact Fi|].
  destruct (Z.ltb_spec (key_cmp (nth j s []) k) 0) as [L|]; [|reflexivity]. exfalso.
  rewrite Forall_forall in Hd.
  assert (klt (nth i s []) k).
  { apply (klt_trans sh _ (nth j s [])); auto; try (apply Hd, nth_In; lia).
    - apply sorted_nth_lt; auto; lia.
    - now apply klt_iff. }
  apply klt_iff in H. apply negb_true_iff, Z.ltb_ge in Fi. lia.
Qed.

Lemma sorted_find_sound s k i : sorted_find s k = Some i ->
  exists r, nth_error s i = Some r /\ key_eq r k = true.
Proof.
  unfold sorted_find. set (found := go_search _ _).
  destruct (nth_error s found) as [r|] eqn:E; [|discriminate].
  destruct (key_eq r k) eqn:K; [|discriminate].
  intros H; inversion H; subst. eauto.
Qed.

Lemma sorted_find_complete sh s k i r : StronglySorted klt s -> Forall (kdom sh) s -> kdom sh k ->
  nth_error s i = Some r -> key_same r k -> sorted_find s k = Some i.
Proof.
  intros Hs Hd Hk Hi Hr. unfold sorted_find.
  change (fun i0 => negb (key_cmp (nth i0 s []) k <? 0)) with (ge_key s k).
  destruct (go_search_spec (length s) (ge_key s k) (ge_key_monotone sh s k Hs Hd Hk)) as [A [B [C D]]].
  set (found := go_search (length s) (ge_key s k)) in *.
  assert (Li : (i < length s)%nat) by (apply nth_error_Some; congruence).
  assert (Ni : nth i s [] = r) by (apply nth_error_nth; exact Hi).
  pose proof Hd as Hd'. rewrite Forall_forall in Hd'.
  assert (Dr : kdom sh r) by (apply Hd'; eapply nth_error_In; eauto).
  assert (Fi : ge_key s k i = true).
  { unfold ge_key. rewrite Ni. apply (key_cmp_zero_iff sh r k Dr Hk) in Hr. rewrite Hr. reflexivity. }
  assert (Le : (found <= i)%nat) by (apply D; assumption).
  assert (found = i) as ->.
  { destruct (Nat.eq_dec found i) as [E|N]; [exact E|exfalso].
    assert (Ff : ge_key s k found = true) by (apply C; lia).
    assert (klt (nth found s []) k).
    { apply (klt_same_r sh _ r); auto; [apply Hd', nth_In; lia|].
      rewrite <- Ni. apply sorted_nth_lt; auto; lia. }
    apply klt_iff in H. unfold ge_key in Ff. apply negb_true_iff, Z.ltb_ge in Ff. lia. }
  rewrite Hi. apply (key_eq_iff r k (proj1 Dr) (proj1 Hk)) in Hr. rewrite Hr. reflexivity.
Qed.

(** MAIN: the Reflect list lookup (nodeutil/reflect.go: buildKeys + sliceSorter.find) returns
    exactly the row whose key denotes the requested key *)
Theorem reflect_find_correct sh rows k : Forall (kdom sh) rows -> kdom sh k -> distinct_keys rows ->
  (forall r, reflect_find rows k = Some r <-> In r rows /\ key_same r k) /\
  (reflect_find rows k = None <-> forall r, In r rows -> ~ key_same r k).
Proof.
  intros Hd Hk Hn.
  pose proof (sort_keys_perm rows) as P.
  pose proof (sort_keys_sorted sh rows Hd Hn) as Hs.
  assert (Hd' : Forall (kdom sh) (sort_keys rows)) by (eapply Permutation_Forall; eauto).
  assert (M : forall r, reflect_find rows k = Some r <-> In r rows /\ key_same r k).
  { intros r. unfold reflect_find. split.
    - destruct (sorted_find (sort_keys rows) k) as [i|] eqn:F; [|discriminate].
      intros Hi. destruct (sorted_find_sound _ _ _ F) as [r' [Hr' Ke]].
      rewrite Hi in Hr'; inversion Hr'; subst r'.
      assert (Ir : In r (sort_keys rows)) by (eapply nth_error_In; eauto).
      split; [apply (Permutation_in _ (Permutation_sym P)); exact Ir|].
      rewrite Forall_forall in Hd'. apply key_eq_iff; [apply Hd'; exact Ir|apply Hk|exact Ke].
    - intros [Ir Sr]. apply (Permutation_in _ P) in Ir.
      destruct (In_nth_error _ _ Ir) as [i Hi].
      rewrite (sorted_find_complete sh _ k i r Hs Hd' Hk Hi Sr). exact Hi. }
  split; [exact M|]. split.
  - intros N r Ir Sr. assert (reflect_find rows k = Some r) by (apply M; auto). congruence.
  - intros N. destruct (reflect_find rows k) as [r|] eqn:E; [|reflexivity].
    destruct (proj1 (M r) eq_refl) as [Ir Sr]. exfalso. exact (N r Ir Sr).
Qed.

(** ** nodeutil/node_slice.go findByKey: linear scan with Go interface equality *)
Definition linear_lookup (rows : list key) (k : key) : option key :=
  match linear_find rows k O with Some i => nth_error rows i | None => None end.

Lemma linear_find_find rows k : forall n,
  match linear_find rows k n with
  | Some i => (n <= i)%nat /\ nth_error rows (i - n) = find (fun r => keys_ifeq r k) rows
              /\ find (fun r => keys_ifeq r k) rows <> None
  | None => find (fun r => keys_ifeq r k) rows = None
  end.
Proof.
  induction rows as [|h t IH]; intros n; simpl; [reflexivity|].
  destruct (keys_ifeq h k) eqn:E.
  - split; [lia|]. rewrite Nat.sub_diag. simpl. split; [reflexivity|discriminate].
  - specialize (IH (S n)). destruct (linear_find t k (S n)) as [i|]; [|exact IH].
    destruct IH as [A [B C]]. split; [lia|]. split; [|exact C].
    replace (i - n)%nat with (S (i - S n)) by lia. exact B.
Qed.

Lemma linear_lookup_find rows k : linear_lookup rows k = find (fun r => keys_ifeq r k) rows.
Proof.
  unfold linear_lookup. pose proof (linear_find_find rows k O) as H.
  destruct (linear_find rows k 0) as [i|]; [|symmetry; exact H].
  destruct H as [_ [B _]]. now rewrite Nat.sub_0_r in B.
Qed.

Lemma iface_eqb_same x y : iface_eqb x y = true -> same_denotation x y.
Proof.
  destruct x, y; simpl; try discriminate.
  - intros H. apply andb_true_iff in H as [F E]. apply fmt_eqb_eq in F. apply Z.eqb_eq in E. auto.
  - intros H. apply Z.eqb_eq in H. unfold dec_cmp in H. cbv zeta in *. exact (proj1 (cmp3_eq _ _) H).
  - intros H. apply Z.eqb_eq in H. now apply lex_cmp_eq.
  - apply eqb_prop.
  - intros H. apply andb_true_iff in H as [E _]. now apply Z.eqb_eq in E.
  - intros H. apply Z.eqb_eq in H. now apply lex_cmp_eq.
Qed.

Lemma keys_ifeq_same a b : keys_ifeq a b = true -> key_same a b.
Proof.
  unfold key_same. revert b; induction a as [|x a IH]; intros [|y b]; simpl; try discriminate.
  - constructor.
  - intros H. apply andb_true_iff in H as [H1 H2]. constructor; [now apply iface_eqb_same|auto].
Qed.

(** the two Go values are identical whenever they denote the same: no []byte (not comparable in
    Go), and enum labels agree (they do when both come from one enumeration type) *)
Definition go_identical_v (x y : value) : Prop :=
  match x, y with
  | VBin _, _ | _, VBin _ => False
  | VEnum _ la, VEnum _ lb => la = lb
  | _, _ => True
  end.
Definition go_identical (a b : key) : Prop := Forall2 go_identical_v a b.

Lemma same_iface_eqb x y : same_denotation x y -> go_identical_v x y -> iface_eqb x y = true.
Proof.
  destruct x, y; simpl; try tauto.
  - intros [-> ->] _. now rewrite fmt_eqb_refl, Z.eqb_refl.
  - intros H _. unfold dec_cmp. cbv zeta in *. apply Z.eqb_eq. exact (proj2 (cmp3_eq _ _) H).
  - intros -> _. apply Z.eqb_eq. now apply lex_cmp_eq.
  - intros -> _. apply eqb_reflx.
  - intros -> ->. rewrite Z.eqb_refl. apply Z.eqb_eq. now apply lex_cmp_eq.
  - intros -> _. apply Z.eqb_eq. now apply lex_cmp_eq.
Qed.

Lemma keys_ifeq_iff a b : keys_ifeq a b = true <-> key_same a b /\ go_identical a b.
Proof.
  unfold key_same, go_identical. revert b; induction a as [|x a IH]; intros [|y b]; simpl.
  - split; [split; constructor|reflexivity].
  - split; [discriminate|intros [H _]; inversion H].
  - split; [discriminate|intros [H _]; inversion H].
  - rewrite andb_true_iff, IH. split.
    + intros [H1 [H2 H3]]. pose proof (iface_eqb_same _ _ H1) as S.
      split; constructor; auto.
      destruct x, y; simpl in *; try discriminate; auto.
      apply andb_true_iff in H1 as [_ L]. apply Z.eqb_eq in L. now apply lex_cmp_eq.
    + intros [H1 H2]. inversion H1; inversion H2; subst. split; [now apply same_iface_eqb|auto].
Qed.

Theorem linear_find_correct rows k : distinct_keys rows ->
  (forall r, linear_lookup rows k = Some r <-> In r rows /\ key_same r k /\ go_identical r k) /\
  (linear_lookup rows k = None <-> forall r, In r rows -> ~ (key_same r k /\ go_identical r k)).
Proof.
  intros Hn. rewrite linear_lookup_find.
  assert (M : forall r, find (fun r => keys_ifeq r k) rows = Some r <-> In r rows /\ keys_ifeq r k = true).
  { intros r. split; [intros H; apply find_some in H; exact H|]. intros [Ir Er].
    induction rows as [|h t IH]; [destruct Ir|]. simpl.
    inversion Hn as [|? ? Nh Hn']; subst.
    destruct (keys_ifeq h k) eqn:E.
    - destruct Ir as [->|Ir]; [reflexivity|]. exfalso.
      rewrite Forall_forall in Nh. apply (Nh r Ir).
      apply key_same_trans with k; [now apply keys_ifeq_same|apply key_same_sym; now apply keys_ifeq_same].
    - destruct Ir as [->|Ir]; [congruence|]. apply IH; auto. }
  split.
  - intros r. rewrite M, keys_ifeq_iff. tauto.
  - split.
    + intros N r Ir Sr. apply keys_ifeq_iff in Sr.
      pose proof (find_none _ _ N r Ir) as F. simpl in F. congruence.
    + intros N. destruct (find (fun r => keys_ifeq r k) rows) as [r|] eqn:E; [|reflexivity].
      destruct (proj1 (M r) eq_refl) as [Ir Er]. apply keys_ifeq_iff in Er. exfalso. exact (N r Ir Er).
Qed.

(** both lookups agree on keys identical as Go values *)
Corollary lookups_agree sh rows k : Forall (kdom sh) rows -> kdom sh k -> distinct_keys rows ->
  (forall r, In r rows -> key_same r k -> go_identical r k) ->
  linear_lookup rows k = reflect_find rows k.
Proof.
  intros Hd Hk Hn Hg.
  destruct (reflect_find_correct sh rows k Hd Hk Hn) as [R1 R2].
  destruct (linear_find_correct rows k Hn) as [L1 L2].
  destruct (reflect_find rows k) as [r|] eqn:E.
  - apply L1. destruct (proj1 (R1 r) eq_refl) as [Ir Sr]. auto.
  - apply L2. intros r Ir [Sr _]. exact (proj1 R2 eq_refl r Ir Sr).
Qed.

(** non-vacuity of the lookup theorems *)
Example lookup_hyps_met :
  let sh := [FUInt64; FString] in
  let rows := [[VInt FUInt64 18446744073709551615; VStr [x61]]; [VInt FUInt64 0; VStr []]] in
  let k := [VInt FUInt64 0; VStr []] in
  Forall (kdom sh) rows /\ kdom sh k /\ distinct_keys rows /\
  reflect_find rows k = Some k /\ linear_lookup rows k = Some k /\
  reflect_find rows [VInt FUInt64 7; VStr []] = None.
Proof.
  assert (W : forall z, 0 <= z < 18446744073709551616 -> wf_value (VInt FUInt64 z)).
  { intros z Hz. split; [right; reflexivity|]. unfold in_range; simpl. unfold in_u. simpl. lia. }
  assert (D : forall z s, 0 <= z < 18446744073709551616 -> kdom [FUInt64; FString] [VInt FUInt64 z; VStr s]).
  { intros z s Hz. split; [|reflexivity].
    apply Forall_cons; [apply W; exact Hz|apply Forall_cons; [exact I|apply Forall_nil]]. }
  cbv zeta. split; [apply Forall_cons; [apply D; lia|apply Forall_cons; [apply D; lia|apply Forall_nil]]|].
  split; [apply D; lia|].
  split.
  { constructor; [|constructor; constructor]. constructor; [|constructor].
    intros H. inversion H as [|? ? ? ? S _]; subst. simpl in S. destruct S as [_ S]. discriminate S. }
  split; [vm_compute; reflexivity|]. split; vm_compute; reflexivity.
Qed.
