(** Proofs about Val/Model.v: Compare is a three-way comparison that agrees with the denoted
    numbers/strings; Equal is the induced equivalence; CompareVals is lexicographic; the sorted
    index lookup and the linear lookup return exactly the entry with the requested key. *)
From Coq Require Import ZArith List Bool Lia Strings.Byte Sorting.Permutation Sorting.Sorted.
From YV Require Import Base.Wrap Val.Model.
Import ListNotations.
Open Scope Z_scope.

(** * cmp3 *)
Lemma cmp3_sgn a b : Z.sgn (cmp3 a b) = Z.sgn (a - b).
Proof. unfold cmp3. destruct (Z.ltb_spec a b); [|destruct (Z.ltb_spec b a)]; simpl; lia. Qed.
Lemma cmp3_range a b : cmp3 a b = -1 \/ cmp3 a b = 0 \/ cmp3 a b = 1.
Proof. unfold cmp3. destruct (a <? b); [|destruct (b <? a)]; auto. Qed.
Lemma cmp3_lt a b : cmp3 a b < 0 <-> a < b.
Proof. unfold cmp3. destruct (Z.ltb_spec a b); [|destruct (Z.ltb_spec b a)]; lia. Qed.
Lemma cmp3_eq a b : cmp3 a b = 0 <-> a = b.
Proof. unfold cmp3. destruct (Z.ltb_spec a b); [|destruct (Z.ltb_spec b a)]; lia. Qed.
Lemma cmp3_gt a b : 0 < cmp3 a b <-> b < a.
Proof. unfold cmp3. destruct (Z.ltb_spec a b); [|destruct (Z.ltb_spec b a)]; lia. Qed.

(** * The pinned-commit comparison: where it was right and where it was wrong *)
Lemma cmp_old_int32_ok a b : in_s 32 a -> in_s 32 b ->
  Z.sgn (cmp_old_int FInt32 a b) = Z.sgn (a - b).
Proof.
  unfold in_s; simpl; intros Ha Hb. unfold cmp_old_int.
  rewrite wraps_id; [reflexivity | lia | unfold in_s; simpl; lia].
Qed.
Example cmp_old_uint8_refuted : Z.sgn (cmp_old_int FUInt8 1 2) <> Z.sgn (1 - 2).
Proof. vm_compute. discriminate. Qed.
Example cmp_old_int8_refuted : Z.sgn (cmp_old_int FInt8 100 (-100)) <> Z.sgn (100 - -100).
Proof. vm_compute. discriminate. Qed.
Example cmp_old_int64_refuted :
  Z.sgn (cmp_old_int FInt64 9223372036854775807 (-1)) <> Z.sgn (9223372036854775807 - -1).
Proof. vm_compute. discriminate. Qed.
(** no unsigned comparison could ever report "less" *)
Lemma cmp_old_unsigned_never_negative f a b : is_unsigned f = true -> 0 <= cmp_old_int f a b.
Proof.
  intros Hf. destruct f; try discriminate Hf; unfold cmp_old_int;
  match goal with |- context [wrapu ?w ?z] =>
    pose proof (wrapu_range w z ltac:(simpl; lia)) as [H _] end;
  match goal with |- context [?c <? 0] => destruct (Z.ltb_spec c 0); [lia|] end;
  match goal with |- context [0 <? ?c] => destruct (0 <? c); lia end.
Qed.

(** * lex_cmp (strings.Compare, bytes.Compare) *)
Lemma byte_z_inj x y : byte_z x = byte_z y -> x = y.
Proof.
  unfold byte_z. intros H. apply N2Z.inj in H.
  pose proof (Byte.of_to_N x) as Hx. pose proof (Byte.of_to_N y) as Hy.
  rewrite H in Hx. rewrite Hx in Hy. congruence.
Qed.
Lemma lex_cmp_range a b : lex_cmp a b = -1 \/ lex_cmp a b = 0 \/ lex_cmp a b = 1.
Proof.
  revert b; induction a as [|x a IH]; intros [|y b]; simpl; auto.
  destruct (byte_z x <? byte_z y); auto. destruct (byte_z y <? byte_z x); auto.
Qed.
Lemma lex_cmp_eq a b : lex_cmp a b = 0 <-> a = b.
Proof.
  revert b; induction a as [|x a IH]; intros [|y b]; simpl; try (split; [lia|discriminate]); [tauto|].
  destruct (Z.ltb_spec (byte_z x) (byte_z y)); [split; [lia|intros E; inversion E; subst; lia]|].
  destruct (Z.ltb_spec (byte_z y) (byte_z x)); [split; [lia|intros E; inversion E; subst; lia]|].
  assert (x = y) by (apply byte_z_inj; lia). subst y. rewrite IH. split; congruence.
Qed.
Lemma lex_cmp_antisym a b : lex_cmp b a = - lex_cmp a b.
Proof.
  revert b; induction a as [|x a IH]; intros [|y b]; simpl; auto.
  destruct (Z.ltb_spec (byte_z x) (byte_z y)); destruct (Z.ltb_spec (byte_z y) (byte_z x)); try lia.
  apply IH.
Qed.
Lemma lex_cmp_trans a b c : lex_cmp a b < 0 -> lex_cmp b c < 0 -> lex_cmp a c < 0.
Proof.
  revert b c; induction a as [|x a IH]; intros [|y b] [|z c]; simpl; try lia.
  destruct (Z.ltb_spec (byte_z x) (byte_z y)); destruct (Z.ltb_spec (byte_z y) (byte_z z));
  destruct (Z.ltb_spec (byte_z x) (byte_z z)); try lia;
  destruct (Z.ltb_spec (byte_z y) (byte_z x)); destruct (Z.ltb_spec (byte_z z) (byte_z y));
  destruct (Z.ltb_spec (byte_z z) (byte_z x)); try lia.
  apply IH.
Qed.

(** * Decimal: comparison of m1*2^e1 and m2*2^e2 is independent of the common scale chosen *)
Lemma dec_cmp_scale m1 e1 m2 e2 E : E <= e1 -> E <= e2 ->
  Z.sgn (dec_cmp m1 e1 m2 e2) = Z.sgn (m1 * 2 ^ (e1 - E) - m2 * 2 ^ (e2 - E)).
Proof.
  intros H1 H2. unfold dec_cmp. rewrite cmp3_sgn.
  set (e := Z.min e1 e2).
  assert (He : E <= e) by (unfold e; lia).
  replace (e1 - E) with ((e1 - e) + (e - E)) by lia.
  replace (e2 - E) with ((e2 - e) + (e - E)) by lia.
  rewrite !Z.pow_add_r by (unfold e; lia).
  rewrite !Z.mul_assoc, <- Z.mul_sub_distr_r.
  rewrite Z.sgn_mul.
  assert (0 < 2 ^ (e - E)) by (apply Z.pow_pos_nonneg; lia).
  rewrite (Z.sgn_pos (2 ^ (e - E))) by lia. lia.
Qed.

(** * The specification side: what each value denotes and how denotations compare.
    Integers, enum ids: the number; strings, identity names, binary: the byte sequence;
    booleans: false < true; decimals: m * 2^e. [spec_sgn] is the sign (-1,0,1) the
    mathematical comparison has. *)
Definition wf_value (v : value) : Prop :=
  match v with
  | VInt f z => (is_signed f = true \/ is_unsigned f = true) /\ in_range f z
  | VEnum id _ => in_s 32 id          (* YANG enum values are int32 *)
  | _ => True
  end.

Definition spec_sgn (x y : value) : option Z :=
  match x, y with
  | VInt f a, VInt g b => if fmt_eqb f g then Some (Z.sgn (a - b)) else None
  | VDec m1 e1, VDec m2 e2 =>
      let E := Z.min e1 e2 in Some (Z.sgn (m1 * 2 ^ (e1 - E) - m2 * 2 ^ (e2 - E)))
  | VStr a, VStr b | VBin a, VBin b | VIdRef a, VIdRef b => Some (lex_cmp a b)
  | VBool a, VBool b => Some (Z.sgn (Z.b2z a - Z.b2z b))
  | VEnum a _, VEnum b _ => Some (Z.sgn (a - b))
  | _, _ => None
  end.

Lemma fmt_eqb_eq f g : fmt_eqb f g = true <-> f = g.
Proof. destruct f, g; simpl; split; intros; try discriminate; auto. Qed.
Lemma fmt_eqb_refl f : fmt_eqb f f = true.
Proof. destruct f; reflexivity. Qed.

(** Main scalar theorem: Compare has the sign of the mathematical comparison. *)
Theorem cmp_impl_sign x y :
  wf_value x -> wf_value y -> format_of x = format_of y ->
  exists c, cmp_impl x y = Some c /\ Some (Z.sgn c) = spec_sgn x y.
Proof.
  intros Hx Hy Hf.
  destruct x, y; simpl in Hf; try discriminate Hf; simpl;
    try (destruct Hx as [[Hs|Hs] ?]; subst; discriminate Hs);
    try (destruct Hy as [[Hs|Hs] ?]; subst; discriminate Hs).
  - subst. rewrite fmt_eqb_refl. eexists; split; [reflexivity|]. now rewrite cmp3_sgn.
  - eexists; split; [reflexivity|]. f_equal. apply dec_cmp_scale; lia.
  - eexists; split; [reflexivity|]. f_equal. destruct (lex_cmp_range s s0) as [H|[H|H]]; rewrite H; reflexivity.
  - eexists; split; [reflexivity|]. f_equal. destruct (lex_cmp_range s s0) as [H|[H|H]]; rewrite H; reflexivity.
  - eexists; split; [reflexivity|]. destruct b, b0; reflexivity.
  - eexists; split; [reflexivity|]. simpl in Hx, Hy. unfold in_s in *. simpl in Hx, Hy.
    rewrite wraps_id; [reflexivity|lia|unfold in_s; simpl; lia].
  - eexists; split; [reflexivity|]. f_equal. destruct (lex_cmp_range label label0) as [H|[H|H]]; rewrite H; reflexivity.
Qed.

(** The spec-level comparison is a consistent three-way comparison on each format. *)
Lemma spec_sgn_antisym x y c : spec_sgn x y = Some c -> spec_sgn y x = Some (- c).
Proof.
  destruct x, y; simpl; try discriminate.
  - destruct (fmt_eqb f f0) eqn:E; [|discriminate]. apply fmt_eqb_eq in E; subst. rewrite fmt_eqb_refl.
    intros H; inversion H. f_equal. replace (z0 - z) with (- (z - z0)) by lia. apply Z.sgn_opp.
  - intros H; inversion H. f_equal. rewrite (Z.min_comm e0 e).
    match goal with |- Z.sgn ?a = - Z.sgn ?b => replace a with (- b) by lia end. apply Z.sgn_opp.
  - intros H; inversion H. f_equal. apply lex_cmp_antisym.
  - intros H; inversion H. f_equal. apply lex_cmp_antisym.
  - intros H; inversion H. destruct b, b0; reflexivity.
  - intros H; inversion H. f_equal. replace (id0 - id) with (- (id - id0)) by lia. apply Z.sgn_opp.
  - intros H; inversion H. f_equal. apply lex_cmp_antisym.
Qed.

(** common-scale view of the decimal spec, used for transitivity *)
Lemma dec_spec_scale m1 e1 m2 e2 E : E <= e1 -> E <= e2 ->
  Z.sgn (m1 * 2 ^ (e1 - Z.min e1 e2) - m2 * 2 ^ (e2 - Z.min e1 e2))
  = Z.sgn (m1 * 2 ^ (e1 - E) - m2 * 2 ^ (e2 - E)).
Proof.
  intros. rewrite <- (dec_cmp_scale m1 e1 m2 e2 E) by lia.
  rewrite <- (dec_cmp_scale m1 e1 m2 e2 (Z.min e1 e2)) by lia. reflexivity.
Qed.

Lemma sgn_neg_iff z : Z.sgn z < 0 <-> z < 0. Proof. destruct z; simpl; lia. Qed.
Lemma sgn_zero_iff z : Z.sgn z = 0 <-> z = 0. Proof. destruct z; simpl; lia. Qed.

Lemma spec_sgn_trans_lt x y z a b :
  spec_sgn x y = Some a -> spec_sgn y z = Some b -> a < 0 -> b < 0 ->
  exists c, spec_sgn x z = Some c /\ c < 0.
Proof.
  destruct x, y; simpl; try discriminate; destruct z; simpl; try discriminate.
  - destruct (fmt_eqb f f0) eqn:E1; [|discriminate]. destruct (fmt_eqb f0 f1) eqn:E2; [|discriminate].
    apply fmt_eqb_eq in E1, E2; subst. rewrite fmt_eqb_refl.
    intros H1 H2; inversion H1; inversion H2; subst. intros Ha Hb.
    apply sgn_neg_iff in Ha, Hb. eexists; split; [reflexivity|]. apply sgn_neg_iff. lia.
  - intros H1 H2; inversion H1; inversion H2; subst; clear H1 H2. intros Ha Hb.
    set (E := Z.min e (Z.min e0 e1)).
    rewrite (dec_spec_scale _ _ _ _ E) in Ha by (unfold E; lia).
    rewrite (dec_spec_scale _ _ _ _ E) in Hb by (unfold E; lia).
    eexists; split; [reflexivity|].
    rewrite (dec_spec_scale _ _ _ _ E) by (unfold E; lia).
    apply sgn_neg_iff in Ha, Hb. apply sgn_neg_iff. lia.
  - intros H1 H2; inversion H1; inversion H2; subst. intros. eexists; split; [reflexivity|].
    eapply lex_cmp_trans; eauto.
  - intros H1 H2; inversion H1; inversion H2; subst. intros. eexists; split; [reflexivity|].
    eapply lex_cmp_trans; eauto.
  - intros H1 H2; inversion H1; inversion H2; subst. intros Ha Hb. eexists; split; [reflexivity|].
    destruct b0, b1, b2; simpl in *; lia.
  - intros H1 H2; inversion H1; inversion H2; subst. intros Ha Hb.
    apply sgn_neg_iff in Ha, Hb. eexists; split; [reflexivity|]. apply sgn_neg_iff. lia.
  - intros H1 H2; inversion H1; inversion H2; subst. intros. eexists; split; [reflexivity|].
    eapply lex_cmp_trans; eauto.
Qed.

(** [spec_sgn x y = Some 0] exactly when x and y denote the same thing *)
Definition same_denotation (x y : value) : Prop :=
  match x, y with
  | VInt f a, VInt g b => f = g /\ a = b
  | VDec m1 e1, VDec m2 e2 => let E := Z.min e1 e2 in m1 * 2 ^ (e1 - E) = m2 * 2 ^ (e2 - E)
  | VStr a, VStr b | VBin a, VBin b | VIdRef a, VIdRef b => a = b
  | VBool a, VBool b => a = b
  | VEnum a _, VEnum b _ => a = b
  | _, _ => False
  end.
Lemma spec_sgn_zero x y : spec_sgn x y = Some 0 <-> same_denotation x y.
Proof.
  destruct x, y; simpl; try (split; [discriminate|tauto]).
  - destruct (fmt_eqb f f0) eqn:E.
    + apply fmt_eqb_eq in E; subst. split.
      * intros H; inversion H as [H0]. apply sgn_zero_iff in H0. split; [reflexivity|lia].
      * intros [_ ->]. now rewrite Z.sub_diag.
    + split; [discriminate|]. intros [-> _]. now rewrite fmt_eqb_refl in E.
  - split.
    + intros H; inversion H as [H0]. apply sgn_zero_iff in H0. lia.
    + intros H. f_equal. apply sgn_zero_iff. lia.
  - rewrite <- lex_cmp_eq. split; [intros H; now inversion H|intros ->; reflexivity].
  - rewrite <- lex_cmp_eq. split; [intros H; now inversion H|intros ->; reflexivity].
  - split; [intros H; inversion H; destruct b, b0; simpl in *; try reflexivity; discriminate|intros ->; destruct b0; reflexivity].
  - split.
    + intros H; inversion H as [H0]. apply sgn_zero_iff in H0. lia.
    + intros ->. now rewrite Z.sub_diag.
  - rewrite <- lex_cmp_eq. split; [intros H; now inversion H|intros ->; reflexivity].
Qed.

(** * Equal *)
Theorem equal_impl_spec x y : wf_value x -> wf_value y ->
  exists b, equal_impl x y = Some b /\ (b = true <-> same_denotation x y).
Proof.
  intros Hx Hy. unfold equal_impl.
  destruct (fmt_eqb (format_of x) (format_of y)) eqn:E.
  - apply fmt_eqb_eq in E.
    destruct (cmp_impl_sign x y Hx Hy E) as [c [Hc Hs]]. rewrite Hc.
    eexists; split; [reflexivity|]. rewrite <- spec_sgn_zero, <- Hs.
    rewrite Z.eqb_eq. split; [intros ->; reflexivity|]. intros H. assert (H0 : Z.sgn c = 0) by congruence. now apply sgn_zero_iff.
  - eexists; split; [reflexivity|]. split; [discriminate|].
    intros Hd. exfalso. destruct x, y; simpl in *; try tauto; try discriminate E.
    destruct Hd as [-> _]. now rewrite fmt_eqb_refl in E.
Qed.

Lemma same_denotation_refl x : same_denotation x x.
Proof. destruct x; simpl; auto. Qed.
Lemma same_denotation_sym x y : same_denotation x y -> same_denotation y x.
Proof.
  destruct x, y; simpl; try tauto; try congruence.
  - intros [-> ->]; auto.
  - rewrite (Z.min_comm e0 e). congruence.
Qed.
Lemma same_denotation_trans x y z : same_denotation x y -> same_denotation y z -> same_denotation x z.
Proof.
  intros H1 H2. apply spec_sgn_zero. apply spec_sgn_zero in H1, H2.
  destruct x, y; simpl in H1; try discriminate; destruct z; simpl in H2; try discriminate; simpl.
  - destruct (fmt_eqb f f0) eqn:E1; [|discriminate]. destruct (fmt_eqb f0 f1) eqn:E2; [|discriminate].
    apply fmt_eqb_eq in E1, E2; subst. rewrite fmt_eqb_refl.
    injection H1 as A; injection H2 as B. apply sgn_zero_iff in A, B. f_equal. apply sgn_zero_iff. lia.
  - injection H1 as A; injection H2 as B. f_equal.
    set (E := Z.min e (Z.min e0 e1)).
    rewrite (dec_spec_scale _ _ _ _ E) in A by (unfold E; lia).
    rewrite (dec_spec_scale _ _ _ _ E) in B by (unfold E; lia).
    rewrite (dec_spec_scale _ _ _ _ E) by (unfold E; lia).
    apply sgn_zero_iff in A, B. apply sgn_zero_iff. lia.
  - injection H1 as A; injection H2 as B. apply lex_cmp_eq in A, B. subst. f_equal. now apply lex_cmp_eq.
  - injection H1 as A; injection H2 as B. apply lex_cmp_eq in A, B. subst. f_equal. now apply lex_cmp_eq.
  - injection H1 as A; injection H2 as B. destruct b, b0, b1; simpl in *; try reflexivity; discriminate.
  - injection H1 as A; injection H2 as B. apply sgn_zero_iff in A, B. f_equal. apply sgn_zero_iff. lia.
  - injection H1 as A; injection H2 as B. apply lex_cmp_eq in A, B. subst. f_equal. now apply lex_cmp_eq.
Qed.

(** * CompareVals is the lexicographic extension *)
Fixpoint spec_lex (a b : list value) : option Z :=
  match a, b with
  | [], [] => Some 0
  | x :: a', y :: b' =>
      match spec_sgn x y with
      | None => None
      | Some c => if c =? 0 then spec_lex a' b' else Some c
      end
  | _, _ => None
  end.

Definition wf_key (k : key) : Prop := Forall wf_value k.
Definition same_shape (a b : key) : Prop := map format_of a = map format_of b.

Theorem compare_vals_lex a b : wf_key a -> wf_key b -> same_shape a b ->
  exists c, compare_vals a b = Some c /\ Some (Z.sgn c) = spec_lex a b.
Proof.
  revert b; induction a as [|x a IH]; intros [|y b] Ha Hb Hs; try discriminate Hs.
  - exists 0; split; reflexivity.
  - inversion Ha as [|? ? Hx Ha']; inversion Hb as [|? ? Hy Hb']; subst.
    unfold same_shape in Hs; simpl in Hs. inversion Hs as [[Hf Hs']].
    destruct (cmp_impl_sign x y Hx Hy Hf) as [c [Hc Hsg]].
    simpl. rewrite Hc, <- Hsg.
    destruct (Z.ltb_spec c 0).
    + exists c; split; [reflexivity|]. destruct (Z.eqb_spec (Z.sgn c) 0) as [E|E]; [apply sgn_zero_iff in E; lia|reflexivity].
    + destruct (Z.ltb_spec 0 c).
      * exists c; split; [reflexivity|]. destruct (Z.eqb_spec (Z.sgn c) 0) as [E|E]; [apply sgn_zero_iff in E; lia|reflexivity].
      * assert (c = 0) by lia; subst c. simpl. apply IH; assumption.
Qed.

(** * Implementation-level order laws (corollaries of [cmp_impl_sign] and the spec laws) *)
Theorem cmp_impl_antisym x y : wf_value x -> wf_value y -> format_of x = format_of y ->
  exists c c', cmp_impl x y = Some c /\ cmp_impl y x = Some c' /\ Z.sgn c' = - Z.sgn c.
Proof.
  intros Hx Hy Hf.
  destruct (cmp_impl_sign x y Hx Hy Hf) as [c [Hc Hs]].
  destruct (cmp_impl_sign y x Hy Hx (eq_sym Hf)) as [c' [Hc' Hs']].
  exists c, c'. repeat split; try assumption.
  symmetry in Hs. apply spec_sgn_antisym in Hs. rewrite Hs in Hs'. congruence.
Qed.

Theorem cmp_impl_trans x y z : wf_value x -> wf_value y -> wf_value z ->
  format_of x = format_of y -> format_of y = format_of z ->
  forall a b, cmp_impl x y = Some a -> cmp_impl y z = Some b -> a < 0 -> b < 0 ->
  exists c, cmp_impl x z = Some c /\ c < 0.
Proof.
  intros Hx Hy Hz Hxy Hyz a b Ha Hb La Lb.
  destruct (cmp_impl_sign x y Hx Hy Hxy) as [a' [Ha' Hsa]].
  destruct (cmp_impl_sign y z Hy Hz Hyz) as [b' [Hb' Hsb]].
  destruct (cmp_impl_sign x z Hx Hz (eq_trans Hxy Hyz)) as [c [Hc Hsc]].
  rewrite Ha in Ha'; injection Ha' as <-. rewrite Hb in Hb'; injection Hb' as <-.
  symmetry in Hsa, Hsb.
  destruct (spec_sgn_trans_lt x y z _ _ Hsa Hsb) as [c' [Hc' Lc']];
    [apply sgn_neg_iff; lia | apply sgn_neg_iff; lia |].
  exists c; split; [assumption|]. rewrite Hc' in Hsc. injection Hsc as Hsc. apply sgn_neg_iff. lia.
Qed.

(** trichotomy: Compare returns 0 exactly on equal denotations, so exactly one of <,=,> holds *)
Theorem cmp_impl_zero_iff x y : wf_value x -> wf_value y -> format_of x = format_of y ->
  exists c, cmp_impl x y = Some c /\ (c = 0 <-> same_denotation x y).
Proof.
  intros Hx Hy Hf. destruct (cmp_impl_sign x y Hx Hy Hf) as [c [Hc Hs]].
  exists c; split; [assumption|]. rewrite <- spec_sgn_zero, <- Hs.
  split; [intros ->; reflexivity|]. intros H. assert (Z.sgn c = 0) by congruence. now apply sgn_zero_iff.
Qed.
