(** Executable model of val/types.go (Compare methods), val/util.go (Equal, EqualVals,
    CompareVals) and of the keyed lookups built on them:
      nodeutil/reflect.go   sliceSorter.{Less,find}, buildKeys (sort.Sort + sort.Search)
      nodeutil/node_slice.go sliceAsList.findByKey (linear scan, Go interface equality)
    Integers are Z; every Go fixed-width operation that can overflow is wrapped explicitly. *)
From Coq Require Import ZArith List Bool Lia Strings.Byte.
From YV Require Import Base.Wrap.
Import ListNotations.
Open Scope Z_scope.

Inductive fmt :=
| FInt8 | FInt16 | FInt32 | FInt64 | FUInt8 | FUInt16 | FUInt32 | FUInt64
| FDecimal64 | FString | FBinary | FBool | FEnum | FIdentRef.

Definition fmt_eqb (a b : fmt) : bool :=
  match a, b with
  | FInt8, FInt8 | FInt16, FInt16 | FInt32, FInt32 | FInt64, FInt64
  | FUInt8, FUInt8 | FUInt16, FUInt16 | FUInt32, FUInt32 | FUInt64, FUInt64
  | FDecimal64, FDecimal64 | FString, FString | FBinary, FBinary | FBool, FBool
  | FEnum, FEnum | FIdentRef, FIdentRef => true
  | _, _ => false
  end.

(** A typed value.  [VInt f z]: the integer formats, [z] the number held.
    [VDec m e]: a finite float64 denoting m * 2^e (harness: math.Frexp, bit exact).
    Strings are byte lists (Go strings are byte sequences; strings.Compare is bytewise). *)
Inductive value :=
| VInt (f : fmt) (z : Z)
| VDec (m e : Z)
| VStr (s : list byte)
| VBin (s : list byte)
| VBool (b : bool)
| VEnum (id : Z) (label : list byte)
| VIdRef (label : list byte).

Definition format_of (v : value) : fmt :=
  match v with
  | VInt f _ => f | VDec _ _ => FDecimal64 | VStr _ => FString | VBin _ => FBinary
  | VBool _ => FBool | VEnum _ _ => FEnum | VIdRef _ => FIdentRef
  end.

Definition is_signed (f : fmt) : bool :=
  match f with FInt8 | FInt16 | FInt32 | FInt64 => true | _ => false end.
Definition is_unsigned (f : fmt) : bool :=
  match f with FUInt8 | FUInt16 | FUInt32 | FUInt64 => true | _ => false end.
Definition width (f : fmt) : Z :=
  match f with
  | FInt8 | FUInt8 => 8 | FInt16 | FUInt16 => 16 | FInt32 | FUInt32 => 32 | _ => 64
  end.

(** the values a Go variable of the format's underlying type can hold *)
Definition in_range (f : fmt) (z : Z) : Prop :=
  if is_signed f then in_s (width f) z else in_u (width f) z.
Definition in_rangeb (f : fmt) (z : Z) : bool :=
  if is_signed f then in_sb (width f) z else in_ub (width f) z.

(** strings.Compare / bytes.Compare *)
Definition byte_z (b : byte) : Z := Z.of_N (Byte.to_N b).
Fixpoint lex_cmp (a b : list byte) : Z :=
  match a, b with
  | [], [] => 0
  | [], _ :: _ => -1
  | _ :: _, [] => 1
  | x :: a', y :: b' =>
      if byte_z x <? byte_z y then -1 else if byte_z y <? byte_z x then 1 else lex_cmp a' b'
  end.

(** three-way comparison as written in the repaired val/types.go (cmpInt64/cmpUint64 helpers):
      if a < b { return -1 }; if a > b { return 1 }; return 0 *)
Definition cmp3 (a b : Z) : Z := if a <? b then -1 else if b <? a then 1 else 0.

(** float64 subtraction sign for finite operands, computed exactly on m*2^e.
    Trusted fact (IEEE-754, gradual underflow): for finite x,y the float result x-y is <0, =0, >0
    exactly when the real difference is. *)
Definition dec_cmp (m1 e1 m2 e2 : Z) : Z :=
  let e := Z.min e1 e2 in
  cmp3 (m1 * 2 ^ (e1 - e)) (m2 * 2 ^ (e2 - e)).

(** ** Compare as the code stands (after commit "fix: val Compare ...").
    Enum.Compare is [x.Id - y.Id] on Go's 64-bit int. *)
Definition cmp_impl (x y : value) : option Z :=
  match x, y with
  | VInt f a, VInt g b => if fmt_eqb f g then Some (cmp3 a b) else None
  | VDec m1 e1, VDec m2 e2 => Some (dec_cmp m1 e1 m2 e2)
  | VStr a, VStr b => Some (lex_cmp a b)
  | VBin a, VBin b => Some (lex_cmp a b)
  | VBool a, VBool b => Some (if Bool.eqb a b then 0 else if a then 1 else -1)
  | VEnum a _, VEnum b _ => Some (wraps 64 (a - b))
  | VIdRef a, VIdRef b => Some (lex_cmp a b)
  | _, _ => None     (* failed type assertion: a Go panic *)
  end.

(** ** Compare as it was at the pinned commit (kept to state and prove what was wrong). *)
Definition cmp_old_int (f : fmt) (a b : Z) : Z :=
  match f with
  | FInt8 => wraps 8 (a - b)              (* int(int8(x) - int8(y)) *)
  | FInt16 => wraps 16 (a - b)
  | FInt32 => wraps 64 (a - b)            (* int(x) - int(y) on 64-bit int *)
  | FInt64 => let c := wraps 64 (a - b) in cmp3 c 0
  | FUInt8 | FUInt16 | FUInt32 | FUInt64 =>
      let c := wrapu (width f) (a - b) in
      if c <? 0 then -1 else if 0 <? c then 1 else 0
  | _ => 0
  end.

(** ** val.Equal on two non-nil scalar values *)
Definition equal_impl (x y : value) : option bool :=
  if fmt_eqb (format_of x) (format_of y)
  then match cmp_impl x y with Some c => Some (c =? 0) | None => None end
  else Some false.

(** ** val.CompareVals: panics (None) when [b] is shorter than [a] or formats differ *)
Fixpoint compare_vals (a b : list value) : option Z :=
  match a with
  | [] => Some 0
  | x :: a' =>
      match b with
      | [] => None
      | y :: b' =>
          match cmp_impl x y with
          | None => None
          | Some c => if c <? 0 then Some c else if 0 <? c then Some c else compare_vals a' b'
          end
      end
  end.

Fixpoint equal_vals (a b : list value) : option bool :=
  match a, b with
  | [], [] => Some true
  | x :: a', y :: b' =>
      match equal_impl x y with
      | None => None
      | Some false => Some false
      | Some true => equal_vals a' b'
      end
  | _, _ => Some false
  end.

(** ** sort.Search, transcribed:
      i, j := 0, n; for i < j { h := (i+j)/2; if !f(h) { i = h+1 } else { j = h } }; return i *)
Fixpoint search_loop (fuel : nat) (f : nat -> bool) (i j : nat) : nat :=
  match fuel with
  | O => i
  | S fuel' =>
      if Nat.ltb i j then
        let h := Nat.div (i + j) 2 in
        if f h then search_loop fuel' f i h else search_loop fuel' f (S h) j
      else i
  end.
Definition go_search (n : nat) (f : nat -> bool) : nat := search_loop (S n) f 0 n.

(** keys of a list: tuples of values.  [key_lt]: sliceSorter.Less *)
Definition key := list value.
Definition key_cmp (a b : key) : Z := match compare_vals a b with Some c => c | None => 0 end.
Definition key_lt (a b : key) : bool := key_cmp a b <? 0.
Definition key_eq (a b : key) : bool := match equal_vals a b with Some c => c | None => false end.

(** sort.Sort abstracted: any sorting algorithm yields *the* sorted permutation when keys are
    pairwise distinct under a strict total order; insertion sort is the executable representative. *)
Fixpoint insert_key (k : key) (l : list key) : list key :=
  match l with
  | [] => [k]
  | h :: t => if key_lt h k then h :: insert_key k t else k :: l
  end.
Definition sort_keys (l : list key) : list key := fold_right insert_key [] l.

(** sliceSorter.find on the sorted index: position in the sorted slice, or None *)
Definition sorted_find (sorted : list key) (k : key) : option nat :=
  let found := go_search (length sorted) (fun i => negb (key_cmp (nth i sorted []) k <? 0)) in
  match nth_error sorted found with
  | Some k' => if key_eq k' k then Some found else None
  | None => None
  end.

(** Reflect list lookup: build sorted index, search; the answer is the key found (projection) *)
Definition reflect_find (entries : list key) (k : key) : option key :=
  let s := sort_keys entries in
  match sorted_find s k with Some i => nth_error s i | None => None end.

(** sliceAsList.findByKey: first row whose key leaves are all Go-interface-equal to the target.
    Interface equality on the unwrapped Go values = same dynamic type and same value. *)
Definition bytes_eqb (a b : list byte) : bool := lex_cmp a b =? 0.
Definition iface_eqb (x y : value) : bool :=
  match x, y with
  | VInt f a, VInt g b => fmt_eqb f g && (a =? b)
  | VDec m1 e1, VDec m2 e2 => dec_cmp m1 e1 m2 e2 =? 0
  | VStr a, VStr b => bytes_eqb a b
  | VBool a, VBool b => Bool.eqb a b
  | VEnum a la, VEnum b lb => (a =? b) && bytes_eqb la lb   (* struct equality: Id and Label *)
  | VIdRef a, VIdRef b => bytes_eqb a b
  | _, _ => false
  end.
Fixpoint keys_ifeq (a b : key) : bool :=
  match a, b with
  | [], [] => true
  | x :: a', y :: b' => iface_eqb x y && keys_ifeq a' b'
  | _, _ => false
  end.
Fixpoint linear_find (rows : list key) (k : key) (row : nat) : option nat :=
  match rows with
  | [] => None
  | r :: tl => if keys_ifeq r k then Some row else linear_find tl k (S row)
  end.
