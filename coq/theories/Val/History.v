(** C17, history-dependent keyed lookup: ONE live Reflect list node (nodeutil/reflect.go listSlice)
    serving a stream of keyed lookups, keyed deletes and inserts.  The node keeps the slice [v] and a
    cached sorted key index [entries] in its closure; the index is built on the first keyed request,
    kept across lookups, and discarded by every operation that moves rows (New: append; Delete:
    compaction).  Model only - proofs are in Val/HistoryProofs.v. *)
From Coq Require Import ZArith List Bool Arith Strings.Byte.
From YV Require Import Base.Wrap Val.Model Val.Proofs.
Import ListNotations.
Open Scope Z_scope.

(** a row: its key leaves and a payload tag (leaf v) *)
Definition row := (key * Z)%type.
(** sliceEntry: key and row position (the cached node addresses the slot at [pos]) *)
Definition entry := (key * nat)%type.

Record lstate := mk_lstate { ls_rows : list row; ls_idx : option (list entry) }.

(** buildKeys: one entry per row in row order, then sort.Sort by sliceSorter.Less *)
Fixpoint enum_keys (pos : nat) (rows : list row) : list entry :=
  match rows with
  | [] => []
  | r :: tl => (fst r, pos) :: enum_keys (S pos) tl
  end.
Fixpoint insert_entry (e : entry) (l : list entry) : list entry :=
  match l with
  | [] => [e]
  | h :: t => if key_lt (fst h) (fst e) then h :: insert_entry e t else e :: l
  end.
Definition sort_entries (l : list entry) : list entry := fold_right insert_entry [] l.
Definition build_keys (rows : list row) : list entry := sort_entries (enum_keys O rows).

(** sliceSorter.find: sort.Search on the index, then EqualVals; answer = row position *)
Definition entries_find (idx : list entry) (k : key) : option nat :=
  let found := go_search (length idx) (fun i => negb (key_cmp (fst (nth i idx ([], O))) k <? 0)) in
  match nth_error idx found with
  | Some e => if key_eq (fst e) k then Some (snd e) else None
  | None => None
  end.

(** `if entries == nil { entries = buildKeys(...) }` *)
Definition ensure_idx (s : lstate) : list entry :=
  match ls_idx s with Some e => e | None => build_keys (ls_rows s) end.

Fixpoint set_tag (pos : nat) (t : Z) (rows : list row) {struct rows} : list row :=
  match rows, pos with
  | [], _ => []
  | r :: tl, O => (fst r, t) :: tl
  | r :: tl, S p => r :: set_tag p t tl
  end.
(** reflect.AppendSlice(v.Slice(0,i), v.Slice(i+1,len)) *)
Definition remove_at (pos : nat) (rows : list row) : list row := firstn pos rows ++ skipn (S pos) rows.

(** requests through the one list node:
    HFind k t   : ListRequest{Key:k}; when a node comes back, leaf v of THAT node is set to t
    HDel k      : ListRequest{Key:k, Delete:true}
    HUpsert k t : the editor's upsert of one row: ListRequest{Key:k}; found -> leaves written into it;
                  not found -> ListRequest{New:true, Key:k}, leaves written into the appended row *)
Inductive hop := HFind (k : key) (t : Z) | HDel (k : key) | HUpsert (k : key) (t : Z).

(** one request; the Z is what the lookup answered: 1 a node, 0 nil (always 0 for HDel/HUpsert) *)
Definition hstep (s : lstate) (o : hop) : lstate * Z :=
  let rows := ls_rows s in
  let e := ensure_idx s in
  match o with
  | HFind k t =>
      match entries_find e k with
      | Some pos => (mk_lstate (set_tag pos t rows) (Some e), 1)
      | None => (mk_lstate rows (Some e), 0)
      end
  | HDel k =>
      match entries_find e k with
      | Some pos => (mk_lstate (remove_at pos rows) None, 0)
      | None => (mk_lstate rows (Some e), 0)
      end
  | HUpsert k t =>
      match entries_find e k with
      | Some pos => (mk_lstate (set_tag pos t rows) (Some e), 0)
      | None => (mk_lstate (rows ++ [(k, t)]) None, 0)
      end
  end.

(** the observable trace: after each request, the answer code and the rows of the slice *)
Fixpoint hrun (s : lstate) (ops : list hop) : list (Z * list row) :=
  match ops with
  | [] => []
  | o :: tl => let '(s', c) := hstep s o in (c, ls_rows s') :: hrun s' tl
  end.
Definition hist_impl (rows : list row) (ops : list hop) : list (Z * list row) :=
  hrun (mk_lstate rows None) ops.

(** * Specification, written without index, positions or cache: a request for key k concerns
    exactly the rows whose key leaves denote k *)
Definition key_sameb (a b : key) : bool := match spec_lex a b with Some 0 => true | _ => false end.
Definition has_key (rows : list row) (k : key) : bool := existsb (fun r => key_sameb (fst r) k) rows.
Definition retag (k : key) (t : Z) (rows : list row) : list row :=
  map (fun r => if key_sameb (fst r) k then (fst r, t) else r) rows.
Definition spec_hstep (rows : list row) (o : hop) : Z * list row :=
  match o with
  | HFind k t => (if has_key rows k then 1 else 0, retag k t rows)
  | HDel k => (0, filter (fun r => negb (key_sameb (fst r) k)) rows)
  | HUpsert k t => (0, if has_key rows k then retag k t rows else rows ++ [(k, t)])
  end.
Fixpoint hist_spec (rows : list row) (ops : list hop) : list (Z * list row) :=
  match ops with
  | [] => []
  | o :: tl => let r := spec_hstep rows o in r :: hist_spec (snd r) tl
  end.

Definition hop_key (o : hop) : key := match o with HFind k _ | HDel k | HUpsert k _ => k end.
