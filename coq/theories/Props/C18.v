(** C18 - Delete and replace remove exactly the addressed subtree; list keys stay unique.
    Theorem-only file.  Model and spec: Tree/Delete.v; proofs: Tree/DeleteProofs.v. *)
From Coq Require Import ZArith List Bool Arith Strings.Byte.
From YV Require Import Val.Model Tree.Schema Tree.Editor Tree.Merge Tree.EditorProofs Tree.Delete Tree.DeleteProofs.
From YV Require Import Tree.InsertUpdateProofs Tree.KeyEquiv Tree.KeysUniqueProofs Tree.DeleteSpecProofs Tree.DeleteExamples.
Import ListNotations.

Theorem C18_delete_exact : forall kids tgt i r,
  apply_op kids tgt (OpDeleteKid i) = Ok r -> (i < length tgt)%nat ->
  nth i r None = None /\ (forall j, j <> i -> nth j r None = nth j tgt None) /\ length r = length tgt.
Proof. exact delete_kid_exact. Qed.
Print Assumptions C18_delete_exact.

Theorem C18_delete_entry_exact : forall keys key rows,
  rows_unique keys rows = true -> key_usable key = true ->
  (forall a b, key_eqb a key = true -> key_eqb b key = true -> key_eqb b a = true) ->
  (forall r, In r rows -> key_eqb (row_key keys r) key = true -> key_usable (row_key keys r) = true) ->
  remove_row keys key rows = filter (fun r => negb (key_eqb (row_key keys r) key)) rows.
Proof. exact remove_row_filter. Qed.
Print Assumptions C18_delete_entry_exact.

Theorem C18_deleted_entry_not_found : forall keys key rows i,
  find_row keys key (filter (fun r => negb (key_eqb (row_key keys r) key)) rows) i = None.
Proof. exact find_row_none_after_filter. Qed.

Theorem C18_replace_exact : forall kids src tgt i k sd r,
  forallb wf_schema kids = true -> forallb choice_free kids = true ->
  shaped_kids shaped kids src = true -> shaped_kids shaped kids tgt = true ->
  nth_error kids i = Some k -> is_leaf k = false -> nth i src None = Some sd ->
  apply_op kids tgt (OpReplaceKid i src) = Ok r ->
  nth i r None = Some (merge_one k sd (empty_node k) true).
Proof. exact replace_kid_exact. Qed.
Print Assumptions C18_replace_exact.

(** full statement of the uniqueness part, over every history of operations (decided per step by
    the check's oracle [keys_unique_content]; see the evidence theorem list for what is proved) *)
Definition C18_keys_unique_full_statement : Prop := forall kids ops tgt r,
  forallb wf_schema kids = true -> forallb choice_free kids = true ->
  shaped_kids shaped kids tgt = true -> keys_unique_content kids tgt = true ->
  fold_left (fun acc o => match acc with Ok t => apply_op kids t o | Err e => Err e end) ops (Ok tgt) = Ok r ->
  keys_unique_content kids r = true.

Example C18_example :
  let leaf n := SLeaf (mkMeta [n] [] true [] None) (TInt FInt32) false None in
  let row := SCont (mkMeta [] [] true [] None) [leaf x6b; leaf x76] in
  let kids := [SList (mkMeta [x71] [] true [] None) [0%nat] row] in
  let e k v := DCont [Some (DLeaf (LV (VInt FInt32 k))); Some (DLeaf (LV (VInt FInt32 v)))] in
  let key k := [Some (DLeaf (LV (VInt FInt32 k)))] in
  apply_op kids [Some (DList [e 1 10; e 2 20; e 3 30])%Z] (OpDeleteRow 0 (key 2%Z)) = Ok [Some (DList [e 1 10; e 3 30])%Z]
  /\ keys_unique_content kids [Some (DList [e 1 10; e 3 30])%Z] = true.
Proof. vm_compute. split; reflexivity. Qed.

(** * key uniqueness over every history (proofs: Tree/KeyEquiv.v, Tree/KeysUniqueProofs.v)

    [C18_keys_unique_full_statement] as written above is FALSE: a key leaf with a schema default lets
    an upsert create two rows with the default as key ([C18_keys_unique_full_statement_false];
    data: Tree/DeleteExamples.v [default_key_breaks_uniqueness]).  It holds once key positions are
    leaves without default ([keys_ok true]) and the data the operations bring is shaped like the
    schema ([op_src_ok]); neither distinct source keys nor well-formed key values are needed. *)
Theorem C18_keys_unique_full_statement_false : ~ C18_keys_unique_full_statement.
Proof. exact unique_history_needs_no_key_default. Qed.
Print Assumptions C18_keys_unique_full_statement_false.

Theorem C18_keys_unique_partial : forall kids ops tgt r,
  forallb wf_schema kids = true -> forallb choice_free kids = true -> forallb (keys_ok true) kids = true ->
  forallb (op_src_ok kids) ops = true ->
  shaped_kids shaped kids tgt = true -> keys_unique_content kids tgt = true ->
  fold_left (fun acc o => match acc with Ok t => apply_op kids t o | Err e => Err e end) ops (Ok tgt) = Ok r ->
  shaped_kids shaped kids r = true /\ keys_unique_content kids r = true.
Proof. exact keys_unique_history. Qed.
Print Assumptions C18_keys_unique_partial.

(** per operation *)
Theorem C18_op_preserves_keys_unique : forall kids,
  forallb wf_schema kids = true -> forallb choice_free kids = true -> forallb (keys_ok true) kids = true ->
  forall tgt o r, op_src_ok kids o = true ->
  shaped_kids shaped kids tgt = true /\ keys_unique_content kids tgt = true ->
  apply_op kids tgt o = Ok r ->
  shaped_kids shaped kids r = true /\ keys_unique_content kids r = true.
Proof. exact apply_op_preserves. Qed.
Print Assumptions C18_op_preserves_keys_unique.

(** the keyed deep merge never creates a duplicate (whatever the source's keys) *)
Theorem C18_merge_keeps_keys_unique : forall s, wf_schema s = true -> keys_ok true s = true ->
  forall src tgt c, shaped s src = true -> shaped s tgt = true -> keys_unique s tgt = true ->
  keys_unique s (merge_one s src tgt c) = true.
Proof. exact merge_unique. Qed.
Print Assumptions C18_merge_keeps_keys_unique.

(** key equality (val.Equal per key leaf) is symmetric and transitive on all values *)
Theorem C18_key_equality_sym : forall a b, key_eqb a b = true -> key_eqb b a = true.
Proof. exact key_eqb_sym. Qed.
Print Assumptions C18_key_equality_sym.
Theorem C18_key_equality_trans : forall a b c, key_eqb a b = true -> key_eqb b c = true -> key_eqb a c = true.
Proof. exact key_eqb_trans. Qed.
Print Assumptions C18_key_equality_trans.

(** * model = specification, per operation (proofs: Tree/DeleteSpecProofs.v); each side condition of
      [op_spec_ok] is needed: Tree/DeleteExamples.v [keyless_delete_differs],
      [replace_row_other_key_differs], [insert_duplicate_rows_differs],
      [replace_kid_sibling_differs], [replace_kid_duplicate_rows_differs] *)
Theorem C18_model_is_spec : forall kids,
  forallb wf_schema kids = true -> forallb choice_free kids = true -> forallb (keys_ok true) kids = true ->
  forall tgt, shaped_kids shaped kids tgt = true -> keys_unique_content kids tgt = true ->
  forall o, op_spec_ok kids o = true -> apply_op kids tgt o = spec_op kids tgt o.
Proof. exact apply_op_is_spec. Qed.
Print Assumptions C18_model_is_spec.

Theorem C18_delete_entry_is_filter : forall keys key rows,
  rows_unique keys rows = true -> key_usable key = true ->
  remove_row keys key rows = filter (fun r => negb (key_eqb (row_key keys r) key)) rows.
Proof. exact remove_row_is_filter. Qed.
Print Assumptions C18_delete_entry_is_filter.

Theorem C18_delete_entries_is_filter : forall keys ks rows,
  rows_unique keys rows = true -> forallb key_usable ks = true ->
  fold_left (fun acc k => remove_row keys k acc) ks rows
  = filter (fun r => negb (existsb (fun k => key_eqb (row_key keys r) k) ks)) rows.
Proof. exact remove_rows_is_filter. Qed.
Print Assumptions C18_delete_entries_is_filter.

(** * every entry with a usable key is the one found under its key *)
Theorem C18_entry_found_under_its_key : forall m keys row rows p r,
  keys_ok false (SList m keys row) = true -> shaped (SList m keys row) (DList rows) = true ->
  keys_unique (SList m keys row) (DList rows) = true ->
  nth_error rows p = Some r -> key_usable (row_key keys r) = true ->
  find_row keys (row_key keys r) rows 0 = Some p.
Proof. exact entry_found_under_its_key. Qed.
Print Assumptions C18_entry_found_under_its_key.

Theorem C18_entry_found_under_its_key_rows : forall keys rows p r i,
  rows_unique keys rows = true -> nth_error rows p = Some r ->
  key_usable (row_key keys r) = true -> key_eqb (row_key keys r) (row_key keys r) = true ->
  find_row keys (row_key keys r) rows i = Some (i + p)%nat.
Proof. exact find_row_unique. Qed.
Print Assumptions C18_entry_found_under_its_key_rows.

(** the hypotheses above hold together on a history using all seven operations *)
Example C18_hypotheses_satisfiable :
  forallb wf_schema xkids = true /\ forallb choice_free xkids = true /\ forallb (keys_ok true) xkids = true /\
  shaped_kids shaped xkids xtgt = true /\ keys_unique_content xkids xtgt = true /\
  forallb (op_src_ok xkids) xops = true /\ forallb (op_spec_ok xkids) xops = true /\
  xrun xkids xops xtgt = Ok [Some (DList [xe 4 40; xe 2 22; xe 6 60; xe 7 70]%Z); None] /\
  keys_unique_content xkids [Some (DList [xe 4 40; xe 2 22; xe 6 60; xe 7 70]%Z); None] = true.
Proof. vm_compute. repeat split; reflexivity. Qed.
