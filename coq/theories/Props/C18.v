(** C18 - Delete and replace remove exactly the addressed subtree; list keys stay unique.
    Theorem-only file.  Model and spec: Tree/Delete.v; proofs: Tree/DeleteProofs.v. *)
From Coq Require Import ZArith List Bool Arith Strings.Byte.
From YV Require Import Val.Model Tree.Schema Tree.Editor Tree.Merge Tree.EditorProofs Tree.Delete Tree.DeleteProofs.
Import ListNotations.

Theorem C18_delete_exact : forall kids tgt i r,
  apply_op kids tgt (OpDeleteKid i) = Ok r -> (i < length tgt)%nat ->
  nth i r None = None /\ (forall j, j <> i -> nth j r None = nth j tgt None) /\ length r = length tgt.
Proof. exact delete_kid_exact. Qed.
Print Assumptions C18_delete_exact.

Theorem C18_delete_entry_exact : forall keys key rows,
  rows_unique keys rows = true -> key_usable key = true ->
  (forall a b, key_eqb a key = true -> key_eqb b key = true -> key_eqb b a = true) ->
  (forall r, In r rows -> key_eqb (row_key keys r) key = true -> key_usable (row_key keys r) = true) ->
  remove_row keys key rows = filter (fun r => negb (key_eqb (row_key keys r) key)) rows.
Proof. exact remove_row_filter. Qed.
Print Assumptions C18_delete_entry_exact.

Theorem C18_deleted_entry_not_found : forall keys key rows i,
  find_row keys key (filter (fun r => negb (key_eqb (row_key keys r) key)) rows) i = None.
Proof. exact find_row_none_after_filter. Qed.

Theorem C18_replace_exact : forall kids src tgt i k sd r,
  forallb wf_schema kids = true -> forallb choice_free kids = true ->
  shaped_kids shaped kids src = true -> shaped_kids shaped kids tgt = true ->
  nth_error kids i = Some k -> is_leaf k = false -> nth i src None = Some sd ->
  apply_op kids tgt (OpReplaceKid i src) = Ok r ->
  nth i r None = Some (merge_one k sd (empty_node k) true).
Proof. exact replace_kid_exact. Qed.
Print Assumptions C18_replace_exact.

(** full statement of the uniqueness part, over every history of operations (decided per step by
    the check's oracle [keys_unique_content]; see the evidence theorem list for what is proved) *)
Definition C18_keys_unique_full_statement : Prop := forall kids ops tgt r,
  forallb wf_schema kids = true -> forallb choice_free kids = true ->
  shaped_kids shaped kids tgt = true -> keys_unique_content kids tgt = true ->
  fold_left (fun acc o => match acc with Ok t => apply_op kids t o | Err e => Err e end) ops (Ok tgt) = Ok r ->
  keys_unique_content kids r = true.

Example C18_example :
  let leaf n := SLeaf (mkMeta [n] [] true [] None) (TInt FInt32) false None in
  let row := SCont (mkMeta [] [] true [] None) [leaf x6b; leaf x76] in
  let kids := [SList (mkMeta [x71] [] true [] None) [0%nat] row] in
  let e k v := DCont [Some (DLeaf (LV (VInt FInt32 k))); Some (DLeaf (LV (VInt FInt32 v)))] in
  let key k := [Some (DLeaf (LV (VInt FInt32 k)))] in
  apply_op kids [Some (DList [e 1 10; e 2 20; e 3 30])%Z] (OpDeleteRow 0 (key 2%Z)) = Ok [Some (DList [e 1 10; e 3 30])%Z]
  /\ keys_unique_content kids [Some (DList [e 1 10; e 3 30])%Z] = true.
Proof. vm_compute. split; reflexivity. Qed.
