(** C17 - Typed values are totally ordered like the numbers and strings they denote.
    Theorem-only file: every statement is closed by [exact] of a lemma proved elsewhere and is
    followed by Print Assumptions.  Model: Val/Model.v (tied to val/types.go, val/util.go,
    nodeutil/reflect.go, nodeutil/node_slice.go by the C17 correspondence check). *)
From Coq Require Import ZArith List Lia.
From YV Require Import Base.Wrap Val.Model Val.Proofs.
Import ListNotations.
Open Scope Z_scope.

(** Compare has the sign of the mathematical comparison of what the operands denote, for every
    signed/unsigned width (whole range of the Go type), decimal, string, binary, identity name,
    boolean and enum (ids within int32). *)
Theorem C17_compare_sign : forall x y,
  wf_value x -> wf_value y -> format_of x = format_of y ->
  exists c, cmp_impl x y = Some c /\ Some (Z.sgn c) = spec_sgn x y.
Proof. exact cmp_impl_sign. Qed.
Print Assumptions C17_compare_sign.

Theorem C17_compare_antisym : forall x y,
  wf_value x -> wf_value y -> format_of x = format_of y ->
  exists c c', cmp_impl x y = Some c /\ cmp_impl y x = Some c' /\ Z.sgn c' = - Z.sgn c.
Proof. exact cmp_impl_antisym. Qed.
Print Assumptions C17_compare_antisym.

Theorem C17_compare_trans : forall x y z,
  wf_value x -> wf_value y -> wf_value z ->
  format_of x = format_of y -> format_of y = format_of z ->
  forall a b, cmp_impl x y = Some a -> cmp_impl y z = Some b -> a < 0 -> b < 0 ->
  exists c, cmp_impl x z = Some c /\ c < 0.
Proof. exact cmp_impl_trans. Qed.
Print Assumptions C17_compare_trans.

Theorem C17_compare_zero_iff_same : forall x y,
  wf_value x -> wf_value y -> format_of x = format_of y ->
  exists c, cmp_impl x y = Some c /\ (c = 0 <-> same_denotation x y).
Proof. exact cmp_impl_zero_iff. Qed.
Print Assumptions C17_compare_zero_iff_same.

(** Equal decides "denotes the same", which is an equivalence relation *)
Theorem C17_equal_spec : forall x y, wf_value x -> wf_value y ->
  exists b, equal_impl x y = Some b /\ (b = true <-> same_denotation x y).
Proof. exact equal_impl_spec. Qed.
Print Assumptions C17_equal_spec.
Theorem C17_equal_refl : forall x, same_denotation x x.
Proof. exact same_denotation_refl. Qed.
Theorem C17_equal_sym : forall x y, same_denotation x y -> same_denotation y x.
Proof. exact same_denotation_sym. Qed.
Theorem C17_equal_trans : forall x y z, same_denotation x y -> same_denotation y z -> same_denotation x z.
Proof. exact same_denotation_trans. Qed.
Print Assumptions C17_equal_trans.

(** CompareVals orders key tuples lexicographically *)
Theorem C17_compare_vals_lex : forall a b, wf_key a -> wf_key b -> same_shape a b ->
  exists c, compare_vals a b = Some c /\ Some (Z.sgn c) = spec_lex a b.
Proof. exact compare_vals_lex. Qed.
Print Assumptions C17_compare_vals_lex.

(** non-vacuity: the hypotheses are met by extreme values of the widest formats *)
Example C17_hyps_met :
  wf_value (VInt FUInt64 18446744073709551615) /\ wf_value (VInt FInt64 (-9223372036854775808)) /\
  wf_key [VInt FUInt64 0; VStr []] /\ same_shape [VInt FUInt64 0; VStr []] [VInt FUInt64 5; VStr []].
Proof.
  assert (A : wf_value (VInt FUInt64 18446744073709551615)).
  { cbv; intuition congruence. }
  assert (B : wf_value (VInt FInt64 (-9223372036854775808))).
  { cbv; intuition congruence. }
  assert (C : wf_value (VInt FUInt64 0)).
  { cbv; intuition congruence. }
  split; [exact A|]. split; [exact B|]. split; [|reflexivity].
  apply Forall_cons; [exact C|]. apply Forall_cons; [exact I|]. apply Forall_nil.
Qed.

(** The comparison as it was at the pinned commit violated the sign law (fixed in /repo by
    "fix: val Compare orders integers by comparison instead of subtraction") *)
Theorem C17_pinned_commit_refuted :
  Z.sgn (cmp_old_int FUInt8 1 2) <> Z.sgn (1 - 2) /\
  Z.sgn (cmp_old_int FInt8 100 (-100)) <> Z.sgn (100 - -100) /\
  Z.sgn (cmp_old_int FInt64 9223372036854775807 (-1)) <> Z.sgn (9223372036854775807 - -1).
Proof. exact (conj cmp_old_uint8_refuted (conj cmp_old_int8_refuted cmp_old_int64_refuted)). Qed.
