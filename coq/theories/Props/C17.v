(** C17 - Typed values are totally ordered like the numbers and strings they denote.
    Theorem-only file: every statement is closed by [exact] of a lemma proved elsewhere and is
    followed by Print Assumptions.  Model: Val/Model.v (tied to val/types.go, val/util.go,
    nodeutil/reflect.go, nodeutil/node_slice.go by the C17 correspondence check). *)
From Coq Require Import ZArith List Lia.
From YV Require Import Base.Wrap Val.Model Val.Proofs Val.Lookup Val.History Val.HistoryProofs.
From Coq Require Import Sorting.Permutation Sorting.Sorted Strings.Byte.
Import ListNotations.
Open Scope Z_scope.

(** Compare has the sign of the mathematical comparison of what the operands denote, for every
    signed/unsigned width (whole range of the Go type), decimal, string, binary, identity name,
    boolean and enum (ids within int32). *)
Theorem C17_compare_sign : forall x y,
  wf_value x -> wf_value y -> format_of x = format_of y ->
  exists c, cmp_impl x y = Some c /\ Some (Z.sgn c) = spec_sgn x y.
Proof. exact cmp_impl_sign. Qed.
Print Assumptions C17_compare_sign.

Theorem C17_compare_antisym : forall x y,
  wf_value x -> wf_value y -> format_of x = format_of y ->
  exists c c', cmp_impl x y = Some c /\ cmp_impl y x = Some c' /\ Z.sgn c' = - Z.sgn c.
Proof. exact cmp_impl_antisym. Qed.
Print Assumptions C17_compare_antisym.

Theorem C17_compare_trans : forall x y z,
  wf_value x -> wf_value y -> wf_value z ->
  format_of x = format_of y -> format_of y = format_of z ->
  forall a b, cmp_impl x y = Some a -> cmp_impl y z = Some b -> a < 0 -> b < 0 ->
  exists c, cmp_impl x z = Some c /\ c < 0.
Proof. exact cmp_impl_trans. Qed.
Print Assumptions C17_compare_trans.

Theorem C17_compare_zero_iff_same : forall x y,
  wf_value x -> wf_value y -> format_of x = format_of y ->
  exists c, cmp_impl x y = Some c /\ (c = 0 <-> same_denotation x y).
Proof. exact cmp_impl_zero_iff. Qed.
Print Assumptions C17_compare_zero_iff_same.

(** Equal decides "denotes the same", which is an equivalence relation *)
Theorem C17_equal_spec : forall x y, wf_value x -> wf_value y ->
  exists b, equal_impl x y = Some b /\ (b = true <-> same_denotation x y).
Proof. exact equal_impl_spec. Qed.
Print Assumptions C17_equal_spec.
Theorem C17_equal_refl : forall x, same_denotation x x.
Proof. exact same_denotation_refl. Qed.
Theorem C17_equal_sym : forall x y, same_denotation x y -> same_denotation y x.
Proof. exact same_denotation_sym. Qed.
Theorem C17_equal_trans : forall x y z, same_denotation x y -> same_denotation y z -> same_denotation x z.
Proof. exact same_denotation_trans. Qed.
Print Assumptions C17_equal_trans.

(** CompareVals orders key tuples lexicographically *)
Theorem C17_compare_vals_lex : forall a b, wf_key a -> wf_key b -> same_shape a b ->
  exists c, compare_vals a b = Some c /\ Some (Z.sgn c) = spec_lex a b.
Proof. exact compare_vals_lex. Qed.
Print Assumptions C17_compare_vals_lex.

(** non-vacuity: the hypotheses are met by extreme values of the widest formats *)
Example C17_hyps_met :
  wf_value (VInt FUInt64 18446744073709551615) /\ wf_value (VInt FInt64 (-9223372036854775808)) /\
  wf_key [VInt FUInt64 0; VStr []] /\ same_shape [VInt FUInt64 0; VStr []] [VInt FUInt64 5; VStr []].
Proof.
  assert (A : wf_value (VInt FUInt64 18446744073709551615)).
  { cbv; intuition congruence. }
  assert (B : wf_value (VInt FInt64 (-9223372036854775808))).
  { cbv; intuition congruence. }
  assert (C : wf_value (VInt FUInt64 0)).
  { cbv; intuition congruence. }
  split; [exact A|]. split; [exact B|]. split; [|reflexivity].
  apply Forall_cons; [exact C|]. apply Forall_cons; [exact I|]. apply Forall_nil.
Qed.

(** The comparison as it was at the pinned commit violated the sign law (fixed in /repo by
    "fix: val Compare orders integers by comparison instead of subtraction") *)
Theorem C17_pinned_commit_refuted :
  Z.sgn (cmp_old_int FUInt8 1 2) <> Z.sgn (1 - 2) /\
  Z.sgn (cmp_old_int FInt8 100 (-100)) <> Z.sgn (100 - -100) /\
  Z.sgn (cmp_old_int FInt64 9223372036854775807 (-1)) <> Z.sgn (9223372036854775807 - -1).
Proof. exact (conj cmp_old_uint8_refuted (conj cmp_old_int8_refuted cmp_old_int64_refuted)). Qed.

(** * Lookups built on the order (Val/Lookup.v) *)

(** sort.Search(n, f) on a predicate that is false...false true...true on [0,n) returns the least
    index where it holds, or n *)
Theorem C17_search_spec : forall n f, monotone_on n f ->
  (go_search n f <= n /\
   (forall k, k < go_search n f -> f k = false) /\
   (go_search n f < n -> f (go_search n f) = true) /\
   (forall k, k < n -> f k = true -> go_search n f <= k))%nat.
Proof. exact go_search_spec. Qed.
Print Assumptions C17_search_spec.

(** sliceSorter.Less is a strict total order on the well-formed keys of one list (shape [sh]),
    and EqualVals / CompareVals = 0 are its equivalence "denote the same key" *)
Theorem C17_key_order : forall sh a b c, kdom sh a -> kdom sh b -> kdom sh c ->
  ~ klt a a /\ (klt a b -> klt b c -> klt a c) /\ (klt a b \/ key_same a b \/ klt b a) /\
  (klt a b -> ~ key_same a b) /\ (klt a b -> ~ klt b a) /\
  (key_eq a b = true <-> key_cmp a b = 0) /\ (key_eq a b = true <-> key_same a b).
Proof.
  exact (fun sh a b c Ha Hb Hc =>
    conj (klt_irrefl sh a Ha) (conj (klt_trans sh a b c Ha Hb Hc) (conj (klt_total sh a b Ha Hb)
    (conj (klt_not_same sh a b Ha Hb) (conj (klt_asym sh a b Ha Hb)
    (conj (key_eq_cmp sh a b Ha Hb) (key_eq_iff a b (proj1 Ha) (proj1 Hb)))))))).
Qed.
Print Assumptions C17_key_order.

(** sorting pairwise-distinct keys yields the strictly sorted permutation *)
Theorem C17_sort_keys : forall sh l, Forall (kdom sh) l -> distinct_keys l ->
  Permutation l (sort_keys l) /\ StronglySorted klt (sort_keys l).
Proof. exact (fun sh l Hd Hn => conj (sort_keys_perm l) (sort_keys_sorted sh l Hd Hn)). Qed.
Print Assumptions C17_sort_keys.

(** Reflect slice list (sorted key index + sort.Search): the lookup returns exactly the row whose
    key denotes the requested key, and nothing exactly when no row does *)
Theorem C17_reflect_find_correct : forall sh rows k,
  Forall (kdom sh) rows -> kdom sh k -> distinct_keys rows ->
  (forall r, reflect_find rows k = Some r <-> In r rows /\ key_same r k) /\
  (reflect_find rows k = None <-> forall r, In r rows -> ~ key_same r k).
Proof. exact reflect_find_correct. Qed.
Print Assumptions C17_reflect_find_correct.

(** nodeutil.Node slice list (linear scan, Go interface equality): same, for keys that are
    identical as Go values whenever they denote the same ([go_identical]: no []byte leaves, enum
    labels agree) *)
Theorem C17_linear_find_correct : forall rows k, distinct_keys rows ->
  (forall r, linear_lookup rows k = Some r <-> In r rows /\ key_same r k /\ go_identical r k) /\
  (linear_lookup rows k = None <-> forall r, In r rows -> ~ (key_same r k /\ go_identical r k)).
Proof. exact linear_find_correct. Qed.
Print Assumptions C17_linear_find_correct.

(** non-vacuity: a two-key list over (uint64, string) meets the hypotheses and the lookups find
    the row *)
Example C17_lookup_hyps_met :
  let sh := [FUInt64; FString] in
  let rows := [[VInt FUInt64 18446744073709551615; VStr [x61]]; [VInt FUInt64 0; VStr []]] in
  let k := [VInt FUInt64 0; VStr []] in
  Forall (kdom sh) rows /\ kdom sh k /\ distinct_keys rows /\
  reflect_find rows k = Some k /\ linear_lookup rows k = Some k /\
  reflect_find rows [VInt FUInt64 7; VStr []] = None.
Proof. exact lookup_hyps_met. Qed.

(** History-dependent lookup: ONE live Reflect list node (nodeutil/reflect.go listSlice, with its
    cached sorted key index) serving any stream of keyed lookups, deletes and upserts answers every
    request exactly as a node created for that single request would: the cached index never goes
    stale (it is discarded by every request that moves rows) *)
Theorem C17_hist_no_history_dependence : forall rows ops, hist_impl rows ops = hrun_fresh rows ops.
Proof. exact hist_no_history_dependence. Qed.
Print Assumptions C17_hist_no_history_dependence.

Theorem C17_hist_cache_invariant : forall rows ops, cache_ok (hstate_after (mk_lstate rows None) ops).
Proof. exact cache_ok_reachable. Qed.
Print Assumptions C17_hist_cache_invariant.

(** ... and so, after ANY history, a keyed request hands out position [pos] only if the row there
    has key leaves denoting the requested key, finds a row whenever one has that key, and finds
    nothing exactly when none has *)
Theorem C17_hist_lookup_correct : forall sh rows0 ops k,
  let s := hstate_after (mk_lstate rows0 None) ops in
  let rows := ls_rows s in
  Forall (kdom sh) (map fst rows) -> kdom sh k -> distinct_keys (map fst rows) ->
  (forall pos, entries_find (ensure_idx s) k = Some pos ->
     exists r t, nth_error rows pos = Some (r, t) /\ key_same r k) /\
  (forall r t, In (r, t) rows -> key_same r k -> exists pos, entries_find (ensure_idx s) k = Some pos) /\
  (entries_find (ensure_idx s) k = None <-> forall r t, In (r, t) rows -> ~ key_same r k).
Proof. exact hist_lookup_correct. Qed.
Print Assumptions C17_hist_lookup_correct.

(** non-vacuity: delete the first row, then find a later one through the same node; the model trace
    equals the declarative specification trace *)
Example C17_hist_hyps_met :
  let sh := [FInt32] in
  let k n := [VInt FInt32 n] in
  let rows := [(k 10, 1); (k 20, 2); (k 30, 3); (k 40, 4)] in
  let ops := [HFind (k 30) 5; HDel (k 10); HFind (k 30) 6; HUpsert (k 40) 7; HUpsert (k 10) 8; HFind (k 10) 9] in
  Forall (kdom sh) (map fst rows) /\ distinct_keys (map fst rows) /\ Forall (fun o => kdom sh (hop_key o)) ops /\
  hist_impl rows ops = hist_spec rows ops /\
  map snd (hist_impl rows ops) =
    [ [(k 10, 1); (k 20, 2); (k 30, 5); (k 40, 4)];
      [(k 20, 2); (k 30, 5); (k 40, 4)];
      [(k 20, 2); (k 30, 6); (k 40, 4)];
      [(k 20, 2); (k 30, 6); (k 40, 7)];
      [(k 20, 2); (k 30, 6); (k 40, 7); (k 10, 8)];
      [(k 20, 2); (k 30, 6); (k 40, 7); (k 10, 9)] ].
Proof. exact hist_hyps_met. Qed.
