(** C11 - if-feature and deviations shape the schema exactly as written.
    Theorem-only file: every statement is closed by [exact] of a lemma proved elsewhere and is
    followed by Print Assumptions.
    Part (i): the if-feature evaluator.  Model: Feature/IfFeature.v (meta/core.go
    IfFeature.Evaluate and ifFeatureEval.* after the two "fix: if-feature ..." commits), tied to
    the code by the C11 correspondence check. *)
From Coq Require Import ZArith List Bool Arith Strings.Byte.
From YV Require Import Feature.IfFeature Feature.IfFeatureProofs Feature.Guard Feature.GuardProofs Feature.Deviate Feature.DeviateProofs.
Import ListNotations.

(** ** (i) the evaluator implements RFC 7950 7.20.2 on every expression and every assignment *)

(** MAIN THEOREM.  For every expression [x] over well-formed feature names, every style of
    writing it (any non-empty separator of blanks/tabs/line breaks, any padding inside
    parentheses, minimal parentheses plus any number of redundant layers) and every assignment
    [e] of the features, Evaluate returns the value of [x] with "not" > "and" > "or" - and in
    particular neither an error nor out-of-fuel.  Unbounded in the size of the expression.
    [lookup e]: a name is looked up without its prefix ("p:a" is feature "a"). *)
Theorem C11_eval_correct : forall sty x e, style_ok sty = true -> idents_ok x = true ->
  eval_impl (print_text sty x) e = ROk (denote x (lookup e)).
Proof. exact eval_correct. Qed.
Print Assumptions C11_eval_correct.

(** The same for every text that follows the RFC grammar, not only printed ones: [c] records
    where each parenthesis and each separator text stands (separators may differ from place to
    place; left- or right-nested chains), [w0]/[w1] are optional leading/trailing blanks. *)
Theorem C11_eval_correct_written : forall e c w0 w1,
  wf c = true -> all_ws w0 = true -> all_ws w1 = true ->
  eval_impl (w0 ++ render c ++ w1) e = ROk (denote (abstract c) (lookup e)).
Proof. exact eval_correct_cst. Qed.
Print Assumptions C11_eval_correct_written.

(** the printer family only produces texts of that grammar and loses nothing *)
Theorem C11_print_grammatical : forall sty, style_ok sty = true -> forall x, idents_ok x = true ->
  wf (print sty x) = true /\ abstract (print sty x) = x.
Proof. exact print_wf. Qed.
Print Assumptions C11_print_grammatical.

(** Evaluate's fuel (length of the text + 1) is never exhausted, whatever the text *)
Theorem C11_eval_fuel_ok : forall expr e, eval_impl expr e <> ROutOfFuel.
Proof. exact eval_total. Qed.
Print Assumptions C11_eval_fuel_ok.

(** ** malformed text is an error.  Stated per class (partial with respect to "every text
    outside the grammar"; the exhaustive token-sequence tables of the correspondence check cover
    all sequences up to a length bound). *)

(** empty text, or a text starting with "and", "or" or ")" *)
Theorem C11_reject_no_operand_partial : forall e s,
  match kind_of (fst (next is_ws s)) with KEnd | KRp | KAnd | KOr => True | _ => False end ->
  eval_impl s e = RErr.
Proof. exact reject_first. Qed.
Print Assumptions C11_reject_no_operand_partial.

(** anything left after a complete expression that does not continue it with "and"/"or":
    adjacent operands, a stray parenthesis, a second expression *)
Theorem C11_reject_trailing_partial : forall e c w0 k,
  wf c = true -> all_ws w0 = true -> boundary k = true ->
  fst (next is_ws k) <> [] -> stops_and k = true -> stops_or k = true ->
  eval_impl (w0 ++ render c ++ k) e = RErr.
Proof. exact reject_trailing. Qed.
Print Assumptions C11_reject_trailing_partial.

(** a dangling operator *)
Theorem C11_reject_dangling_partial : forall e c w0 w1 w2,
  wf c = true -> all_ws w0 = true -> is_sep w1 = true -> all_ws w2 = true ->
  eval_impl (w0 ++ render c ++ w1 ++ kw_and ++ w2) e = RErr /\
  eval_impl (w0 ++ render c ++ w1 ++ kw_or ++ w2) e = RErr.
Proof. exact reject_dangling. Qed.
Print Assumptions C11_reject_dangling_partial.

(** a parenthesis that is not closed *)
Theorem C11_reject_unclosed_partial : forall e c w0 w1 w2,
  wf c = true -> all_ws w0 = true -> all_ws w1 = true -> all_ws w2 = true ->
  eval_impl (w0 ++ lp ++ w1 ++ render c ++ w2) e = RErr.
Proof. exact reject_unclosed. Qed.
Print Assumptions C11_reject_unclosed_partial.

(** "every text outside the RFC grammar is an error" is false of the code: a keyword may touch a
    parenthesis ("not(a)"), where RFC 7950 requires a separator (known finding 1) *)
Definition C11_reject_full_statement : Prop :=
  forall e s, (forall c w0 w1, wf c = true -> all_ws w0 = true -> all_ws w1 = true -> s <> w0 ++ render c ++ w1) ->
  eval_impl s e = RErr.
Example C11_reject_lenient_witness : eval_impl [x6e;x6f;x74;x28;x61;x29] all_off = ROk true.
Proof. exact lenient_not_paren. Qed.

(** non-vacuity: the hypotheses of the main theorem are met by the round-0 witness written with
    single blanks, and the printer writes it as "not (a or b) and c" *)
Example C11_hyps_met :
  style_ok (mkStyle [x20] [] 0) = true /\ idents_ok witness_expr = true /\
  print_text (mkStyle [x20] [] 0) witness_expr = witness_text.
Proof. exact (conj eq_refl (conj eq_refl witness_is_print)). Qed.

(** The evaluator as it was at the pinned commit violated the main statement: with every feature
    off it answered true where the expression is false (fixed in the repo by
    "fix: if-feature expressions are parsed by recursive descent ...") *)
Theorem C11_pinned_commit_refuted :
  old_eval_impl (print_text (mkStyle [x20] [] 0) witness_expr) all_off = ROk true /\
  denote witness_expr all_off = false.
Proof. exact old_eval_refuted_print. Qed.
Print Assumptions C11_pinned_commit_refuted.

(** ** (ii) guard presence.  Model: Feature/Guard.v (meta/feature_set.go Initialize/Resolve/
    checkFeature and the checkFeature call sites of meta/resolver.go after the "fix:" commits) *)

(** Initialize turns on exactly the declared features that the allow-list names / the deny-list
    does not name (all-on = empty deny-list) *)
Theorem C11_enabled_set : forall cfg declared f,
  mem f (initialize cfg declared) = is_enabled cfg declared f.
Proof. exact mem_initialize. Qed.
Print Assumptions C11_enabled_set.

(** GUARD PRESENCE.  For every configuration, every set of declared features and every list of
    guarded statements (data node, case, uses, augment, the refines of a uses) whose if-feature
    arguments are written expressions: the load succeeds, and a statement is present (a refine
    applied) exactly when ALL its expressions are true of the enabled features; the result cache
    of the feature set is transparent. *)
Theorem C11_guard_presence : forall cfg declared ss, forallb gstmt_ok ss = true ->
  compile cfg declared (map texts_of ss) = Loaded (map (spec_obs cfg declared) ss).
Proof. exact guard_presence. Qed.
Print Assumptions C11_guard_presence.

Example C11_guard_hyps_met :
  forallb gstmt_ok [GData [(mkStyle [x20] [] 0, witness_expr)];
                    GRefines [[(mkStyle [x20] [] 0, Feat [x61])]; [(mkStyle [x20] [] 0, Not (Feat [x61]))]]] = true.
Proof. exact guard_hyps_met. Qed.

(** "a malformed expression anywhere makes the load fail" is false of the code: checkFeature
    stops at the first expression that is off (known finding 2).  Witness: a leaf guarded by
    "zz" (not a feature) and then by "and and" loads, without the leaf. *)
Definition C11_guard_malformed_full_statement : Prop :=
  forall cfg declared ss, (exists s t, In s ss /\ In t (concat (match s with
      | SData i | SCase i | SUses i | SAugment i => [i] | SRefines r => r end)) /\
      eval_impl t (env_of (initialize cfg declared)) = RErr) ->
  compile cfg declared ss = LoadErr.
Theorem C11_guard_malformed_refuted :
  eval_impl [x61; x6e; x64; x20; x61; x6e; x64] (env_of []) = RErr /\
  compile (AllBut []) [[x61]] [SData kf2_texts] = Loaded [[false]].
Proof. exact lazy_malformed. Qed.
Print Assumptions C11_guard_malformed_refuted.

(** ** (iii) deviations.  Model: Feature/Deviate.v (meta/resolver.go applyDeviation after the
    "fix: deviate ..." commits) *)

(** FRAME.  Whatever the node kind, its properties and the deviation (add, replace and delete
    statements together, any arguments): a property that no deviate statement names is unchanged. *)
Theorem C11_deviate_frame : forall k d p p' f,
  apply_deviation k d p = DOk p' -> names d f = false -> get f p' = get f p.
Proof. exact deviate_frame. Qed.
Print Assumptions C11_deviate_frame.

(** EFFECT, per deviate kind and property (one statement naming one property; the other
    properties are covered by the frame theorem). *)
Theorem C11_deviate_add_effect : forall k p,
  (forall u, has_type k = true -> u <> [] -> p_units p = [] ->
     apply_deviation k (dev_add (w_units u)) p = DOk (set_units p u)) /\
  (forall ms, has_musts k = true ->
     apply_deviation k (dev_add (w_musts ms)) p = DOk (set_musts p (p_musts p ++ ms))) /\
  (forall d, has_type k = true -> p_defaults p = None ->
     apply_deviation k (dev_add (w_defaults [d])) p = DOk (set_defaults p (Some [d]))) /\
  (forall us, is_list k = true ->
     apply_deviation k (dev_add (w_unique us)) p = DOk (set_unique p (p_unique p ++ us))) /\
  (forall b, has_dets k = true -> p_config p = None ->
     apply_deviation k (dev_add (w_config b)) p = DOk (set_config p (Some b))) /\
  (forall b, has_dets k = true -> p_mandatory p = None ->
     apply_deviation k (dev_add (w_mandatory b)) p = DOk (set_mandatory p (Some b))) /\
  (forall n, has_listdets k = true -> p_min p = None ->
     apply_deviation k (dev_add (w_min n)) p = DOk (set_min p (Some n))) /\
  (forall n, has_listdets k = true -> p_max p = None ->
     apply_deviation k (dev_add (w_max n)) p = DOk (set_max p (Some n))).
Proof. exact deviate_add_effect. Qed.
Print Assumptions C11_deviate_add_effect.

Theorem C11_deviate_replace_effect : forall k p,
  (forall u, has_type k = true -> u <> [] -> p_units p <> [] ->
     apply_deviation k (dev_replace (w_units u)) p = DOk (set_units p u)) /\
  (forall t, has_type k = true ->
     apply_deviation k (dev_replace (w_type t)) p = DOk (set_type p t)) /\
  (forall d ds0, has_type k = true -> p_defaults p = Some ds0 ->
     apply_deviation k (dev_replace (w_defaults [d])) p = DOk (set_defaults p (Some [d]))) /\
  (forall b b0, has_dets k = true -> p_config p = Some b0 ->
     apply_deviation k (dev_replace (w_config b)) p = DOk (set_config p (Some b))) /\
  (forall b b0, has_dets k = true -> p_mandatory p = Some b0 ->
     apply_deviation k (dev_replace (w_mandatory b)) p = DOk (set_mandatory p (Some b))) /\
  (forall n n0, has_listdets k = true -> p_min p = Some n0 ->
     apply_deviation k (dev_replace (w_min n)) p = DOk (set_min p (Some n))) /\
  (forall n n0, has_listdets k = true -> p_max p = Some n0 ->
     apply_deviation k (dev_replace (w_max n)) p = DOk (set_max p (Some n))).
Proof. exact deviate_replace_effect. Qed.
Print Assumptions C11_deviate_replace_effect.

Theorem C11_deviate_delete_effect : forall k p,
  (forall u, has_type k = true -> u <> [] -> p_units p = u ->
     apply_deviation k (dev_delete (w_units u)) p = DOk (set_units p [])) /\
  (forall u, has_type k = true -> u <> [] -> p_units p <> u ->
     apply_deviation k (dev_delete (w_units u)) p = DErr) /\
  (forall d, has_type k = true -> p_defaults p = Some [d] ->
     apply_deviation k (dev_delete (w_defaults [d])) p = DOk (set_defaults p None)) /\
  (forall d d', has_type k = true -> p_defaults p = Some [d'] -> d' <> d ->
     apply_deviation k (dev_delete (w_defaults [d])) p = DErr) /\
  (forall m, has_musts k = true -> In m (p_musts p) ->
     apply_deviation k (dev_delete (w_musts [m])) p
     = DOk (set_musts p (filter (fun c => negb (bytes_eqb m c)) (p_musts p)))) /\
  (forall m, has_musts k = true -> ~ In m (p_musts p) ->
     apply_deviation k (dev_delete (w_musts [m])) p = DErr).
Proof. exact deviate_delete_effect. Qed.
Print Assumptions C11_deviate_delete_effect.

(** not-supported removes exactly the target from its parent's children (names of siblings are
    distinct) and keeps the others in their order *)
Theorem C11_not_supported_exact : forall A (t : text) (pre post : list (text * A)) v,
  (forall c, In c (pre ++ post) -> fst c <> t) ->
  remove_child t (pre ++ (t, v) :: post) = pre ++ post.
Proof. exact remove_child_unique. Qed.
Print Assumptions C11_not_supported_exact.

Example C11_deviate_hyps_met :
  has_type KLeaf = true /\ has_musts KLeaf = true /\ p_units p0 = [x63; x6d] /\ In [x61] (p_musts p0).
Proof. exact (conj eq_refl (conj eq_refl (conj eq_refl (or_introl eq_refl)))). Qed.

(** the pinned commit violated the effect statements (fixed in the repo by the
    "fix: deviate ..." commits): add must appended the must twice; delete units failed when the
    units matched and deleted when they did not *)
Theorem C11_deviate_pinned_commit_refuted :
  p_musts (old_add_musts p0 [[x6d]]) <> p_musts p0 ++ [[x6d]] /\
  old_del_units p0 [x63; x6d] = None /\ old_del_units p0 [x6d; x6d] <> None.
Proof. exact old_deviate_refuted. Qed.
Print Assumptions C11_deviate_pinned_commit_refuted.
