(** C11 - if-feature and deviations shape the schema exactly as written.
    Theorem-only file: every statement is closed by [exact] of a lemma proved elsewhere and is
    followed by Print Assumptions.
    Part (i): the if-feature evaluator.  Model: Feature/IfFeature.v (meta/core.go
    IfFeature.Evaluate and ifFeatureEval.* after the two "fix: if-feature ..." commits), tied to
    the code by the C11 correspondence check. *)
From Coq Require Import ZArith List Bool Arith Strings.Byte.
From YV Require Import Feature.IfFeature Feature.IfFeatureProofs Feature.IfFeatureEnvProofs Feature.Guard Feature.GuardProofs
  Feature.GuardTree Feature.GuardTreeProofs Feature.Deviate Feature.DeviateProofs.
Import ListNotations.

(** ** (i) the evaluator implements RFC 7950 7.20.2 on every expression and every assignment *)

(** MAIN THEOREM.  For every expression [x] over well-formed feature names, every style of
    writing it (any non-empty separator of blanks/tabs/line breaks, any padding inside
    parentheses, minimal parentheses plus any number of redundant layers) and every assignment
    [e] of the features, Evaluate returns the value of [x] with "not" > "and" > "or" - and in
    particular neither an error nor out-of-fuel.  Unbounded in the size of the expression.
    [lookup e]: a name is looked up without its prefix ("p:a" is feature "a"). *)
Theorem C11_eval_correct : forall sty x e, style_ok sty = true -> idents_ok x = true ->
  eval_impl (print_text sty x) e = ROk (denote x (lookup e)).
Proof. exact eval_correct. Qed.
Print Assumptions C11_eval_correct.

(** The same for every text that follows the RFC grammar, not only printed ones: [c] records
    where each parenthesis and each separator text stands (separators may differ from place to
    place; left- or right-nested chains), [w0]/[w1] are optional leading/trailing blanks. *)
Theorem C11_eval_correct_written : forall e c w0 w1,
  wf c = true -> all_ws w0 = true -> all_ws w1 = true ->
  eval_impl (w0 ++ render c ++ w1) e = ROk (denote (abstract c) (lookup e)).
Proof. exact eval_correct_cst. Qed.
Print Assumptions C11_eval_correct_written.

(** the printer family only produces texts of that grammar and loses nothing *)
Theorem C11_print_grammatical : forall sty, style_ok sty = true -> forall x, idents_ok x = true ->
  wf (print sty x) = true /\ abstract (print sty x) = x.
Proof. exact print_wf. Qed.
Print Assumptions C11_print_grammatical.

(** Evaluate's fuel (length of the text + 1) is never exhausted, whatever the text *)
Theorem C11_eval_fuel_ok : forall expr e, eval_impl expr e <> ROutOfFuel.
Proof. exact eval_total. Qed.
Print Assumptions C11_eval_fuel_ok.

(** ** malformed text is an error.  Stated per class (partial with respect to "every text
    outside the grammar"; the exhaustive token-sequence tables of the correspondence check cover
    all sequences up to a length bound). *)

(** empty text, or a text starting with "and", "or" or ")" *)
Theorem C11_reject_no_operand_partial : forall e s,
  match kind_of (fst (next is_ws s)) with KEnd | KRp | KAnd | KOr => True | _ => False end ->
  eval_impl s e = RErr.
Proof. exact reject_first. Qed.
Print Assumptions C11_reject_no_operand_partial.

(** anything left after a complete expression that does not continue it with "and"/"or":
    adjacent operands, a stray parenthesis, a second expression *)
Theorem C11_reject_trailing_partial : forall e c w0 k,
  wf c = true -> all_ws w0 = true -> boundary k = true ->
  fst (next is_ws k) <> [] -> stops_and k = true -> stops_or k = true ->
  eval_impl (w0 ++ render c ++ k) e = RErr.
Proof. exact reject_trailing. Qed.
Print Assumptions C11_reject_trailing_partial.

(** a dangling operator *)
Theorem C11_reject_dangling_partial : forall e c w0 w1 w2,
  wf c = true -> all_ws w0 = true -> is_sep w1 = true -> all_ws w2 = true ->
  eval_impl (w0 ++ render c ++ w1 ++ kw_and ++ w2) e = RErr /\
  eval_impl (w0 ++ render c ++ w1 ++ kw_or ++ w2) e = RErr.
Proof. exact reject_dangling. Qed.
Print Assumptions C11_reject_dangling_partial.

(** a parenthesis that is not closed *)
Theorem C11_reject_unclosed_partial : forall e c w0 w1 w2,
  wf c = true -> all_ws w0 = true -> all_ws w1 = true -> all_ws w2 = true ->
  eval_impl (w0 ++ lp ++ w1 ++ render c ++ w2) e = RErr.
Proof. exact reject_unclosed. Qed.
Print Assumptions C11_reject_unclosed_partial.

(** "every text outside the RFC grammar is an error" is false of the code: a keyword may touch a
    parenthesis ("not(a)"), where RFC 7950 requires a separator (known finding 1) *)
Definition C11_reject_full_statement : Prop :=
  forall e s, (forall c w0 w1, wf c = true -> all_ws w0 = true -> all_ws w1 = true -> s <> w0 ++ render c ++ w1) ->
  eval_impl s e = RErr.
Example C11_reject_lenient_witness : eval_impl [x6e;x6f;x74;x28;x61;x29] all_off = ROk true.
Proof. exact lenient_not_paren. Qed.

(** non-vacuity: the hypotheses of the main theorem are met by the round-0 witness written with
    single blanks, and the printer writes it as "not (a or b) and c" *)
Example C11_hyps_met :
  style_ok (mkStyle [x20] [] 0) = true /\ idents_ok witness_expr = true /\
  print_text (mkStyle [x20] [] 0) witness_expr = witness_text.
Proof. exact (conj eq_refl (conj eq_refl witness_is_print)). Qed.

(** The evaluator as it was at the pinned commit violated the main statement: with every feature
    off it answered true where the expression is false (fixed in the repo by
    "fix: if-feature expressions are parsed by recursive descent ...") *)
Theorem C11_pinned_commit_refuted :
  old_eval_impl (print_text (mkStyle [x20] [] 0) witness_expr) all_off = ROk true /\
  denote witness_expr all_off = false.
Proof. exact old_eval_refuted_print. Qed.
Print Assumptions C11_pinned_commit_refuted.

(** ** (ii) guard presence.  Model: Feature/Guard.v (meta/feature_set.go Initialize/Resolve/
    checkFeature and the checkFeature call sites of meta/resolver.go after the "fix:" commits) *)

(** Initialize turns on exactly the declared features that the allow-list names / the deny-list
    does not name (all-on = empty deny-list) *)
Theorem C11_enabled_set : forall cfg declared f,
  mem f (initialize cfg declared) = is_enabled cfg declared f.
Proof. exact mem_initialize. Qed.
Print Assumptions C11_enabled_set.

(** GUARD PRESENCE.  For every configuration, every set of declared features and every list of
    guarded statements (data node, case, uses, augment, the refines of a uses) whose if-feature
    arguments are written expressions: the load succeeds, and a statement is present (a refine
    applied) exactly when ALL its expressions are true of the enabled features; the result cache
    of the feature set is transparent. *)
Theorem C11_guard_presence : forall cfg declared ss, forallb gstmt_ok ss = true ->
  compile cfg declared (map texts_of ss) = Loaded (map (spec_obs cfg declared) ss).
Proof. exact guard_presence. Qed.
Print Assumptions C11_guard_presence.

Example C11_guard_hyps_met :
  forallb gstmt_ok [GData [(mkStyle [x20] [] 0, witness_expr)];
                    GRefines [[(mkStyle [x20] [] 0, Feat [x61])]; [(mkStyle [x20] [] 0, Not (Feat [x61]))]]] = true.
Proof. exact guard_hyps_met. Qed.

(** Whether a text is an expression does not depend on the features: a syntax error under one
    assignment is one under every assignment (so the syntax check that Builder.IfFeature makes
    against no features at all rejects exactly the malformed arguments) *)
Theorem C11_syntax_independent_of_features : forall t e1 e2,
  eval_impl t e1 = RErr -> eval_impl t e2 = RErr.
Proof. exact eval_err_indep. Qed.
Print Assumptions C11_syntax_independent_of_features.

(** A MALFORMED EXPRESSION IS AN ERROR: if any if-feature argument of any statement is malformed
    (an error under whatever assignment), the load fails - also when the argument follows an
    expression that is off on the same statement. *)
Theorem C11_guard_malformed : forall cfg declared ss t e,
  In t (flat_map stmt_texts ss) -> eval_impl t e = RErr -> compile cfg declared ss = LoadErr.
Proof. exact guard_malformed. Qed.
Print Assumptions C11_guard_malformed.

(** The loader as it was violated that statement: checkFeature stopped at the first expression
    that is off (formerly known finding 2; fixed in the repo by "fix: a malformed if-feature
    expression is an error wherever it stands").  Witness: a leaf guarded by "zz" (not a feature)
    and then by "and and" loaded, without the leaf. *)
Theorem C11_guard_malformed_pinned_commit_refuted :
  eval_impl [x61; x6e; x64; x20; x61; x6e; x64] (env_of []) = RErr /\
  compile_old (AllBut []) [[x61]] [SData kf2_texts] = Loaded [[false]] /\
  compile (AllBut []) [[x61]] [SData kf2_texts] = LoadErr.
Proof. exact lazy_malformed. Qed.
Print Assumptions C11_guard_malformed_pinned_commit_refuted.

(** ** (ii) continued: guarded statements at every depth.  Model: Feature/GuardTree.v - the
    traversal of meta/resolver.go over a whole module (module, enter, addDataDefinition,
    expandUses with applyRefinements, expandAugment for augments inside a uses and - after the
    definitions were resolved inside the augment once - for module-level augments), one flag per
    statement. *)

(** GUARD PRESENCE AT EVERY DEPTH.  For every configuration, every set of declared features and
    every module - data nodes, choices and cases, uses with the definitions of their grouping,
    refines and augments, module-level augments, rpcs/actions with input and output,
    notifications, nested in each other in any way and to any depth - whose if-feature arguments
    are written expressions: the load succeeds, and a statement is in the compiled schema (a
    refine applied) exactly when ALL the expressions on it AND on every statement it is written
    inside are true of the enabled features. *)
Theorem C11_guard_tree_presence : forall cfg declared ts, forallb gnode_ok ts = true ->
  compile_tree cfg declared (map node_of ts) = TLoaded (map (spec_tree cfg declared true) ts).
Proof. exact guard_tree_presence. Qed.
Print Assumptions C11_guard_tree_presence.

(** the same, statement by statement: [path] leads from the i-th top statement through child
    positions to a statement, [gss] are the if-feature statements met on the way *)
Theorem C11_guard_tree_presence_at : forall cfg declared ts, forallb gnode_ok ts = true ->
  exists obs, compile_tree cfg declared (map node_of ts) = TLoaded obs /\
    forall i g path gss, nth_error ts i = Some g -> guards_at g path = Some gss ->
      exists p, nth_error obs i = Some p /\
                flag_at p path = Some (forallb (all_true cfg declared) gss).
Proof. exact guard_tree_presence_at. Qed.
Print Assumptions C11_guard_tree_presence_at.

(** a malformed expression is an error wherever it stands in the module, also below a statement
    that is itself off *)
Theorem C11_tree_malformed : forall cfg declared top t e,
  In t (flat_map node_texts top) -> eval_impl t e = RErr -> compile_tree cfg declared top = TErr.
Proof. exact tree_malformed. Qed.
Print Assumptions C11_tree_malformed.

(** before the fix: container { if-feature a; leaf { if-feature "and and"; } } loaded with a off *)
Theorem C11_tree_malformed_pinned_commit_refuted :
  compile_tree_old (OnlyOn []) [[x61]] shadowed_module = TLoaded [Pt false [Pt false []]] /\
  compile_tree (OnlyOn []) [[x61]] shadowed_module = TErr.
Proof. exact tree_lazy_malformed. Qed.
Print Assumptions C11_tree_malformed_pinned_commit_refuted.

(** non-vacuity: a module with a guarded leaf in the input of an action, a guarded uses with a
    refine and an augment holding a guarded leaf, a guarded case, a guarded module-level augment
    with a guarded container and an action - and what the resolver leaves of it with b on, a off *)
Example C11_tree_hyps_met :
  forallb gnode_ok sample_module = true /\
  compile_tree (OnlyOn [[x62]]) [[x61]; [x62]] (map node_of sample_module)
  = TLoaded [Pt true [Pt true [Pt true [Pt false []]];
                      Pt true [Pt true []; Pt true []; Pt true []; Pt true [Pt true []; Pt false []]];
                      Pt true [Pt true [Pt true []]]];
             Pt true [Pt true []; Pt false [Pt false []]; Pt true []]].
Proof. exact tree_hyps_met. Qed.

(** ** (iii) deviations.  Model: Feature/Deviate.v (meta/resolver.go applyDeviation after the
    "fix: deviate ..." commits) *)

(** FRAME.  Whatever the node kind, its properties and the deviation (add, replace and delete
    statements together, any arguments): a property that no deviate statement names is unchanged. *)
Theorem C11_deviate_frame : forall k d p p' f,
  apply_deviation k d p = DOk p' -> names d f = false -> get f p' = get f p.
Proof. exact deviate_frame. Qed.
Print Assumptions C11_deviate_frame.

(** EFFECT, per deviate kind and property (one statement naming one property; the other
    properties are covered by the frame theorem). *)
Theorem C11_deviate_add_effect : forall k p,
  (forall u, has_type k = true -> u <> [] -> p_units p = [] ->
     apply_deviation k (dev_add (w_units u)) p = DOk (set_units p u)) /\
  (forall ms, has_musts k = true ->
     apply_deviation k (dev_add (w_musts ms)) p = DOk (set_musts p (p_musts p ++ ms))) /\
  (forall d, has_type k = true -> p_defaults p = None ->
     apply_deviation k (dev_add (w_defaults [d])) p = DOk (set_defaults p (Some [d]))) /\
  (forall us, is_list k = true ->
     apply_deviation k (dev_add (w_unique us)) p = DOk (set_unique p (p_unique p ++ us))) /\
  (forall b, has_dets k = true -> p_config p = None ->
     apply_deviation k (dev_add (w_config b)) p = DOk (set_config p (Some b))) /\
  (forall b, has_dets k = true -> p_mandatory p = None ->
     apply_deviation k (dev_add (w_mandatory b)) p = DOk (set_mandatory p (Some b))) /\
  (forall n, has_listdets k = true -> p_min p = None ->
     apply_deviation k (dev_add (w_min n)) p = DOk (set_min p (Some n))) /\
  (forall n, has_listdets k = true -> p_max p = None ->
     apply_deviation k (dev_add (w_max n)) p = DOk (set_max p (Some n))).
Proof. exact deviate_add_effect. Qed.
Print Assumptions C11_deviate_add_effect.

Theorem C11_deviate_replace_effect : forall k p,
  (forall u, has_type k = true -> u <> [] -> p_units p <> [] ->
     apply_deviation k (dev_replace (w_units u)) p = DOk (set_units p u)) /\
  (forall t, has_type k = true ->
     apply_deviation k (dev_replace (w_type t)) p = DOk (set_type p t)) /\
  (forall d ds0, has_type k = true -> p_defaults p = Some ds0 ->
     apply_deviation k (dev_replace (w_defaults [d])) p = DOk (set_defaults p (Some [d]))) /\
  (forall b b0, has_dets k = true -> p_config p = Some b0 ->
     apply_deviation k (dev_replace (w_config b)) p = DOk (set_config p (Some b))) /\
  (forall b b0, has_dets k = true -> p_mandatory p = Some b0 ->
     apply_deviation k (dev_replace (w_mandatory b)) p = DOk (set_mandatory p (Some b))) /\
  (forall n n0, has_listdets k = true -> p_min p = Some n0 ->
     apply_deviation k (dev_replace (w_min n)) p = DOk (set_min p (Some n))) /\
  (forall n n0, has_listdets k = true -> p_max p = Some n0 ->
     apply_deviation k (dev_replace (w_max n)) p = DOk (set_max p (Some n))).
Proof. exact deviate_replace_effect. Qed.
Print Assumptions C11_deviate_replace_effect.

Theorem C11_deviate_delete_effect : forall k p,
  (forall u, has_type k = true -> u <> [] -> p_units p = u ->
     apply_deviation k (dev_delete (w_units u)) p = DOk (set_units p [])) /\
  (forall u, has_type k = true -> u <> [] -> p_units p <> u ->
     apply_deviation k (dev_delete (w_units u)) p = DErr) /\
  (forall d, has_type k = true -> p_defaults p = Some [d] ->
     apply_deviation k (dev_delete (w_defaults [d])) p = DOk (set_defaults p None)) /\
  (forall d d', has_type k = true -> p_defaults p = Some [d'] -> d' <> d ->
     apply_deviation k (dev_delete (w_defaults [d])) p = DErr) /\
  (forall m, has_musts k = true -> In m (p_musts p) ->
     apply_deviation k (dev_delete (w_musts [m])) p
     = DOk (set_musts p (filter (fun c => negb (bytes_eqb m c)) (p_musts p)))) /\
  (forall m, has_musts k = true -> ~ In m (p_musts p) ->
     apply_deviation k (dev_delete (w_musts [m])) p = DErr).
Proof. exact deviate_delete_effect. Qed.
Print Assumptions C11_deviate_delete_effect.

(** not-supported removes exactly the target from its parent's children (names of siblings are
    distinct) and keeps the others in their order *)
Theorem C11_not_supported_exact : forall A (t : text) (pre post : list (text * A)) v,
  (forall c, In c (pre ++ post) -> fst c <> t) ->
  remove_child t (pre ++ (t, v) :: post) = pre ++ post.
Proof. exact remove_child_unique. Qed.
Print Assumptions C11_not_supported_exact.

Example C11_deviate_hyps_met :
  has_type KLeaf = true /\ has_musts KLeaf = true /\ p_units p0 = [x63; x6d] /\ In [x61] (p_musts p0).
Proof. exact (conj eq_refl (conj eq_refl (conj eq_refl (or_introl eq_refl)))). Qed.

(** the pinned commit violated the effect statements (fixed in the repo by the
    "fix: deviate ..." commits): add must appended the must twice; delete units failed when the
    units matched and deleted when they did not *)
Theorem C11_deviate_pinned_commit_refuted :
  p_musts (old_add_musts p0 [[x6d]]) <> p_musts p0 ++ [[x6d]] /\
  old_del_units p0 [x63; x6d] = None /\ old_del_units p0 [x6d; x6d] <> None.
Proof. exact old_deviate_refuted. Qed.
Print Assumptions C11_deviate_pinned_commit_refuted.
