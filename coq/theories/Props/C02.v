(** C02 - Every leaf's effective type is the RFC 7950 derivation of its type statement.
    Theorem-only file: every statement is closed by [exact] of a lemma proved elsewhere and is
    followed by Print Assumptions.  Model: Typed/Model.v (compileType, findTypedef, Type.mixin,
    identity, Find; tied to meta/compile.go, meta/core.go, meta/find.go, meta/util.go, val/format.go
    by the C02 correspondence check); specification: Typed/Spec.v.  Which identities an identityref
    accepts: model Typed/FindId.v (meta/core.go FindIdentity, node/value.go toIdentRef). *)
From Coq Require Import ZArith List Bool Strings.Byte Strings.String.
From YV Require Import Typed.Model Typed.Spec Typed.Proofs Typed.Examples Check.C02Check.
From YV Require Import Typed.FindId Typed.FindIdProofs Typed.FindIdExamples.
Import ListNotations.
Open Scope Z_scope.
Open Scope string_scope.

(** The property at full strength: for every module set, every leaf or leaf-list whose type names
    resolve (chains of any depth, any scope, unions nested to any depth) and are well formed, and
    every number of uses of the enclosing grouping, each copy of the leaf has exactly the RFC's
    effective type, default and units. *)
Definition C02_full_statement : Prop :=
  forall fuel E l r n rs,
    resolve fuel (e_mods E) (lf_pos l) (lf_type l) = Ok r -> wf_rt r = true ->
    compile_uses true fuel E l n = Ok rs ->
    Forall (fun x => effective_leaf E l r = Some (project_leaf (e_mods E) x)) rs.

(** It holds outside the regions of the listed known findings (KNOWN_FINDINGS.txt k=1 patterns at
    several levels, k=2 identityref with several bases, k=4 relative leafref path in a typedef;
    k=3, negative enum values, is excluded by wf_rt).  No fuel-exhausted outcome can satisfy the
    hypotheses: [resolve] and [compile_uses] both returned [Ok]. *)
Theorem C02_derive_correct_partial : forall fuel E l r n rs,
  resolve fuel (e_mods E) (lf_pos l) (lf_type l) = Ok r -> wf_rt r = true ->
  pat_region r = false -> multibase_region r = false -> tdrel_region r = false ->
  compile_uses true fuel E l n = Ok rs ->
  Forall (fun x => effective_leaf E l r = Some (project_leaf (e_mods E) x)) rs.
Proof. exact leaf_correct. Qed.
Print Assumptions C02_derive_correct_partial.

(** the same for a type on its own, at any nesting depth of unions and in any compile context *)
Theorem C02_type_correct_partial : forall E r c t,
  wf_rt r = true -> pat_region r = false -> multibase_region r = false -> tdrel_region r = false ->
  snd c = true -> compile_rt E r c = Ok t ->
  effective E true r c = Some (project (e_mods E) true t).
Proof. exact type_correct. Qed.
Print Assumptions C02_type_correct_partial.

Theorem C02_full_refuted : ~ C02_full_statement.
Proof. exact full_statement_refuted. Qed.
Print Assumptions C02_full_refuted.

(** each listed finding: the input lies in its region and the faithful model fails the spec there *)
Theorem C02_kf1_patterns_refuted : known E_pat l_pat = Some 1%nat /\ model_meets_spec E_pat l_pat 1 = false.
Proof. exact kf_patterns_refuted. Qed.
Theorem C02_kf2_multibase_refuted : known E_mb l_mb = Some 2%nat /\ model_meets_spec E_mb l_mb 1 = false.
Proof. exact kf_multibase_refuted. Qed.
Theorem C02_kf3_negative_enum_refuted : known E_neg l_neg = Some 3%nat /\ model_meets_spec E_neg l_neg 1 = false.
Proof. exact kf_negative_refuted. Qed.
Theorem C02_kf4_typedef_relative_path_refuted :
  known E_rel l_rel = Some 4%nat /\ model_meets_spec E_rel l_rel 1 = false.
Proof. exact kf_typedef_relative_refuted. Qed.
Print Assumptions C02_kf4_typedef_relative_path_refuted.

(** Same type, default and units at every place the enclosing grouping is used. *)
Theorem C02_derive_use_invariant : forall fuel E l n rs,
  compile_uses true fuel E l n = Ok rs -> forall x y, In x rs -> In y rs -> x = y.
Proof. exact use_invariant. Qed.
Print Assumptions C02_derive_use_invariant.

Theorem C02_one_result_per_use : forall fx fuel E l n rs,
  compile_uses fx fuel E l n = Ok rs -> List.length rs = S (n - 1).
Proof. exact uses_count. Qed.

(** before the repair the second use lost the inherited default and units *)
Theorem C02_use_invariant_old_refuted :
  exists a b, compile_uses false (leaf_fuel E_use l_use) E_use l_use 2 = Ok [a; b]
    /\ snd (fst a) = Some [T "7"] /\ snd (fst b) = None /\ snd a = T "u" /\ snd b = [].
Proof. exact use_invariant_old_refuted. Qed.
Print Assumptions C02_use_invariant_old_refuted.

(** A default or units statement on the leaf itself always wins (for every use, with or without
    the repair of the shared type object). *)
Theorem C02_explicit_default_wins : forall fx fuel E l n rs d,
  compile_uses fx fuel E l n = Ok rs -> lf_default l = Some d ->
  Forall (fun r => snd (fst r) = Some d) rs.
Proof. exact explicit_default_wins. Qed.
Print Assumptions C02_explicit_default_wins.

Theorem C02_explicit_units_win : forall fx fuel E l n rs,
  compile_uses fx fuel E l n = Ok rs -> lf_units l <> [] ->
  Forall (fun r => snd r = lf_units l) rs.
Proof. exact explicit_units_win. Qed.
Print Assumptions C02_explicit_units_win.

(** Enum values and bit positions: the running counter of the code is the RFC's rule (explicit value
    kept, otherwise highest so far + 1, 0 for the first), for every list of entries. *)
Theorem C02_enum_values_rfc : forall l, values_of (assign l) = rfc_values [] l.
Proof. exact assign_rfc. Qed.
Print Assumptions C02_enum_values_rfc.

Theorem C02_enum_values_old_refuted :
  values_of (assign_old enum_abc) = [(T "a", 3); (T "b", 4); (T "c", 5)]
  /\ rfc_values [] enum_abc = [(T "a", 3); (T "b", 0); (T "c", 4)]
  /\ values_of (assign enum_abc) = rfc_values [] enum_abc.
Proof. exact enum_old_refuted. Qed.

Theorem C02_restricted_enum_keeps_value :
  values_of (assign_old [(T "z", None)]) = [(T "z", 0)]
  /\ exists t d u, compile_uses true (leaf_fuel E_xyz l_xyz) E_xyz l_xyz 1 = Ok [(t, d, u)]
       /\ values_of (t_enums t) = [(T "z", 2)].
Proof. exact restricted_enum_keeps_value. Qed.

(** Default and units are those of the nearest typedef stating one, for chains of any depth. *)
Theorem C02_nearest_default_units : forall lv,
  inherited lv = (first_some (map lv_default lv), first_nonempty (map lv_units lv)).
Proof. exact inherited_spec. Qed.
Print Assumptions C02_nearest_default_units.

(** Typedef names are resolved lexically: two sibling scopes defining the same name "t" (int32 with
    range, default and units in one, string with another default in the other) give each leaf the
    typedef of its own scope, and both results are what the RFC oracle of the check accepts. *)
Example C02_sibling_scopes_lexical :
  (exists t, compile_uses true (leaf_fuel E_sib l_sib_x) E_sib l_sib_x 1 = Ok [(t, Some [T "5"], T "s")]
             /\ t_format t = 11 /\ t_ranges t = [T "1..60"])
  /\ (exists t, compile_uses true (leaf_fuel E_sib l_sib_y) E_sib l_sib_y 1 = Ok [(t, Some [T "none"], [])]
                /\ t_format t = fmt_list FmtString /\ t_ranges t = [])
  /\ model_meets_spec E_sib l_sib_x 1 = true /\ model_meets_spec E_sib l_sib_y 1 = true.
Proof. exact sibling_scopes. Qed.
Print Assumptions C02_sibling_scopes_lexical.

(** non-vacuity: a leaf-list of a union over a two-level typedef chain, a restricted enumeration and
    a relative leafref, in a grouping used three times, meets every hypothesis *)
Example C02_hyps_met :
  exists r rs, resolve (leaf_fuel E_ok l_ok) (e_mods E_ok) (lf_pos l_ok) (lf_type l_ok) = Ok r
    /\ wf_rt r = true /\ pat_region r = false /\ multibase_region r = false /\ tdrel_region r = false
    /\ compile_uses true (leaf_fuel E_ok l_ok) E_ok l_ok 3 = Ok rs /\ List.length rs = 3%nat
    /\ model_meets_spec E_ok l_ok 3 = true.
Proof. exact hyps_met. Qed.
Print Assumptions C02_hyps_met.

(** ** The helper meta.FindIdentity called with Type.Base() as the candidates (the JSON/XML writers
    call it so; node.NewValue no longer does, see C02_identity_value_accept below).  Read as the
    acceptance test of an identityref, at full strength: a text is accepted exactly when it names
    an identity derived, directly or indirectly, from every base (RFC 7950 9.10.2), for every
    hierarchy of identities - any branching, any depth, any number of modules. *)
Definition C02_identity_accept_full_statement : Prop :=
  forall mods ids t,
    find_identity (find_fuel mods) mods ids t <> FuelOut ->
    ((exists j, find_identity (find_fuel mods) mods ids t = Found j) <->
     (exists j, In j (accepted_inter mods ids) /\ snd j = t)).

(** It holds for an identityref with one base (several bases: finding k=2) and every text but the
    name of the base itself (the helper tests the candidates it is handed: its contract).  The out-of-fuel outcome is excluded by hypothesis and
    cannot occur on a hierarchy without cycles (C02_identity_lookup_never_out_of_fuel). *)
Theorem C02_identity_accept_partial : forall mods b t,
  find_identity (find_fuel mods) mods [b] t <> FuelOut -> snd b <> t ->
  ((exists j, find_identity (find_fuel mods) mods [b] t = Found j) <->
   (exists j, In j (accepted_inter mods [b]) /\ snd j = t)).
Proof. exact lookup_single_rfc. Qed.
Print Assumptions C02_identity_accept_partial.

(** the identity handed back carries the name asked for and is one the RFC accepts *)
Theorem C02_identity_found_is_derived : forall mods b t j,
  find_identity (find_fuel mods) mods [b] t = Found j -> snd b <> t ->
  In j (accepted_inter mods [b]) /\ snd j = t.
Proof. exact found_single_rfc. Qed.
Print Assumptions C02_identity_found_is_derived.

Theorem C02_identity_accept_refuted : ~ C02_identity_accept_full_statement.
Proof. exact accept_full_refuted. Qed.
Print Assumptions C02_identity_accept_refuted.

(** The search itself, for any list of candidates and any fuel: a hit lies among the candidates or
    below one of them and carries the name; a miss means no identity there carries it (no sibling
    and no sub-tree is skipped, whatever comes before it). *)
Theorem C02_identity_lookup_exhaustive : forall f mods cands t,
  match find_identity (S f) mods cands t with
  | Found j => In j (closure f mods cands) /\ snd j = t
  | NotFound => forall j, In j (closure f mods cands) -> snd j <> t
  | FuelOut => True
  end.
Proof. exact find_sound_complete. Qed.
Print Assumptions C02_identity_lookup_exhaustive.

(** with several bases the implementation accepts the names of the bases and of everything below
    any of them (the union; this is the behaviour finding k=2 describes) *)
Theorem C02_identity_lookup_union : forall mods ids t,
  find_identity (find_fuel mods) mods ids t <> FuelOut ->
  ((exists j, find_identity (find_fuel mods) mods ids t = Found j) <->
   (exists j, (In j ids \/ In j (accepted_union mods ids)) /\ snd j = t)).
Proof. exact lookup_union. Qed.
Print Assumptions C02_identity_lookup_union.

(** derivation without cycles (a measure decreasing along Identity.derived): never out of fuel *)
Theorem C02_identity_lookup_never_out_of_fuel : forall (rank : iid -> nat) mods t,
  (forall i j, In j (direct_derived mods i) -> (rank j < rank i)%nat) ->
  forall f cands, (forall c, In c cands -> (rank c < f)%nat) ->
  find_identity f mods cands t <> FuelOut.
Proof. exact find_fuel_enough. Qed.
Print Assumptions C02_identity_lookup_never_out_of_fuel.

(** ** node.NewValue on an identityref (toIdentRef after repair 873d214: the search starts below
    each base).  At full strength for one base: a text is accepted exactly when it names an identity
    derived from the base - the base's own name included in the statement (several bases: k=2). *)
Theorem C02_identity_value_accept : forall mods b v,
  ident_value (value_fuel mods) mods [b] v <> None ->
  ((exists lab, ident_value (value_fuel mods) mods [b] v = Some (Some lab)) <->
   (exists j, In j (accepted_inter mods [b]) /\ snd j = value_local v)).
Proof. exact value_single_rfc. Qed.
Print Assumptions C02_identity_value_accept.

(** any number of bases: accepted exactly for the names below one of them (the union of k=2) *)
Theorem C02_identity_value_union : forall mods ids v,
  ident_value (value_fuel mods) mods ids v <> None ->
  ((exists lab, ident_value (value_fuel mods) mods ids v = Some (Some lab)) <->
   (exists j, In j (accepted_union mods ids) /\ snd j = value_local v)).
Proof. exact value_union. Qed.
Print Assumptions C02_identity_value_union.

(** the value is labelled with the local part of the text given, which names an accepted identity *)
Theorem C02_identity_value_label : forall mods ids v lab,
  ident_value (value_fuel mods) mods ids v = Some (Some lab) ->
  lab = value_local v /\ exists j, In j (accepted_union mods ids) /\ snd j = lab.
Proof. exact ident_value_label. Qed.
Print Assumptions C02_identity_value_label.

Theorem C02_identity_value_never_out_of_fuel : forall (rank : iid -> nat) mods x,
  (forall i j, In j (direct_derived mods i) -> (rank j < rank i)%nat) ->
  forall f bases, (forall b, In b bases -> (rank b <= f)%nat) ->
  value_loop f mods x bases <> FuelOut.
Proof. exact value_fuel_enough. Qed.
Print Assumptions C02_identity_value_never_out_of_fuel.

(** the base's own name: the helper FindIdentity answers with the base when handed the bases (its
    contract), node.NewValue rejects it; the code before the repair accepted it and fails the oracle *)
Theorem C02_base_itself_rejected :
  find_identity (find_fuel mods_tr) mods_tr [i_tr "transport"] (T "transport") = Found (i_tr "transport")
  /\ ~ In (i_tr "transport") (accepted_inter mods_tr [i_tr "transport"])
  /\ ident_value (value_fuel mods_tr) mods_tr [i_tr "transport"] (T "transport") = Some None
  /\ ident_value_old (find_fuel mods_tr) mods_tr [i_tr "transport"] (T "transport") = Some (Some (T "transport"))
  /\ known_find E_tr l_tr (model_probes E_tr l_tr [T "transport"]) = None
  /\ corr_find E_tr l_tr (model_probes E_tr l_tr [T "transport"]) = true
  /\ find_meets_spec E_tr l_tr [T "transport"; T "m:transport"] = true.
Proof. exact base_itself_rejected. Qed.
Print Assumptions C02_base_itself_rejected.

Theorem C02_identity_value_old_refuted :
  spec_find E_tr l_tr (old_probes E_tr l_tr [T "transport"]) = false
  /\ corr_find E_tr l_tr (old_probes E_tr l_tr [T "transport"]) = false
  /\ spec_find E_tr l_tr (old_probes E_tr l_tr [T "tcp"; T "m:dtls"; T "other"]) = true.
Proof. exact value_old_refuted. Qed.
Print Assumptions C02_identity_value_old_refuted.

(** non-vacuity: transport <- tcp <- tls, transport <- udp <- dtls, other.  The hypotheses of the
    theorems above are met (not out of fuel, the text is not the base's name, a decreasing measure
    exists) and the identities below the second sibling are found. *)
Example C02_identity_hyps_met :
  find_identity (find_fuel mods_tr) mods_tr [i_tr "transport"] (T "dtls") <> FuelOut
  /\ snd (i_tr "transport") <> T "dtls"
  /\ In (i_tr "dtls") (accepted_inter mods_tr [i_tr "transport"])
  /\ model_bases E_tr l_tr = Some [i_tr "transport"]
  /\ corr_find E_tr l_tr (model_probes E_tr l_tr [T "tcp"; T "udp"; T "tls"; T "m:dtls"; T "other"; T "nosuch"]) = true
  /\ find_meets_spec E_tr l_tr [T "tcp"; T "udp"; T "tls"; T "m:dtls"; T "other"; T "nosuch"] = true
  /\ known_find E_tr l_tr (model_probes E_tr l_tr [T "tcp"; T "udp"; T "tls"; T "m:dtls"; T "other"; T "nosuch"]) = None.
Proof. exact lookup_hyps_met. Qed.
Print Assumptions C02_identity_hyps_met.

Example C02_identity_measure_exists :
  (forall i j, In j (direct_derived mods_tr i) -> (rank_tr j < rank_tr i)%nat)
  /\ (forall c, In c [i_tr "transport"] -> (rank_tr c < find_fuel mods_tr)%nat).
Proof. exact (conj rank_tr_decreases rank_tr_bound). Qed.
Print Assumptions C02_identity_measure_exists.

Example C02_identity_branching_lookup :
  find_identity (find_fuel mods_tr) mods_tr [i_tr "transport"] (T "dtls") = Found (i_tr "dtls")
  /\ find_identity (find_fuel mods_tr) mods_tr [i_tr "transport"] (T "udp") = Found (i_tr "udp")
  /\ find_identity (find_fuel mods_tr) mods_tr [i_tr "transport"] (T "tls") = Found (i_tr "tls")
  /\ find_identity (find_fuel mods_tr) mods_tr [i_tr "transport"] (T "other") = NotFound
  /\ find_identity (find_fuel mods_tr) mods_tr [i_tr "tcp"] (T "dtls") = NotFound
  /\ ident_value (value_fuel mods_tr) mods_tr [i_tr "transport"] (T "m:dtls") = Some (Some (T "dtls")).
Proof. exact lookup_tr. Qed.
