(** C14 - Loading any text terminates with a module or an error.  (partial)
    Theorem-only file.  What is proved is the totality of the lexer model (YLex/Model.v: the whole of
    parser/lexer.go as repaired, byte level) and of the string post-processing of the grammar.  The
    goyacc driver, the builder, resolver and compiler are NOT modelled: for them the property is
    established by the correspondence streams only (bin/props.d/C14.json) - except the import loop of
    the resolver, whose model (Load/Model.v) is proved to end on every import graph. *)
From Coq Require Import List Bool Arith Strings.Byte.
From YV Require Import YLex.Keywords YLex.Model YLex.Spec YLex.Proofs YLex.Total.
From YV Require Import Load.Model.
From YV Require Load.Proofs.
From YV Require Import Load.FindUp.
From YV Require Load.FindUpProofs.
Import ListNotations.

(** For EVERY byte string the lexer ends with the complete token stream or with a lexer error: it
    never indexes out of range and never needs more steps than the length of the input allows. *)
Theorem C14_ylex_total : forall input,
  exists toks, ylex input = LexOk toks \/ ylex input = LexErr toks.
Proof. exact ylex_total. Qed.
Print Assumptions C14_ylex_total.

Theorem C14_ylex_no_panic : forall input, ylex input <> LexPanic /\ ylex input <> LexFuel.
Proof. exact ylex_no_panic. Qed.
Print Assumptions C14_ylex_no_panic.

(** every call of the state function lexBegin that returns to lexBegin has consumed input: the
    lexer cannot loop (the extension-argument loop did, at the pinned commit, on a truncated text) *)
Theorem C14_lex_begin_progress : forall s,
  lex_begin s <> StepFuel /\ (forall toks r, lex_begin s = Continue toks r -> length r < length s).
Proof. exact lex_begin_ok. Qed.
Print Assumptions C14_lex_begin_progress.

(** acceptString terminates with the fuel the model gives it and consumes what it accepts *)
Theorem C14_accept_string_total : forall s,
  accept_string (S (length s)) s <> SFuel /\
  (forall toks r, accept_string (S (length s)) s = SOk toks r -> length r < length s).
Proof. exact accept_string_self. Qed.
Print Assumptions C14_accept_string_total.

(** the token ring never indexes outside its buffer, whatever number of tokens is pushed *)
Theorem C14_ring_total : forall (r : ring token) toks, ring_ok r ->
  exists d r', deliver r toks = Some (d, r') /\ ring_ok r'.
Proof. exact (@deliver_total token). Qed.
Print Assumptions C14_ring_total.

(** acceptWS never grows its input (no index past the end) *)
Theorem C14_accept_ws_bounded : forall s, length (accept_ws s) <= length s.
Proof. exact accept_ws_len. Qed.

(** non-vacuity and the pinned commit: the texts that crashed the lexer then are plain lexer errors or
    token streams now; the old white-space skipper and the old tokenString are refuted *)
Example C14_pinned_commit_refuted :
  ws_old ON [x2f; x2f; x20; x65; x6e; x64] = None                      (* "// end" at the end of the input *)
  /\ token_string_old [] = None                                        (* text truncated after "description " *)
  /\ (exists t, ylex [x6d; x6f; x64; x75; x6c; x65; x20; x6d; x20; x7b; x20; x7d; x20; x2f; x2f; x20; x65; x6e; x64] = LexOk t)
  /\ (exists t, ylex [x64; x65; x73; x63; x72; x69; x70; x74; x69; x6f; x6e; x20] = LexErr t)
  /\ (exists t, ylex [x78; x3a; x79] = LexErr t).
Proof.
  split; [vm_compute; reflexivity|]. split; [vm_compute; reflexivity|].
  split; [eexists; vm_compute; reflexivity|]. split; eexists; vm_compute; reflexivity.
Qed.

(** The import loop of the resolver (model Load/Model.v [imp_run] of meta/resolver.go resolver.module
    as repaired) ends for EVERY import graph - rings, self imports, texts stored under another name
    than they declare, missing texts, any revision-date on any edge: the fuel the model is given
    always suffices. *)
Theorem C14_import_loop_total : forall g, imp_model g <> IFuel.
Proof. exact Load.Proofs.imp_model_total. Qed.
Print Assumptions C14_import_loop_total.

(** ... and it never asks the opener twice for the same name *)
Theorem C14_import_loop_requests_once : forall g, NoDup (Load.Proofs.requested (imp_model g)).
Proof. exact Load.Proofs.imp_model_requests_once. Qed.
Print Assumptions C14_import_loop_requests_once.

(** the loop before the repair (a loaded text was registered under the name it declares only) is
    refuted: with a text stored as m1 that declares m3 and imports m1, no fuel suffices *)
Example C14_import_loop_old_refuted :
  (forall fuel, imp_run_old fuel (ig_files Load.Proofs.misnamed_graph) [0] [] [1] = IFuel)
  /\ imp_model Load.Proofs.misnamed_graph = IDone [1].
Proof. exact Load.Proofs.imp_old_refuted. Qed.
Print Assumptions C14_import_loop_old_refuted.

(** Relative schema paths (meta/find.go Find, the branch for a leading ../ step; model Load/FindUp.v):
    for EVERY path and EVERY node depth the walk up never calls Parent() on a nil Meta - a path that
    climbs further than the module is an unresolvable path, not a crash. *)
Theorem C14_find_up_total : forall anc path, find_up (Some anc) path <> FPanic.
Proof. exact Load.FindUpProofs.find_up_total. Qed.
Print Assumptions C14_find_up_total.

(** ... and it arrives where it should: n leading ../ steps from a node with a ancestors end at the
    ancestor n levels up when n <= a (n = a: the module) and with nil otherwise *)
Theorem C14_find_up_spec : forall n a rest, no_up rest = true ->
  find_up (Some a) (ups n ++ rest) = if n <=? a then FAt (a - n) rest else FNil.
Proof. exact Load.FindUpProofs.find_up_spec. Qed.
Print Assumptions C14_find_up_spec.

Theorem C14_find_up_below : forall a path b rest, find_up (Some a) path = FAt b rest -> b <= a.
Proof. exact Load.FindUpProofs.find_up_below. Qed.
Print Assumptions C14_find_up_below.

(** non-vacuity; and a walk that tests for the missing parent once instead of at every step is
    refuted (three steps from a top-level leaf) *)
Example C14_find_up_unchecked_refuted :
  climb_unchecked (Some 1) (ups 3 ++ [x61]) = FPanic /\ find_up (Some 1) (ups 3 ++ [x61]) = FNil
  /\ find_up (Some 1) (ups 1 ++ [x61]) = FAt 0 [x61].
Proof. exact Load.FindUpProofs.climb_unchecked_refuted. Qed.
Print Assumptions C14_find_up_unchecked_refuted.

(** A second default statement on a leaf, typedef or choice (meta/builder.go Builder.Default as
    repaired) is an error WHATEVER the first argument was - in particular the empty string - and
    never reaches the panic of addDefault. *)
Theorem C14_second_default_is_error : forall first second, builder_default (Some first) second = BErr.
Proof. exact Load.FindUpProofs.builder_default_second_is_error. Qed.
Print Assumptions C14_second_default_is_error.

Theorem C14_builder_default_total : forall cur v, builder_default cur v <> BPanic.
Proof. exact Load.FindUpProofs.builder_default_total. Qed.
Print Assumptions C14_builder_default_total.

(** a guard that reads the public getter (Default() is "" both for no default and for the empty
    default) is refuted: default ""; default "b"; reaches the panic *)
Example C14_default_guard_by_getter_refuted :
  builder_default_by_getter (Some []) [x62] = BPanic /\ builder_default (Some []) [x62] = BErr.
Proof. exact Load.FindUpProofs.builder_default_by_getter_refuted. Qed.
Print Assumptions C14_default_guard_by_getter_refuted.
