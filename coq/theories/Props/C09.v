(** C09 - At most one case of a choice ever holds data.  Theorem-only file.
    Model: Tree/Editor.v (clear_other_case / clear_case / choose and the editor loops);
    invariant: Tree/ChoiceInv.v.  Theorems proved in Tree/ChoiceProofs.v and
    Tree/ChoiceInvProofs.v. *)
From Coq Require Import ZArith List Bool Strings.Byte.
From YV Require Import Val.Model Tree.Schema Tree.Editor Tree.Merge Tree.EditorProofs Tree.ChoiceInv Tree.ChoiceProofs Tree.ChoiceInvProofs.
From YV Require Import Base.Verdict.
From YV Require Check.C09Check.
Import ListNotations.

(** after clearChoiceCase every definition sitting directly in the cleared case is gone *)
Theorem C09_clear_case_removes : forall c k kids tgt i s,
  length tgt = length kids -> nth_error kids i = Some s ->
  guard_case c (sguard s) = Some k -> guard_after c (sguard s) = Some [] ->
  nth i (clear_case c k kids tgt) None = None.
Proof. exact clear_case_removes. Qed.
Print Assumptions C09_clear_case_removes.

(** and nothing outside that case is touched (frame) *)
Theorem C09_clear_case_frame : forall c k kids tgt i s,
  length tgt = length kids -> nth_error kids i = Some s ->
  guard_case c (sguard s) <> Some k ->
  nth i (clear_case c k kids tgt) None = nth i tgt None.
Proof. exact clear_case_frame. Qed.
Print Assumptions C09_clear_case_frame.

(** The invariant the property asks for, as a statement over every upsert history (full): *)
Definition C09_full_statement : Prop := forall kids srcs tgt,
  forallb wf_schema kids = true ->
  shaped_kids shaped kids tgt = true -> inv_content kids tgt = true ->
  Forall (fun src => shaped_kids shaped kids src = true /\ inv_content kids src = true) srcs ->
  forall r,
    fold_left (fun acc src => match acc with
                              | Ok t => edit_content false kids src t Upsert
                              | Err e => Err e end) srcs (Ok tgt) = Ok r ->
    inv_content kids r = true.

(** the defect of the pinned commit (only the innermost case was considered) is visible in the
    model of the old behaviour: with case B of the outer choice populated, writing a leaf of a
    choice nested in case A left both A and B populated.  With the repaired editor: *)
Example C09_nested_switch_now_clears :
  let leaf n g := SLeaf (mkMeta [n] [] true g None) TStr false None in
  let kids := [leaf x61 [(0, 0); (1, 0)]%nat; leaf x62 [(0, 0)]%nat; leaf x63 [(0, 1)]%nat] in
  let v := Some (DLeaf (LV (VStr [x31]))) in
  edit_content false kids [v; None; None] [None; None; v] Upsert = Ok [v; None; None]
  /\ inv_content kids [v; None; None] = true.
Proof. vm_compute. split; reflexivity. Qed.

(** * Upsert preserves the invariant (proved in Tree/ChoiceInvProofs.v)

    No hypothesis on the guards is needed: a definition is written only when its guard is selected
    in the source ([guard_selected]), which forces the guard to be free of self-conflicts, and the
    clearing loop (innermost case outwards) leaves, for every (choice, case) on the written
    definition's guard, no data under another case of that choice.  The source need not satisfy the
    invariant itself. *)

(** one write at one level: clear the other cases, then put the datum *)
Theorem C09_write_keeps_one_case : forall kids t i k d,
  length t = length kids -> nth_error kids i = Some k -> no_conflict (sguard k) = true ->
  one_case_here kids t = true ->
  one_case_here kids (set_nth i (Some d) (clear_other_case k kids t)) = true.
Proof. exact upsert_write_one_case. Qed.
Print Assumptions C09_write_keeps_one_case.

(** the guard hypothesis of the previous theorem is what the editor's own visit test gives *)
Theorem C09_visited_guard_ok : forall g kids sc,
  guard_selected g kids sc = true -> no_conflict g = true.
Proof. exact guard_selected_no_conflict. Qed.

(** the whole editor, any depth (containers, list rows), either setting of useDefault *)
Theorem C09_upsert_preserves_inv : forall ud s, wf_schema s = true ->
  forall src tgt new r, shaped s src = true -> shaped s tgt = true -> inv s tgt = true ->
  edit_one ud s src tgt new Upsert = Ok r -> shaped s r = true /\ inv s r = true.
Proof. exact upsert_preserves_inv. Qed.
Print Assumptions C09_upsert_preserves_inv.

Theorem C09_upsert_content_preserves_inv : forall ud kids src tgt r,
  forallb wf_schema kids = true ->
  shaped_kids shaped kids src = true -> shaped_kids shaped kids tgt = true -> inv_content kids tgt = true ->
  edit_content ud kids src tgt Upsert = Ok r ->
  shaped_kids shaped kids r = true /\ inv_content kids r = true.
Proof. exact upsert_content_preserves_inv. Qed.
Print Assumptions C09_upsert_content_preserves_inv.

(** every upsert history (the full statement above, which asks less of the sources than it offers) *)
Theorem C09_history : C09_full_statement.
Proof.
  intros kids srcs tgt Hwf Ht Hi Hs r Hrun.
  refine (proj2 (upsert_history_preserves_inv false kids srcs tgt r Hwf Ht Hi _ Hrun)).
  eapply Forall_impl; [|exact Hs]. intros a [H _]. exact H.
Qed.
Print Assumptions C09_history.

(** non-vacuity: two choices, one nested in a case of the other, with a container and a list in
    cases; a history that switches the inner case, then the outer one, then back *)
Example C09_history_hyps_met :
  let mk n g := mkMeta [n] [] true g None in
  let leaf n g := SLeaf (mk n g) TStr false None in
  let v b := Some (DLeaf (LV (VStr [b]))) in
  let row := SCont (mk x72 []) [leaf x6b []; leaf x70 [(0, 0)]; leaf x71 [(0, 1)]]%nat in
  let kids := [leaf x61 [(0, 0); (1, 0)];
               SCont (mk x62 [(0, 0); (1, 1)]) [leaf x78 [(0, 0)]; leaf x79 [(0, 1)]];
               SList (mk x63 [(0, 1)]) [0] row;
               leaf x64 []]%nat in
  let tgt := [v x31; None; None; v x32] in
  let s1 := [None; Some (DCont [v x33; None]); None; None] in
  let s2 := [None; None; Some (DList [DCont [v x34; v x35; None]]); None] in
  let s3 := [None; None; Some (DList [DCont [v x34; None; v x36]]); None] in
  let s4 := [v x37; None; None; None] in
  forallb wf_schema kids = true /\ shaped_kids shaped kids tgt = true /\ inv_content kids tgt = true /\
  Forall (fun src => shaped_kids shaped kids src = true /\ inv_content kids src = true) [s1; s2; s3; s4] /\
  fold_left (fun acc src => match acc with
                            | Ok t => edit_content false kids src t Upsert
                            | Err e => Err e end) [s1; s2; s3] (Ok tgt)
    = Ok [None; None; Some (DList [DCont [v x34; None; v x36]]); v x32] /\
  fold_left (fun acc src => match acc with
                            | Ok t => edit_content false kids src t Upsert
                            | Err e => Err e end) [s1; s2; s3; s4] (Ok tgt)
    = Ok [v x37; None; None; v x32].
Proof. vm_compute. repeat split; repeat constructor. Qed.

(** Upsert only: editor.leaf / editor.node call clearOnDifferentChoiceCase under editUpsert alone,
    so an insert or an update of a leaf of case B over a target holding case A succeeds and leaves
    both cases populated (model and node/edit.go:90,200 agree on this; on the real code, module
    "choice c { case a { leaf x } case b { leaf y } }", reflect target {x:1}, source {y:1}:
    UpsertFrom leaves {y:1}, InsertFrom and UpdateFrom both leave {x:1 y:1} with a nil error). *)
Example C09_insert_update_do_not_clear :
  let leaf n g := SLeaf (mkMeta [n] [] true g None) TStr false None in
  let kids := [leaf x61 [(0, 0)]; leaf x62 [(0, 1)]]%nat in
  let v := Some (DLeaf (LV (VStr [x31]))) in
  inv_content kids [v; None] = true /\ inv_content kids [None; v] = true /\
  edit_content false kids [None; v] [v; None] Insert = Ok [v; v] /\
  edit_content false kids [None; v] [v; None] Update = Ok [v; v] /\
  inv_content kids [v; v] = false.
Proof. vm_compute. repeat split. Qed.

(** * Targets other than the reference store (Check/C09Check.v, case CNode: nodeutil.Node over Go maps)

    The check records what such a target HOLDS (its Go maps, no library call) and what a READ of it
    REPORTS (through its own Choose).  The read side of the property is the relation
    [C09Check.reads_content held reported]; on a store satisfying the invariant it accepts the
    model's read (with or without the default of an unset leaf of the selected case) and rejects a
    read that hides the selected case or reports a node of another case.  Values such as [false]
    are data like any other: *)
Example C09_read_relation :
  let mk n g := mkMeta [n] [] true g None in
  let leaf n g d := SLeaf (mk n g) TBool false d in
  let t := Some (DLeaf (LV (VBool true))) in
  let f := Some (DLeaf (LV (VBool false))) in
  let kids := [leaf x61 [] None; leaf x62 [(0, 0)] None; leaf x63 [(0, 0)] (Some (LV (VBool true)));
               leaf x64 [(0, 1)] None]%nat in
  let held := [f; f; None; None] in
  inv_content kids held = true /\
  C09Check.model_read kids held = Ok [f; f; None; None] /\
  C09Check.reads_content kids held [f; f; t; None] = true /\
  C09Check.reads_content kids held [f; f; None; None] = true /\
  C09Check.reads_content kids held [f; None; None; None] = false /\
  C09Check.reads_content kids held [f; f; None; f] = false /\
  C09Check.reads_content kids held [f; t; None; None] = false.
Proof. vm_compute. repeat split. Qed.
Print Assumptions C09_read_relation.

(** one step on such a target: case 0 holds the single leaf [false]; a leaf of case 1 is upserted.
    Only "case 0 cleared, case 1 held and reported" agrees; a target that keeps the [false] (it did
    not see case 0 as selected) violates the property whether or not its read shows it *)
Example C09_zero_valued_case_is_cleared :
  let leaf n g := SLeaf (mkMeta [n] [] true g None) TBool false None in
  let kids := [leaf x61 [(0, 0)]; leaf x62 [(0, 1)]]%nat in
  let t := Some (DLeaf (LV (VBool true))) in
  let f := Some (DLeaf (LV (VBool false))) in
  C09Check.classify_node kids [None; t] [f; None] (C09Check.NObsOk [None; t] [None; t]) = Agree /\
  C09Check.classify_node kids [None; t] [f; None] (C09Check.NObsOk [f; t] [None; t]) = Violates /\
  C09Check.classify_node kids [None; t] [f; None] (C09Check.NObsOk [f; t] [f; t]) = Violates /\
  C09Check.classify_node kids [f; None] [None; None] (C09Check.NObsOk [f; None] [None; None]) = Violates.
Proof. vm_compute. repeat split. Qed.
Print Assumptions C09_zero_valued_case_is_cleared.
