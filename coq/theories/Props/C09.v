(** C09 - At most one case of a choice ever holds data.  Theorem-only file.
    Model: Tree/Editor.v (clear_other_case / clear_case / choose and the editor loops);
    invariant: Tree/ChoiceInv.v.  Theorems proved in Tree/ChoiceProofs.v and
    Tree/ChoiceInvProofs.v. *)
From Coq Require Import ZArith List Bool Strings.Byte.
From YV Require Import Val.Model Tree.Schema Tree.Editor Tree.Merge Tree.EditorProofs Tree.ChoiceInv Tree.ChoiceProofs Tree.ChoiceInvProofs.
From YV Require Import Tree.ReflectChoose Tree.ReflectChooseProofs.
From YV Require Import Base.Verdict.
From YV Require Check.C09Check.
Import ListNotations.

(** after clearChoiceCase every definition sitting directly in the cleared case is gone *)
Theorem C09_clear_case_removes : forall c k kids tgt i s,
  length tgt = length kids -> nth_error kids i = Some s ->
  guard_case c (sguard s) = Some k -> guard_after c (sguard s) = Some [] ->
  nth i (clear_case c k kids tgt) None = None.
Proof. exact clear_case_removes. Qed.
Print Assumptions C09_clear_case_removes.

(** and nothing outside that case is touched (frame) *)
Theorem C09_clear_case_frame : forall c k kids tgt i s,
  length tgt = length kids -> nth_error kids i = Some s ->
  guard_case c (sguard s) <> Some k ->
  nth i (clear_case c k kids tgt) None = nth i tgt None.
Proof. exact clear_case_frame. Qed.
Print Assumptions C09_clear_case_frame.

(** The invariant the property asks for, as a statement over every upsert history (full): *)
Definition C09_full_statement : Prop := forall kids srcs tgt,
  forallb wf_schema kids = true ->
  shaped_kids shaped kids tgt = true -> inv_content kids tgt = true ->
  Forall (fun src => shaped_kids shaped kids src = true /\ inv_content kids src = true) srcs ->
  forall r,
    fold_left (fun acc src => match acc with
                              | Ok t => edit_content false kids src t Upsert
                              | Err e => Err e end) srcs (Ok tgt) = Ok r ->
    inv_content kids r = true.

(** the defect of the pinned commit (only the innermost case was considered) is visible in the
    model of the old behaviour: with case B of the outer choice populated, writing a leaf of a
    choice nested in case A left both A and B populated.  With the repaired editor: *)
Example C09_nested_switch_now_clears :
  let leaf n g := SLeaf (mkMeta [n] [] true g None) TStr false None in
  let kids := [leaf x61 [(0, 0); (1, 0)]%nat; leaf x62 [(0, 0)]%nat; leaf x63 [(0, 1)]%nat] in
  let v := Some (DLeaf (LV (VStr [x31]))) in
  edit_content false kids [v; None; None] [None; None; v] Upsert = Ok [v; None; None]
  /\ inv_content kids [v; None; None] = true.
Proof. vm_compute. split; reflexivity. Qed.

(** * Upsert preserves the invariant (proved in Tree/ChoiceInvProofs.v)

    No hypothesis on the guards is needed: a definition is written only when its guard is selected
    in the source ([guard_selected]), which forces the guard to be free of self-conflicts, and the
    clearing loop (innermost case outwards) leaves, for every (choice, case) on the written
    definition's guard, no data under another case of that choice.  The source need not satisfy the
    invariant itself. *)

(** one write at one level: clear the other cases, then put the datum *)
Theorem C09_write_keeps_one_case : forall kids t i k d,
  length t = length kids -> nth_error kids i = Some k -> no_conflict (sguard k) = true ->
  one_case_here kids t = true ->
  one_case_here kids (set_nth i (Some d) (clear_other_case k kids t)) = true.
Proof. exact upsert_write_one_case. Qed.
Print Assumptions C09_write_keeps_one_case.

(** the guard hypothesis of the previous theorem is what the editor's own visit test gives *)
Theorem C09_visited_guard_ok : forall g kids sc,
  guard_selected g kids sc = true -> no_conflict g = true.
Proof. exact guard_selected_no_conflict. Qed.

(** the whole editor, any depth (containers, list rows), either setting of useDefault *)
Theorem C09_upsert_preserves_inv : forall ud s, wf_schema s = true ->
  forall src tgt new r, shaped s src = true -> shaped s tgt = true -> inv s tgt = true ->
  edit_one ud s src tgt new Upsert = Ok r -> shaped s r = true /\ inv s r = true.
Proof. exact upsert_preserves_inv. Qed.
Print Assumptions C09_upsert_preserves_inv.

Theorem C09_upsert_content_preserves_inv : forall ud kids src tgt r,
  forallb wf_schema kids = true ->
  shaped_kids shaped kids src = true -> shaped_kids shaped kids tgt = true -> inv_content kids tgt = true ->
  edit_content ud kids src tgt Upsert = Ok r ->
  shaped_kids shaped kids r = true /\ inv_content kids r = true.
Proof. exact upsert_content_preserves_inv. Qed.
Print Assumptions C09_upsert_content_preserves_inv.

(** every upsert history (the full statement above, which asks less of the sources than it offers) *)
Theorem C09_history : C09_full_statement.
Proof.
  intros kids srcs tgt Hwf Ht Hi Hs r Hrun.
  refine (proj2 (upsert_history_preserves_inv false kids srcs tgt r Hwf Ht Hi _ Hrun)).
  eapply Forall_impl; [|exact Hs]. intros a [H _]. exact H.
Qed.
Print Assumptions C09_history.

(** non-vacuity: two choices, one nested in a case of the other, with a container and a list in
    cases; a history that switches the inner case, then the outer one, then back *)
Example C09_history_hyps_met :
  let mk n g := mkMeta [n] [] true g None in
  let leaf n g := SLeaf (mk n g) TStr false None in
  let v b := Some (DLeaf (LV (VStr [b]))) in
  let row := SCont (mk x72 []) [leaf x6b []; leaf x70 [(0, 0)]; leaf x71 [(0, 1)]]%nat in
  let kids := [leaf x61 [(0, 0); (1, 0)];
               SCont (mk x62 [(0, 0); (1, 1)]) [leaf x78 [(0, 0)]; leaf x79 [(0, 1)]];
               SList (mk x63 [(0, 1)]) [0] row;
               leaf x64 []]%nat in
  let tgt := [v x31; None; None; v x32] in
  let s1 := [None; Some (DCont [v x33; None]); None; None] in
  let s2 := [None; None; Some (DList [DCont [v x34; v x35; None]]); None] in
  let s3 := [None; None; Some (DList [DCont [v x34; None; v x36]]); None] in
  let s4 := [v x37; None; None; None] in
  forallb wf_schema kids = true /\ shaped_kids shaped kids tgt = true /\ inv_content kids tgt = true /\
  Forall (fun src => shaped_kids shaped kids src = true /\ inv_content kids src = true) [s1; s2; s3; s4] /\
  fold_left (fun acc src => match acc with
                            | Ok t => edit_content false kids src t Upsert
                            | Err e => Err e end) [s1; s2; s3] (Ok tgt)
    = Ok [None; None; Some (DList [DCont [v x34; None; v x36]]); v x32] /\
  fold_left (fun acc src => match acc with
                            | Ok t => edit_content false kids src t Upsert
                            | Err e => Err e end) [s1; s2; s3; s4] (Ok tgt)
    = Ok [v x37; None; None; v x32].
Proof. vm_compute. repeat split; repeat constructor. Qed.

(** Upsert only: editor.leaf / editor.node call clearOnDifferentChoiceCase under editUpsert alone,
    so an insert or an update of a leaf of case B over a target holding case A succeeds and leaves
    both cases populated (model and node/edit.go:90,200 agree on this; on the real code, module
    "choice c { case a { leaf x } case b { leaf y } }", reflect target {x:1}, source {y:1}:
    UpsertFrom leaves {y:1}, InsertFrom and UpdateFrom both leave {x:1 y:1} with a nil error). *)
Example C09_insert_update_do_not_clear :
  let leaf n g := SLeaf (mkMeta [n] [] true g None) TStr false None in
  let kids := [leaf x61 [(0, 0)]; leaf x62 [(0, 1)]]%nat in
  let v := Some (DLeaf (LV (VStr [x31]))) in
  inv_content kids [v; None] = true /\ inv_content kids [None; v] = true /\
  edit_content false kids [None; v] [v; None] Insert = Ok [v; v] /\
  edit_content false kids [None; v] [v; None] Update = Ok [v; v] /\
  inv_content kids [v; v] = false.
Proof. vm_compute. repeat split. Qed.

(** * Targets other than the reference store (Check/C09Check.v, case CNode: nodeutil.Node over Go maps)

    The check records what such a target HOLDS (its Go maps, no library call) and what a READ of it
    REPORTS (through its own Choose).  The read side of the property is the relation
    [C09Check.reads_content held reported]; on a store satisfying the invariant it accepts the
    model's read (with or without the default of an unset leaf of the selected case) and rejects a
    read that hides the selected case or reports a node of another case.  Values such as [false]
    are data like any other: *)
Example C09_read_relation :
  let mk n g := mkMeta [n] [] true g None in
  let leaf n g d := SLeaf (mk n g) TBool false d in
  let t := Some (DLeaf (LV (VBool true))) in
  let f := Some (DLeaf (LV (VBool false))) in
  let kids := [leaf x61 [] None; leaf x62 [(0, 0)] None; leaf x63 [(0, 0)] (Some (LV (VBool true)));
               leaf x64 [(0, 1)] None]%nat in
  let held := [f; f; None; None] in
  inv_content kids held = true /\
  C09Check.model_read kids held = Ok [f; f; None; None] /\
  C09Check.reads_content kids held [f; f; t; None] = true /\
  C09Check.reads_content kids held [f; f; None; None] = true /\
  C09Check.reads_content kids held [f; None; None; None] = false /\
  C09Check.reads_content kids held [f; f; None; f] = false /\
  C09Check.reads_content kids held [f; t; None; None] = false.
Proof. vm_compute. repeat split. Qed.
Print Assumptions C09_read_relation.

(** one step on such a target: case 0 holds the single leaf [false]; a leaf of case 1 is upserted.
    Only "case 0 cleared, case 1 held and reported" agrees; a target that keeps the [false] (it did
    not see case 0 as selected) violates the property whether or not its read shows it *)
Example C09_zero_valued_case_is_cleared :
  let leaf n g := SLeaf (mkMeta [n] [] true g None) TBool false None in
  let kids := [leaf x61 [(0, 0)]; leaf x62 [(0, 1)]]%nat in
  let t := Some (DLeaf (LV (VBool true))) in
  let f := Some (DLeaf (LV (VBool false))) in
  C09Check.classify_node kids [None; t] [f; None] (C09Check.NObsOk [None; t] [None; t]) = Agree /\
  C09Check.classify_node kids [None; t] [f; None] (C09Check.NObsOk [f; t] [None; t]) = Violates /\
  C09Check.classify_node kids [None; t] [f; None] (C09Check.NObsOk [f; t] [f; t]) = Violates /\
  C09Check.classify_node kids [f; None] [None; None] (C09Check.NObsOk [f; None] [None; None]) = Violates.
Proof. vm_compute. repeat split. Qed.
Print Assumptions C09_zero_valued_case_is_cleared.

(** * The Reflect map node (nodeutil.ReflectChild over Go maps; Check/C09Check.v, case CRefl)

    Its case detection (nodeutil/reflect.go childMap OnChoose, after fix f226b24) walks the HIERARCHY
    of the schema: cases in name order, the definitions of a case in schema order, a choice nested
    in a case looked through recursively (Tree/ReflectChoose.v, [rchoose]).  The theorems below are
    over hierarchies of any nesting depth and any held data. *)

(** the answer is a case of the choice asked about, something is held under it - at any depth of
    nesting - and nothing is held under a case before it *)
Theorem C09_reflect_choose_answer : forall cases k,
  rchoose cases = Some k ->
  (k < length cases)%nat /\
  any_present (hflat_defs (nth k cases [])) = true /\
  forall i, (i < k)%nat -> any_present (hflat_defs (nth i cases [])) = false.
Proof. exact rchoose_some. Qed.
Print Assumptions C09_reflect_choose_answer.

(** no answer only when nothing is held below the choice, and then always *)
Theorem C09_reflect_choose_no_answer : forall cases,
  rchoose cases = None -> any_present (hflat_cases cases) = false.
Proof. exact rchoose_none. Qed.
Print Assumptions C09_reflect_choose_no_answer.

Theorem C09_reflect_choose_complete : forall cases,
  any_present (hflat_cases cases) = true -> exists k, rchoose cases = Some k.
Proof. exact rchoose_complete. Qed.
Print Assumptions C09_reflect_choose_complete.

(** the walk over the hierarchy is [Schema.choose] of the flat kids, for every choice of a
    container at any depth of nesting: the Reflect map node detects cases as the reference store
    does, hence [edit_content] (whose clearing and reading go through [choose]) is the model of an
    upsert into it and [C09_history] is a statement about it.  [dump_ok]: the dumped hierarchy walks
    the flat kids in order and its paths are their guards (evaluated on every case of the run). *)
Theorem C09_reflect_choose_is_reference_choose : forall defs kids data id cases,
  dump_ok defs kids = true -> length data = length kids ->
  find_choice_defs id (hzip_defs kids data defs) = Some cases ->
  rchoose cases = choose id kids data.
Proof. exact reflect_choose_flat. Qed.
Print Assumptions C09_reflect_choose_is_reference_choose.

(** on a target holding at most one case per choice - which every upsert history preserves - the
    answer is THE case holding data, however deep below nested choices the held node sits *)
Theorem C09_reflect_choose_selected_case : forall defs kids data id cases k,
  dump_ok defs kids = true -> length data = length kids ->
  find_choice_defs id (hzip_defs kids data defs) = Some cases ->
  one_case_here kids data = true -> In (id, k) (occupied kids data) ->
  rchoose cases = Some k.
Proof. exact reflect_choose_selected. Qed.
Print Assumptions C09_reflect_choose_selected_case.

(** non-vacuity and the two detections that are NOT the model: module
      choice o { case a { choice i { case x { leaf p } case y { leaf q } } leaf g } case b { leaf r } }
    with only [p] held.  The repaired walk answers case a (index 0) for [o], as [choose] does; the
    detection of the pinned commit looked the nested choice up under its own name and answered
    nothing (so a read dropped [p] and an upsert of [r] left [p] in place); a walk that hands back
    what its recursive call found answers, for [o], with case x of choice [i]. *)
Example C09_reflect_choose_hyps_met_old_refuted :
  let leaf n g := SLeaf (mkMeta [n] [] true g None) TStr false None in
  let kids := [leaf x70 [(0, 0); (1, 0)]; leaf x71 [(0, 0); (1, 1)]; leaf x67 [(0, 0)]; leaf x72 [(0, 1)]]%nat in
  let defs := [CC 0 [[CC 1 [[CD 0]; [CD 1]]; CD 2]; [CD 3]]]%nat in
  let v := Some (DLeaf (LV (VStr [x31]))) in
  let data := [v; None; None; None] in
  dump_ok defs kids = true /\ length data = length kids /\ one_case_here kids data = true /\
  In (0, 0)%nat (occupied kids data) /\
  exists cases, find_choice_defs 0 (hzip_defs kids data defs) = Some cases /\
                rchoose cases = Some 0%nat /\ choose 0 kids data = Some 0%nat /\
                rchoose_old cases = None /\
                rchoose_inner 0 cases = Some (1, 0)%nat.
Proof. vm_compute. repeat split; try (left; reflexivity). eexists. repeat split. Qed.
Print Assumptions C09_reflect_choose_hyps_met_old_refuted.

(** the classification of a step on the Reflect map node: the target of the example above receives
    [r] of case b.  Agree: [p] cleared, [r] held, read and answers accordingly.  An answer that is no
    case of the choice asked about, an answer "none" while [p] is held, a target left with both
    cases: each violates. *)
Example C09_reflect_step_classified :
  let leaf n g := SLeaf (mkMeta [n] [] true g None) TStr false None in
  let kids := [leaf x70 [(0, 0); (1, 0)]; leaf x71 [(0, 0); (1, 1)]; leaf x67 [(0, 0)]; leaf x72 [(0, 1)]]%nat in
  let defs := [CC 0 [[CC 1 [[CD 0]; [CD 1]]; CD 2]; [CD 3]]]%nat in
  let v := Some (DLeaf (LV (VStr [x31]))) in
  let src := [None; None; None; v] in
  let tgt := [v; None; None; None] in
  let A := C09Check.ACase in
  C09Check.classify_refl defs kids src tgt
    (C09Check.RObsOk [None; None; None; v] [None; None; None; v] [(0, A 1); (1, C09Check.ANone)]%nat) = Agree /\
  C09Check.classify_refl defs kids src tgt
    (C09Check.RObsOk [v; None; None; v] [None; None; None; v] [(0, A 1); (1, A 0)]%nat) = Violates /\
  C09Check.classify_refl defs kids [None; None; v; None] tgt
    (C09Check.RObsOk [v; None; v; None] [v; None; v; None] [(0, C09Check.AForeign); (1, A 0)]%nat) = Violates /\
  C09Check.classify_refl defs kids [None; None; None; None] tgt
    (C09Check.RObsOk [v; None; None; None] [None; None; None; None] [(0, C09Check.ANone); (1, A 0)]%nat) = Violates /\
  C09Check.classify_refl defs kids [None; None; v; None] tgt
    (C09Check.RObsOk [v; None; v; None] [v; None; v; None] [(0, A 0); (1, A 0)]%nat) = Agree.
Proof. vm_compute. repeat split. Qed.
Print Assumptions C09_reflect_step_classified.
