(** C09 - At most one case of a choice ever holds data.  Theorem-only file.
    Model: Tree/Editor.v (clear_other_case / clear_case / choose and the editor loops);
    invariant: Tree/ChoiceInv.v.  Theorems proved in Tree/ChoiceProofs.v. *)
From Coq Require Import ZArith List Bool Strings.Byte.
From YV Require Import Val.Model Tree.Schema Tree.Editor Tree.Merge Tree.EditorProofs Tree.ChoiceInv Tree.ChoiceProofs.
Import ListNotations.

(** after clearChoiceCase every definition sitting directly in the cleared case is gone *)
Theorem C09_clear_case_removes : forall c k kids tgt i s,
  length tgt = length kids -> nth_error kids i = Some s ->
  guard_case c (sguard s) = Some k -> guard_after c (sguard s) = Some [] ->
  nth i (clear_case c k kids tgt) None = None.
Proof. exact clear_case_removes. Qed.
Print Assumptions C09_clear_case_removes.

(** and nothing outside that case is touched (frame) *)
Theorem C09_clear_case_frame : forall c k kids tgt i s,
  length tgt = length kids -> nth_error kids i = Some s ->
  guard_case c (sguard s) <> Some k ->
  nth i (clear_case c k kids tgt) None = nth i tgt None.
Proof. exact clear_case_frame. Qed.
Print Assumptions C09_clear_case_frame.

(** The invariant the property asks for, as a statement over every upsert history (full): *)
Definition C09_full_statement : Prop := forall kids srcs tgt,
  forallb wf_schema kids = true ->
  shaped_kids shaped kids tgt = true -> inv_content kids tgt = true ->
  Forall (fun src => shaped_kids shaped kids src = true /\ inv_content kids src = true) srcs ->
  forall r,
    fold_left (fun acc src => match acc with
                              | Ok t => edit_content false kids src t Upsert
                              | Err e => Err e end) srcs (Ok tgt) = Ok r ->
    inv_content kids r = true.

(** the defect of the pinned commit (only the innermost case was considered) is visible in the
    model of the old behaviour: with case B of the outer choice populated, writing a leaf of a
    choice nested in case A left both A and B populated.  With the repaired editor: *)
Example C09_nested_switch_now_clears :
  let leaf n g := SLeaf (mkMeta [n] [] true g None) TStr false None in
  let kids := [leaf x61 [(0, 0); (1, 0)]%nat; leaf x62 [(0, 0)]%nat; leaf x63 [(0, 1)]%nat] in
  let v := Some (DLeaf (LV (VStr [x31]))) in
  edit_content false kids [v; None; None] [None; None; v] Upsert = Ok [v; None; None]
  /\ inv_content kids [v; None; None] = true.
Proof. vm_compute. split; reflexivity. Qed.
