(** C04 - Export and JSON round-trip reproduce exactly the data present.
    Theorem-only file.  Models: Tree/Editor.v (node/edit.go + container_meta_list.go against
    reference stores), Tree/Export.v ([visit]: the declarative export), Tree/JsonW.v (writer),
    Tree/JsonR.v (reader + node.NewValue, after the fixes listed in KNOWN_FINDINGS.txt). *)
From Coq Require Import ZArith List Bool Strings.Byte.
From YV Require Import Val.Model Tree.Schema Tree.Editor Tree.Export Tree.ExportProofs Tree.JsonSpec Tree.JsonExp
  Tree.JsonW Tree.JsonR Tree.JsonRProofs.
Import ListNotations.
Open Scope Z_scope.

(** reading a tree out through the editor into an empty store (UpsertInto / InsertInto a capturing
    node) visits every set leaf, leaf-list, container and list entry exactly once in schema order,
    entries in source order, only the chosen case of every choice, and adds nothing but the schema
    default of an unset leaf below the start node: the result is exactly [visit new s d] *)
Theorem C04_export_exact : forall s d new st, st <> Update -> is_leaf s = false -> wfd s d = true ->
  edit_one false s d (empty_node s) new st = Ok (visit new s d).
Proof. exact export_exact. Qed.
Print Assumptions C04_export_exact.

(** the same on the content of the module root, in the form TREE.md gives for "export" *)
Theorem C04_export_content_exact : forall kids data st, st <> Update ->
  all_kids (fun k dk => wfd k dk) kids data = true ->
  edit_content false kids data (empty_content kids) st =
  Ok (visit_kids (fun k sd => visit true k sd) false kids data kids 0).
Proof. exact export_content_exact. Qed.
Print Assumptions C04_export_content_exact.

(** ** JSON round trip *)

(** reading (JSON reader model + node.NewValue model) what the writer model wrote - any
    configuration: compact or pretty, enums by label or id, qualified or not - gives the tree back,
    for every schema and every tree whose leaf values belong to their leaf's type and whose sibling
    names are distinct ([rt_ok]; unions are outside it, see finding 1).  [float_of] is the
    number-literal-to-binary64 oracle (strconv.ParseFloat as used by encoding/json); [typed]
    requires of each decimal64 value only that FormatFloat and ParseFloat agree on it. *)
Theorem C04_json_roundtrip : forall fmt_float float_of idmod cfg s top x e,
  is_leaf s = false -> rt_ok fmt_float float_of idmod cfg s x = true ->
  enode cfg idmod top s x = Some e ->
  jsrc s (rd fmt_float float_of e) = ROk x.
Proof. exact json_roundtrip. Qed.
Print Assumptions C04_json_roundtrip.

(** ... and Selection.UpsertFrom(ReadJSON(text)) on an empty store then holds the export of that tree *)
Theorem C04_json_import : forall fmt_float float_of idmod cfg s top x e,
  is_leaf s = false -> rt_ok fmt_float float_of idmod cfg s x = true -> wfd s x = true ->
  enode cfg idmod top s x = Some e ->
  jimport s (rd fmt_float float_of e) = ROk (Ok (visit false s x)).
Proof. exact json_import. Qed.
Print Assumptions C04_json_import.

(** exporting an exported tree changes nothing - proved for schemas without choices (with choices the
    correspondence run compares the re-imported tree with the export on every case) - so there
    "decoding the produced JSON with the library's own reader and exporting again yields the same tree" *)
Theorem C04_export_idempotent : forall s, cfree s = true -> forall d n, visit n s (visit n s d) = visit n s d.
Proof. exact visit_idem. Qed.
Print Assumptions C04_export_idempotent.

Theorem C04_roundtrip_same_tree : forall fmt_float float_of idmod cfg s top d e,
  cfree s = true -> is_leaf s = false ->
  rt_ok fmt_float float_of idmod cfg s (visit false s d) = true -> wfd s (visit false s d) = true ->
  enode cfg idmod top s (visit false s d) = Some e ->
  jimport s (rd fmt_float float_of e) = ROk (Ok (visit false s d)).
Proof. exact roundtrip_same_tree. Qed.
Print Assumptions C04_roundtrip_same_tree.

(** every scalar of every non-union type decodes to itself *)
Theorem C04_scalar_roundtrip : forall fmt_float float_of idmod cfg ty lmod v e,
  typed fmt_float float_of idmod cfg ty v = true -> eitem cfg idmod lmod v = Some e ->
  rscalar ty (rd fmt_float float_of e) = ROk v.
Proof. exact rscalar_rt. Qed.
Print Assumptions C04_scalar_roundtrip.

(** known finding 1: a union {int32, string} holding the string "5" comes back as the int32 5 *)
Definition C04_union_full_statement : Prop :=
  forall members s, In TStr members -> rscalar (TUnion members) (RStr s) = ROk (LV (VStr s)).
Theorem C04_union_full_refuted : ~ C04_union_full_statement.
Proof.
  intros H. specialize (H [TInt FInt32; TStr] [x35] (or_intror (or_introl eq_refl))). vm_compute in H. discriminate H.
Qed.
Print Assumptions C04_union_full_refuted.

(** the hypotheses are satisfiable: a list of another module with an int64 key at its minimum, an
    identityref of another module, bits, an enum and an empty leaf *)
Definition ex_meta (n md : list byte) (g : guard) : nmeta := mkMeta n md true g None.
Definition ex_schema : snode :=
  SCont (ex_meta [x6d] [x6d] [])
    [ SLeaf (ex_meta [x65] [x6d] [(0, 0)]%nat) TEmpty false None;
      SLeaf (ex_meta [x66] [x6d] [(0, 1)]%nat) (TBits [([x62; x30], 0%Z); ([x62; x31], 1%Z)]) false None;
      SList (ex_meta [x71] [x74] []) [0%nat]
        (SCont (ex_meta [x71] [x74] [])
           [ SLeaf (ex_meta [x6b] [x74] []) (TInt FInt64) false None;
             SLeaf (ex_meta [x72] [x74] []) (TIdRef [[x69; x61]; [x69; x62]]) false None;
             SLeaf (ex_meta [x6e] [x6d] []) (TEnum [([x61], 0%Z); ([x62], 7%Z)]) true None;
             SLeaf (ex_meta [x73] [x74] []) TStr false (Some (LV (VStr [x22; x0a]))) ]) ].
Definition ex_tree : dnode :=
  DCont [ None; Some (DLeaf (LBits [[x62; x31]; [x62; x30]]));
          Some (DList [ DCont [ Some (DLeaf (LV (VInt FInt64 (-9223372036854775808))));
                                Some (DLeaf (LV (VIdRef [x69; x62])));
                                Some (DLeaf (LList [LV (VEnum 7 [x62]); LV (VEnum 0 [x61])]));
                                Some (DLeaf (LV (VStr [x22; x0a]))) ] ]) ].
Definition ex_idmod (l : ident) : option ident := Some [x74].
Definition ex_float (m e : Z) : list byte := [x30].
Definition ex_float_of (l : list byte) : Z * Z := (0%Z, 0%Z).

Example C04_example :
  let cfg := mkCfg true true true in
  rt_ok ex_float ex_float_of ex_idmod cfg ex_schema ex_tree = true /\
  wfd ex_schema ex_tree = true /\
  visit false ex_schema ex_tree = ex_tree /\
  exists e, enode cfg ex_idmod true ex_schema ex_tree = Some e /\
            jimport ex_schema (rd ex_float ex_float_of e) = ROk (Ok ex_tree).
Proof.
  cbv zeta. split; [vm_compute; reflexivity|]. split; [vm_compute; reflexivity|]. split; [vm_compute; reflexivity|].
  eexists. split; [vm_compute; reflexivity | vm_compute; reflexivity].
Qed.
Print Assumptions C04_example.
