(** C04 - Export and JSON round-trip reproduce exactly the data present.
    Theorem-only file.  Models: Tree/Editor.v (node/edit.go + container_meta_list.go against
    reference stores), Tree/Export.v ([visit]: the declarative export), Tree/JsonW.v (writer),
    Tree/JsonR.v (reader + node.NewValue, after the fixes listed in KNOWN_FINDINGS.txt). *)
From Coq Require Import ZArith List Bool Strings.Byte.
From YV Require Import Val.Model Tree.Schema Tree.Editor Tree.Export Tree.ExportProofs.
Import ListNotations.

(** reading a tree out through the editor into an empty store (UpsertInto / InsertInto a capturing
    node) visits every set leaf, leaf-list, container and list entry exactly once in schema order,
    entries in source order, only the chosen case of every choice, and adds nothing but the schema
    default of an unset leaf below the start node: the result is exactly [visit new s d] *)
Theorem C04_export_exact : forall s d new st, st <> Update -> is_leaf s = false -> wfd s d = true ->
  edit_one false s d (empty_node s) new st = Ok (visit new s d).
Proof. exact export_exact. Qed.
Print Assumptions C04_export_exact.

(** the same on the content of the module root, in the form TREE.md gives for "export" *)
Theorem C04_export_content_exact : forall kids data st, st <> Update ->
  all_kids (fun k dk => wfd k dk) kids data = true ->
  edit_content false kids data (empty_content kids) st =
  Ok (visit_kids (fun k sd => visit true k sd) false kids data kids 0).
Proof. exact export_content_exact. Qed.
Print Assumptions C04_export_content_exact.
