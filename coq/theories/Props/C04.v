(** C04 - Export and JSON round-trip reproduce exactly the data present.
    Theorem-only file.  Models: Tree/Editor.v (node/edit.go + container_meta_list.go against
    reference stores), Tree/Export.v ([visit]: the declarative export), Tree/JsonW.v (writer),
    Tree/JsonR.v (reader + node.NewValue, after the fixes listed in KNOWN_FINDINGS.txt),
    Tree/ExportPoint.v ([reported]: the export position by position), Tree/JsonSession.v (a JSONWtr
    value with its private bufio.Writer through a history of exports). *)
From Coq Require Import ZArith List Bool Strings.Byte.
From YV Require Import Val.Model Tree.Schema Tree.Editor Tree.Export Tree.ExportProofs Tree.JsonSpec Tree.JsonExp
  Tree.JsonW Tree.JsonR Tree.JsonRProofs Tree.ExportPoint Tree.ExportPointProofs Tree.JsonSession Tree.JsonSessionProofs.
Import ListNotations.
Open Scope Z_scope.

(** reading a tree out through the editor into an empty store (UpsertInto / InsertInto a capturing
    node) visits every set leaf, leaf-list, container and list entry exactly once in schema order,
    entries in source order, only the chosen case of every choice, and adds nothing but the schema
    default of an unset leaf below the start node: the result is exactly [visit new s d] *)
Theorem C04_export_exact : forall s d new st, st <> Update -> is_leaf s = false -> wfd s d = true ->
  edit_one false s d (empty_node s) new st = Ok (visit new s d).
Proof. exact export_exact. Qed.
Print Assumptions C04_export_exact.

(** the same on the content of the module root, in the form TREE.md gives for "export" *)
Theorem C04_export_content_exact : forall kids data st, st <> Update ->
  all_kids (fun k dk => wfd k dk) kids data = true ->
  edit_content false kids data (empty_content kids) st =
  Ok (visit_kids (fun k sd => visit true k sd) false kids data kids 0).
Proof. exact export_content_exact. Qed.
Print Assumptions C04_export_content_exact.

(** ** JSON round trip *)

(** reading (JSON reader model + node.NewValue model) what the writer model wrote - any
    configuration: compact or pretty, enums by label or id, qualified or not - gives the tree back,
    for every schema and every tree whose leaf values belong to their leaf's type and whose sibling
    names are distinct ([rt_ok]; unions are outside it, see finding 1).  [float_of] is the
    number-literal-to-binary64 oracle (strconv.ParseFloat as used by encoding/json); [typed]
    requires of each decimal64 value only that FormatFloat and ParseFloat agree on it. *)
Theorem C04_json_roundtrip : forall fmt_float float_of idmod cfg s top x e,
  is_leaf s = false -> rt_ok fmt_float float_of idmod cfg s x = true ->
  enode cfg idmod top s x = Some e ->
  jsrc s (rd fmt_float float_of e) = ROk x.
Proof. exact json_roundtrip. Qed.
Print Assumptions C04_json_roundtrip.

(** ... and Selection.UpsertFrom(ReadJSON(text)) on an empty store then holds the export of that tree *)
Theorem C04_json_import : forall fmt_float float_of idmod cfg s top x e,
  is_leaf s = false -> rt_ok fmt_float float_of idmod cfg s x = true -> wfd s x = true ->
  enode cfg idmod top s x = Some e ->
  jimport s (rd fmt_float float_of e) = ROk (Ok (visit false s x)).
Proof. exact json_import. Qed.
Print Assumptions C04_json_import.

(** exporting an exported tree changes nothing - proved for schemas without choices (with choices the
    correspondence run compares the re-imported tree with the export on every case) - so there
    "decoding the produced JSON with the library's own reader and exporting again yields the same tree" *)
Theorem C04_export_idempotent : forall s, cfree s = true -> forall d n, visit n s (visit n s d) = visit n s d.
Proof. exact visit_idem. Qed.
Print Assumptions C04_export_idempotent.

Theorem C04_roundtrip_same_tree : forall fmt_float float_of idmod cfg s top d e,
  cfree s = true -> is_leaf s = false ->
  rt_ok fmt_float float_of idmod cfg s (visit false s d) = true -> wfd s (visit false s d) = true ->
  enode cfg idmod top s (visit false s d) = Some e ->
  jimport s (rd fmt_float float_of e) = ROk (Ok (visit false s d)).
Proof. exact roundtrip_same_tree. Qed.
Print Assumptions C04_roundtrip_same_tree.

(** every scalar of every non-union type decodes to itself *)
Theorem C04_scalar_roundtrip : forall fmt_float float_of idmod cfg ty lmod v e,
  typed fmt_float float_of idmod cfg ty v = true -> eitem cfg idmod lmod v = Some e ->
  rscalar ty (rd fmt_float float_of e) = ROk v.
Proof. exact rscalar_rt. Qed.
Print Assumptions C04_scalar_roundtrip.

(** known finding 1: a union {int32, string} holding the string "5" comes back as the int32 5 *)
Definition C04_union_full_statement : Prop :=
  forall members s, In TStr members -> rscalar (TUnion members) (RStr s) = ROk (LV (VStr s)).
Theorem C04_union_full_refuted : ~ C04_union_full_statement.
Proof.
  intros H. specialize (H [TInt FInt32; TStr] [x35] (or_intror (or_introl eq_refl))). vm_compute in H. discriminate H.
Qed.
Print Assumptions C04_union_full_refuted.

(** the hypotheses are satisfiable: a list of another module with an int64 key at its minimum, an
    identityref of another module, bits, an enum and an empty leaf *)
Definition ex_meta (n md : list byte) (g : guard) : nmeta := mkMeta n md true g None.
Definition ex_schema : snode :=
  SCont (ex_meta [x6d] [x6d] [])
    [ SLeaf (ex_meta [x65] [x6d] [(0, 0)]%nat) TEmpty false None;
      SLeaf (ex_meta [x66] [x6d] [(0, 1)]%nat) (TBits [([x62; x30], 0%Z); ([x62; x31], 1%Z)]) false None;
      SList (ex_meta [x71] [x74] []) [0%nat]
        (SCont (ex_meta [x71] [x74] [])
           [ SLeaf (ex_meta [x6b] [x74] []) (TInt FInt64) false None;
             SLeaf (ex_meta [x72] [x74] []) (TIdRef [[x69; x61]; [x69; x62]]) false None;
             SLeaf (ex_meta [x6e] [x6d] []) (TEnum [([x61], 0%Z); ([x62], 7%Z)]) true None;
             SLeaf (ex_meta [x73] [x74] []) TStr false (Some (LV (VStr [x22; x0a]))) ]) ].
Definition ex_tree : dnode :=
  DCont [ None; Some (DLeaf (LBits [[x62; x31]; [x62; x30]]));
          Some (DList [ DCont [ Some (DLeaf (LV (VInt FInt64 (-9223372036854775808))));
                                Some (DLeaf (LV (VIdRef [x69; x62])));
                                Some (DLeaf (LList [LV (VEnum 7 [x62]); LV (VEnum 0 [x61])]));
                                Some (DLeaf (LV (VStr [x22; x0a]))) ] ]) ].
Definition ex_idmod (l : ident) : option ident := Some [x74].
Definition ex_float (m e : Z) : list byte := [x30].
Definition ex_float_of (l : list byte) : Z * Z := (0%Z, 0%Z).

Example C04_example :
  let cfg := mkCfg true true true in
  rt_ok ex_float ex_float_of ex_idmod cfg ex_schema ex_tree = true /\
  wfd ex_schema ex_tree = true /\
  visit false ex_schema ex_tree = ex_tree /\
  exists e, enode cfg ex_idmod true ex_schema ex_tree = Some e /\
            jimport ex_schema (rd ex_float ex_float_of e) = ROk (Ok ex_tree).
Proof.
  cbv zeta. split; [vm_compute; reflexivity|]. split; [vm_compute; reflexivity|]. split; [vm_compute; reflexivity|].
  eexists. split; [vm_compute; reflexivity | vm_compute; reflexivity].
Qed.
Print Assumptions C04_example.

(** ** position by position: "every set leaf ... and nothing that is not there apart from the schema
    default of an unset leaf" *)

(** a read-out of a container-like node (module root, container, list entry) succeeds, yields one
    position per schema definition, and each position holds what [reported] says of THAT definition
    and THAT position's data: nothing outside the chosen case, the value of a set leaf, the leaf's
    own default if it is unset (below the start selection), the export of an existing container or
    list, nothing for an absent one *)
Theorem C04_export_pointwise : forall m kids sc new st, st <> Update ->
  wfd (SCont m kids) (DCont sc) = true ->
  exists out,
    edit_one false (SCont m kids) (DCont sc) (empty_node (SCont m kids)) new st = Ok (DCont out) /\
    length out = length kids /\
    forall i k, nth_error kids i = Some k -> nth i out None = reported new kids sc i k.
Proof. exact export_pointwise. Qed.
Print Assumptions C04_export_pointwise.

(** an unset leaf or leaf-list of a node that is new at the destination reports ITS default *)
Theorem C04_unset_leaf_own_default : forall m kids sc st i lm ty il dflt out, st <> Update ->
  wfd (SCont m kids) (DCont sc) = true ->
  nth_error kids i = Some (SLeaf lm ty il dflt) -> nth i sc None = None ->
  guard_selected (nm_guard lm) kids sc = true ->
  edit_one false (SCont m kids) (DCont sc) (empty_node (SCont m kids)) true st = Ok (DCont out) ->
  nth i out None = option_map DLeaf dflt.
Proof. exact unset_leaf_own_default. Qed.
Print Assumptions C04_unset_leaf_own_default.

(** what is reported at a position does not depend on the types and defaults of the OTHER
    definitions of the node (copies made by `uses` share compiled objects; `refine` gives each copy
    its own default): two schemas with the same choice/case layout and the same definition at
    position i export the same at position i *)
Theorem C04_export_ignores_other_definitions : forall m kids kids' sc new st i k out out', st <> Update ->
  wfd (SCont m kids) (DCont sc) = true -> wfd (SCont m kids') (DCont sc) = true ->
  map sguard kids = map sguard kids' ->
  nth_error kids i = Some k -> nth_error kids' i = Some k ->
  edit_one false (SCont m kids) (DCont sc) (empty_node (SCont m kids)) new st = Ok (DCont out) ->
  edit_one false (SCont m kids') (DCont sc) (empty_node (SCont m kids')) new st = Ok (DCont out') ->
  nth i out None = nth i out' None.
Proof. exact export_ignores_other_definitions. Qed.
Print Assumptions C04_export_ignores_other_definitions.

(** every list entry exactly once, in source order *)
Theorem C04_list_entries_once_in_order : forall m keys row rows new st, st <> Update ->
  wfd (SList m keys row) (DList rows) = true ->
  edit_one false (SList m keys row) (DList rows) (DList []) new st = Ok (DList (map (fun r => visit true row r) rows)).
Proof. exact export_list_entries. Qed.
Print Assumptions C04_list_entries_once_in_order.

(** ** "as JSON text": every export of a writer, not only its first *)

(** one JSONWtr value (Tree/JsonSession.v: the struct with its Out, configuration and private
    bufio.Writer) through ANY history of Out/configuration assignments, Node()+InsertInto exports
    and JSON(sel) calls, over streams failing at any position: every export delivers the document a
    fresh writer of that moment's configuration writes ([write_bytes], which by C04_json_roundtrip
    reads back to the tree) to the stream that is Out at that moment, fails exactly when that
    stream did not take all of it, JSON(sel) returns that document; nothing of an earlier export
    survives into the next *)
Theorem C04_writer_reuse : forall fmt_float idmod starts ops ss w,
  run_session jw_node fmt_float idmod starts ss w ops =
  spec_session fmt_float idmod starts ss (jw_out w) (jw_cfg w) ops.
Proof. exact session_is_fresh_writers. Qed.
Print Assumptions C04_writer_reuse.

(** per stream: it ends up holding what it held, followed by the documents of exactly the exports
    made while it was Out - each once, in order, cut where it stopped accepting - and nothing else *)
Theorem C04_writer_reuse_streams : forall fmt_float idmod starts ops ss w ssf rs k s,
  run_session jw_node fmt_float idmod starts ss w ops = Some (ssf, rs) ->
  nth_error ss k = Some s ->
  nth_error ssf k = Some (filled s (directed fmt_float idmod starts k (jw_out w) (jw_cfg w) ops)).
Proof. exact session_streams. Qed.
Print Assumptions C04_writer_reuse_streams.

(** the statement is not vacuous: a writer that keeps its bufio.Writer between exports violates it
    (second export after Out was changed: the new stream stays empty, the old one gets both) *)
Theorem C04_writer_keeping_buffer_refuted :
  run_session jw_node_keep rf_float rf_idmod [rf_start] rf_streams (mkJW 0 rf_cfg None) rf_ops <>
  spec_session rf_float rf_idmod [rf_start] rf_streams 0 rf_cfg rf_ops.
Proof. exact keep_buffer_refuted. Qed.
Print Assumptions C04_writer_keeping_buffer_refuted.

(** the hypotheses are satisfiable: a grouping-like schema (two copies of one leaf with different
    defaults, one unset) and a two-stream history *)
Definition ex2_meta (n : list byte) : nmeta := mkMeta n [x6d] true [] None.
Definition ex2_kids : list snode :=
  [ SLeaf (ex2_meta [x61]) (TInt FInt32) false (Some (LV (VInt FInt32 5)));
    SLeaf (ex2_meta [x62]) (TInt FInt32) false (Some (LV (VInt FInt32 30))) ].
Example C04_example_defaults :
  wfd (SCont (ex2_meta [x63]) ex2_kids) (DCont [Some (DLeaf (LV (VInt FInt32 7))); None]) = true /\
  edit_one false (SCont (ex2_meta [x63]) ex2_kids) (DCont [Some (DLeaf (LV (VInt FInt32 7))); None])
           (empty_node (SCont (ex2_meta [x63]) ex2_kids)) true Insert =
  Ok (DCont [Some (DLeaf (LV (VInt FInt32 7))); Some (DLeaf (LV (VInt FInt32 30)))]).
Proof. split; vm_compute; reflexivity. Qed.
Print Assumptions C04_example_defaults.

Example C04_example_session :
  run_session jw_node rf_float rf_idmod [rf_start] rf_streams (mkJW 0 rf_cfg None) rf_ops =
  Some ([mkSink [x7b; x22; x61; x22; x3a; x74; x72; x75; x65; x7d] None;
         mkSink [x7b; x22; x61; x22; x3a; x74; x72; x75; x65; x7d] None], [RSet; RExp false; RSet; RExp false]).
Proof. exact fresh_buffer_example. Qed.
Print Assumptions C04_example_session.
