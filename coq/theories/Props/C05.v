(** C05 - No write stores a value outside the leaf's effective type.
    Theorem-only file: every statement is closed by [exact] of a lemma proved elsewhere and is
    followed by Print Assumptions.
    Model: Restrict/RangeParse.v (newRange, newRangeNumber on bytes), Restrict/Model.v
    (RangeNumber.Compare, RangeEntry/Range.CheckValue, Type.mixin, fieldConstraints, toEnum/toBits,
    Selection.set), as the code stands after the seven "fix:" commits listed in KNOWN_FINDINGS.txt;
    spec: Restrict/Spec.v ([in_effective_type], written from the property text).  [rx] is the
    regular-expression oracle (whole-string match of an XSD pattern), universally quantified.
    All statements range over every restriction text, every chain length, every value. *)
From Coq Require Import ZArith List Bool Lia Strings.Byte.
From YV Require Import Base.Verdict Restrict.RangeParse Restrict.Model Restrict.Spec Restrict.Proofs Restrict.Print Restrict.PrintProofs Restrict.Member Restrict.MemberProofs Check.C05Check.
Import ListNotations.
Open Scope Z_scope.

(** Checking a restriction never crashes: for every base type, every chain of restriction texts
    (including min / max anywhere, bounds outside the Go type, decimals) and every value. *)
Theorem C05_check_no_panic : forall rx b il chain v, accept rx b il chain v <> Panicked.
Proof. exact check_no_panic. Qed.
Print Assumptions C05_check_no_panic.

(** A write that is not accepted leaves the stored value of the leaf as it was. *)
Theorem C05_reject_frame : forall rx b il chain st v,
  fst (set_model rx b il chain st v) <> Accepted -> snd (set_model rx b il chain st v) = st.
Proof. exact reject_frame. Qed.
Print Assumptions C05_reject_frame.

Theorem C05_accept_stores : forall rx b il chain st v,
  fst (set_model rx b il chain st v) = Accepted -> snd (set_model rx b il chain st v) = Some v.
Proof. exact accept_stores. Qed.
Print Assumptions C05_accept_stores.

(** Soundness: an accepted value is in the effective type - inside some alternative of the range
    (length in characters) of every level, matching every pattern with invert-match honoured, a
    declared enum name or value, declared bit names, every leaf-list entry on its own.
    Hypotheses: the chain has at most one pattern in all ([pats_simple]: outside findings 1, 2),
    a bound of an integer / length restriction written with a decimal point denotes an integer
    ([integral_chain]: RFC 7950 9.2.4), strings are well-formed UTF-8 shorter than 2^31. *)
Theorem C05_accept_sound : forall rx b il chain pc v,
  parse_chain chain = Some pc -> integral_chain b pc = true -> pats_simple pc -> wf_value v ->
  accept rx b il chain v = Accepted ->
  in_effective_type rx b il (map den_level pc) v.
Proof. exact accept_sound. Qed.
Print Assumptions C05_accept_sound.

(** Completeness (auxiliary; the property says "accepted only if"): a value of the effective type
    is accepted, provided min / max stand where the code reads them (outside finding 4). *)
Theorem C05_accept_complete : forall rx b il chain pc v,
  parse_chain chain = Some pc -> integral_chain b pc = true -> pats_simple pc ->
  placed_chain pc = true -> wf_value v ->
  in_effective_type rx b il (map den_level pc) v ->
  accept rx b il chain v = Accepted.
Proof. exact accept_complete. Qed.
Print Assumptions C05_accept_complete.

(** The form the correspondence check relies on: outside the listed known-finding regions the
    model's decision is exactly membership in the effective type, and it is a decision
    (accepted or rejected, nothing else) whenever the module loads. *)
Theorem C05_partial : forall rx b il chain pc v,
  parse_chain chain = Some pc -> known_region pc = None -> integral_chain b pc = true -> wf_value v ->
  (accept rx b il chain v = Accepted <-> in_effective_type rx b il (map den_level pc) v).
Proof. exact model_is_spec_outside_regions. Qed.
Print Assumptions C05_partial.

Theorem C05_sound_partial : forall rx b il chain pc v,
  parse_chain chain = Some pc -> integral_chain b pc = true -> wf_value v ->
  accept rx b il chain v = Accepted ->
  in_effective_type rx b il (map den_level pc) v \/ known_region pc = Some 1%nat \/ known_region pc = Some 2%nat.
Proof. exact sound_outside_pattern_regions. Qed.
Print Assumptions C05_sound_partial.

Theorem C05_accept_total : forall rx b il chain pc v,
  parse_chain chain = Some pc ->
  accept rx b il chain v = Accepted \/ accept rx b il chain v = Rejected.
Proof. exact accept_total. Qed.
Print Assumptions C05_accept_total.

Theorem C05_load_iff_parses : forall rx b il chain v,
  accept rx b il chain v = LoadErr <-> parse_chain chain = None.
Proof. exact load_iff_parses. Qed.
Print Assumptions C05_load_iff_parses.

(** What the parser hands to the checker: every range has at least one alternative and a bound
    classified "unsigned only" is above MaxInt64 (the facts the comparison guards rely on). *)
Theorem C05_parse_chain_wf : forall chain pc, parse_chain chain = Some pc -> wf_chain pc.
Proof. exact parse_chain_wf. Qed.
Print Assumptions C05_parse_chain_wf.

(** The comparison is the exact comparison of the numbers denoted (integers of any size, decimals). *)
Theorem C05_compare_exact : forall n v,
  is_kw n = false -> wf_rnum n -> wf_num v -> (is_dec v = true \/ integralb n = true) ->
  compare_num n v = CmpOk (cmp_dec (fst (rq n)) (snd (rq n)) (fst (qv v)) (snd (qv v))).
Proof. exact compare_exact. Qed.
Print Assumptions C05_compare_exact.

(** The executable oracle used by the correspondence check decides the spec. *)
Theorem C05_spec_oracle : forall rx b il levels v,
  in_effective_typeb rx b il levels v = true <-> in_effective_type rx b il levels v.
Proof. exact in_effective_typeb_iff. Qed.
Print Assumptions C05_spec_oracle.

(** Counting bytes that are not continuation bytes counts the decoded characters. *)
Theorem C05_length_in_characters : forall s, utf8_ok s = true -> char_count s = rune_count s.
Proof. exact char_count_runes. Qed.
Print Assumptions C05_length_in_characters.

(** The full statement (no region excluded) and its refutation by the pattern findings. *)
Definition C05_full_statement : Prop := full_soundness.
Theorem C05_full_refuted : ~ C05_full_statement.
Proof. exact full_soundness_refuted. Qed.
Print Assumptions C05_full_refuted.

Theorem C05_kf1_refuted :
  exists pc, parse_chain kf1_chain = Some pc /\ known_region pc = Some 1%nat /\
             accept rx_w BStr false kf1_chain kf_value = Accepted /\
             ~ in_effective_type rx_w BStr false (map den_level pc) kf_value.
Proof. exact kf1_refuted. Qed.
Theorem C05_kf2_refuted :
  exists pc, parse_chain kf2_chain = Some pc /\ known_region pc = Some 2%nat /\
             accept rx_w BStr false kf2_chain kf_value = Accepted /\
             ~ in_effective_type rx_w BStr false (map den_level pc) kf_value.
Proof. exact kf2_refuted. Qed.
Theorem C05_kf4_refuted :
  exists pc, parse_chain kf4_chain = Some pc /\ known_region pc = Some 4%nat /\
             accept rx_w (BNum I8) false kf4_chain (VOne (SNum 127)) = Rejected /\
             in_effective_type rx_w (BNum I8) false (map den_level pc) (VOne (SNum 127)).
Proof. exact kf4_refuted. Qed.
Print Assumptions C05_kf4_refuted.

(** The model of newRange inverts the printer of the RFC 7950 range grammar: every non-empty list
    of alternatives whose bounds are min, max or integers OF ANY SIZE, printed as text, is read back
    as exactly that syntax. *)
Theorem C05_parser_inverts_printer : forall es, es <> [] -> Forall int_pentry es ->
  exists r, parse_range (print_range es) = Some r /\ map den_entry r = map alt_of es.
Proof. exact parse_print_range. Qed.
Print Assumptions C05_parser_inverts_printer.

(** End to end, on restriction SYNTAX: for every integer type, every typedef chain (any depth) of
    range restrictions written in the RFC grammar with integer bounds of any size, and every value
    or leaf-list of values: the write is accepted exactly when the value is in the effective type -
    inside some alternative of every level.  Soundness needs no hypothesis on where min / max
    stand; the equivalence needs them where the code reads them (finding 4). *)
Theorem C05_integer_end_to_end_sound : forall rx k il lv v,
  Forall lvl_ok lv -> wf_value v ->
  accept rx (BNum k) il (chain_text lv) v = Accepted ->
  in_effective_type rx (BNum k) il (chain_syntax lv) v.
Proof. exact integer_end_to_end_sound. Qed.
Print Assumptions C05_integer_end_to_end_sound.

Theorem C05_integer_end_to_end : forall rx k il lv v,
  Forall lvl_ok lv -> Forall lvl_placed lv -> wf_value v ->
  (accept rx (BNum k) il (chain_text lv) v = Accepted <->
   in_effective_type rx (BNum k) il (chain_syntax lv) v).
Proof. exact integer_end_to_end. Qed.
Print Assumptions C05_integer_end_to_end.

Example C05_printer_example :
  print_range [PRange BdMin (BdNum (-10) 0); PSingle (BdNum 18446744073709551616 0)] =
  [x6d;x69;x6e;x2e;x2e;x2d;x31;x30;x7c;x31;x38;x34;x34;x36;x37;x34;x34;x30;x37;x33;x37;x30;x39;x35;x35;x31;x36;x31;x36].
Proof. exact printer_example. Qed.

(** Selection.Set with an already typed value: never crashes, leaves the store alone unless
    accepted, and for every numeric, decimal and string type decides exactly as the converting
    paths do (so soundness and completeness above carry over); for enumeration / bits it checks
    nothing (finding 6). *)
Theorem C05_typed_set_same : forall rx b il chain v,
  membership_base b = false -> accept_typed rx b il chain v = accept rx b il chain v.
Proof. exact typed_same. Qed.
Theorem C05_typed_set_no_panic : forall rx b il chain v, accept_typed rx b il chain v <> Panicked.
Proof. exact typed_no_panic. Qed.
Theorem C05_typed_set_frame : forall rx b il chain st v,
  fst (set_typed_model rx b il chain st v) <> Accepted -> snd (set_typed_model rx b il chain st v) = st.
Proof. exact typed_frame. Qed.
Print Assumptions C05_typed_set_frame.
Theorem C05_kf6_refuted :
  accept_typed rx_w (BEnum [([x61], 0)]) false [mkT None None []] (VOne (SEnumName [x7a; x7a])) = Accepted /\
  accept rx_w (BEnum [([x61], 0)]) false [mkT None None []] (VOne (SEnumName [x7a; x7a])) = Rejected /\
  known_region_b (BEnum [([x61], 0)]) [mkP None None []] = Some 6%nat /\
  ~ in_effective_type rx_w (BEnum [([x61], 0)]) false [mkS None None []] (VOne (SEnumName [x7a; x7a])).
Proof. exact kf6_refuted. Qed.

(** Unions of integer types: conversion never crashes; with unrestricted members the conversion
    is exactly union membership; a member's own range is ignored (finding 3). *)
Theorem C05_union_unrestricted : forall ms z,
  union_accept (map (fun k => (k, None)) ms) z = Accepted <-> in_union (map (fun k => (k, None)) ms) z.
Proof. exact union_unrestricted. Qed.
Theorem C05_union_no_panic : forall ms z, union_accept ms z <> Panicked.
Proof. exact union_no_panic. Qed.
Print Assumptions C05_union_unrestricted.
Theorem C05_kf3_refuted :
  union_accept kf3_members 50 = Accepted /\
  ~ in_union [(I8, Some [mkAlt (BdNum 1 0) (BdNum 10 0)]); (I16, Some [mkAlt (BdNum 100 0) (BdNum 200 0)])] 50.
Proof. exact kf3_refuted. Qed.

(** The code before the repairs: panic on the keywords and on bounds outside the Go type; levels
    of a typedef chain OR-ed (typedef 0..100 narrowed to 1..10 accepted 50). *)
Theorem C05_pinned_panics :
  entry_check_old (ERange RMin (RInt 10)) (NInt 5) = ChkPanic /\
  entry_check_old (ERange (RInt 5) RMax) (NInt 7) = ChkPanic /\
  entry_check_old (ERange (RInt (-5)) (RInt 10)) (NU64 5) = ChkPanic /\
  entry_check_old (ERange (RInt 0) (RUns 9223372036854775808)) (NInt 5) = ChkPanic.
Proof. exact compare_old_panics. Qed.
Theorem C05_pinned_or_levels :
  check_range_old [[ERange (RInt 1) (RInt 10)]; [ERange (RInt 0) (RInt 100)]] (NInt 50) = Pass /\
  all_levels [[ERange (RInt 1) (RInt 10)]; [ERange (RInt 0) (RInt 100)]] (NInt 50) = Fail.
Proof. exact or_levels_old_accepts. Qed.
Print Assumptions C05_pinned_or_levels.

(** non-vacuity: a three-level chain with keywords, alternatives, a 64-bit bound and white space
    parses, lies outside every region, and the hypotheses of the theorems hold for it *)
Example C05_hyps_met :
  exists pc,
    parse_chain [mkT (Some [x6d;x69;x6e;x2e;x2e;x31;x30;x20;x7c;x20;x32;x30]) None [];   (* "min..10 | 20" *)
                 mkT None None [];
                 mkT (Some [x2d;x35;x2e;x2e;x31;x38;x34;x34;x36;x37;x34;x34;x30;x37;x33;x37;x30;x39;x35;x35;x31;x36;x31;x35]) None []]
      (* "-5..18446744073709551615" *)
      = Some pc /\
    known_region pc = None /\ integral_chain (BNum I64) pc = true /\
    accept rx_w (BNum I64) false
      [mkT (Some [x6d;x69;x6e;x2e;x2e;x31;x30;x20;x7c;x20;x32;x30]) None [];
       mkT None None [];
       mkT (Some [x2d;x35;x2e;x2e;x31;x38;x34;x34;x36;x37;x34;x34;x30;x37;x33;x37;x30;x39;x35;x35;x31;x36;x31;x35]) None []]
      (VOne (SNum 20)) = Accepted.
Proof. exact hyps_met_witness. Qed.

(** ** Membership types on every write path (model Restrict/Member.v: toEnum / toEnumList, toBits /
    toBitsList, toIdentRef / toIdentRefList over meta.FindIdentity, the enums / bits a restricting
    typedef level keeps; code after the two "fix:" commits of this round).  All statements range
    over every enumeration / bits declaration, any number of restricting levels, every set of
    identity declarations, every value and every leaf-list of values. *)

(** Soundness on the converting paths, no hypothesis: an accepted write wrote a declared enum name
    or value kept by every restricting level, declared and kept bit names, an identity derived from
    a declared base (transitively, not the base itself); every leaf-list entry on its own. *)
Theorem C05_member_accept_sound : forall t il v, accept_m t il v = Accepted -> in_member t il v.
Proof. exact accept_m_sound. Qed.
Print Assumptions C05_member_accept_sound.

(** On well-formed types (restricting levels list names of the level below, enum names distinct,
    identities declared after their bases) the decision IS membership. *)
Theorem C05_member_accept_iff : forall t il v,
  wf_mtype t -> (accept_m t il v = Accepted <-> in_member t il v).
Proof. exact accept_m_iff. Qed.
Print Assumptions C05_member_accept_iff.

(** identityref alone, on the code's own search: FindIdentity from the identities derived from the
    base finds exactly the identities derived from a declared base, within the model's fuel. *)
Theorem C05_identityref_is_derivation : forall ids bases x,
  ordered_ids [] ids ->
  (ident_lookup (ident_fuel ids) ids bases x = Found <-> exists b, In b bases /\ derived ids x b).
Proof. exact ident_lookup_iff. Qed.
Print Assumptions C05_identityref_is_derivation.

Theorem C05_identityref_sound : forall fuel ids bases x,
  ident_lookup fuel ids bases x = Found -> exists b, In b bases /\ derived ids x b.
Proof. exact ident_lookup_sound. Qed.

Theorem C05_identity_not_derived_from_itself : forall ids x, ordered_ids [] ids -> ~ derived ids x x.
Proof. exact derived_irrefl. Qed.
Print Assumptions C05_identity_not_derived_from_itself.

Theorem C05_member_terminates : forall t il v, ordered_mtype t -> accept_m t il v <> Panicked.
Proof. exact accept_m_terminates. Qed.

(** SetValue handed a value that already is a val.Value of the leaf's format: NewValue converts it
    again, so the write accepts nothing the converting paths reject - for the membership types and
    for the numeric / decimal / string / enumeration / bits types of Restrict/Model.v - hence every
    soundness statement above holds on that path too.  (It rejects members where NewValue has no
    case for the library's own value type: val.Bits, val.Decimal64, typed lists; "accepted only
    if".) *)
Theorem C05_setvalue_typed_member_le : forall t il v,
  accept_m_sv_typed t il v = Accepted -> accept_m t il v = Accepted.
Proof. exact sv_typed_m_le. Qed.
Theorem C05_single_value_onto_leaf_list_le : forall t il v,
  accept_m_single t il v = Accepted -> accept_m t il v = Accepted.
Proof. exact single_m_le. Qed.
Theorem C05_setvalue_typed_member_sound : forall t il v,
  accept_m_sv_typed t il v = Accepted -> in_member t il v.
Proof. exact sv_typed_m_sound. Qed.
Print Assumptions C05_setvalue_typed_member_sound.

Theorem C05_setvalue_typed_le : forall rx b il chain v,
  accept_sv_typed rx b il chain v = Accepted -> accept rx b il chain v = Accepted.
Proof. exact sv_typed_le. Qed.
Theorem C05_setvalue_typed_sound : forall rx b il chain pc v,
  parse_chain chain = Some pc -> integral_chain b pc = true -> pats_simple pc -> wf_value v ->
  accept_sv_typed rx b il chain v = Accepted ->
  in_effective_type rx b il (map den_level pc) v.
Proof. exact sv_typed_sound. Qed.
Print Assumptions C05_setvalue_typed_sound.
Theorem C05_setvalue_typed_no_panic : forall rx b il chain v, accept_sv_typed rx b il chain v <> Panicked.
Proof. exact sv_typed_no_panic. Qed.
Theorem C05_setvalue_typed_frame : forall rx b il chain st v,
  fst (set_sv_typed_model rx b il chain st v) <> Accepted -> snd (set_sv_typed_model rx b il chain st v) = st.
Proof. exact sv_typed_frame. Qed.

(** the store of a membership leaf: untouched unless accepted, then it holds the written value - on
    every path ([acc] is the path's decision function) *)
Theorem C05_member_frame : forall acc t il st v,
  fst (set_m acc t il st v) <> Accepted -> snd (set_m acc t il st v) = st.
Proof. exact set_m_frame. Qed.
Theorem C05_member_stores : forall acc t il st v,
  fst (set_m acc t il st v) = Accepted -> snd (set_m acc t il st v) = Some v.
Proof. exact set_m_stores. Qed.

(** the executable oracle of the correspondence check decides the spec *)
Theorem C05_member_spec_oracle : forall t il v,
  (match t with MIdent ids _ => ordered_ids [] ids | _ => True end) ->
  (in_memberb t il v = true <-> in_member t il v).
Proof. exact in_memberb_iff. Qed.
Print Assumptions C05_member_spec_oracle.
Theorem C05_member_cases_in_domain : forall t, wf_mtypeb t = true -> wf_mtype t.
Proof. exact wf_mtypeb_ok. Qed.

(** What the repaired order of calls rules out, and the code before this round's repairs:
    - handing the typed value straight to Set ("already converted") stores an undeclared enum;
    - Set with a typed identity of another base stores it (finding 6);
    - the identityref's base itself was accepted;
    - a single undeclared value written to an enumeration leaf-list was stored as the empty enum. *)
Theorem C05_setvalue_shortcut_refuted :
  accept_sv_shortcut (fun _ _ => false) (BEnum [([x61], 0)]) false [mkT None None []] (VOne (SEnumName [x7a; x7a])) = Accepted /\
  accept_sv_typed (fun _ _ => false) (BEnum [([x61], 0)]) false [mkT None None []] (VOne (SEnumName [x7a; x7a])) = Rejected.
Proof. exact shortcut_refuted. Qed.
Theorem C05_kf6_identityref_refuted :
  accept_m_set (MIdent ids_ab [[x61]]) false (MOne (MName [x7a])) = Accepted /\
  accept_m (MIdent ids_ab [[x61]]) false (MOne (MName [x7a])) = Rejected /\
  ~ in_member (MIdent ids_ab [[x61]]) false (MOne (MName [x7a])).
Proof. exact set_typed_ident_refuted. Qed.
Theorem C05_pinned_base_itself :
  ident_lookup_old (ident_fuel ids_ab) ids_ab [[x61]] [x61] = Found /\
  ident_lookup (ident_fuel ids_ab) ids_ab [[x61]] [x61] = NotFound /\
  ident_lookup (ident_fuel ids_ab) ids_ab [[x61]] [x62] = Found /\
  ~ derived ids_ab [x61] [x61].
Proof. exact base_itself_old_accepted. Qed.
Theorem C05_pinned_enum_list_single :
  enum_list_single_old [([x61], 0)] (MName [x7a]) = MPass /\
  enum_list_single [([x61], 0)] (MName [x7a]) = MFail /\
  enum_list_single_old [([x61], 0)] (MName [x61]) = MFail /\
  enum_list_single [([x61], 0)] (MName [x61]) = MPass.
Proof. exact enum_list_single_old_refuted. Qed.
Print Assumptions C05_pinned_base_itself.

(** non-vacuity: identities a <- b <- c (c also from a) are declared base first and c is accepted
    for base a; enumeration {a=0,b=5,c=6} restricted to {b,c} then {b}: the leaf-list [b, 5] is
    accepted, [b, 6] is not; SetValue accepts the typed list of one [b] *)
Example C05_member_hyps_met :
  ordered_ids [] ids_abc /\
  accept_m (MIdent ids_abc [[x61]]) false (MOne (MName [x63])) = Accepted /\
  accept_m (MEnum [([x61], 0); ([x62], 5); ([x63], 6)] [[[x62]]; [[x62]; [x63]]]) true
           (MMany [MName [x62]; MNum 5]) = Accepted /\
  accept_m (MEnum [([x61], 0); ([x62], 5); ([x63], 6)] [[[x62]]; [[x62]; [x63]]]) true
           (MMany [MName [x62]; MNum 6]) = Rejected /\
  accept_m_sv_typed (MEnum [([x61], 0); ([x62], 5)] []) true (MMany [MName [x62]]) = Accepted.
Proof. exact member_hyps_met. Qed.
