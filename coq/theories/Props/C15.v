(** C15 - The JSON writer always emits well-formed, correctly named and typed JSON.
    Theorem-only file; models: Tree/JStr.v (writeString), Tree/JsonW.v (JSONWtr driven by the editor,
    after the fixes "type empty is [null]" and "indent beyond the padding constant"), Tree/Export.v;
    specification: Tree/JsonSpec.v (RFC 8259 tokens, grammar, parser, lexer), Tree/JsonExp.v (what
    JSON value stands for a YANG data tree, when a decoded value meets it). *)
From Coq Require Import ZArith List Bool Strings.Byte.
From YV Require Import Val.Model Tree.Schema Tree.Export Tree.JStr Tree.JStrProofs Tree.JsonSpec Tree.JsonSpecProofs
  Tree.JsonNumProofs Tree.JsonLexProofs Tree.JsonExp Tree.JsonW Tree.JsonWProofs Tree.JsonTotal.
Import ListNotations.
Open Scope Z_scope.

(** ** strings *)

(** every string that is well-formed UTF-8 (every Unicode text, every control character) is
    escaped so that the reference JSON decoder gives the stored text back *)
Theorem C15_jstr_roundtrip : forall s, valid_utf8 s = true -> jdecode (jwrite s) = Some s.
Proof. exact jstr_roundtrip. Qed.
Print Assumptions C15_jstr_roundtrip.

(** every byte string at all is written as a valid string literal; what it decodes to is the text
    with each ill-formed byte replaced by U+FFFD *)
Theorem C15_jstr_any : forall s, jdecode (jwrite s) = Some (sanitize s).
Proof. exact jdecode_jwrite. Qed.
Print Assumptions C15_jstr_any.

(** the literal ends where it should whatever follows it in the stream *)
Theorem C15_jstr_delimited : forall s rest, jdec (jbody s ++ x22 :: rest) = Some (sanitize s, rest).
Proof. exact jdec_jwrite. Qed.
Print Assumptions C15_jstr_delimited.

(** no raw control character is ever written inside a string *)
Theorem C15_jstr_no_raw_control : forall s, no_ctl (jwrite s) = true.
Proof. exact jwrite_no_ctl. Qed.
Print Assumptions C15_jstr_no_raw_control.

(** identifiers (all bytes in htmlSafeSet) are written verbatim, so writeIdent's raw copy is right *)
Theorem C15_ident_verbatim : forall s, forallb html_safe s = true -> jbody s = s.
Proof. exact jbody_safe. Qed.
Print Assumptions C15_ident_verbatim.

(** known finding 1: the full statement "decodes to the stored bytes" fails for bytes that are not UTF-8 *)
Definition C15_string_full_statement : Prop := forall s, jdecode (jwrite s) = Some s.
Theorem C15_string_full_refuted : ~ C15_string_full_statement.
Proof. intros H. specialize (H [xff]). vm_compute in H. discriminate H. Qed.
Print Assumptions C15_string_full_refuted.

(** ** numbers *)

(** an integer is written as a JSON number denoting exactly that integer (all widths, int64/uint64 included) *)
Theorem C15_integer_exact : forall z, num_parse (z_dec z) = Some (z, 0).
Proof. exact num_parse_z_dec. Qed.
Print Assumptions C15_integer_exact.

(** ** the document *)

(** for every schema, data tree, configuration (Pretty, EnumAsIds, QualifyNamespace) and start
    selection (root, container, list entry; list; leaf) for which a JSON value stands for the data
    ([estart]: containers are objects, lists arrays of objects, leaf-lists arrays, type empty is
    [null], names are schema identifiers qualified at the top level and where the module changes),
    the writer returns without error and its token stream, whitespace aside, is exactly the
    canonical serialisation of that value *)
Theorem C15_writer_canonical : forall fmt_float idmod cfg st e,
  estart cfg idmod st = Some e ->
  exists ts, wstart cfg fmt_float idmod st = Some ts /\ normalize ts = toks_of (conc fmt_float e).
Proof. exact writer_canonical. Qed.
Print Assumptions C15_writer_canonical.

(** such a value exists, and the writer returns without error, for every exported tree shaped like
    its schema that mentions only identities the schema knows ([start_ok]) - whatever the schema,
    configuration and start selection *)
Theorem C15_writer_total : forall fmt_float idmod cfg st,
  start_ok idmod st = true ->
  (exists e, estart cfg idmod st = Some e) /\ (exists ts, wstart cfg fmt_float idmod st = Some ts).
Proof. exact writer_total_both. Qed.
Print Assumptions C15_writer_total.

(** ... hence it is derivable in the RFC 8259 grammar, parses as exactly one value with nothing
    after it, and that value meets the expectation: every name, every container/list/leaf-list
    shape, every leaf value (numbers by exact numeric value).  [exp_ok]: sibling names are distinct
    and the strconv.FormatFloat oracle answered with a decimal that rounds to the stored binary64 *)
Theorem C15_writer_wellformed : forall fmt_float cfg idmod st e,
  estart cfg idmod st = Some e -> exp_ok fmt_float e = true ->
  exists ts v, wstart cfg fmt_float idmod st = Some ts /\
               wf_value (normalize ts) /\
               parse_tokens (normalize ts) = Some v /\
               matches e v = true.
Proof. exact writer_wellformed. Qed.
Print Assumptions C15_writer_wellformed.

(** down to the bytes handed to Out: they lex (reference string decoder, whitespace skipped, numbers by
    the RFC grammar) and parse as exactly one value and nothing else - the expected value tree with
    every string as the decoder reads it; when all strings are well-formed UTF-8 that is the tree
    itself and it meets the expectation.  [ekeys_safe]: member names consist of htmlSafeSet bytes
    (YANG identifiers and module:identifier do) *)
Theorem C15_writer_bytes : forall fmt_float cfg idmod st e,
  estart cfg idmod st = Some e -> exp_ok fmt_float e = true -> ekeys_safe e = true ->
  exists bytes, write_bytes cfg fmt_float idmod st = Some bytes /\
                parse_bytes bytes = Some (san_v (conc fmt_float e)) /\
                (exp_utf8 e = true -> parse_bytes bytes = Some (conc fmt_float e) /\ matches e (conc fmt_float e) = true).
Proof. exact writer_bytes. Qed.
Print Assumptions C15_writer_bytes.

(** the lexer reads back the rendering of any token stream that, whitespace aside, is a raw canonical
    serialisation (independent of the writer) *)
Theorem C15_bytes_of_serialisation : forall ts v,
  strip_ws ts = rtoks_of v -> keys_safe v = true -> nums_ok v = true ->
  parse_bytes (render ts) = Some (san_v v).
Proof. exact parse_bytes_render. Qed.
Print Assumptions C15_bytes_of_serialisation.

(** the canonical serialisation of any value tree is in the grammar and is read back by the parser *)
Theorem C15_serialisation_parses : forall v, nums_ok v = true ->
  wf_value (toks_of v) /\ parse_tokens (toks_of v) = Some v.
Proof. exact serialisation_parses. Qed.
Print Assumptions C15_serialisation_parses.

(** Pretty changes whitespace only *)
Theorem C15_pretty_ws_only : forall fmt_float idmod cfg st,
  wstart (compact_of cfg) fmt_float idmod st = option_map strip_ws (wstart cfg fmt_float idmod st).
Proof. exact pretty_ws_only. Qed.
Print Assumptions C15_pretty_ws_only.

(** an output stream error is returned, not lost: with the sticky error of bufio.Writer and the
    final Flush, a stream that accepts n bytes makes the call fail exactly when the document is
    longer than n - whichever intermediate write results the code does not look at *)
Theorem C15_stream_error_returned : forall ts n,
  stream_result (Some n) (ops_of ts) = Nat.ltb n (length (render ts)).
Proof. exact stream_error_returned. Qed.
Print Assumptions C15_stream_error_returned.

Theorem C15_stream_no_fault : forall ts, stream_result None (ops_of ts) = false.
Proof. exact stream_no_fault. Qed.
Print Assumptions C15_stream_no_fault.

(** ** the hypotheses are satisfiable, and what was wrong before the fixes *)
Definition ex_meta (n md : list byte) : nmeta := mkMeta n md true [] None.
Definition ex_schema : snode :=
  SCont (ex_meta [x6d] [x6d])
    [ SLeaf (ex_meta [x65] [x6d]) TEmpty false None;
      SList (ex_meta [x71] [x74]) [0%nat]
        (SCont (ex_meta [x71] [x74]) [ SLeaf (ex_meta [x6b] [x74]) (TInt FInt64) false None;
                                       SLeaf (ex_meta [x73] [x74]) TStr false (Some (LV (VStr [x22; x0a]))) ]) ].
Definition ex_data : dnode :=
  DCont [ Some (DLeaf LEmpty);
          Some (DList [ DCont [ Some (DLeaf (LV (VInt FInt64 (-9223372036854775808)))); None ] ]) ].
Definition ex_float (m e : Z) : list byte := [x30].

(** a module root with an empty leaf and a list of another module whose entry has an int64 key at
    its minimum and an unset string leaf with a default made of a quote and a line feed *)
Example C15_example :
  exists e, estart (mkCfg true true true) (fun _ => None) (StCont true ex_schema ex_data) = Some e /\
            exp_ok ex_float e = true /\ ekeys_safe e = true /\
            option_map render (wstart (mkCfg false true true) ex_float (fun _ => None) (StCont true ex_schema ex_data)) =
            Some [x7b; x22; x6d; x3a; x65; x22; x3a; x5b; x6e; x75; x6c; x6c; x5d; x2c; x22; x74; x3a; x71; x22; x3a; x5b; x7b;
                  x22; x6b; x22; x3a; x2d; x39; x32; x32; x33; x33; x37; x32; x30; x33; x36; x38; x35; x34; x37; x37; x35; x38; x30; x38;
                  x2c; x22; x73; x22; x3a; x22; x5c; x22; x5c; x6e; x22; x7d; x5d; x7d].
Proof. eexists. split; [vm_compute; reflexivity|]. split; [vm_compute; reflexivity|]. split; vm_compute; reflexivity. Qed.
Print Assumptions C15_example.

(** before the fix a leaf of type empty was written as the bare text <not empty>: not JSON *)
Example C15_empty_old_refuted :
  parse_bytes [x7b; x22; x65; x22; x3a; x3c; x6e; x6f; x74; x20; x65; x6d; x70; x74; x79; x3e; x7d] = None /\
  parse_bytes [x7b; x22; x65; x22; x3a; x5b; x6e; x75; x6c; x6c; x5d; x7d] = Some (JObj [([x65], JArr [JNull])]).
Proof. split; vm_compute; reflexivity. Qed.
Print Assumptions C15_empty_old_refuted.
