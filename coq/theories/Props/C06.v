(** C06 - Nothing written in a module is lost or altered on the way into the schema.
    Theorem-only file.  Model: YLex/Model.v (parser/lexer.go and the string post-processing of
    parser/parser.y, as repaired); specification: YLex/Spec.v (RFC 7950 6.1.1-6.1.3).  The goyacc LALR
    driver and its tables are not modelled; statement fidelity (part S of the property) is established
    by the correspondence check only (bin/props.d/C06.json), except for the list-valued statements
    (must, unique, revision) on their way through grouping expansion, refine and deviation: part G
    at the end of this file, model Meta/Slices.v (clone and addMust of meta/core_gen.in, refine and
    applyDeviation of meta/resolver.go, the revision accessors of meta/core.go). *)
From Coq Require Import List Bool Arith Strings.Byte.
From YV Require Import YLex.Keywords YLex.Model YLex.Spec YLex.Proofs YLex.Total YLex.ProofsExt.
From YV Require Import Meta.Slices Meta.SlicesProofs.
Import ListNotations.

(** White space and comments (block comments, line comments, in any number and order) between two
    tokens are invisible: whatever follows them is lexed as if they were not there. *)
Theorem C06_ws_comment_invisible : forall j r,
  junk_ok j = true -> accept_ws (render_junk j ++ r) = accept_ws r.
Proof. exact ws_junk. Qed.
Print Assumptions C06_ws_comment_invisible.

(** MAIN THEOREM.  For every keyword that takes a string argument, every argument written in any way
    RFC 7950 6.1.3 allows - any split of the text into '+'-joined parts (up to 31, the capacity of the
    token ring), each part double-quoted with any choice of escapes / single-quoted, or one unquoted
    string - with any white space and comments before it, around every '+' and after it, closed by ';'
    or an opening brace and followed by any text: the lexer emits exactly the keyword, the parts and the
    terminator, the token ring delivers them unchanged to the parser, and the grammar's string_value
    hands the builder exactly the text that was written. *)
Theorem C06_argument_roundtrip : forall k j0 a j1 c rest (rg : ring token),
  In k string_kws -> stmt_ok j0 a j1 = true -> is_term c = true ->
  arg_parts a <= 31 -> ring_wf rg ->
  exists toks rg',
    lex_begin (kw_text k ++ render_junk j0 ++ arg_src a ++ render_junk j1 ++ c :: rest)
      = Continue toks (accept_ws rest)
    /\ deliver rg toks = Some (toks, rg') /\ ring_wf rg'
    /\ arg_of toks = Some (arg_text a).
Proof. exact stmt_roundtrip. Qed.
Print Assumptions C06_argument_roundtrip.

(** the statement in the form of the task: quote any text in a style that can express it, put it
    after a keyword and a blank, close with ';' *)
Theorem C06_quote_roundtrip : forall sty t p k,
  In k string_kws -> quote sty t = Some p ->
  exists toks, lex_begin (kw_text k ++ [c_sp] ++ part_src p ++ [c_semi]) = Continue toks []
               /\ arg_of toks = Some t.
Proof. exact quote_roundtrip. Qed.
Print Assumptions C06_quote_roundtrip.

(** every text without NUL can be written (double-quoted, all four escapes used), and what [quote]
    produces denotes the text *)
Theorem C06_every_text_expressible : forall t,
  forallb (fun b => negb (Byte.eqb b x00)) t = true -> quote StDq t = Some (quote_dq t).
Proof. exact quote_dq_total. Qed.
Theorem C06_quote_sound : forall sty t p, quote sty t = Some p -> part_ok p = true /\ part_text p = t.
Proof. exact quote_sound. Qed.
Print Assumptions C06_quote_sound.

(** the same for the argument of an extension statement (prefix:name argument ;) on any statement:
    the extension name must not begin with a YANG keyword the lexer tests first (checked by
    [ext_name_ok]; "m:e" passes), and an unquoted argument must not begin like a number (known
    finding 7) *)
Theorem C06_extension_argument_roundtrip : forall name j0 a j1 c rest,
  ext_name_ok name = true -> stmt_ok j0 a j1 = true -> not_numeric_start a = true -> is_term c = true ->
  lex_begin (name ++ render_junk j0 ++ arg_src a ++ render_junk j1 ++ c :: rest)
    = Continue ((t_unknown, name) :: arg_toks a ++ [term_tok c]) (accept_ws rest)
  /\ arg_of ((t_unknown, name) :: arg_toks a ++ [term_tok c]) = Some (arg_text a).
Proof. exact ext_stmt_roundtrip. Qed.
Print Assumptions C06_extension_argument_roundtrip.
Example C06_ext_name_example : ext_name_ok [x6d; x3a; x65] = true.
Proof. vm_compute. reflexivity. Qed.

(** the token ring is a FIFO for every state call that pushes fewer than 64 tokens, from every head
    position and whatever stale tokens it holds *)
Theorem C06_ring_fifo : forall (r : ring token) (toks : list token),
  ring_wf r -> length toks < ring_size ->
  exists r', deliver r toks = Some (toks, r') /\ ring_wf r'.
Proof. exact (deliver_fifo (0, [])). Qed.
Print Assumptions C06_ring_fifo.

(** non-vacuity: a three-part argument with every escape, a block and a line comment *)
Definition ex_arg : arg :=
  mkArg (PDq [DLit x73; DEsc x22; DLit x68; DEsc x22; DEsc x0a; DEsc x09; DEsc x5c])
        [([JSp x20; JBlock [x2a; x2b; x22]], [JLine [x27; x2f; x2f]; JSp x09], PSq [x22; x5c; x6e]);
         ([], [], PDq [])].
Example C06_hyps_met :
  stmt_ok [JSp x0a; JBlock [x2f]] ex_arg [JLine []] = true /\ In k_description string_kws
  /\ arg_parts ex_arg <= 31
  /\ arg_text ex_arg = [x73; x22; x68; x22; x0a; x09; x5c; x22; x5c; x6e]
  /\ ylex (kw_text k_description ++ render_junk [JSp x0a; JBlock [x2f]] ++ arg_src ex_arg
           ++ render_junk [JLine []] ++ [c_semi])
     = LexOk ((k_description, kw_text k_description) :: arg_toks ex_arg ++ [(t_semi, [c_semi])]).
Proof.
  split; [vm_compute; reflexivity|]. split; [vm_compute; repeat (try (left; reflexivity); right)|].
  split; [vm_compute; repeat constructor|]. split; vm_compute; reflexivity.
Qed.

(** KNOWN FINDING 4 (ring): the statement without the bound on the number of parts is false of the
    faithful model - 32 parts push 65 tokens into the 64-slot ring and the parser receives one *)
Definition C06_full_statement : Prop := forall k j0 a j1 c rest,
  In k string_kws -> stmt_ok j0 a j1 = true -> is_term c = true ->
  exists toks d rg',
    lex_begin (kw_text k ++ render_junk j0 ++ arg_src a ++ render_junk j1 ++ c :: rest)
      = Continue toks (accept_ws rest)
    /\ deliver ring0 toks = Some (d, rg') /\ arg_of d = Some (arg_text a).

Definition many_parts (n : nat) : arg := mkArg (PDq [DLit x61]) (repeat ([], [], PDq [DLit x62]) n).

Theorem C06_full_statement_refuted : ~ C06_full_statement.
Proof.
  intros H.
  destruct (H k_description [JSp x20] (many_parts 31) [] c_semi [] ) as (toks & d & rg' & H1 & H2 & H3);
    [vm_compute; repeat (try (left; reflexivity); right) | reflexivity | reflexivity |].
  vm_compute in H1. inversion H1. subst toks. clear H1.
  vm_compute in H2. inversion H2. subst d. clear H2.
  vm_compute in H3. discriminate H3.
Qed.
Print Assumptions C06_full_statement_refuted.

(** the pinned commit: tokenString did not interpret escapes (and indexed s[0] of an empty token);
    acceptWS indexed past the input in a // comment at the end and closed a block comment at "/*/" *)
Example C06_pinned_commit_refuted :
  token_string_old [x22; x5c; x6e; x22] = Some [x5c; x6e]
  /\ token_string [x22; x5c; x6e; x22] = [x0a]
  /\ token_string_old [] = None
  /\ ws_old ON [x2f; x2f; x61] = None
  /\ ws_old ON [x2f; x2a; x2f; x61; x2a; x2f; x62] = Some [x61; x2a; x2f; x62]
  /\ accept_ws [x2f; x2a; x2f; x61; x2a; x2f; x62] = [x62].
Proof. vm_compute. repeat split. Qed.

(** ---- PART G: must / unique / revision through uses, refine and deviation --------------------------
    The loader keeps these statements in Go slices: the builder appends, clone() copies when a
    grouping is used or an augment applied, refine and "deviate add" append to the copy, "deviate
    delete" rebuilds.  The model runs these operations on slice headers over a heap of backing arrays
    (append writes in place when there is spare capacity), for any number of objects.

    MAIN THEOREM of part G.  For EVERY sequence of such operations - every number of statements on
    every node, every number of uses of every grouping, copies of copies, refinements and deviations
    in any order - what is read back from every object is exactly the list of entries written for it
    (the specification [spec_read]: a copy starts with the entries of its original and is from then
    on an object of its own), and the load fails exactly when a "deviate delete" names an entry that
    is not there. *)
Theorem C06_list_statements_read_back : forall (prog : list op) (n : nat),
  load_and_read true prog n = spec_read prog n.
Proof. exact load_reads_written. Qed.
Print Assumptions C06_list_statements_read_back.

(** the clause in the shape it has in a module: a grouping node with the musts [ms], used
    [length adds] times, the i-th use refined / deviated with the musts [nth i adds]: the i-th copy
    reads back [ms] followed by its own additions, the grouping itself keeps [ms] *)
Theorem C06_uses_keep_their_own_musts : forall (ms : list cell) (adds : list (list cell)),
  exists cells, load_and_read true (grouping_prog ms adds) (S (length adds)) = Some cells /\
    nth 0 cells [] = ms /\
    (forall j rs, nth_error adds j = Some rs -> nth (S j) cells [] = ms ++ rs).
Proof. exact uses_read_back. Qed.
Print Assumptions C06_uses_keep_their_own_musts.

(** non-vacuity: three musts on the grouping leaf (capacity four after the builder's appends), two
    uses with one more must each, and a program with a copy of a copy and a deviate delete *)
Example C06_uses_example :
  load_and_read true (grouping_prog [m_ x61; m_ x62; m_ x63] [[m_ x37]; [m_ x39]]) 3
  = Some [[m_ x61; m_ x62; m_ x63]; [m_ x61; m_ x62; m_ x63; m_ x37]; [m_ x61; m_ x62; m_ x63; m_ x39]]
  /\ load_and_read true [OAppend 0 (m_ x61); OAppend 0 (m_ x62); OClone 0 1; OClone 1 2; OAppend 1 (m_ x63);
                          ODelete 2 (m_ x61) false; OAppend 2 (m_ x64)] 3
  = Some [[m_ x61; m_ x62]; [m_ x61; m_ x62; m_ x63]; [m_ x62; m_ x64]]
  /\ load_and_read true [OAppend 0 (m_ x61); ODelete 0 (m_ x62) false] 1 = None
  /\ load_and_read true [OAppend 0 [[x62]; [x61]]; OAppend 0 [[x64]; [x63]]; ODelete 0 [[x63]; [x64]] true] 1
  = Some [[[[x62]; [x61]]]].
Proof. vm_compute. repeat split. Qed.

(** the theorem is about the [make] in clone(): a copy that keeps the header of the struct copy
    shares the spare capacity of the grouping's array with every other copy, and the must added to
    the first use is read back as the must added to the second *)
Example C06_shared_backing_array_refuted :
  load_and_read false (grouping_prog [m_ x61; m_ x62; m_ x63] [[m_ x37]; [m_ x39]]) 3
  = Some [[m_ x61; m_ x62; m_ x63]; [m_ x61; m_ x62; m_ x63; m_ x39]; [m_ x61; m_ x62; m_ x63; m_ x39]]
  /\ spec_read (grouping_prog [m_ x61; m_ x62; m_ x63] [[m_ x37]; [m_ x39]]) 3
  = Some [[m_ x61; m_ x62; m_ x63]; [m_ x61; m_ x62; m_ x63; m_ x37]; [m_ x61; m_ x62; m_ x63; m_ x39]].
Proof. exact shared_header_refuted. Qed.

(** reading the revisions does not alter them: whatever sequence of Module.Revision /
    RevisionHistory / Revisions is called, in any order and any number of times, every call answers
    from the revision statements in the order they were written *)
Theorem C06_revision_accessors_pure : forall (revs : list cell) (calls : list racc),
  racc_run revs calls = map (racc_spec revs) calls.
Proof. exact racc_pure. Qed.
Print Assumptions C06_revision_accessors_pure.

(** ... which a Revision() that sorts the list it answers from does not satisfy *)
Example C06_sorting_accessor_refuted :
  racc_run_sorting [rv_ x39; rv_ x37; rv_ x38] [AHistory; ARevision; AHistory]
  = [[rv_ x39; rv_ x37; rv_ x38]; [rv_ x39]; [rv_ x39; rv_ x38; rv_ x37]]
  /\ map (racc_spec [rv_ x39; rv_ x37; rv_ x38]) [AHistory; ARevision; AHistory]
  = [[rv_ x39; rv_ x37; rv_ x38]; [rv_ x39]; [rv_ x39; rv_ x37; rv_ x38]].
Proof. exact racc_sorting_refuted. Qed.
