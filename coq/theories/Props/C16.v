(** C16 - placeholder while the proofs are being written *)
From Coq Require Import ZArith List.
From YV Require Import Tree.XPathLex Tree.When Tree.WhenSpec.
Example C16_placeholder : op_holds OEq 0 = true.
Proof. reflexivity. Qed.
Print Assumptions C16_placeholder.
