(** C16 - when, where and filter hide exactly what their expression excludes.
    Theorem-only file: every statement is closed by [exact] of a lemma proved in Tree/WhenProofs.v and is
    followed by Print Assumptions.
    Model: Tree/XPathLex.v (xpath.Parse), Tree/When.v (XPredicate, CheckWhen, Where, filter, the reader and
    the writer consulting them) - tied to node/xpath*.go, node/check_when.go, node/where.go,
    node/filter.go, node/edit.go, xpath/*.go by the C16 correspondence check.
    Specification: Tree/WhenSpec.v ([spec_cmp]: some reading the path reaches satisfies the
    mathematical comparison with the value the literal denotes; Val.Proofs.spec_sgn is the sign of the
    mathematical comparison of two values of one type). *)
From Coq Require Import ZArith List Bool Strings.Byte.
From YV Require Import Base.Wrap Val.Model Val.Proofs Tree.Schema Tree.Editor Tree.XPathLex Tree.When
  Tree.WhenSpec Tree.XPathLexProofs Tree.WhenProofs Tree.WhenEditProofs
  Tree.Merge Tree.EditorProofs Tree.WhenWrite Tree.WhenWriteProofs Tree.WhenHideProofs.
Import ListNotations.
Open Scope Z_scope.

(** every operator answers with the truth of the mathematical comparison of the two values:
    all eight integer widths over their whole range, decimal64, strings, booleans, enumerations *)
Theorem C16_operator_truth : forall o a b,
  wf_value a -> wf_value b -> format_of a = format_of b ->
  exists s, spec_sgn a b = Some s /\ cmp_holds o a b = XOk (op_holds o s).
Proof. exact cmp_holds_truth. Qed.
Print Assumptions C16_operator_truth.

(** ... which is: numerically for integers *)
Theorem C16_integers_numerically : forall o f a b,
  exists s, spec_sgn (VInt f a) (VInt f b) = Some s /\ op_holds o s = zop o a b.
Proof. exact int_comparison_is_numeric. Qed.
Print Assumptions C16_integers_numerically.
(** by truth value for booleans *)
Theorem C16_booleans_by_truth_value : forall o a b,
  exists s, spec_sgn (VBool a) (VBool b) = Some s /\ op_holds o s = zop o (Z.b2z a) (Z.b2z b).
Proof. exact bool_comparison_is_truth. Qed.
Print Assumptions C16_booleans_by_truth_value.
(** character-wise (bytes, lexicographically) for strings *)
Theorem C16_strings_bytewise : forall a b,
  exists s, spec_sgn (VStr a) (VStr b) = Some s /\ s = lex_cmp a b /\ (op_holds OEq s = true <-> a = b).
Proof. exact string_comparison_is_bytewise. Qed.
Print Assumptions C16_strings_bytewise.
(** by name for enumerations: within one enumeration type equal values are equal names *)
Theorem C16_enums_by_name : forall labels la ia lb ib o,
  wf_enum labels -> In (la, ia) labels -> In (lb, ib) labels ->
  exists s, spec_sgn (VEnum ia la) (VEnum ib lb) = Some s /\ op_holds o s = zop o ia ib /\
            (op_holds OEq s = true <-> la = lb).
Proof. exact enum_equal_by_name. Qed.
Print Assumptions C16_enums_by_name.

(** a literal of the leaf's type is converted to the value it denotes (NewValue on what the parser made
    of the text: bare and quoted integers incl. negative and beyond int64, decimals, names, true/false) *)
Theorem C16_literal_conversion : forall ty l b,
  lit_denote ty l = Some b -> conv_lit ty l = XOk b /\ wf_value b.
Proof. exact conv_lit_denote. Qed.
Print Assumptions C16_literal_conversion.

(** the evaluator (XFind: containers, lists "until one entry matches", operator) computes what the
    specification says for EVERY path, data tree, operator and literal on which the specification
    speaks: no error, no panic, the mathematical truth *)
Theorem C16_cmp_sound : forall kids c e r, spec_cmp kids c e = Some r -> eval_cmp kids c e = XOk r.
Proof. exact cmp_sound. Qed.
Print Assumptions C16_cmp_sound.

(** cmp_truth: the path leads to one place where the leaf has value v *)
Theorem C16_cmp_truth : forall kids c e ty cx ty' v b s,
  path_type kids (ce_path e) (ce_leaf e) = Some ty ->
  reach kids c (ce_path e) = Some [cx] ->
  reading (ce_leaf e) cx = Some (ty', Some v) -> wf_valb v = true ->
  lit_denote ty (ce_lit e) = Some b -> spec_sgn v b = Some s ->
  eval_cmp kids c e = XOk (op_holds (ce_op e) s).
Proof. exact cmp_truth. Qed.
Print Assumptions C16_cmp_truth.

(** unset_false: no value (stored or default) wherever the path leads: false for every operator *)
Theorem C16_unset_false : forall kids c e ty ctxs b,
  path_type kids (ce_path e) (ce_leaf e) = Some ty ->
  reach kids c (ce_path e) = Some ctxs ->
  Forall (fun cx => exists ty', reading (ce_leaf e) cx = Some (ty', None)) ctxs ->
  lit_denote ty (ce_lit e) = Some b ->
  eval_cmp kids c e = XOk false.
Proof. exact unset_false. Qed.
Print Assumptions C16_unset_false.

(** when_true_transparent: if every condition the reader meets holds, the export is the export
    that ignores all conditions ("as if it had no when") *)
Theorem C16_when_true_transparent : forall s pth u d,
  whens_true s d = true -> wexp_m true pth u s d = wexp_m false pth u s d.
Proof. exact when_true_transparent. Qed.
Print Assumptions C16_when_true_transparent.

(** when_hides: a definition whose condition is false is exported exactly as if its data were absent
    (choice-free definitions) *)
Theorem C16_when_hides : forall kids c i k,
  nth_error kids i = Some k -> has_when k = true ->
  Forall (fun k' => sguard k' = []) kids ->
  kid_when kids c i k = XOk false ->
  wexport true kids c = wexport true kids (set_nth i None c).
Proof. exact when_hides. Qed.
Print Assumptions C16_when_hides.

(** where_keeps: exactly the entries for which the predicate holds, in their order *)
Theorem C16_where_keeps : forall rkids e rows,
  forallb (row_decided rkids e) rows = true ->
  where_rows rkids e rows =
  row_loop (wexp_m true [] true (root_cont rkids)) (filter (keep_row rkids e) rows).
Proof. exact where_keeps. Qed.
Print Assumptions C16_where_keeps.

(** ... and the predicate is the mathematical one *)
Theorem C16_where_keeps_spec : forall rkids text p e rows,
  xparse text = POk p -> as_cmp p = Some e ->
  Forall (fun r => exists rc b, r = DCont rc /\ spec_cmp rkids rc e = Some b) rows ->
  where_rows rkids text rows =
  row_loop (wexp_m true [] true (root_cont rkids))
           (filter (fun r => match r with
                             | DCont rc => match spec_cmp rkids rc e with Some true => true | _ => false end
                             | _ => false end) rows).
Proof. exact where_keeps_spec. Qed.
Print Assumptions C16_where_keeps_spec.

(** filter_keeps: an event is delivered iff the expression holds for it *)
Theorem C16_filter_keeps : forall kids ev text p e b,
  xparse text = POk p -> as_cmp p = Some e -> spec_cmp kids ev e = Some b ->
  filter_event kids text ev = if b then FKeep else FDrop.
Proof. exact filter_keeps. Qed.
Print Assumptions C16_filter_keeps.

(** the supported shape  n1/.../leaf op literal  (names of name characters; a digit string, a decimal or
    a quoted text as literal; any length below the parser's stack) is lexed and parsed into exactly
    that comparison ... *)
Theorem C16_parse_supported_shape : forall p lf o w l,
  Forall name_ok p -> name_ok lf -> lit_ok w l -> (length p < stack_size)%nat ->
  xparse (render p lf o w) = POk (map (fun n => (n, None)) p ++ [(lf, Some (o, l))]).
Proof. exact xparse_render. Qed.
Print Assumptions C16_parse_supported_shape.

(** ... so that the TEXT of a when / where / filter expression is decided by the mathematical truth *)
Theorem C16_text_truth : forall kids c p lf o w l r,
  Forall name_ok p -> name_ok lf -> lit_ok w l -> (length p < stack_size)%nat ->
  spec_cmp kids c (mkCmp p lf o l) = Some r ->
  xpredicate kids c (render p lf o w) = XOk r.
Proof. exact text_truth. Qed.
Print Assumptions C16_text_truth.

(** the writer: an edit (UpsertFrom at a container-like entry point, choice-free definitions) that brings
    exactly one conditional leaf writes it if its condition holds on the target and leaves the target
    untouched if it does not *)
Theorem C16_edit_conditional_leaf : forall kids src tgt i m ty il dflt w d,
  nth_error kids i = Some (SLeaf m ty il dflt) -> nm_when m = Some w ->
  Forall (fun k => sguard k = []) kids ->
  nth i src None = Some d -> (forall j, j <> i -> nth j src None = None) ->
  forall holds, xpredicate kids tgt w = XOk holds ->
  wupsert kids src tgt = XOk (if holds then set_nth i (Some d) tgt else tgt).
Proof. exact edit_conditional_leaf. Qed.
Print Assumptions C16_edit_conditional_leaf.

(** ** the listed findings, reproduced on the model (KNOWN_FINDINGS.txt k=1,2,5; k=3,4 are the
    compiler's: the schema is an input here) *)
Definition kf_meta (n : list byte) (w : option (list byte)) := mkMeta n [x6d] true [] w.
(** k=1: leaf y { when "x=1" }  leaf x { when "z=1" }  leaf z : reading y's condition panics *)
Example C16_kf1_operand_when_refuted :
  xpredicate [SLeaf (kf_meta [x78] (Some [x7a;x3d;x31])) (TInt FInt32) false None;
              SLeaf (kf_meta [x7a] None) (TInt FInt32) false None]
             [Some (DLeaf (LV (VInt FInt32 1))); Some (DLeaf (LV (VInt FInt32 1)))]
             [x78;x3d;x31] = XPanic.
Proof. vm_compute. reflexivity. Qed.
(** k=2: list l { when "x=1"; ... } present in the data: the read fails *)
Example C16_kf2_list_when_refuted :
  wexport true
    [SList (kf_meta [x6c] (Some [x78;x3d;x31])) [0%nat]
       (SCont (kf_meta [x6c] (Some [x78;x3d;x31]))
          [SLeaf (kf_meta [x6b] None) TStr false None; SLeaf (kf_meta [x78] None) (TInt FInt32) false None])]
    [Some (DList [DCont [Some (DLeaf (LV (VStr [x61]))); Some (DLeaf (LV (VInt FInt32 1)))]])] = XErr.
Proof. vm_compute. reflexivity. Qed.
(** k=5: writing container c { when "x=1"; leaf x } whose condition is false on the target fails *)
Example C16_kf5_container_when_write_refuted :
  wupsert [SCont (kf_meta [x63] (Some [x78;x3d;x31])) [SLeaf (kf_meta [x78] None) (TInt FInt32) false None]]
          [Some (DCont [Some (DLeaf (LV (VInt FInt32 1)))])]
          [Some (DCont [Some (DLeaf (LV (VInt FInt32 2)))])] = XErr.
Proof. vm_compute. reflexivity. Qed.
Print Assumptions C16_kf5_container_when_write_refuted.
(** the defects repaired in node/xpath_impl.go: before the repair "!=" on an unset leaf was true
    (now, with every operator: false) *)
Example C16_unset_not_equal_is_false :
  xpredicate [SLeaf (kf_meta [x76] None) (TInt FInt32) false None] [None] [x76;x21;x3d;x33] = XOk false /\
  xpredicate [SLeaf (kf_meta [x76] None) (TInt FInt32) false None] [None] [x76;x3c;x33] = XOk false.
Proof. vm_compute. split; reflexivity. Qed.

(** non-vacuity: the hypotheses of C16_cmp_sound / C16_unset_false are met; uint64 beyond int64,
    a quoted negative literal, an unset operand under "!=" and under "<" *)
Definition ex_kids : list snode :=
  [SLeaf (mkMeta [x75] [x6d] true [] None) (TInt FUInt64) false None;
   SCont (mkMeta [x63] [x6d] true [] None) [SLeaf (mkMeta [x69] [x6d] true [] None) (TInt FInt8) false None]].
Example C16_hyps_met :
  spec_cmp ex_kids [Some (DLeaf (LV (VInt FUInt64 18446744073709551615))); None]
           (mkCmp [] [x75] OGt (LStr [x39;x32;x32;x33;x33;x37;x32;x30;x33;x36;x38;x35;x34;x37;x37;x35;x38;x30;x38])) = Some true /\
  spec_cmp ex_kids [None; Some (DCont [Some (DLeaf (LV (VInt FInt8 (-128))))])]
           (mkCmp [[x63]] [x69] OLt (LStr [x2d;x31;x32;x37])) = Some true /\
  spec_cmp ex_kids [None; Some (DCont [None])] (mkCmp [[x63]] [x69] ONe (LInt 3)) = Some false /\
  spec_cmp ex_kids [None; Some (DCont [None])] (mkCmp [[x63]] [x69] OLt (LInt 3)) = Some false /\
  xpredicate ex_kids [None; Some (DCont [None])] [x63;x2f;x69;x21;x3d;x33] = XOk false.
Proof. vm_compute. repeat split. Qed.
Print Assumptions C16_hyps_met.

(** ** the writer, in general (Tree/WhenWrite.v, Tree/WhenWriteProofs.v)
    [wrestrict s src tgt new]: the source restricted to the definitions whose 'when' holds on the target as the
    editor sees it when it reaches them (left to right: the definitions before it already written).
    Domain: well-formed choice-free schemas in which a conditional leaf has no default and list keys are
    unconditional leaves ([when_schema_ok]); every shaped source and target; unboundedly. *)

(** the conditional editor computes the unconditional merge (Tree/Merge.v, = the plain editor by C03) of the
    restricted source; it fails exactly as the evaluation of a condition it needs fails *)
Theorem C16_wedit_is_merge_of_restricted : forall s,
  wf_schema s = true -> choice_free s = true -> when_schema_ok s = true -> is_leaf s = false ->
  forall src tgt new, shaped s src = true -> shaped s tgt = true ->
  match wrestrict s src tgt new with
  | XOk src' => wedit s src tgt new = XOk (merge_one s src' tgt new) /\ shaped s src' = true
  | XErr => wedit s src tgt new = XErr
  | XPanic => wedit s src tgt new = XPanic
  | XUnsup => True
  end.
Proof. exact wedit_is_merge_of_restricted. Qed.
Print Assumptions C16_wedit_is_merge_of_restricted.

(** at a container-like entry point: UpsertFrom = the plain editor (edit_content) = the merge, on the
    restricted source *)
Theorem C16_wupsert_is_edit_of_restricted : forall kids src tgt,
  forallb wf_schema kids = true -> forallb choice_free kids = true -> forallb when_schema_ok kids = true ->
  shaped_kids shaped kids src = true -> shaped_kids shaped kids tgt = true ->
  match wrestrict_content kids src tgt with
  | XOk src' => wupsert kids src tgt = XOk (merge_content kids src' tgt) /\
                edit_content false kids src' tgt Upsert = Ok (merge_content kids src' tgt) /\
                shaped_kids shaped kids src' = true
  | XErr => wupsert kids src tgt = XErr
  | XPanic => wupsert kids src tgt = XPanic
  | XUnsup => True
  end.
Proof. exact wupsert_is_edit_of_restricted. Qed.
Print Assumptions C16_wupsert_is_edit_of_restricted.

(** what the restriction is, position by position, in terms of the result [r]: a leaf the source brings is
    written iff its condition holds on the target in which the definitions before it have been written
    ([firstn i r]) and the others not yet ([skipn i tgt]); otherwise it is left as it was; what the source
    does not mention is left as it was *)
Theorem C16_wupsert_writes_exactly_partial : forall kids src tgt src',
  forallb wf_schema kids = true -> forallb choice_free kids = true -> forallb when_schema_ok kids = true ->
  shaped_kids shaped kids src = true -> shaped_kids shaped kids tgt = true ->
  wrestrict_content kids src tgt = XOk src' ->
  exists r, wupsert kids src tgt = XOk r /\ r = merge_content kids src' tgt /\
    (forall i, nth i src None = None -> nth i r None = nth i tgt None) /\
    (forall i m ty il dflt d, nth_error kids i = Some (SLeaf m ty il dflt) -> nth i src None = Some d ->
       exists ok, when_field true [] kids (firstn i r ++ skipn i tgt) (SLeaf m ty il dflt) = XOk ok /\
                  nth i src' None = (if ok then Some d else None) /\
                  nth i r None = (if ok then Some d else nth i tgt None)).
Proof. exact wupsert_writes_exactly. Qed.
Print Assumptions C16_wupsert_writes_exactly_partial.

(** when_true_everywhere_is_plain_edit: if every condition the writer meets holds ([wwhens_true]), the editor
    that consults 'when' and the one that knows nothing of it deliver the same (no restriction on defaults or
    keys here) *)
Theorem C16_when_true_everywhere : forall s,
  wf_schema s = true -> choice_free s = true -> is_leaf s = false ->
  forall src tgt new, shaped s src = true -> shaped s tgt = true ->
  wwhens_true s src tgt new = true ->
  wedit s src tgt new = XOk (merge_one s src tgt new).
Proof. exact when_true_everywhere. Qed.
Print Assumptions C16_when_true_everywhere.

Theorem C16_when_true_everywhere_is_plain_edit : forall kids src tgt,
  forallb wf_schema kids = true -> forallb choice_free kids = true ->
  shaped_kids shaped kids src = true -> shaped_kids shaped kids tgt = true ->
  wwhens_true_content kids src tgt = true ->
  wupsert kids src tgt = XOk (merge_content kids src tgt) /\
  edit_content false kids src tgt Upsert = Ok (merge_content kids src tgt).
Proof. exact when_true_everywhere_is_plain_edit. Qed.
Print Assumptions C16_when_true_everywhere_is_plain_edit.

(** *** instances: the order of the definitions matters, the hypotheses are met, what lies outside *)
Definition w_i32 (z : Z) : option dnode := Some (DLeaf (LV (VInt FInt32 z))).
Definition w_a := SLeaf (kf_meta [x61] None) (TInt FInt32) false None.
(** leaf b { when "a=1" } *)
Definition w_b := SLeaf (kf_meta [x62] (Some [x61;x3d;x31])) (TInt FInt32) false None.

(** the same edit {a=1, b=5} into an empty target: with a defined BEFORE b, a is written first, b's condition
    then holds and b is written; with b defined before a, b's condition is evaluated before a is written: b is
    dropped.  The restriction says so in both cases. *)
Example C16_order_matters :
  wupsert [w_a; w_b] [w_i32 1; w_i32 5] [None; None] = XOk [w_i32 1; w_i32 5] /\
  wrestrict_content [w_a; w_b] [w_i32 1; w_i32 5] [None; None] = XOk [w_i32 1; w_i32 5] /\
  wupsert [w_b; w_a] [w_i32 5; w_i32 1] [None; None] = XOk [None; w_i32 1] /\
  wrestrict_content [w_b; w_a] [w_i32 5; w_i32 1] [None; None] = XOk [None; w_i32 1] /\
  wwhens_true_content [w_a; w_b] [w_i32 1; w_i32 5] [None; None] = true /\
  wwhens_true_content [w_b; w_a] [w_i32 5; w_i32 1] [None; None] = false.
Proof. vm_compute. repeat split. Qed.

(** the hypotheses of the general theorems are met on a schema with a keyed list whose entries hold a
    conditional leaf and a conditional container: four source entries (two with the key of an entry that the
    edit itself creates), conditions that become true / stay false through earlier writes of the same edit *)
Definition w_k := SLeaf (kf_meta [x6b] None) TStr false None.
(** container c { when "x=1"; leaf x } *)
Definition w_c := SCont (kf_meta [x63] (Some [x78;x3d;x31])) [SLeaf (kf_meta [x78] None) (TInt FInt32) false None].
Definition w_l := SList (kf_meta [x6c] None) [0%nat] (SCont (kf_meta [x6c] None) [w_k; w_a; w_b; w_c]).
Definition w_key (b : byte) : option dnode := Some (DLeaf (LV (VStr [b]))).
Definition w_cx (z : Z) : option dnode := Some (DCont [w_i32 z]).
Definition w_src : content :=
  [Some (DList [DCont [w_key x61; None; w_i32 5; None];
                DCont [w_key x62; w_i32 1; w_i32 6; w_cx 1];
                DCont [w_key x61; w_i32 1; None; None];
                DCont [w_key x61; None; w_i32 8; None]])].
Definition w_tgt : content := [Some (DList [DCont [w_key x62; w_i32 0; None; w_cx 1]])].
Example C16_writer_hyps_met :
  forallb wf_schema [w_l] = true /\ forallb choice_free [w_l] = true /\ forallb when_schema_ok [w_l] = true /\
  shaped_kids shaped [w_l] w_src = true /\ shaped_kids shaped [w_l] w_tgt = true /\
  wrestrict_content [w_l] w_src w_tgt =
    XOk [Some (DList [DCont [w_key x61; None; None; None];
                      DCont [w_key x62; w_i32 1; w_i32 6; w_cx 1];
                      DCont [w_key x61; w_i32 1; None; None];
                      DCont [w_key x61; None; w_i32 8; None]])] /\
  wupsert [w_l] w_src w_tgt =
    XOk [Some (DList [DCont [w_key x62; w_i32 1; w_i32 6; w_cx 1];
                      DCont [w_key x61; w_i32 1; w_i32 8; None]])] /\
  wwhens_true_content [w_l] w_src w_tgt = false /\
  wwhens_true_content [w_l] [Some (DList [DCont [w_key x62; w_i32 1; w_i32 6; w_cx 1]])] w_tgt = true.
Proof. vm_compute. repeat split. Qed.

(** outside [when_schema_ok]: a conditional leaf WITH a default in a container the edit creates; the condition
    is false, the default is not written - right, but no source restriction says so (the merge of the
    restricted source writes the default) *)
Definition w_d := SCont (kf_meta [x63] None)
  [SLeaf (kf_meta [x78] None) (TInt FInt32) false None;
   SLeaf (kf_meta [x79] (Some [x78;x3d;x31])) (TInt FInt32) false (Some (LV (VInt FInt32 4)))].
Example C16_conditional_default_outside :
  when_schema_ok w_d = false /\
  wupsert [w_d] [Some (DCont [w_i32 2; None])] [None] = XOk [Some (DCont [w_i32 2; None])] /\
  wrestrict_content [w_d] [Some (DCont [w_i32 2; None])] [None] = XOk [Some (DCont [w_i32 2; None])] /\
  merge_content [w_d] [Some (DCont [w_i32 2; None])] [None] = [Some (DCont [w_i32 2; w_i32 4])].
Proof. vm_compute. repeat split. Qed.

(** FALSE in general: "a definition whose condition is false (on the target at the moment the editor reaches it)
    is left untouched". *)
Definition C16_wedit_untouched_full_statement : Prop :=
  forall kids src tgt r i k,
    forallb wf_schema kids = true -> forallb choice_free kids = true -> forallb when_schema_ok kids = true ->
    shaped_kids shaped kids src = true -> shaped_kids shaped kids tgt = true ->
    wupsert kids src tgt = XOk r -> nth_error kids i = Some k ->
    kid_when kids (firstn i r ++ skipn i tgt) i k = XOk false ->
    nth i r None = nth i tgt None.
(** counter-example (the container case of [wedit]; leaves obey it: C16_wupsert_writes_exactly_partial):
    container c { when "x=1"; leaf x { default 1 }; leaf y }, target c = {x=2, y=7}, edit c = {y=9}.
    The condition is false on the existing c, so to.selekt hides it; the editor then creates c anew, the
    condition holds on the FRESH container (x unset, default 1) and the edit goes into it:
    the result is c = {x=1, y=9}; x=2 is lost.  [wrestrict] reports this case as XUnsup. *)
Definition w_r := SCont (kf_meta [x63] (Some [x78;x3d;x31]))
  [SLeaf (kf_meta [x78] None) (TInt FInt32) false (Some (LV (VInt FInt32 1)));
   SLeaf (kf_meta [x79] None) (TInt FInt32) false None].
Example C16_replaced_container_counterexample :
  kid_when [w_r] [Some (DCont [w_i32 2; w_i32 7])] 0 w_r = XOk false /\
  wupsert [w_r] [Some (DCont [None; w_i32 9])] [Some (DCont [w_i32 2; w_i32 7])]
    = XOk [Some (DCont [w_i32 1; w_i32 9])] /\
  wrestrict_content [w_r] [Some (DCont [None; w_i32 9])] [Some (DCont [w_i32 2; w_i32 7])] = XUnsup.
Proof. vm_compute. repeat split. Qed.
Theorem C16_wedit_untouched_full_statement_refuted : ~ C16_wedit_untouched_full_statement.
Proof.
  intros H.
  specialize (H [w_r] [Some (DCont [None; w_i32 9])] [Some (DCont [w_i32 2; w_i32 7])]
                [Some (DCont [w_i32 1; w_i32 9])] 0%nat w_r
                eq_refl eq_refl eq_refl eq_refl eq_refl).
  assert (Hr : wupsert [w_r] [Some (DCont [None; w_i32 9])] [Some (DCont [w_i32 2; w_i32 7])]
               = XOk [Some (DCont [w_i32 1; w_i32 9])]) by (vm_compute; reflexivity).
  specialize (H Hr eq_refl).
  assert (Hw : kid_when [w_r] (firstn 0 [Some (DCont [w_i32 1; w_i32 9])] ++ skipn 0 [Some (DCont [w_i32 2; w_i32 7])]) 0 w_r
               = XOk false) by (vm_compute; reflexivity).
  specialize (H Hw). vm_compute in H. discriminate H.
Qed.
Print Assumptions C16_wedit_untouched_full_statement_refuted.

(** ** when_hides with choices (Tree/WhenHideProofs.v).  [wexport_m pth u] is the export from any container-like
    entry point ([wexport true] = [wexport_m [] false]).
    General form: a definition whose condition is false is exported exactly as if its data were absent,
    whatever choices the schema has, PROVIDED hiding it leaves every case selection as it is. *)
Theorem C16_when_hides_sel : forall pth u kids c i k,
  nth_error kids i = Some k -> has_when k = true ->
  same_selection kids c i ->
  kid_when kids c i k = XOk false ->
  wexport_m pth u kids c = wexport_m pth u kids (set_nth i None c).
Proof. exact when_hides_sel. Qed.
Print Assumptions C16_when_hides_sel.

(** ... which is the case when the conditional definition is itself outside every choice (its siblings may sit
    in choices: generalises C16_when_hides) *)
Theorem C16_when_hides_unguarded : forall pth u kids c i k,
  nth_error kids i = Some k -> has_when k = true -> sguard k = [] ->
  kid_when kids c i k = XOk false ->
  wexport_m pth u kids c = wexport_m pth u kids (set_nth i None c).
Proof. exact when_hides_unguarded. Qed.
Print Assumptions C16_when_hides_unguarded.

(** ... and when every case the definition sits in holds other data *)
Theorem C16_when_hides_in_case : forall pth u kids c i k,
  nth_error kids i = Some k -> has_when k = true -> case_has_other kids c i k ->
  kid_when kids c i k = XOk false ->
  wexport_m pth u kids c = wexport_m pth u kids (set_nth i None c).
Proof. exact when_hides_in_case. Qed.
Print Assumptions C16_when_hides_in_case.

(** FALSE without the proviso: a node hidden by its 'when' still counts as data of its case *)
Definition C16_when_hides_choices_full_statement : Prop :=
  forall pth u kids c i k,
    nth_error kids i = Some k -> has_when k = true ->
    kid_when kids c i k = XOk false ->
    wexport_m pth u kids c = wexport_m pth u kids (set_nth i None c).
(** counter-example: container p { choice ch { case A { leaf k { when "z=1" }  leaf d { default 5 } } }  leaf z },
    p = {k=1, z=0}.  k is hidden, but its data still selects case A, so d's default is exported:
    p = {d=5, z=0}; with k absent no case is selected: p = {z=0}. *)
Definition h_k := SLeaf (mkMeta [x6b] [x6d] true [(0%nat, 0%nat)] (Some [x7a;x3d;x31])) (TInt FInt32) false None.
Definition h_d := SLeaf (mkMeta [x64] [x6d] true [(0%nat, 0%nat)] None) (TInt FInt32) false (Some (LV (VInt FInt32 5))).
Definition h_z := SLeaf (mkMeta [x7a] [x6d] true [] None) (TInt FInt32) false None.
Definition h_p := SCont (mkMeta [x70] [x6d] true [] None) [h_k; h_d; h_z].
Example C16_hidden_node_still_selects_its_case :
  kid_when [h_k; h_d; h_z] [w_i32 1; None; w_i32 0] 0 h_k = XOk false /\
  wexport true [h_p] [Some (DCont [w_i32 1; None; w_i32 0])] = XOk [Some (DCont [None; w_i32 5; w_i32 0])] /\
  wexport true [h_p] [Some (DCont [None; None; w_i32 0])] = XOk [Some (DCont [None; None; w_i32 0])].
Proof. vm_compute. repeat split. Qed.
Theorem C16_when_hides_choices_full_statement_refuted : ~ C16_when_hides_choices_full_statement.
Proof.
  intros H.
  specialize (H [] true [h_k; h_d; h_z] [w_i32 1; None; w_i32 0] 0%nat h_k eq_refl eq_refl).
  assert (Hf : kid_when [h_k; h_d; h_z] [w_i32 1; None; w_i32 0] 0 h_k = XOk false) by (vm_compute; reflexivity).
  specialize (H Hf). vm_compute in H. discriminate H.
Qed.
Print Assumptions C16_when_hides_choices_full_statement_refuted.

(** the provisos are met: d has data too, so hiding k changes no selection (and the two exports agree) *)
Example C16_case_has_other_met :
  case_has_other [h_k; h_d; h_z] [w_i32 1; w_i32 7; w_i32 0] 0 h_k /\
  kid_when [h_k; h_d; h_z] [w_i32 1; w_i32 7; w_i32 0] 0 h_k = XOk false /\
  wexport_m [] true [h_k; h_d; h_z] [w_i32 1; w_i32 7; w_i32 0] = XOk [None; w_i32 7; w_i32 0].
Proof.
  split; [|vm_compute; split; reflexivity].
  intros ch kc Hg. exists 1%nat, h_d.
  destruct ch as [|ch]; [|discriminate Hg]. simpl in Hg. inversion Hg; subst kc.
  repeat split. discriminate.
Qed.
(** an unguarded conditional leaf among siblings that sit in a choice *)
Definition h_u := SLeaf (mkMeta [x75] [x6d] true [] (Some [x7a;x3d;x31])) (TInt FInt32) false None.
Example C16_unguarded_met :
  nth_error [h_u; h_d; h_z] 0 = Some h_u /\ has_when h_u = true /\ sguard h_u = [] /\
  kid_when [h_u; h_d; h_z] [w_i32 1; w_i32 7; w_i32 0] 0 h_u = XOk false /\
  wexport_m [] true [h_u; h_d; h_z] [w_i32 1; w_i32 7; w_i32 0] = XOk [None; w_i32 7; w_i32 0].
Proof. vm_compute. repeat split. Qed.
