(** C07 - Query parameters return exactly the defined projection of the full read.
    Theorem-only file: every statement is closed by [exact] of a lemma proved elsewhere and is
    followed by Print Assumptions.

    Model (Tree/PathExpr.v, Tree/Params.v): BuildConstraints' parameter parsing, the field-path
    lexer / parser / tail-first match, and the constrained reader = the export of Tree/Editor.v into
    an empty target with the hooks of the constraint table (node/selection.go, constraints.go,
    max_depth.go, max_node.go, content_param.go, fields_matcher.go, path_matcher.go, list_range.go,
    with_defaults_param.go, edit.go, as repaired), tied to the code by the C07 correspondence check.
    Spec (Tree/Project.v): views on forward paths and [project_view], written on trees only.
    Domain: every schema whose list rows are containers ([wf_schema], what the dump produces),
    every tree shaped like it, every target (the theorems are about the kids and content AT the
    target), every parameter value.  Choices are outside (guards are not consulted; C09). *)
From Coq Require Import Strings.String.
From Coq Require Import ZArith List Bool Lia Strings.Byte.
From YV Require Import Val.Model Tree.Schema Tree.Merge Tree.PathExpr Tree.PathExprProofs Tree.Params Tree.Project Tree.ParamsProofs Tree.Reading Tree.ReadingProofs Tree.Chain Tree.ProjectChain Tree.ChainProofs.
From YV Require Import Tree.Editor Tree.ExportProofs Tree.ParamsExport Tree.ParamsList Tree.ProjectLaws.
From YV Require Import Tree.PathMem Tree.PathMemProofs.
Import ListNotations.
Open Scope Z_scope.

(** The read with parsed parameters P (depth >= 1, bound >= 0 - all BuildConstraints ever
    produces, [C07_build_valid]) is the projection by P's view of the full read, or Conflict when
    that projection holds more than the allowed number of containers. *)
Theorem C07_read_is_projection : forall P kids data,
  valid P -> forallb wf_schema kids = true -> shaped (SCont root_meta kids) (DCont data) = true ->
  read_content P kids data = spec_read P kids data.
Proof. exact read_is_projection. Qed.
Print Assumptions C07_read_is_projection.

Theorem C07_build_valid : forall q P, build_constraints q = POk P -> valid P.
Proof. exact build_valid. Qed.
Print Assumptions C07_build_valid.

(** ... hence for every query string that parses *)
Theorem C07_query_is_projection : forall q P kids data,
  build_constraints q = POk P ->
  forallb wf_schema kids = true -> shaped (SCont root_meta kids) (DCont data) = true ->
  read_query kids data q = spec_read P kids data.
Proof. exact read_query_is_projection. Qed.
Print Assumptions C07_query_is_projection.

(** per parameter (the other parameters at the defaults BuildConstraints gives them) *)
Theorem C07_depth : forall kids data, forallb wf_schema kids = true -> shaped (SCont root_meta kids) (DCont data) = true ->
  forall n, 1 <= n ->
  read_content (Some (mkParams n None None None 10000 None false)) kids data
  = bounded 10000 (project (view_depth n) kids (full_read kids data)).
Proof. exact read_depth. Qed.
Print Assumptions C07_depth.

Theorem C07_content : forall kids data, forallb wf_schema kids = true -> shaped (SCont root_meta kids) (DCont data) = true ->
  forall c,
  read_content (Some (mkParams 64 None None None 10000 (Some c) false)) kids data
  = bounded 10000 (project (inter (view_depth 64) (view_content c)) kids (full_read kids data)).
Proof. exact read_content_param. Qed.
Print Assumptions C07_content.

Theorem C07_fields : forall kids data, forallb wf_schema kids = true -> shaped (SCont root_meta kids) (DCont data) = true ->
  forall ps,
  read_content (Some (mkParams 64 None (Some ps) None 10000 None false)) kids data
  = bounded 10000 (project (inter (view_depth 64) (view_fields ps)) kids (full_read kids data)).
Proof. exact read_fields. Qed.
Print Assumptions C07_fields.

Theorem C07_xfields : forall kids data, forallb wf_schema kids = true -> shaped (SCont root_meta kids) (DCont data) = true ->
  forall ps,
  read_content (Some (mkParams 64 None None (Some ps) 10000 None false)) kids data
  = bounded 10000 (project (inter (view_depth 64) (view_xfields ps)) kids (full_read kids data)).
Proof. exact read_xfields. Qed.
Print Assumptions C07_xfields.

Theorem C07_with_defaults_trim : forall kids data, forallb wf_schema kids = true -> shaped (SCont root_meta kids) (DCont data) = true ->
  read_content (Some (mkParams 64 None None None 10000 None true)) kids data
  = bounded 10000 (project (inter (view_depth 64) view_trim) kids (full_read kids data)).
Proof. exact read_trim. Qed.
Print Assumptions C07_with_defaults_trim.

Theorem C07_range : forall kids data, forallb wf_schema kids = true -> shaped (SCont root_meta kids) (DCont data) = true ->
  forall ps st en,
  read_content (Some (mkParams 64 (Some (ps, st, en)) None None 10000 None false)) kids data
  = bounded 10000 (project (inter (view_depth 64) (view_range ps st en)) kids (full_read kids data)).
Proof. exact read_range. Qed.
Print Assumptions C07_range.

Theorem C07_max_node_count : forall kids data, forallb wf_schema kids = true -> shaped (SCont root_meta kids) (DCont data) = true ->
  forall n, 0 <= n ->
  read_content (Some (mkParams 64 None None None n None false)) kids data
  = bounded n (project (view_depth 64) kids (full_read kids data)).
Proof. exact read_max_node. Qed.
Print Assumptions C07_max_node_count.

(** combining parameters gives the intersection: projecting by an intersection of views is
    projecting by one after the other, and the view of a parameter record is the intersection of
    the views of its parameters *)
Theorem C07_project_compose : forall V W, rows_natural V ->
  forall s fp d, project_view (inter V W) fp s d = project_view V fp s (project_view W fp s d).
Proof. exact project_compose. Qed.
Print Assumptions C07_project_compose.

Theorem C07_params_compose : forall p s fp d,
  project_view (params_view p) fp s d =
  project_view (view_depth (p_depth p)) fp s
 (project_view (opt_view (p_range p) (fun r => let '(ps, st, en) := r in view_range ps st en)) fp s
 (project_view (opt_view (p_fields p) view_fields) fp s
 (project_view (opt_view (p_xfields p) view_xfields) fp s
 (project_view (opt_view (p_content p) view_content) fp s
 (project_view (if p_trim p then view_trim else view_all) fp s d))))).
Proof. exact params_view_is_composition. Qed.
Print Assumptions C07_params_compose.

(** no parameters: the projection by the view that keeps everything is the identity *)
Theorem C07_no_filter_is_identity : forall s d fp new, shaped s d = true ->
  project_view view_all fp s (fill new s d) = fill new s d.
Proof. exact project_all_id. Qed.
Print Assumptions C07_no_filter_is_identity.

(** the data is not modified: in the model the store is an argument of a function, so this is
    determinism of the read (two reads of the same store agree); that the real store is left
    unchanged is observed by the harness on every case ([unchanged] in C07Check.classify). *)
Theorem C07_read_pure : forall P kids data r1 r2,
  read_content P kids data = r1 -> read_content P kids data = r2 -> r1 = r2.
Proof. intros P kids data r1 r2 H1 H2. exact (eq_trans (eq_sym H1) H2). Qed.
Print Assumptions C07_read_pure.

(** an invalid value of depth, fc.max-node-count, content, with-defaults or fc.range is an error,
    whatever else the query holds *)
Theorem C07_bad_param_is_error : forall q kids data v,
  (lookup (B "depth") q = Some v /\ bad_depth v) \/
  (lookup (B "fc.max-node-count") q = Some v /\ bad_max_node v) \/
  (lookup (B "content") q = Some v /\ bad_content v) \/
  (lookup (B "with-defaults") q = Some v /\ bad_with_defaults v) \/
  (lookup (B "fc.range") q = Some v /\ bad_range v) ->
  is_err (read_query kids data q).
Proof. exact bad_param_is_error. Qed.
Print Assumptions C07_bad_param_is_error.

(** ... and so is a path expression with unbalanced parentheses, in fields, fc.xfields or as the
    selector of fc.range; the parser accepts exactly the balanced expressions *)
Theorem C07_bad_path_expr_is_error : forall q kids data v,
  (lookup (B "fields") q = Some v /\ balanced v 0 = false) \/
  (lookup (B "fc.xfields") q = Some v /\ balanced v 0 = false) \/
  (lookup (B "fc.range") q = Some v /\
   exists sel rows, cut_at x21 v [] = Some (sel, rows) /\ balanced sel 0 = false) ->
  is_err (read_query kids data q).
Proof. exact bad_path_expr_is_error. Qed.
Print Assumptions C07_bad_path_expr_is_error.

Theorem C07_parse_ok_iff_balanced : forall s, (exists ps, parse_path_expr s = POk ps) <-> balanced s 0 = true.
Proof. exact parse_ok_iff_balanced. Qed.
Print Assumptions C07_parse_ok_iff_balanced.

(** the declarative reading of a query (Tree/Reading.v: each value a member of its grammar, path
    expressions through the denotation of their expression tree) and BuildConstraints agree; so
    on every case of the domain the model does what the check's spec oracle demands (the verdict
    ModelViolatesSpec cannot arise from the model) *)
Theorem C07_interpret_agrees : forall q asts,
  match interpret q asts with
  | TOk P => build_constraints q = POk P
  | TBad => is_err (build_constraints q)
  | TUnk => True
  end.
Proof. exact interpret_agrees. Qed.
Print Assumptions C07_interpret_agrees.

Theorem C07_model_meets_spec : forall kids data q asts,
  forallb wf_schema kids = true -> shaped (SCont root_meta kids) (DCont data) = true ->
  match interpret q asts with
  | TOk P => read_query kids data q = spec_read P kids data
  | TBad => is_err (read_query kids data q)
  | TUnk => True
  end.
Proof. exact model_meets_spec. Qed.
Print Assumptions C07_model_meets_spec.

(** the field-path match (repaired) never panics and decides the prefix order; the three
    predicates built on it are the declarative ones the views use *)
Theorem C07_match_never_panics : forall segs rp, segs <> [] -> match_seg segs rp <> None.
Proof. exact match_seg_never_panics. Qed.
Print Assumptions C07_match_never_panics.

Theorem C07_path_matches : forall ps rp, path_matches ps rp = Some (selects ps (rev rp)).
Proof. exact path_matches_spec. Qed.
Print Assumptions C07_path_matches.

Theorem C07_path_leads_to : forall ps rp, path_leads_to ps rp = Some (leads ps (rev rp)).
Proof. exact path_leads_to_spec. Qed.
Print Assumptions C07_path_leads_to.

Theorem C07_path_matches_exactly : forall ps rp, path_matches_exactly ps rp = Some (selects_exactly ps (rev rp)).
Proof. exact path_matches_exactly_spec. Qed.
Print Assumptions C07_path_matches_exactly.

(** the parser's fuel is never exhausted and its only error is BadRequest *)
Theorem C07_parse_total : forall s, parse_path_expr s = PErr PBadRequest \/ exists ps, parse_path_expr s = POk ps.
Proof. exact parse_never_out_of_fuel. Qed.
Print Assumptions C07_parse_total.

(** every field-path expression: for every expression tree over delimiter-free, non-empty names,
    parsing its printed form yields its denotation (sequences = concatenation of the alternatives'
    paths, alternatives = union, groups in any position) *)
Theorem C07_parse_print_denote : forall e, wf_expr e -> parse_path_expr (print_top e) = POk (denote e).
Proof. exact parse_print_denote. Qed.
Print Assumptions C07_parse_print_denote.

(** before the repair: fields=a/b panicked on the candidate a *)
Example C07_match_old_refuted :
  path_matches_old [[ [x61]; [x62] ]] [ [x61] ] = None
  /\ path_matches [[ [x61]; [x62] ]] [ [x61] ] = Some false
  /\ path_leads_to [[ [x61]; [x62] ]] [ [x61] ] = Some true.
Proof. exact match_old_refuted. Qed.
Print Assumptions C07_match_old_refuted.

(** before the repair: a group at the start of an expression emptied it ((a;b)/x selected [x]) *)
Example C07_expand_old_refuted :
  expand_paths_old [] [[ [x61] ]; [ [x62] ]] = [] /\ expand_paths [] [[ [x61] ]; [ [x62] ]] = [[ [x61] ]; [ [x62] ]].
Proof. split; reflexivity. Qed.
Print Assumptions C07_expand_old_refuted.

(** the hypotheses are satisfiable and the statements are not vacuous: container a { leaf x;
    container b { leaf y } } with a/x = "1", a/b/y = "2", query fields=a/(b;zz)/y&depth=3 *)
Definition ex_kids : list snode :=
  [SCont (mkMeta [x61] [x6d] true [] None)
     [SLeaf (mkMeta [x78] [x6d] true [] None) TStr false None;
      SCont (mkMeta [x62] [x6d] true [] None) [SLeaf (mkMeta [x79] [x6d] true [] None) TStr false None]]].
Definition ex_data : content :=
  [Some (DCont [Some (DLeaf (LV (VStr [x31]))); Some (DCont [Some (DLeaf (LV (VStr [x32])))])])].
Example C07_example :
  forallb wf_schema ex_kids = true /\ shaped (SCont root_meta ex_kids) (DCont ex_data) = true /\
  read_query ex_kids ex_data [(B "fields", B "a/(b;zz)/y"); (B "depth", B "3")]
  = POk [Some (DCont [None; Some (DCont [Some (DLeaf (LV (VStr [x32])))])])] /\
  read_query ex_kids ex_data [(B "fc.max-node-count", B "1")] = PErr PConflict /\
  read_query ex_kids ex_data [(B "depth", B "zero")] = PErr PBadRequest.
Proof. repeat split; vm_compute; reflexivity. Qed.
Print Assumptions C07_example.

(** ** the bridge to the shared export model (C07Check.classify's [bridge], as a theorem)

    The reader without constraints (no constraint object: the empty query) and the shared Editor
    export into an empty target return the same content, the full read - for every schema whose
    list rows are containers, without choices, and every well-formed tree (ExportProofs.wfd:
    shaped like the schema, list keys unique); with upsert or insert.
    Named _partial because the statement without key uniqueness is false (below). *)
Theorem C07_unconstrained_read_is_export_partial : forall kids data st,
  st <> Update ->
  forallb wf_schema kids = true -> cfree (SCont root_meta kids) = true ->
  wfd (SCont root_meta kids) (DCont data) = true ->
  read_content None kids data = POk (full_read kids data) /\
  edit_content false kids data (empty_content kids) st = Ok (full_read kids data).
Proof. exact unconstrained_read_is_export. Qed.
Print Assumptions C07_unconstrained_read_is_export_partial.

(** ... in the words of the check: both return the same content (domain as C07Check's [dom],
    plus unique keys) *)
Theorem C07_unconstrained_read_same_result : forall kids data,
  forallb wf_schema kids = true -> forallb choice_free kids = true ->
  wfd (SCont root_meta kids) (DCont data) = true ->
  same_result (read_content None kids data) (edit_content false kids data (empty_content kids) Upsert).
Proof. exact unconstrained_read_same_result. Qed.
Print Assumptions C07_unconstrained_read_same_result.

(** the export tree of C04 ([Export.visit]) and the full read of C07 ([Project.fill]) are one tree *)
Theorem C07_export_is_fill : forall s, cfree s = true -> forall d new, shaped s d = true ->
  Export.visit new s d = fill new s d.
Proof. exact visit_is_fill. Qed.
Print Assumptions C07_export_is_fill.

(** with shaped data only (no key uniqueness) the statement is false: two entries with one key
    are both delivered by the reader (it appends) and merged by the editor (it looks the key up) *)
Definition C07_unconstrained_read_is_export_full_statement : Prop :=
  forall kids data,
    forallb wf_schema kids = true -> forallb choice_free kids = true ->
    shaped (SCont root_meta kids) (DCont data) = true ->
    same_result (read_content None kids data) (edit_content false kids data (empty_content kids) Upsert).
Theorem C07_unconstrained_read_is_export_full_refuted : ~ C07_unconstrained_read_is_export_full_statement.
Proof. exact unconstrained_read_is_export_full_refuted. Qed.
Print Assumptions C07_unconstrained_read_is_export_full_refuted.

(** the hypotheses of the bridge are satisfiable (a keyed list with two entries, a container with
    defaults below it) *)
Example C07_bridge_example :
  forallb wf_schema ok_kids = true /\ forallb choice_free ok_kids = true /\
  cfree (SCont root_meta ok_kids) = true /\
  wfd (SCont root_meta ok_kids) (DCont ok_data) = true /\
  read_content None ok_kids ok_data =
    POk [Some (DList [DCont [Some (DLeaf (LV (VStr [x31]))); Some (DLeaf (LV (VStr [x61])))];
                      DCont [Some (DLeaf (LV (VStr [x32]))); None]]);
         Some (DCont [Some (DLeaf (LV (VStr [x64]))); Some (DCont [Some (DLeaf (LV (VStr [x65])))])])].
Proof. exact bridge_hypotheses_satisfiable. Qed.
Print Assumptions C07_bridge_example.

(** ** a LIST as the read target (Tree/ParamsList.v: [read_list] = the reader entered at the list
    node - the list-pre hook, then every visited entry with the same hooks and counter)

    The read is the projection of the full read of the entries, or Conflict. *)
Theorem C07_read_list_is_projection : forall P m keys row rows,
  valid P -> wf_schema (SList m keys row) = true -> forallb (shaped row) rows = true ->
  read_list P m keys row rows = spec_read_list P row rows.
Proof. exact read_list_is_projection. Qed.
Print Assumptions C07_read_list_is_projection.

(** depth=n on a list: every entry, cut n levels below the list (the entries are at the list's own
    level, their children one level below) *)
Theorem C07_read_list_depth : forall m keys row rows n,
  wf_schema (SList m keys row) = true -> forallb (shaped row) rows = true -> 1 <= n ->
  read_list (Some (mkParams n None None None 10000 None false)) m keys row rows
  = bounded_rows 10000 (map (project_view (view_depth n) [] row) (full_rows row rows)).
Proof. exact read_list_depth. Qed.
Print Assumptions C07_read_list_depth.

(** "nodes at most N levels below the target", in words: whatever the other parameters, the
    result of a read with depth = N has at most N levels ([levels]) - list target and
    container target - and depth = N alone drops nothing of a tree with at most N levels *)
Theorem C07_read_list_depth_bound : forall p m keys row rows r,
  valid_params p -> wf_schema (SList m keys row) = true -> forallb (shaped row) rows = true ->
  read_list (Some p) m keys row rows = POk r -> levels (DList r) <= p_depth p.
Proof. exact read_list_depth_bound. Qed.
Print Assumptions C07_read_list_depth_bound.

Theorem C07_read_content_depth_bound : forall p kids data c,
  valid_params p -> forallb wf_schema kids = true -> shaped (SCont root_meta kids) (DCont data) = true ->
  read_content (Some p) kids data = POk c -> levels (DCont c) <= p_depth p.
Proof. exact read_content_depth_bound. Qed.
Print Assumptions C07_read_content_depth_bound.

Theorem C07_depth_keeps : forall n s d fp, shaped s d = true ->
  levels d <= n - lenZ fp -> project_view (view_depth n) fp s d = d.
Proof. exact project_depth_keeps. Qed.
Print Assumptions C07_depth_keeps.

(** satisfiable and not vacuous: list l { key k; container b { leaf y (default "e"); container c
    { leaf z } } } with three entries, read with depth 1, 2, 3, a range on the target, a bound *)
Example C07_read_list_example :
  wf_schema (SList (mk [x6c]) [0%nat] ex_row) = true /\ forallb (shaped ex_row) ex_rows = true /\
  read_list (depth_only 1) (mk [x6c]) [0%nat] ex_row ex_rows =
    POk [DCont [sv [x31]; Some (DCont [None; None])]; DCont [sv [x32]; None]; DCont [sv [x33]; Some (DCont [None; None])]] /\
  read_list (depth_only 2) (mk [x6c]) [0%nat] ex_row ex_rows =
    POk [DCont [sv [x31]; Some (DCont [sv [x65]; Some (DCont [None])])]; DCont [sv [x32]; None];
         DCont [sv [x33]; Some (DCont [sv [x38]; None])]] /\
  read_list (depth_only 3) (mk [x6c]) [0%nat] ex_row ex_rows = read_list None (mk [x6c]) [0%nat] ex_row ex_rows /\
  read_list (Some (mkParams 64 (Some ([[]], 1, 2)) None None 0 None false)) (mk [x6c]) [0%nat] ex_row ex_rows =
    POk [DCont [sv [x32]; None]] /\
  read_list (Some (mkParams 64 None None None 2 None false)) (mk [x6c]) [0%nat] ex_row ex_rows = PErr PConflict.
Proof. exact read_list_example. Qed.
Print Assumptions C07_read_list_example.

(** ** laws of the projection (Tree/ProjectLaws.v) *)
(** projecting twice by one view is projecting once - for views whose row selection commutes with
    mapping the rows and is idempotent: every parameter record without fc.range or with a range
    starting at row 0.  Named _partial: for every view the statement is false (below). *)
Theorem C07_project_idempotent_partial : forall V, rows_natural V -> rows_idem V ->
  forall s fp d, project_view V fp s (project_view V fp s d) = project_view V fp s d.
Proof. exact project_idempotent. Qed.
Print Assumptions C07_project_idempotent_partial.

Theorem C07_params_project_idempotent : forall p, range_from_start p ->
  forall s fp d, project_view (params_view p) fp s (project_view (params_view p) fp s d)
                 = project_view (params_view p) fp s d.
Proof. exact params_project_idempotent. Qed.
Print Assumptions C07_params_project_idempotent.

Theorem C07_depth_project_idempotent : forall n s fp d,
  project_view (view_depth n) fp s (project_view (view_depth n) fp s d) = project_view (view_depth n) fp s d.
Proof. exact depth_project_idempotent. Qed.
Print Assumptions C07_depth_project_idempotent.

(** fc.range=!1- twice: rows 1- of rows 1- are rows 2- *)
Definition C07_project_idempotent_full_statement : Prop :=
  forall V, rows_natural V ->
  forall s fp d, project_view V fp s (project_view V fp s d) = project_view V fp s d.
Theorem C07_project_idempotent_full_refuted : ~ C07_project_idempotent_full_statement.
Proof. exact project_idempotent_full_refuted. Qed.
Print Assumptions C07_project_idempotent_full_refuted.

(** a view that keeps at most what another keeps (same rows) yields a sub-tree: every node the
    smaller keeps, the larger keeps ([sub_d]) *)
Theorem C07_project_monotone : forall W V, view_le W V ->
  forall s fp d, sub_d (project_view W fp s d) (project_view V fp s d).
Proof. exact project_monotone. Qed.
Print Assumptions C07_project_monotone.

Theorem C07_project_depth_monotone : forall n n', n <= n' ->
  forall s fp d, sub_d (project_view (view_depth n) fp s d) (project_view (view_depth n') fp s d).
Proof. exact project_depth_monotone. Qed.
Print Assumptions C07_project_depth_monotone.

Theorem C07_params_depth_monotone : forall p n', p_depth p <= n' ->
  forall s fp d,
    sub_d (project_view (params_view p) fp s d)
          (project_view (params_view (mkParams n' (p_range p) (p_fields p) (p_xfields p) (p_max_node p) (p_content p) (p_trim p))) fp s d).
Proof. exact params_depth_monotone. Qed.
Print Assumptions C07_params_depth_monotone.

(** adding a parameter that selects no rows only removes nodes *)
Theorem C07_project_inter_monotone : forall V W, (forall fp rows, vw_rows W fp rows = rows) ->
  forall s fp d, sub_d (project_view (inter V W) fp s d) (project_view V fp s d).
Proof. exact project_inter_monotone. Qed.
Print Assumptions C07_project_inter_monotone.

(** projecting by the smaller view after the larger is projecting by the smaller *)
Theorem C07_project_absorb : forall W V, rows_natural W -> rows_idem W -> view_le W V ->
  forall s fp d, project_view W fp s (project_view V fp s d) = project_view W fp s d.
Proof. exact project_absorb. Qed.
Print Assumptions C07_project_absorb.

Example C07_project_laws_example :
  rows_natural (view_depth 2) /\ rows_idem (view_depth 2) /\ view_le (view_depth 2) (view_depth 3) /\
  range_from_start (mkParams 2 (Some ([[]], 0, 5)) None None 10000 None true) /\
  project_view (view_depth 2) [] law_schema law_data
    = DCont [Some (DCont [Some (DLeaf (LV (VStr [x31]))); Some (DCont [None])])] /\
  project_view (view_depth 3) [] law_schema law_data = law_data /\
  project_view (view_depth 1) [] law_schema law_data = DCont [Some (DCont [None; None])] /\
  sub_d (project_view (view_depth 2) [] law_schema law_data) (project_view (view_depth 3) [] law_schema law_data) /\
  ~ sub_d (project_view (view_depth 3) [] law_schema law_data) (project_view (view_depth 2) [] law_schema law_data).
Proof. exact project_laws_example. Qed.
Print Assumptions C07_project_laws_example.

(** * parameters given in SEVERAL STEPS, a LIST as the target of the read
    (Tree/Chain.v: one group of constraint entries per step, every hook of every group consulted;
    Tree/ProjectChain.v: a node is kept when every step keeps it, a row when its index lies in
    every window given for its list, every container bound holds).

    The read after the steps' parameter records Ps is the projection by the INTERSECTION of their
    views, or Conflict when it holds more containers than one of the bounds - for records as
    BuildConstraints produces them ([C07_build_chain_valid]) with at most one step carrying fc.range. *)
Theorem C07_chain_is_projection : forall Ps kids data,
  chain_valid Ps -> forallb wf_schema kids = true -> shaped (SCont root_meta kids) (DCont data) = true ->
  read_chain_content Ps kids data = spec_chain Ps kids data.
Proof. exact read_chain_is_projection. Qed.
Print Assumptions C07_chain_is_projection.

(** ... and so is the read of a list selection (the entries of the list, levels counted from the list) *)
Theorem C07_list_target_is_projection : forall Ps m keys row rows,
  chain_valid Ps -> wf_schema (SList m keys row) = true -> shaped (SList m keys row) (DList rows) = true ->
  read_chain_rows Ps (SList m keys row) rows = spec_chain_rows Ps (SList m keys row) rows.
Proof. exact read_chain_rows_is_projection. Qed.
Print Assumptions C07_list_target_is_projection.

Theorem C07_build_chain_valid : forall steps Ps, build_chain steps = POk Ps ->
  Forall valid_params Ps /\ Forall range_start_ok Ps.
Proof. exact build_chain_valid. Qed.
Print Assumptions C07_build_chain_valid.

(** the declarative reading of the steps (spec oracle of the check) and BuildConstraints agree *)
Theorem C07_interpret_chain_agrees : forall steps asts,
  match interpret_chain steps asts with
  | TOk Ps => build_chain steps = POk Ps
  | TBad => is_err (build_chain steps)
  | TUnk => True
  end.
Proof. exact interpret_chain_agrees. Qed.
Print Assumptions C07_interpret_chain_agrees.

(** full statement: for EVERY chain the model does what the oracle demands.  It does not hold of
    the faithful model (known finding 1: two windows given in separate steps do not intersect);
    it holds outside that region, where an invalid value in any step is an error *)
Definition C07_chain_full_statement : Prop := chain_full_statement.

Theorem C07_chain_partial : forall kids data steps asts,
  forallb wf_schema kids = true -> shaped (SCont root_meta kids) (DCont data) = true ->
  match interpret_chain steps asts with
  | TOk Ps => (range_steps Ps <= 1)%nat -> read_steps_content kids data steps = spec_chain Ps kids data
  | TBad => is_err (read_steps_content kids data steps)
  | TUnk => True
  end.
Proof. exact chain_model_meets_spec. Qed.
Print Assumptions C07_chain_partial.

Theorem C07_chain_list_target_partial : forall m keys row rows steps asts,
  wf_schema (SList m keys row) = true -> shaped (SList m keys row) (DList rows) = true ->
  match interpret_chain steps asts with
  | TOk Ps => (range_steps Ps <= 1)%nat ->
              read_steps_rows (SList m keys row) rows steps = spec_chain_rows Ps (SList m keys row) rows
  | TBad => is_err (read_steps_rows (SList m keys row) rows steps)
  | TUnk => True
  end.
Proof. exact chain_model_meets_spec_rows. Qed.
Print Assumptions C07_chain_list_target_partial.

Theorem C07_chain_full_statement_refuted : ~ C07_chain_full_statement.
Proof. exact chain_full_statement_refuted. Qed.
Print Assumptions C07_chain_full_statement_refuted.

(** list q of three rows, fc.range=q!1-3 in one step and fc.range=q!0-2 in the next: rows 0 and 1
    are returned, the windows have only row 1 in common *)
Example C07_chain_two_windows_refuted :
  forallb wf_schema tw_kids = true /\ shaped (SCont root_meta tw_kids) (DCont tw_data) = true /\
  read_steps_content tw_kids tw_data [[(B "fc.range", B "q!1-3")]; [(B "fc.range", B "q!0-2")]]
    = POk [Some (DList [tw_row x61; tw_row x62])] /\
  (exists Ps, build_chain [[(B "fc.range", B "q!1-3")]; [(B "fc.range", B "q!0-2")]] = POk Ps /\
              spec_chain Ps tw_kids tw_data = POk [Some (DList [tw_row x62])]).
Proof. exact chain_two_windows_refuted. Qed.
Print Assumptions C07_chain_two_windows_refuted.

(** a chain of one step is the single-step read *)
Theorem C07_chain_of_one : forall q P kids data,
  build_constraints q = POk P ->
  forallb wf_schema kids = true -> shaped (SCont root_meta kids) (DCont data) = true ->
  read_steps_content kids data [q] = read_query kids data q.
Proof. exact chain_of_one_is_read_query. Qed.
Print Assumptions C07_chain_of_one.

(** the hypotheses are satisfiable: depth=1 first and content=config later keeps the depth; a tight
    fc.max-node-count survives a later step; an invalid value in a later step is an error; a list
    target with depth=1 and a window naming the list itself *)
Example C07_chain_example :
  forallb wf_schema ce_kids = true /\ shaped (SCont root_meta ce_kids) (DCont ce_data) = true /\
  read_steps_content ce_kids ce_data [[(B "depth", B "1")]; [(B "content", B "config")]]
    = POk [Some (DCont [None; None])] /\
  read_steps_content ce_kids ce_data [[(B "fc.max-node-count", B "1")]; [(B "depth", B "8")]] = PErr PConflict /\
  read_steps_content ce_kids ce_data [[(B "depth", B "2")]; [(B "depth", B "zero")]] = PErr PBadRequest /\
  wf_schema ce_list = true /\ shaped ce_list (DList [ce_row x61; ce_row x62]) = true /\
  read_steps_rows ce_list [ce_row x61; ce_row x62] [[(B "depth", B "1")]; [(B "fc.range", B "!1-2")]]
    = POk [DCont [Some (DLeaf (LV (VStr [x62]))); Some (DCont [None])]].
Proof. exact chain_example. Qed.
Print Assumptions C07_chain_example.

(** * improver k07: expandPaths at the level of Go slices (Tree/PathMem.v, Tree/PathMemProofs.v)

    A path is a slice = (backing array, length); append writes into the spare capacity of the
    backing array when there is room.  For EVERY growth policy of append, every heap, every list
    of paths (whatever their lengths and capacities: a group behind a prefix of any length) and
    every group: the repaired expandPaths reads out as the list-level expansion the other C07
    theorems are stated over (so every alternative is there behind every path), no slice that
    existed before reads differently afterwards, and the new paths are live. *)
Theorem C07_expand_paths_slices : forall grow h ps sub h' out,
  Forall (live h) ps -> Forall (live h) sub -> expand_paths_mem grow h ps sub = (h', out) ->
  map (rd h') out = expand_paths (map (rd h) ps) (map (rd h) sub)
  /\ (forall s, live h s -> rd h' s = rd h s)
  /\ Forall (live h') out.
Proof. exact expand_paths_mem_spec. Qed.
Print Assumptions C07_expand_paths_slices.

Theorem C07_expand_keeps_every_alternative : forall grow h ps sub h' out p s,
  Forall (live h) ps -> Forall (live h) sub -> expand_paths_mem grow h ps sub = (h', out) ->
  In p ps -> In s sub -> In (rd h p ++ rd h s) (map (rd h') out).
Proof. exact expand_paths_mem_keeps_every_alternative. Qed.
Print Assumptions C07_expand_keeps_every_alternative.

(** the same statement for `append(dest, src...)` (before e401f2d; seeded change RC07-A) *)
Definition C07_expand_old_slices_full_statement : Prop := expand_old_full_statement.
Theorem C07_expand_old_slices_refuted : ~ C07_expand_old_slices_full_statement.
Proof. exact expand_old_full_refuted. Qed.
Print Assumptions C07_expand_old_slices_refuted.

(** a/b/c/(d;e): the slice-level parser with the old entry loses d; the repaired one and the
    list-level parser agree (the hypotheses of C07_expand_paths_slices hold on the way) *)
Example C07_expand_slices_example :
  parse_mem_old abc_de = POk [[ia; ib; ic; ie]; [ia; ib; ic; ie]]
  /\ parse_mem abc_de = POk [[ia; ib; ic; id_]; [ia; ib; ic; ie]]
  /\ parse_path_expr abc_de = POk [[ia; ib; ic; id_]; [ia; ib; ic; ie]].
Proof. exact expand_old_mem_refuted. Qed.
Print Assumptions C07_expand_slices_example.
