(** C01 — Compiled schema equals the RFC 7950 expansion of uses/augment/refine/include.
    Theorems over the executable model Schemac/Expand.v of meta/resolver.go + meta/compile.go,
    for ALL source ASTs, contexts and fuel values (the out-of-fuel outcome is excluded because every
    hypothesis/conclusion speaks about [Ok] results).  The model is tied to the code by the
    correspondence check (Check/C01Check.v, harness/props/c01*.go). *)
From Coq Require Import List Bool ZArith Arith Strings.Byte.
From YV Require Import Schemac.Ast Schemac.Expand Schemac.Refactor Schemac.Proofs Schemac.Scoping.
Import ListNotations.

(** ** uses_inline: a uses may be replaced by its expansion written out as plain statements
    ([embed]) without changing what the enclosing statement list expands to — for every grouping,
    lexical context, when/refine/augment list, earlier siblings [acc] and later siblings [rest].
    Side conditions: the uses only adds members ([acc ++ X]: its refines/augments do not reach
    earlier siblings), the expansion is well formed (sibling names unique, choice members are
    cases — [ewf_list]; the check asserts it of every model output), and the fuel covers its depth. *)
Theorem uses_inline : forall f cx acc pfx g w refs augs rest X,
  expand (S f) cx acc [SUses pfx g w refs augs] = Ok (acc ++ X) ->
  ewf_list false (names acc) X = true -> ldepth X <= f ->
  expand (S f) cx acc (SUses pfx g w refs augs :: rest) =
  expand (S f) cx acc (map embed X ++ rest).
Proof. exact uses_inline_proof. Qed.
Print Assumptions uses_inline.

(** expansion is the identity on text that is already expanded (no uses left) *)
Theorem expand_plain_identity : forall f cx X acc allcase,
  ewf_list allcase (names acc) X = true -> ldepth X <= f ->
  expand (S f) cx acc (map embed X) = Ok (acc ++ X).
Proof. exact expand_embed. Qed.
Print Assumptions expand_plain_identity.

(** statement lists expand left to right, each statement seeing what the earlier ones produced *)
Theorem expand_sequential : forall f cx l1 acc l2,
  expand (S f) cx acc (l1 ++ l2) =
  bind (expand (S f) cx acc l1) (fun acc' => expand (S f) cx acc' l2).
Proof. exact expand_app. Qed.
Print Assumptions expand_sequential.

(** ** config_inherit: in the compiled tree the config of EVERY data node (addressed by any path) is
    its own statement if it has one, else that of the nearest ancestor that states it, else true.
    An rpc/action, its input/output and a notification carry no config and cut the inheritance
    ([nearest_stated]): a node below them takes its own statement, else that of the nearest ancestor
    INSIDE the operation, else true — whatever the nodes around the operation state *)
Theorem config_inherit : forall path pcfg l l' c,
  config_kids pcfg l = Some l' ->
  nearest_stated pcfg path l = Some c ->
  match node_at path l' with Some e' => p_config (e_props e') = Some c | None => False end.
Proof. exact config_inherit_proof. Qed.
Print Assumptions config_inherit.

(** ** copies_independent: whatever stands before a node ([s1] vs [s1'], e.g. a container using the
    same grouping with other when/refines/augments), the sub-tree built for the node is the same *)
Theorem copies_independent : forall f cx acc s1 s1' k n p keys grps kids out out',
  expand (S f) cx acc [s1; SNode k n p keys grps kids] = Ok out ->
  expand (S f) cx acc [s1'; SNode k n p keys grps kids] = Ok out' ->
  exists pre pre' e, out = pre ++ [e] /\ out' = pre' ++ [e].
Proof. exact copies_independent_proof. Qed.
Print Assumptions copies_independent.

(** ** augment_order_textual: module augments are applied one after the other in textual order
    (main module, then each submodule), and each appends its resolved body at the END of the
    target's members (implied cases under a choice) *)
Theorem augment_order_textual : forall fuel cx a1 a2 t,
  apply_augments fuel cx (a1 ++ a2) t =
  bind (apply_augments fuel cx a1 t) (apply_augments fuel cx a2).
Proof. exact apply_augments_app. Qed.
Print Assumptions augment_order_textual.

Theorem augment_appends : forall path nodes t t' k n p ks kids,
  update_at path (graft nodes) t = Ok t' ->
  node_at path t = Some (ENode k n p ks kids) ->
  node_at path t' = Some (ENode k n p ks (kids ++ graft_nodes k nodes)).
Proof. exact augment_appends_proof. Qed.
Print Assumptions augment_appends.

(** ** scoped_uses_innermost: grouping names are lexically scoped. A [uses g] written directly in
    a scope [fr] that defines [g] expands to THAT definition's body, in that definition's lexical
    context — for all enclosing scopes [outer] (the module's top level included) and every module
    environment [me]: what other scopes of the module define under the same name is irrelevant.
    The check generates such module sets (one name, different groupings in disjoint scopes of one
    file) and also tests the renaming law on the implementation (rename-groupings-apart). *)
Theorem scoped_uses_innermost : forall f fr outer me g gg body acc,
  find_in_frame g fr = Some (gg, body) ->
  expand (S f) (mkCtx (fr :: outer) me) acc [SUses None g None [] []] =
  expand f (mkCtx (gg :: fr :: outer) me) acc body.
Proof. exact scoped_uses_innermost_proof. Qed.
Print Assumptions scoped_uses_innermost.

Theorem scoped_uses_own_prefix : forall f fr outer own top imps g gg body acc,
  find_in_frame g fr = Some (gg, body) ->
  expand (S f) (mkCtx (fr :: outer) (ME own top imps)) acc [SUses (Some own) g None [] []] =
  expand (S f) (mkCtx (fr :: outer) (ME own top imps)) acc [SUses None g None [] []].
Proof. exact scoped_uses_own_prefix_proof. Qed.
Print Assumptions scoped_uses_own_prefix.

(** module m { container a { grouping s { leaf x; } uses s; } container b { grouping s { leaf y; }
    uses s; } } compiles to a { x } b { y }, the same as with the second grouping renamed to t *)
Example same_name_sibling_scopes :
  compile_modset default_fuel (sc_ms [x73] [x73]) = Ok sc_tree /\
  compile_modset default_fuel (sc_ms [x73] [x74]) = Ok sc_tree.
Proof. exact same_name_sibling_scopes_proof. Qed.

(** ** hypotheses are satisfiable: module m { grouping g { leaf a; container b { leaf c; } }
       container x { uses g { refine b/c { config false; } } leaf z; } } *)
Definition pcf (c : option bool) : props := mkProps c None [] [] None [] None None [].
Definition ex_g : stmt :=
  SGrouping [x67] [] [SNode KLeaf [x61] no_props [] [] [];
                      SNode KCont [x62] no_props [] [] [SNode KLeaf [x63] no_props [] [] []]].
Definition ex_uses : stmt :=
  SUses None [x67] None [mkRefine [[x62]; [x63]] [] [] (Some false) None None None []] [].
Definition ex_cx : ctx := mkCtx [[ex_g]] (ME [x6d] [ex_g] []).
Definition ex_X : list enode :=
  [ENode KLeaf [x61] no_props [] [];
   ENode KCont [x62] no_props [] [ENode KLeaf [x63] (pcf (Some false)) [] []]].

Example uses_inline_applies :
  expand 5 ex_cx [] [ex_uses] = Ok ([] ++ ex_X) /\ ewf_list false (names []) ex_X = true /\
  ldepth ex_X <= 4 /\
  expand 5 ex_cx [] [ex_uses; SNode KLeaf [x7a] no_props [] [] []] =
  Ok (ex_X ++ [ENode KLeaf [x7a] no_props [] []]).
Proof. repeat split; try (vm_compute; reflexivity). vm_compute. auto with arith. Qed.

Example config_inherit_applies :
  exists l', config_kids true [ENode KCont [x78] (pcf (Some false)) [] ex_X] = Some l' /\
  nearest_stated true [[x78]; [x62]; [x63]] [ENode KCont [x78] (pcf (Some false)) [] ex_X] = Some false /\
  nearest_stated true [[x78]; [x61]] [ENode KCont [x78] (pcf (Some false)) [] ex_X] = Some false.
Proof. eexists. vm_compute. repeat split. Qed.

(** ** Known findings: the full statement "a condition on uses/augment is ADDED to the conditions of
    the nodes it brings in" is false of the model (which follows the code); witnesses below.
    The check classifies such inputs as Known 1 / Known 2 (regions [kf_uses_when], [kf_aug_when]). *)
Definition pw (w : option text) : props := mkProps None None [] [] w [] None None [].
Definition W : text := [x57].   (* condition on the uses / augment *)
Definition C : text := [x43].   (* the leaf's own condition *)

(** what the nodes brought in by [uses g { when W; }] should be conditioned on: W and their own *)
Definition when_on_uses_kept_statement : Prop :=
  forall f cx cx' acc pfx g own out n,
    find_grouping cx pfx g = Some ([SNode KLeaf n (pw (Some own)) [] [] []], cx') ->
    expand (S (S f)) cx acc [SUses pfx g (Some W) [] []] = Ok out ->
    exists e, In e out /\ e_name e = n /\ p_when (e_props e) <> Some W.

Definition kf1_g : stmt := SGrouping [x67] [] [SNode KLeaf [x61] (pw (Some C)) [] [] []].
Example when_on_uses_overwrites_refuted :
  expand 3 (mkCtx [[kf1_g]] (ME [x6d] [kf1_g] [])) [] [SUses None [x67] (Some W) [] []]
  = Ok [ENode KLeaf [x61] (pw (Some W)) [] []].       (* the leaf's own condition C is gone *)
Proof. reflexivity. Qed.

Theorem when_on_uses_kept_refuted : ~ when_on_uses_kept_statement.
Proof.
  intro H.
  destruct (H 1 (mkCtx [[kf1_g]] (ME [x6d] [kf1_g] [])) _ [] None [x67] C _ [x61] eq_refl eq_refl)
    as [e [Hin [_ Hw]]].
  simpl in Hin. destruct Hin as [<-|[]]. apply Hw. reflexivity.
Qed.
Print Assumptions when_on_uses_kept_refuted.

Example when_on_augment_dropped_refuted :
  expand_modset 4 (mkModset (mkModule [x6d] [x6d] []
       [SNode KCont [x78] no_props [] [] []]
       [SAugment [[x78]] (Some W) [SNode KLeaf [x61] no_props [] [] []]]) [] [])
  = Ok [ENode KCont [x78] no_props [] [ENode KLeaf [x61] no_props [] []]].  (* unconditional *)
Proof. reflexivity. Qed.

(** outside the two regions the model adds no condition handling of its own: a uses without
    [when] leaves every statement of the grouping as written *)
Theorem uses_without_when_keeps_conditions_partial : forall s, set_when None s = s.
Proof. reflexivity. Qed.
Print Assumptions uses_without_when_keeps_conditions_partial.

(** ** Every expand output satisfies [ewf_list] (round 2, Schemac/Ewf.v).
    No well-formedness of the SOURCE is needed: addDataDefinition's conflict check and the
    implied-case wrapping establish the invariant for every statement list, lexical context and
    fuel.  The only hypothesis is that the accumulator the call starts from is well formed
    ([[]] at every entry point) — and not even that for the members the call ADDS. *)
From YV Require Import Schemac.Ewf.

Theorem expand_ewf : forall fuel cx acc ss out,
  ewf_list false [] acc = true -> expand fuel cx acc ss = Ok out -> ewf_list false [] out = true.
Proof. exact expand_ewf_proof. Qed.
Print Assumptions expand_ewf.

Theorem expand_added_ewf : forall fuel cx acc ss X,
  expand fuel cx acc ss = Ok (acc ++ X) -> ewf_list false (names acc) X = true.
Proof. exact expand_added_ewf_proof. Qed.
Print Assumptions expand_added_ewf.

(** the general (relative) form: the first [n] members of the accumulator are not assumed well
    formed; under a choice ([a = true]) the statements are cases (what [wrap_case] delivers) *)
Theorem expand_ewf_relative : forall fuel cx ss acc n a out,
  (negb a || forallb is_case_stmt ss) = true ->
  ewf_from n a [] acc = true -> expand fuel cx acc ss = Ok out -> ewf_from n a [] out = true.
Proof. exact expand_rec_ewf. Qed.
Print Assumptions expand_ewf_relative.

Theorem expand_modset_ewf : forall fuel ms t,
  expand_modset fuel ms = Ok t -> ewf_list false [] t = true.
Proof. exact expand_modset_ewf_proof. Qed.
Print Assumptions expand_modset_ewf.

(** uses_inline restated without the well-formedness side condition *)
Theorem uses_inline_unconditional : forall f cx acc pfx g w refs augs rest X,
  expand (S f) cx acc [SUses pfx g w refs augs] = Ok (acc ++ X) ->
  ldepth X <= f ->
  expand (S f) cx acc (SUses pfx g w refs augs :: rest) =
  expand (S f) cx acc (map embed X ++ rest).
Proof. exact uses_inline_unconditional_proof. Qed.
Print Assumptions uses_inline_unconditional.

Example uses_inline_unconditional_applies :
  expand 5 ex_cx [] [ex_uses] = Ok ([] ++ ex_X) /\ ldepth ex_X <= 4 /\
  expand 5 ex_cx [] (map embed ex_X ++ [SNode KLeaf [x7a] no_props [] [] []]) =
  Ok (ex_X ++ [ENode KLeaf [x7a] no_props [] []]).
Proof. repeat split; try (vm_compute; reflexivity). vm_compute. auto with arith. Qed.

Example expand_ewf_applies :
  ewf_list false [] [ENode KLeaf [x7a] no_props [] []] = true /\
  expand 5 ex_cx [ENode KLeaf [x7a] no_props [] []] [ex_uses] =
  Ok ([ENode KLeaf [x7a] no_props [] []] ++ ex_X).
Proof. split; vm_compute; reflexivity. Qed.

(** ** Every compile output satisfies [ewf_list] too (config inheritance, the sort of [canon] and
    the accessor view [norm] keep the invariant) *)
From Coq Require Import Permutation.
From YV Require Import Schemac.CasePerm.

Theorem compile_modset_ewf : forall fuel ms t,
  compile_modset fuel ms = Ok t -> ewf_list false [] t = true.
Proof. exact compile_modset_ewf_proof. Qed.
Print Assumptions compile_modset_ewf.

(** ** compile_deterministic.  The Go code keeps the cases of a choice in a map; the model keeps
    textual order and sorts in [canon].  [msrel ms ms'] (Schemac/CasePerm.v): the two module sets
    are equal up to permuting the members of ANY of their choices (at any depth, in data
    definitions, groupings, augments, submodules and imported modules; [sperm] is the statement
    level relation, reflexive and symmetric).  A successful compilation does not depend on that
    order; the whole outcome is the same as soon as neither side runs out of fuel.

    The full statement (equal outcomes for every fuel) is false of the model for an artificial
    reason: with too little fuel the first failing case decides between [Err] and [OutOfFuel]
    ([compile_deterministic_full_refuted]). *)
Theorem compile_deterministic_partial : forall fuel ms ms' t, msrel ms ms' ->
  (compile_modset fuel ms = Ok t <-> compile_modset fuel ms' = Ok t).
Proof. exact compile_deterministic_iff_proof. Qed.
Print Assumptions compile_deterministic_partial.

Theorem compile_deterministic_fueled : forall fuel ms ms', msrel ms ms' ->
  compile_modset fuel ms <> OutOfFuel -> compile_modset fuel ms' <> OutOfFuel ->
  compile_modset fuel ms' = compile_modset fuel ms.
Proof. exact compile_deterministic_fueled_proof. Qed.
Print Assumptions compile_deterministic_fueled.

(** the relation contains what the task asks for: the cases of one choice permuted *)
Theorem sperm_permutes_cases : forall n p keys grps kids kids', Permutation kids kids' ->
  sperm (SNode KChoice n p keys grps kids) (SNode KChoice n p keys grps kids').
Proof. exact sperm_choice_perm. Qed.

Theorem sperm_reflexive : forall s, sperm s s.            Proof. exact sperm_refl. Qed.
Theorem sperm_symmetric : forall s s', sperm s s' -> sperm s' s.  Proof. exact sperm_sym. Qed.
Theorem msrel_symmetric : forall ms ms', msrel ms ms' -> msrel ms' ms.  Proof. exact msrel_sym. Qed.

(** the expansion stage alone: related sources in related contexts give trees equal up to the
    order of choice members ([lrel false] = pointwise [eperm]) *)
Theorem expand_case_order : forall f cx cx' ss ss' acc acc' out,
  crel cx cx' -> Forall2 sperm ss ss' -> Forall2 eperm acc acc' ->
  ewf_list false [] acc = true -> expand f cx acc ss = Ok out ->
  exists out', expand f cx' acc' ss' = Ok out' /\ Forall2 eperm out out'.
Proof.
  intros f cx cx' ss ss' acc acc' out Hc Hs Ha Hw H.
  destruct (expand_rel f cx cx' Hc ss ss' acc acc' false out Hs (proj2 (lrel_false _ _) Ha)
              eq_refl Hw H) as [out' [E R]].
  exists out'. split; auto. now apply lrel_false.
Qed.
Print Assumptions expand_case_order.

(** satisfiable, non-trivially: module m { grouping g { choice c { case y { leaf q; } leaf x; } }
      container t { uses g { refine c/y/q { config false; } } }  choice z { leaf b; leaf a; } }
    against the same text with the members of both choices swapped *)
Definition lf (n : text) : stmt := SNode KLeaf n no_props [] [] [].
Definition dcy : stmt := SNode KCase [x79] no_props [] [] [lf [x71]].
Definition dms (gk zk : list stmt) : modset :=
  mkModset (mkModule [x6d] [x6d]
    [SGrouping [x67] [] [SNode KChoice [x63] no_props [] [] gk]]
    [SNode KCont [x74] no_props [] []
       [SUses None [x67] None [mkRefine [[x63]; [x79]; [x71]] [] [] (Some false) None None None []] []];
     SNode KChoice [x7a] no_props [] [] zk] []) [] [].

Example compile_deterministic_applies :
  msrel (dms [dcy; lf [x78]] [lf [x62]; lf [x61]]) (dms [lf [x78]; dcy] [lf [x61]; lf [x62]]) /\
  (exists t, compile_modset 8 (dms [dcy; lf [x78]] [lf [x62]; lf [x61]]) = Ok t /\
             compile_modset 8 (dms [lf [x78]; dcy] [lf [x61]; lf [x62]]) = Ok t /\
             ewf_list false [] t = true).
Proof.
  split.
  - split; [|split; constructor]. unfold mrel, dms. cbn. repeat split.
    + constructor; [|constructor]. apply sp_grouping; [constructor|].
      constructor; [|constructor]. apply sperm_choice_perm. apply perm_swap.
    + constructor; [apply sperm_refl|]. constructor; [|constructor].
      apply sperm_choice_perm. apply perm_swap.
    + constructor.
  - eexists. split; [vm_compute; reflexivity|]. split; vm_compute; reflexivity.
Qed.

Definition compile_deterministic_full_statement : Prop :=
  forall fuel ms ms', msrel ms ms' -> compile_modset fuel ms' = compile_modset fuel ms.

(** choice z { case a { leaf x; leaf x; }  case b { container c { container d { leaf e; } } } }
    with fuel 4: the duplicate in [a] is an error, [b] is too deep — whichever comes first wins *)
Definition cd_dup : stmt := SNode KCase [x61] no_props [] [] [lf [x78]; lf [x78]].
Definition cd_deep : stmt :=
  SNode KCase [x62] no_props [] []
    [SNode KCont [x63] no_props [] [] [SNode KCont [x64] no_props [] [] [lf [x65]]]].
Definition cd_ms (kids : list stmt) : modset :=
  mkModset (mkModule [x6d] [x6d] [] [SNode KChoice [x7a] no_props [] [] kids] []) [] [].

Example compile_deterministic_fuel_counterexample :
  compile_modset 4 (cd_ms [cd_dup; cd_deep]) = Err /\
  compile_modset 4 (cd_ms [cd_deep; cd_dup]) = OutOfFuel /\
  compile_modset 6 (cd_ms [cd_dup; cd_deep]) = Err /\
  compile_modset 6 (cd_ms [cd_deep; cd_dup]) = Err.
Proof. repeat split; vm_compute; reflexivity. Qed.

Theorem compile_deterministic_full_refuted : ~ compile_deterministic_full_statement.
Proof.
  intro H. specialize (H 4 (cd_ms [cd_dup; cd_deep]) (cd_ms [cd_deep; cd_dup])).
  assert (R : msrel (cd_ms [cd_dup; cd_deep]) (cd_ms [cd_deep; cd_dup])).
  { split; [|split; constructor]. unfold mrel, cd_ms. cbn. repeat split; try constructor.
    - apply sperm_choice_perm. apply perm_swap.
    - constructor. }
  apply H in R. vm_compute in R. discriminate.
Qed.
Print Assumptions compile_deterministic_full_refuted.

(** ** grouping_extract (Schemac/Extract.v): a contiguous block [B] of sibling statements may be
    moved into a NEW grouping [g] of the same scope and replaced by [uses g] (no when / refine /
    augment) — the source-text inverse of uses_inline.  Side conditions (decidable, [clean]): no
    statement in scope — [B], the later siblings [rest], the groupings of the enclosing scopes —
    already uses a grouping called [g] (no capture).  The folded text needs one more unit of fuel
    (the uses is one level of nesting); a successful expansion is never changed by more fuel. *)
From YV Require Import Schemac.Extract.

Theorem expand_fuel_monotone : forall f f' cx acc ss out, f <= f' ->
  expand f cx acc ss = Ok out -> expand f' cx acc ss = Ok out.
Proof. exact expand_fuel_mono_le. Qed.
Print Assumptions expand_fuel_monotone.

Theorem grouping_extract : forall f fr outer m acc g B rest out,
  clean_scopes g (fr :: outer) -> clean g B = true -> clean g rest = true ->
  (expand (S f) (mkCtx ((SGrouping g [] B :: fr) :: outer) m) acc (SUses None g None [] [] :: rest)
     = Ok out ->
   expand (S f) (mkCtx (fr :: outer) m) acc (B ++ rest) = Ok out) /\
  (expand (S f) (mkCtx (fr :: outer) m) acc (B ++ rest) = Ok out ->
   expand (S (S f)) (mkCtx ((SGrouping g [] B :: fr) :: outer) m) acc
          (SUses None g None [] [] :: rest) = Ok out).
Proof. exact grouping_extract_proof. Qed.
Print Assumptions grouping_extract.

(** the two halves it is made of.  (a) In ONE context: a plain uses of a grouping that has no
    sub-groupings and is declared in the innermost non-empty scope ([ctx_eqv cg cx]) is the
    grouping's body written in place. *)
Theorem uses_unfold : forall f cx acc g body cg rest out,
  find_grouping cx None g = Some (body, cg) -> ctx_eqv cg cx ->
  expand (S f) cx acc (SUses None g None [] [] :: rest) = Ok out ->
  expand (S f) cx acc (body ++ rest) = Ok out.
Proof. exact uses_unfold_proof. Qed.
Print Assumptions uses_unfold.

Theorem uses_fold : forall f cx acc g body cg rest out,
  find_grouping cx None g = Some (body, cg) -> ctx_eqv cg cx ->
  expand (S f) cx acc (body ++ rest) = Ok out ->
  expand (S (S f)) cx acc (SUses None g None [] [] :: rest) = Ok out.
Proof. exact uses_fold_proof. Qed.
Print Assumptions uses_fold.

(** (b) a grouping nobody uses is invisible (every outcome, not only [Ok]) *)
Theorem unused_grouping_invisible : forall g gg gb f cx cx',
  ctx_ins g (SGrouping g gg gb) cx cx' ->
  forall ss acc, clean g ss = true -> expand f cx acc ss = expand f cx' acc ss.
Proof. exact expand_unused. Qed.
Print Assumptions unused_grouping_invisible.

(** satisfiable: scope { grouping h { leaf c; } }, block B = { leaf a; uses h; }, rest = { leaf z; },
    new grouping "g" *)
Definition ge_h : stmt := SGrouping [x68] [] [lf [x63]].
Definition ge_B : list stmt := [lf [x61]; SUses None [x68] None [] []].
Definition ge_rest : list stmt := [lf [x7a]].
Definition ge_m : modenv := ME [x6d] [ge_h] [].

Example grouping_extract_applies :
  clean_scopes [x67] [[ge_h]; []] /\ clean [x67] ge_B = true /\ clean [x67] ge_rest = true /\
  (exists out,
     expand 3 (mkCtx [[ge_h]; []] ge_m) [] (ge_B ++ ge_rest) = Ok out /\
     expand 4 (mkCtx [[SGrouping [x67] [] ge_B; ge_h]; []] ge_m) []
            (SUses None [x67] None [] [] :: ge_rest) = Ok out /\
     length out = 3).
Proof.
  split; [repeat constructor|]. split; [reflexivity|]. split; [reflexivity|].
  eexists. split; [vm_compute; reflexivity|]. split; vm_compute; reflexivity.
Qed.

(** ** submodule_merge, boundary case: the module's data definitions come first, then each
    submodule's in include order (copyOverIncludes appends) — so moving the LAST top-level
    definition of the module to the FRONT of the first included submodule (or back) changes
    nothing at all.  (Moving other definitions permutes the top-level order; not covered.) *)
Theorem submodule_merge_boundary : forall fuel n pfx grps b d augs sn spfx sgrps b1 saugs subs imps,
  compile_modset fuel
    (mkModset (mkModule n pfx grps (b ++ [d]) augs) (mkModule sn spfx sgrps b1 saugs :: subs) imps) =
  compile_modset fuel
    (mkModset (mkModule n pfx grps b augs) (mkModule sn spfx sgrps (d :: b1) saugs :: subs) imps).
Proof.
  intros. unfold compile_modset, expand_modset, top_ctx, modenv_of, top_frame, all_body, all_augs.
  cbn [ms_main ms_subs ms_imps m_body m_grps m_augs m_prefix flat_map].
  rewrite <- !app_assoc. reflexivity.
Qed.
Print Assumptions submodule_merge_boundary.

(** grouping_extract at module level, through the whole pipeline: a run [B] of top-level data
    definitions of the main module becomes [uses g] and [grouping g { B }] a new top-level grouping —
    [compile] is unchanged (one more unit of fuel for the folded text).  [clean]: no statement of
    the module's groupings (incl. submodules'), data definitions or augments uses a grouping
    called [g] already. *)
Theorem grouping_extract_compile : forall f n pfx grps pre B rest augs subs imps g t,
  let ms  := ge_ms n pfx grps pre B rest augs subs imps in
  let ms' := ge_ms n pfx (SGrouping g [] B :: grps) pre [SUses None g None [] []] rest augs
                   subs imps in
  clean g (top_frame ms) = true -> clean g (all_body ms) = true -> clean g (all_augs ms) = true ->
  (compile_modset (S f) ms' = Ok t -> compile_modset (S f) ms = Ok t) /\
  (compile_modset (S f) ms = Ok t -> compile_modset (S (S f)) ms' = Ok t).
Proof. exact grouping_extract_compile_proof. Qed.
Print Assumptions grouping_extract_compile.

(** satisfiable: module m { grouping h { leaf c; }  leaf p;  leaf a; uses h;  leaf z; }
    with B = { leaf a; uses h; } *)
Example grouping_extract_compile_applies :
  let ms  := ge_ms [x6d] [x6d] [ge_h] [lf [x70]] ge_B ge_rest [] [] [] in
  let ms' := ge_ms [x6d] [x6d] [SGrouping [x67] [] ge_B; ge_h] [lf [x70]]
                   [SUses None [x67] None [] []] ge_rest [] [] [] in
  clean [x67] (top_frame ms) = true /\ clean [x67] (all_body ms) = true /\
  clean [x67] (all_augs ms) = true /\
  (exists t, compile_modset 3 ms = Ok t /\ compile_modset 4 ms' = Ok t /\ length t = 4).
Proof.
  cbv zeta. split; [reflexivity|]. split; [reflexivity|]. split; [reflexivity|].
  eexists. split; [vm_compute; reflexivity|]. split; vm_compute; reflexivity.
Qed.

(** ** the remaining hypotheses are satisfiable too *)
Example expand_ewf_relative_applies :   (* under a choice: a case added to one existing case *)
  (negb true || forallb is_case_stmt [dcy]) = true /\
  ewf_from 0 true [] [ENode KCase [x78] no_props [] []] = true /\
  expand 3 ex_cx [ENode KCase [x78] no_props [] []] [dcy] =
  Ok [ENode KCase [x78] no_props [] []; ENode KCase [x79] no_props [] [ENode KLeaf [x71] no_props [] []]].
Proof. repeat split; vm_compute; reflexivity. Qed.

Example expand_case_order_applies :
  let cx := mkCtx [[]] (ME [x6d] [] []) in
  crel cx cx /\
  Forall2 sperm [SNode KChoice [x7a] no_props [] [] [lf [x62]; lf [x61]]]
                [SNode KChoice [x7a] no_props [] [] [lf [x61]; lf [x62]]] /\
  Forall2 eperm [] [] /\ ewf_list false [] [] = true /\
  exists out, expand 4 cx [] [SNode KChoice [x7a] no_props [] [] [lf [x62]; lf [x61]]] = Ok out /\
              length out = 1.
Proof.
  cbv zeta. split; [split; cbn; repeat constructor|].
  split; [constructor; [apply sperm_choice_perm; apply perm_swap|constructor]|].
  split; [constructor|]. split; [reflexivity|].
  eexists. split; vm_compute; reflexivity.
Qed.

Example uses_unfold_applies :
  let cx := mkCtx [[SGrouping [x67] [] ge_B; ge_h]; []] ge_m in
  let cg := mkCtx [[]; [SGrouping [x67] [] ge_B; ge_h]; []] ge_m in
  find_grouping cx None [x67] = Some (ge_B, cg) /\ ctx_eqv cg cx /\
  (exists out, expand 4 cx [] (SUses None [x67] None [] [] :: ge_rest) = Ok out /\
               expand 4 cx [] (ge_B ++ ge_rest) = Ok out).
Proof.
  cbv zeta. split; [reflexivity|]. split; [split; reflexivity|].
  eexists. split; vm_compute; reflexivity.
Qed.

Example unused_grouping_invisible_applies :
  ctx_ins [x67] (SGrouping [x67] [] ge_B) (mkCtx [[ge_h]; []] ge_m)
          (mkCtx [[SGrouping [x67] [] ge_B; ge_h]; []] ge_m) /\
  clean [x67] (ge_B ++ ge_rest) = true.
Proof.
  split; [|reflexivity]. split; [split; reflexivity|]. split; [constructor|repeat constructor].
Qed.

(** ** Operations: rpc/action {input; output} and notification, also when they come out of a
    grouping (Schemac/Ops.v).

    uses_inline_deep: "every uses is replaced by a copy of the grouping's nodes" at ANY depth. [inl]
    relates a statement list to the same list with one uses — at the top, or anywhere below
    containers, lists, choices, cases, the input/output of an rpc/action, a notification — replaced
    by the plain text of its expansion; both expand to the same thing, in every lexical context,
    after any earlier siblings, for every fuel. *)
From YV Require Import Schemac.Ops.

Theorem uses_inline_deep : forall f cx acc l l',
  inl f cx acc l l' -> expand f cx acc l = expand f cx acc l'.
Proof. exact uses_inline_deep_proof. Qed.
Print Assumptions uses_inline_deep.

(** grouping_ops_expanded: a plain uses of a grouping whose body has a uses somewhere below — e.g.
    in the input of an action or in a notification defined IN the grouping — expands to that body
    with the inner uses written out, in the lexical context of the grouping's definition: the
    operations that come out of a grouping are resolved like the ones written in place. *)
Theorem grouping_ops_expanded : forall f cx acc g body body' cg,
  find_grouping cx None g = Some (body, cg) -> inl f cg acc body body' ->
  expand (S f) cx acc [SUses None g None [] []] = expand f cg acc body'.
Proof. exact grouping_ops_expanded_proof. Qed.
Print Assumptions grouping_ops_expanded.

(** the condition of a uses is not put on the rpcs/actions/notifications of the grouping (they
    take no `when`) *)
Theorem uses_when_spares_operations : forall w k n p keys grps kids,
  is_datadef k = false ->
  set_when w (SNode k n p keys grps kids) = SNode k n p keys grps kids.
Proof. exact set_when_spares_ops_proof. Qed.
Print Assumptions uses_when_spares_operations.

(** compile_ops_placed: in EVERY compiled tree, whatever the source, an rpc/action or notification
    is a member of a container, a list or the module only — never of a case, choice, input, output,
    notification or leaf, also when a uses or an augment put it there ([placed] at every node). *)
Theorem compile_ops_placed : forall fuel ms t,
  compile_modset fuel ms = Ok t -> forallb placed t = true.
Proof. exact compile_placed_proof. Qed.
Print Assumptions compile_ops_placed.

(** module m { grouping params { leaf speed; }
               grouping ops { action reset { input { uses params; } } notification done { uses params; } }
               container box { config false; uses ops; } }
    compiles to the tree of the text with both inner uses written out; the leaves below the input
    and the notification are config true although the container is config false (config_inherit's
    cut) *)
Example ops_from_grouping_example :
  compile_modset default_fuel (op_ms [SUses None [x70] None [] []]) = Ok op_tree /\
  compile_modset default_fuel (op_ms [op_leaf [x73]]) = Ok op_tree.
Proof. exact ops_from_grouping_example_proof. Qed.

Example uses_inline_deep_applies :
  inl 5 op_cx []
      [SNode KAction [x72] no_props [] [] [SNode KInput [x69] no_props [] [] [SUses None [x70] None [] []]]]
      [SNode KAction [x72] no_props [] [] [SNode KInput [x69] no_props [] [] [op_leaf [x73]]]].
Proof. exact inl_example_proof. Qed.

Example config_inherit_cut_applies :
  let box := ENode KCont [x62] (pcf (Some false)) []
               [ENode KNotif [x64] (pcf None) [] [ENode KLeaf [x73] (pcf None) [] []];
                ENode KLeaf [x74] (pcf None) [] []] in
  (exists l', config_kids true [box] = Some l') /\
  nearest_stated true [[x62]; [x64]; [x73]] [box] = Some true /\
  nearest_stated true [[x62]; [x74]] [box] = Some false /\
  nearest_stated true [[x62]; [x64]] [box] = None.
Proof. cbv zeta. split; [eexists; vm_compute; reflexivity|]. vm_compute. repeat split. Qed.

Example compile_ops_placed_applies :
  forallb placed op_tree = true /\
  placed (ENode KCase [x63] no_props [] [ENode KAction [x72] no_props [] []]) = false.
Proof. split; vm_compute; reflexivity. Qed.
