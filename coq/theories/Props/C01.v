(** C01 — theorems over the model Schemac/Expand.v (placeholder; filled in below) *)
From Coq Require Import List Bool ZArith Strings.Byte.
From YV Require Import Schemac.Ast Schemac.Expand.
Import ListNotations.

Example c01_config_root_true : eff_config true None = Some true.
Proof. reflexivity. Qed.
Print Assumptions c01_config_root_true.
