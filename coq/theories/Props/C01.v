(** C01 — Compiled schema equals the RFC 7950 expansion of uses/augment/refine/include.
    Theorems over the executable model Schemac/Expand.v of meta/resolver.go + meta/compile.go,
    for ALL source ASTs, contexts and fuel values (the out-of-fuel outcome is excluded because every
    hypothesis/conclusion speaks about [Ok] results).  The model is tied to the code by the
    correspondence check (Check/C01Check.v, harness/props/c01*.go). *)
From Coq Require Import List Bool ZArith Arith Strings.Byte.
From YV Require Import Schemac.Ast Schemac.Expand Schemac.Refactor Schemac.Proofs.
Import ListNotations.

(** ** uses_inline: a uses may be replaced by its expansion written out as plain statements
    ([embed]) without changing what the enclosing statement list expands to — for every grouping,
    lexical context, when/refine/augment list, earlier siblings [acc] and later siblings [rest].
    Side conditions: the uses only adds members ([acc ++ X]: its refines/augments do not reach
    earlier siblings), the expansion is well formed (sibling names unique, choice members are
    cases — [ewf_list]; the check asserts it of every model output), and the fuel covers its depth. *)
Theorem uses_inline : forall f cx acc pfx g w refs augs rest X,
  expand (S f) cx acc [SUses pfx g w refs augs] = Ok (acc ++ X) ->
  ewf_list false (names acc) X = true -> ldepth X <= f ->
  expand (S f) cx acc (SUses pfx g w refs augs :: rest) =
  expand (S f) cx acc (map embed X ++ rest).
Proof. exact uses_inline_proof. Qed.
Print Assumptions uses_inline.

(** expansion is the identity on text that is already expanded (no uses left) *)
Theorem expand_plain_identity : forall f cx X acc allcase,
  ewf_list allcase (names acc) X = true -> ldepth X <= f ->
  expand (S f) cx acc (map embed X) = Ok (acc ++ X).
Proof. exact expand_embed. Qed.
Print Assumptions expand_plain_identity.

(** statement lists expand left to right, each statement seeing what the earlier ones produced *)
Theorem expand_sequential : forall f cx l1 acc l2,
  expand (S f) cx acc (l1 ++ l2) =
  bind (expand (S f) cx acc l1) (fun acc' => expand (S f) cx acc' l2).
Proof. exact expand_app. Qed.
Print Assumptions expand_sequential.

(** ** config_inherit: in the compiled tree the config of EVERY node (addressed by any path) is its
    own statement if it has one, else that of the nearest ancestor that states it, else true *)
Theorem config_inherit : forall path pcfg l l' c,
  config_kids pcfg l = Some l' ->
  nearest_stated pcfg path l = Some c ->
  match node_at path l' with Some e' => p_config (e_props e') = Some c | None => False end.
Proof. exact config_inherit_proof. Qed.
Print Assumptions config_inherit.

(** ** copies_independent: whatever stands before a node ([s1] vs [s1'], e.g. a container using the
    same grouping with other when/refines/augments), the sub-tree built for the node is the same *)
Theorem copies_independent : forall f cx acc s1 s1' k n p keys grps kids out out',
  expand (S f) cx acc [s1; SNode k n p keys grps kids] = Ok out ->
  expand (S f) cx acc [s1'; SNode k n p keys grps kids] = Ok out' ->
  exists pre pre' e, out = pre ++ [e] /\ out' = pre' ++ [e].
Proof. exact copies_independent_proof. Qed.
Print Assumptions copies_independent.

(** ** augment_order_textual: module augments are applied one after the other in textual order
    (main module, then each submodule), and each appends its resolved body at the END of the
    target's members (implied cases under a choice) *)
Theorem augment_order_textual : forall fuel cx a1 a2 t,
  apply_augments fuel cx (a1 ++ a2) t =
  bind (apply_augments fuel cx a1 t) (apply_augments fuel cx a2).
Proof. exact apply_augments_app. Qed.
Print Assumptions augment_order_textual.

Theorem augment_appends : forall path nodes t t' k n p ks kids,
  update_at path (graft nodes) t = Ok t' ->
  node_at path t = Some (ENode k n p ks kids) ->
  node_at path t' = Some (ENode k n p ks (kids ++ graft_nodes k nodes)).
Proof. exact augment_appends_proof. Qed.
Print Assumptions augment_appends.

(** ** hypotheses are satisfiable: module m { grouping g { leaf a; container b { leaf c; } }
       container x { uses g { refine b/c { config false; } } leaf z; } } *)
Definition pcf (c : option bool) : props := mkProps c None [] [] None [] None None [].
Definition ex_g : stmt :=
  SGrouping [x67] [] [SNode KLeaf [x61] no_props [] [] [];
                      SNode KCont [x62] no_props [] [] [SNode KLeaf [x63] no_props [] [] []]].
Definition ex_uses : stmt :=
  SUses None [x67] None [mkRefine [[x62]; [x63]] [] [] (Some false) None None None []] [].
Definition ex_cx : ctx := mkCtx [[ex_g]] (ME [x6d] [ex_g] []).
Definition ex_X : list enode :=
  [ENode KLeaf [x61] no_props [] [];
   ENode KCont [x62] no_props [] [ENode KLeaf [x63] (pcf (Some false)) [] []]].

Example uses_inline_applies :
  expand 5 ex_cx [] [ex_uses] = Ok ([] ++ ex_X) /\ ewf_list false (names []) ex_X = true /\
  ldepth ex_X <= 4 /\
  expand 5 ex_cx [] [ex_uses; SNode KLeaf [x7a] no_props [] [] []] =
  Ok (ex_X ++ [ENode KLeaf [x7a] no_props [] []]).
Proof. repeat split; try (vm_compute; reflexivity). vm_compute. auto with arith. Qed.

Example config_inherit_applies :
  exists l', config_kids true [ENode KCont [x78] (pcf (Some false)) [] ex_X] = Some l' /\
  nearest_stated true [[x78]; [x62]; [x63]] [ENode KCont [x78] (pcf (Some false)) [] ex_X] = Some false /\
  nearest_stated true [[x78]; [x61]] [ENode KCont [x78] (pcf (Some false)) [] ex_X] = Some false.
Proof. eexists. vm_compute. repeat split. Qed.

(** ** Known findings: the full statement "a condition on uses/augment is ADDED to the conditions of
    the nodes it brings in" is false of the model (which follows the code); witnesses below.
    The check classifies such inputs as Known 1 / Known 2 (regions [kf_uses_when], [kf_aug_when]). *)
Definition pw (w : option text) : props := mkProps None None [] [] w [] None None [].
Definition W : text := [x57].   (* condition on the uses / augment *)
Definition C : text := [x43].   (* the leaf's own condition *)

(** what the nodes brought in by [uses g { when W; }] should be conditioned on: W and their own *)
Definition when_on_uses_kept_statement : Prop :=
  forall f cx cx' acc pfx g own out n,
    find_grouping cx pfx g = Some ([SNode KLeaf n (pw (Some own)) [] [] []], cx') ->
    expand (S (S f)) cx acc [SUses pfx g (Some W) [] []] = Ok out ->
    exists e, In e out /\ e_name e = n /\ p_when (e_props e) <> Some W.

Definition kf1_g : stmt := SGrouping [x67] [] [SNode KLeaf [x61] (pw (Some C)) [] [] []].
Example when_on_uses_overwrites_refuted :
  expand 3 (mkCtx [[kf1_g]] (ME [x6d] [kf1_g] [])) [] [SUses None [x67] (Some W) [] []]
  = Ok [ENode KLeaf [x61] (pw (Some W)) [] []].       (* the leaf's own condition C is gone *)
Proof. reflexivity. Qed.

Theorem when_on_uses_kept_refuted : ~ when_on_uses_kept_statement.
Proof.
  intro H.
  destruct (H 1 (mkCtx [[kf1_g]] (ME [x6d] [kf1_g] [])) _ [] None [x67] C _ [x61] eq_refl eq_refl)
    as [e [Hin [_ Hw]]].
  simpl in Hin. destruct Hin as [<-|[]]. apply Hw. reflexivity.
Qed.
Print Assumptions when_on_uses_kept_refuted.

Example when_on_augment_dropped_refuted :
  expand_modset 4 (mkModset (mkModule [x6d] [x6d] []
       [SNode KCont [x78] no_props [] [] []]
       [SAugment [[x78]] (Some W) [SNode KLeaf [x61] no_props [] [] []]]) [] [])
  = Ok [ENode KCont [x78] no_props [] [ENode KLeaf [x61] no_props [] []]].  (* unconditional *)
Proof. reflexivity. Qed.

(** outside the two regions the model adds no condition handling of its own: a uses without
    [when] leaves every statement of the grouping as written *)
Theorem uses_without_when_keeps_conditions_partial : forall s, set_when None s = s.
Proof. reflexivity. Qed.
Print Assumptions uses_without_when_keeps_conditions_partial.

(** ** Every expand output satisfies [ewf_list] (round 2, Schemac/Ewf.v).
    No well-formedness of the SOURCE is needed: addDataDefinition's conflict check and the
    implied-case wrapping establish the invariant for every statement list, lexical context and
    fuel.  The only hypothesis is that the accumulator the call starts from is well formed
    ([[]] at every entry point) — and not even that for the members the call ADDS. *)
From YV Require Import Schemac.Ewf.

Theorem expand_ewf : forall fuel cx acc ss out,
  ewf_list false [] acc = true -> expand fuel cx acc ss = Ok out -> ewf_list false [] out = true.
Proof. exact expand_ewf_proof. Qed.
Print Assumptions expand_ewf.

Theorem expand_added_ewf : forall fuel cx acc ss X,
  expand fuel cx acc ss = Ok (acc ++ X) -> ewf_list false (names acc) X = true.
Proof. exact expand_added_ewf_proof. Qed.
Print Assumptions expand_added_ewf.

(** the general (relative) form: the first [n] members of the accumulator are not assumed well
    formed; under a choice ([a = true]) the statements are cases (what [wrap_case] delivers) *)
Theorem expand_ewf_relative : forall fuel cx ss acc n a out,
  (negb a || forallb is_case_stmt ss) = true ->
  ewf_from n a [] acc = true -> expand fuel cx acc ss = Ok out -> ewf_from n a [] out = true.
Proof. exact expand_rec_ewf. Qed.
Print Assumptions expand_ewf_relative.

Theorem expand_modset_ewf : forall fuel ms t,
  expand_modset fuel ms = Ok t -> ewf_list false [] t = true.
Proof. exact expand_modset_ewf_proof. Qed.
Print Assumptions expand_modset_ewf.

(** uses_inline restated without the well-formedness side condition *)
Theorem uses_inline_unconditional : forall f cx acc pfx g w refs augs rest X,
  expand (S f) cx acc [SUses pfx g w refs augs] = Ok (acc ++ X) ->
  ldepth X <= f ->
  expand (S f) cx acc (SUses pfx g w refs augs :: rest) =
  expand (S f) cx acc (map embed X ++ rest).
Proof. exact uses_inline_unconditional_proof. Qed.
Print Assumptions uses_inline_unconditional.

Example uses_inline_unconditional_applies :
  expand 5 ex_cx [] [ex_uses] = Ok ([] ++ ex_X) /\ ldepth ex_X <= 4 /\
  expand 5 ex_cx [] (map embed ex_X ++ [SNode KLeaf [x7a] no_props [] [] []]) =
  Ok (ex_X ++ [ENode KLeaf [x7a] no_props [] []]).
Proof. repeat split; try (vm_compute; reflexivity). vm_compute. auto with arith. Qed.

Example expand_ewf_applies :
  ewf_list false [] [ENode KLeaf [x7a] no_props [] []] = true /\
  expand 5 ex_cx [ENode KLeaf [x7a] no_props [] []] [ex_uses] =
  Ok ([ENode KLeaf [x7a] no_props [] []] ++ ex_X).
Proof. split; vm_compute; reflexivity. Qed.
