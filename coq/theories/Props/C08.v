(** C08 - Find reaches exactly the addressed node, and paths render back to it.
    Theorem-only file: every statement is closed by [exact] of a lemma proved elsewhere and is
    followed by Print Assumptions.  Model: Tree/Pct.v, Tree/KeyText.v, Tree/Find.v (tied to
    node/find.go, node/path_slice.go, node/path.go, node/value.go, meta/find.go by the C08
    correspondence check), as the code stands after the C08 repairs (KNOWN_FINDINGS.txt).

    Reading guide.  A location [l : loc] is a list of path segments over the positional schema:
    [SName i] (container, leaf, or list without key) and [SKey i key] (list entry).
    [loc_ok kids l] says [l] is a location of the schema [kids] (names resolve, are identifiers,
    keys conform to the key leaf types); [resolve (AtCont kids data) l] is [Some _] exactly when every
    container, list and entry on the way is present in [data].  [render quals trailing kids l] is the
    RESTCONF path of [l]: keys percent-encoded and comma-separated, segment [n] module-qualified
    when [quals] says so, trailing slash when [trailing]; [render_with esc] writes each key's text
    with [esc], ANY function that url.QueryUnescape decodes back and that leaves no raw '/', ','
    or '?' ([valid_enc]: the reference encoder, lower-case hex, over-encoding, '+' for space...).  [find pfx kids data start path] is
    Selection.Find called on the selection at [start] over the reference store (whose nodes hand
    back the key of a lookup request); [find_n ans ...] is Selection.Find over nodes that answer a
    lookup by key with the reported key [ans] (Tree/FindNode.v: selectListItem takes the reported
    key, or the request's key when none is reported); [legal_ans ans]: what Node.Next's contract
    allows - no key, the request's key, or the key values the entry holds. *)
From Coq Require Import ZArith List Bool Strings.Byte.
From YV Require Import Val.Model Tree.Schema Tree.Editor Tree.Pct Tree.PctProofs Tree.KeyText Tree.KeyTextProofs
     Tree.Find Tree.FindText Tree.FindProofs Tree.FindTheorems Tree.FindNode Tree.FindNodeProofs.
Import ListNotations.

(** url.QueryUnescape inverts the reference percent-encoder on every byte string *)
Theorem C08_pct_roundtrip : forall s, unescape (escape s) = Some s.
Proof. exact pct_roundtrip. Qed.
Print Assumptions C08_pct_roundtrip.

(** the reference encoder (= what Path.String() applies to keys) is a valid key encoding *)
Theorem C08_reference_encoder_valid : valid_enc escape.
Proof. exact escape_valid. Qed.
Print Assumptions C08_reference_encoder_valid.

(** so is, e.g., writing every byte as %xx with lower-case hex digits *)
Theorem C08_overencoding_valid : valid_enc escape_all.
Proof. exact escape_all_valid. Qed.
Print Assumptions C08_overencoding_valid.

(** the text a conforming key value prints as (strconv decimal, label, true/false, the string)
    converts back to exactly that value, for every integer format over its whole range *)
Theorem C08_key_text_roundtrip : forall ty v, key_val_ok ty v -> conv_key ty (key_text v) = Some v.
Proof. exact conv_key_text. Qed.
Print Assumptions C08_key_text_roundtrip.

(** Find from the root with the rendered path of a present location returns the selection at
    exactly that location: same schema positions, same key values (hence the content stored there),
    for every schema, data tree, location, qualification pattern and trailing-slash choice *)
Theorem C08_find_render : forall esc, valid_enc esc -> forall pfx kids data l quals trailing cur,
  loc_ok kids l -> resolve (AtCont kids data) l = Some cur ->
  find pfx kids data [] (render_with esc quals trailing kids l) = FOk (Some l).
Proof. exact find_render_enc. Qed.
Print Assumptions C08_find_render.

(** a container, list or key on the way that is not present: no selection, no error *)
Theorem C08_find_absent_none : forall esc, valid_enc esc -> forall pfx kids data l quals trailing,
  loc_ok kids l -> resolve (AtCont kids data) l = None ->
  find pfx kids data [] (render_with esc quals trailing kids l) = FOk None.
Proof. exact find_absent_none_enc. Qed.
Print Assumptions C08_find_absent_none.

(** every start selection: from the selection at [base ++ ext], as many "../" as [ext] has
    selection levels (an entry counts two: entry and list), then the rendered path of [l] relative
    to [base] - found at [base ++ l] exactly when present.  [ext = []]: a path relative to an
    ancestor; [base = []], [ext = []]: from the root. *)
Theorem C08_find_render_from : forall esc, valid_enc esc -> forall pfx kids data base ext bk bd l quals trailing,
  resolve (AtCont kids data) base = Some (AtCont bk bd) ->
  loc_ok bk l ->
  find pfx kids data (base ++ ext) (ups (chain_len (rev ext)) ++ render_with esc quals trailing bk l) =
  FOk (match resolve (AtCont bk bd) l with Some _ => Some (base ++ l) | None => None end).
Proof. exact find_render_from. Qed.
Print Assumptions C08_find_render_from.

(** a name that is not in the schema - after any schema-valid prefix, present in the data or not,
    followed by anything - gives the not-found error *)
Theorem C08_find_unknown_notfound : forall esc, valid_enc esc -> forall pfx kids data pre quals name more sk,
  loc_ok kids pre -> scope_after kids pre = Some sk ->
  ident_ok name = true -> lookup_name sk name O = None ->
  Forall (fun s => free slash s /\ free qmark s) more ->
  find pfx kids data [] (join slash (render_segs esc quals kids pre ++ name :: more)) = FErr FNotFound.
Proof. exact find_unknown_notfound_enc. Qed.
Print Assumptions C08_find_unknown_notfound.

(** the path of the found selection identifies the same location: Find from the root with
    Path.StringNoModule() of the selection at [l] returns the selection at [l] *)
Theorem C08_path_string_identifies : forall pfx kids data l cur,
  loc_ok kids l -> resolve (AtCont kids data) l = Some cur ->
  find pfx kids data [] (path_string_nomod kids l) = FOk (Some l).
Proof. exact path_string_identifies. Qed.
Print Assumptions C08_path_string_identifies.

(** every request a walk sends to the nodes is a read (New = Delete = false) *)
Theorem C08_find_pure : forall segs cur, forallb req_reads (walk_reqs cur segs) = true.
Proof. exact find_pure. Qed.
Print Assumptions C08_find_pure.

(** the hypotheses are met by a location with a compound key containing '/', ',', ' ' and '%' *)
Example C08_hypotheses_met :
  loc_ok ex_kids ex_loc /\ (exists cur, resolve (AtCont ex_kids ex_data) ex_loc = Some cur).
Proof. exact (conj ex_loc_ok ex_loc_present). Qed.
Print Assumptions C08_hypotheses_met.

Example C08_find_example :
  find [x6d] ex_kids ex_data [] (render [true; false; true] true ex_kids ex_loc) = FOk (Some ex_loc).
Proof. exact ex_find. Qed.
Print Assumptions C08_find_example.

(** at the pinned commit: every path with a leading "../" failed with not-found ... *)
Example C08_old_dotdot_refuted :
  find_old [x6d] ex_kids ex_data [SName 0; SKey 0 ex_key]
       (ups 2 ++ render [] false [SList (mk n_q) [0; 1]%nat ex_row] [SKey 0 ex_key; SName 0])
  = FErr FNotFound.
Proof. exact find_old_dotdot_refuted. Qed.
Print Assumptions C08_old_dotdot_refuted.

(** ... and Path.String() with verbatim keys did not lead back to an entry whose key contains '/' *)
Example C08_old_path_string_refuted :
  find [x6d] ex_kids ex_data [] (path_string_nomod_old ex_kids [SName 0; SKey 0 ex_key]) <> FOk (Some [SName 0; SKey 0 ex_key]).
Proof. exact path_string_old_refuted. Qed.
Print Assumptions C08_old_path_string_refuted.

(** ** any node implementation within Node.Next's contract (Tree/FindNode.v, Tree/FindNodeProofs.v) *)

(** whatever the nodes report as the key of an entry looked up by key - nothing, the request's key,
    the entry's own key values - Find has the same outcome as over the reference store for EVERY
    path (well-formed or not) and EVERY start selection: no selection / the same error / a selection
    at the same schema positions with key values equal as val.Equal decides *)
Theorem C08_find_any_node : forall ans, legal_ans ans -> forall pfx kids data start path,
  fres_eqv (find_n ans pfx kids data start path) (find pfx kids data start path).
Proof. exact find_n_eqv. Qed.
Print Assumptions C08_find_any_node.

(** nodes that report no key, or the request's: literally the same selection, keys included *)
Theorem C08_find_nil_key_node_exact : forall ans, echo_or_nil ans -> forall pfx kids data start path,
  find_n ans pfx kids data start path = find pfx kids data start path.
Proof. exact find_n_exact. Qed.
Print Assumptions C08_find_nil_key_node_exact.

(** the found selection carries the key values of the addressed entry (same schema positions, same
    key values), from every start selection, over every node within the contract *)
Theorem C08_find_render_any_node : forall ans esc, valid_enc esc -> legal_ans ans ->
  forall pfx kids data base ext bk bd l quals trailing cur,
  resolve (AtCont kids data) base = Some (AtCont bk bd) ->
  loc_ok bk l -> resolve (AtCont bk bd) l = Some cur ->
  exists l', find_n ans pfx kids data (base ++ ext) (ups (chain_len (rev ext)) ++ render_with esc quals trailing bk l)
             = FOk (Some l') /\ loc_eqb l' (base ++ l) = true.
Proof. exact find_n_render_from. Qed.
Print Assumptions C08_find_render_any_node.

Theorem C08_find_absent_none_any_node : forall ans esc, valid_enc esc -> legal_ans ans ->
  forall pfx kids data base ext bk bd l quals trailing,
  resolve (AtCont kids data) base = Some (AtCont bk bd) ->
  loc_ok bk l -> resolve (AtCont bk bd) l = None ->
  find_n ans pfx kids data (base ++ ext) (ups (chain_len (rev ext)) ++ render_with esc quals trailing bk l) = FOk None.
Proof. exact find_n_absent_none. Qed.
Print Assumptions C08_find_absent_none_any_node.

Theorem C08_find_unknown_notfound_any_node : forall ans esc, valid_enc esc -> legal_ans ans ->
  forall pfx kids data pre quals name more sk,
  loc_ok kids pre -> scope_after kids pre = Some sk ->
  ident_ok name = true -> lookup_name sk name O = None ->
  Forall (fun s => free slash s /\ free qmark s) more ->
  find_n ans pfx kids data [] (join slash (render_segs esc quals kids pre ++ name :: more)) = FErr FNotFound.
Proof. exact find_n_unknown_notfound. Qed.
Print Assumptions C08_find_unknown_notfound_any_node.

(** the path of the found selection identifies the same location, over every such node *)
Theorem C08_path_string_identifies_any_node : forall ans, legal_ans ans -> forall pfx kids data l cur,
  loc_ok kids l -> resolve (AtCont kids data) l = Some cur ->
  exists l', find_n ans pfx kids data [] (path_string_nomod kids l) = FOk (Some l') /\ loc_eqb l' l = true.
Proof. exact path_string_identifies_n. Qed.
Print Assumptions C08_path_string_identifies_any_node.

(** the hypothesis is met by every behaviour the check serves data with (echo / nil / stored, all
    lists alike or by position) *)
Example C08_served_nodes_within_contract : forall p, legal_ans (ans_of p).
Proof. exact ans_of_legal. Qed.
Print Assumptions C08_served_nodes_within_contract.

(** selectListItem's fallback [if key == nil { key = r.Key }] carries the clause: without it (or
    narrowed to new entries, which Find never creates) a node that reports no key for a lookup
    yields a selection without its key, whose rendered path Find refuses; with it the entry is
    found under its key *)
Example C08_no_fallback_loses_key :
  find_gen false (ans_of (PAll KNil)) [x6d] ex_kids ex_data [] (render [] false ex_kids ex_loc)
  = FOk (Some [SName 0; SName 0; SName 2]).
Proof. exact no_fallback_loses_key. Qed.
Print Assumptions C08_no_fallback_loses_key.

Example C08_no_fallback_path_refuted :
  find_n (ans_of (PAll KNil)) [x6d] ex_kids ex_data [] (path_string_nomod ex_kids [SName 0; SName 0; SName 2])
  = FErr FOther.
Proof. exact no_fallback_path_refuted. Qed.
Print Assumptions C08_no_fallback_path_refuted.

Example C08_fallback_keeps_key :
  find_n (ans_of (PAll KNil)) [x6d] ex_kids ex_data [] (render [] false ex_kids ex_loc) = FOk (Some ex_loc).
Proof. exact fallback_keeps_key. Qed.
Print Assumptions C08_fallback_keeps_key.
