(** C08 - Find reaches exactly the addressed node, and paths render back to it. *)
From Coq Require Import List Strings.Byte.
From YV Require Import Tree.Pct Tree.PctProofs.
Import ListNotations.

Theorem C08_pct_roundtrip : forall s, unescape (escape s) = Some s.
Proof. exact pct_roundtrip. Qed.
Print Assumptions C08_pct_roundtrip.
