(** C12 - Every node told an edit begins is told it ended, and node errors surface.
    Theorem-only file.  Model: Tree/Trace.v ([run]: how a failing k-th callback changes a run whose
    fault-free shape is a tree of begin/end frames); requirement: [c12_ok].  Proofs: Tree/TraceProofs.v. *)
From Coq Require Import List Bool Arith Strings.Byte.
From YV Require Import Tree.Trace Tree.TraceProofs.
Import ListNotations.

(** Full statement: for EVERY frame tree (any nesting, any bodies, any bubble chains) that is well
    formed for the edit root, and EVERY fault position k (also beyond the end = no fault), the
    callbacks the model issues satisfy all three trace requirements. *)
Definition C12_full_statement : Prop := forall root t k,
  wf_tree root t = true ->
  well_bracketed (run_fault t k) = true /\
  no_write_after_failure false (run_fault t k) = true /\
  in_scope root (run_fault t k) = true.

(** a non-trivial frame tree: edit root /a/b with bubbling to /a and the data root, a nested frame
    and writes; every fault position satisfies the requirement (21 positions, by computation) *)
Example C12_example_all_positions :
  let root := [x2f; x61; x2f; x62] in
  let t := Frame [root; [x2f; x61]; []] true
             [Ev (mkEv KRead false root true); Ev (mkEv KWrite true root true);
              Frame [[x2f; x61; x2f; x62; x2f; x63]] true [Ev (mkEv KRead false root true); Ev (mkEv KWrite true [x2f; x61; x2f; x62; x2f; x63] true)];
              Ev (mkEv KWrite true root true)] in
  forallb (fun k => well_bracketed (run_fault t k) && no_write_after_failure false (run_fault t k) && in_scope root (run_fault t k))
          (seq 0 21) = true.
Proof. vm_compute. reflexivity. Qed.

(** the pinned commit's behaviour (a failing ancestor BeginEdit left the nodes already begun
    without EndEdit) is NOT well bracketed: the trace it produced for a fault at the second begin *)
Example C12_pinned_commit_refuted :
  well_bracketed [mkEv KBegin true [x2f; x61] true; mkEv KBegin true [] false] = false.
Proof. vm_compute. reflexivity. Qed.
