(** C12 - Every node told an edit begins is told it ended, and node errors surface.
    Theorem-only file.  Model: Tree/Trace.v ([run]: how a failing k-th callback changes a run whose
    fault-free shape is a tree of begin/end frames); requirement: [c12_ok].  Proofs: Tree/TraceProofs.v. *)
From Coq Require Import List Bool Arith Strings.Byte.
From YV Require Import Tree.Trace Tree.TraceProofs.
Import ListNotations.

(** Full statement: for EVERY frame tree (any nesting, any bodies, any bubble chains) that is well
    formed for the edit root, and EVERY fault position k (also beyond the end = no fault), the
    callbacks the model issues satisfy all three trace requirements. *)
Definition C12_full_statement : Prop := forall root t k,
  wf_tree root t = true ->
  well_bracketed (run_fault t k) = true /\
  no_write_after_failure false (run_fault t k) = true /\
  in_scope root (run_fault t k) = true.

(** a non-trivial frame tree: edit root /a/b with bubbling to /a and the data root, a nested frame
    and writes; every fault position satisfies the requirement (21 positions, by computation) *)
Example C12_example_all_positions :
  let root := [x2f; x61; x2f; x62] in
  let t := Frame [root; [x2f; x61]; []] true
             [Ev (mkEv KRead false root true); Ev (mkEv KWrite true root true);
              Frame [[x2f; x61; x2f; x62; x2f; x63]] true [Ev (mkEv KRead false root true); Ev (mkEv KWrite true [x2f; x61; x2f; x62; x2f; x63] true)];
              Ev (mkEv KWrite true root true)] in
  forallb (fun k => well_bracketed (run_fault t k) && no_write_after_failure false (run_fault t k) && in_scope root (run_fault t k))
          (seq 0 21) = true.
Proof. vm_compute. reflexivity. Qed.

(** the pinned commit's behaviour (a failing ancestor BeginEdit left the nodes already begun
    without EndEdit) is NOT well bracketed: the trace it produced for a fault at the second begin *)
Example C12_pinned_commit_refuted :
  well_bracketed [mkEv KBegin true [x2f; x61] true; mkEv KBegin true [] false] = false.
Proof. vm_compute. reflexivity. Qed.

(** * the full statement, proved (Tree/TraceProofs.v) *)
Theorem C12_all_faults : C12_full_statement.
Proof. exact c12_all_faults. Qed.
Print Assumptions C12_all_faults.

(** the fault-free run satisfies the same requirements and none of its callbacks fails *)
Corollary C12_clean_run : forall root t,
  wf_tree root t = true ->
  well_bracketed (run_clean t) = true /\
  no_write_after_failure false (run_clean t) = true /\
  in_scope root (run_clean t) = true /\
  any_failed (run_clean t) = false.
Proof. exact c12_clean_run. Qed.
Print Assumptions C12_clean_run.

(** whatever the plan, the whole requirement [c12_ok] holds of the model's trace as soon as the
    API call reports the injected error whenever a callback failed *)
Corollary C12_c12_ok : forall root t k errored wrapped,
  wf_tree root t = true ->
  (any_failed (run_fault t k) = true -> errored = true /\ wrapped = true) ->
  c12_ok root (run_fault t k) errored wrapped = true.
Proof.
  intros root t k errored wrapped Hwf Herr. destruct (c12_all_faults root t k Hwf) as [A [B C]].
  unfold c12_ok. rewrite A, B, C. simpl.
  destruct (any_failed (run_fault t k)); simpl; auto.
  destruct (Herr eq_refl) as [-> ->]. reflexivity.
Qed.

(** the model's failure flag is exactly "some callback failed" *)
Corollary C12_failure_flag : forall t k, no_marks t = true ->
  snd (run t (Some k)) = any_failed (run_fault t k).
Proof. intros. apply run_flag_iff_any_failed. assumption. Qed.

(** [wf_tree] is not vacuous: it holds of the non-trivial tree above, so the theorem covers it
    (for every k, not only the 21 computed ones) *)
Definition c12_example_root : path := [x2f; x61; x2f; x62].
Definition c12_example_tree : etree :=
  let root := c12_example_root in
  Frame [root; [x2f; x61]; []] true
    [Ev (mkEv KRead false root true); Ev (mkEv KWrite true root true);
     Frame [[x2f; x61; x2f; x62; x2f; x63]] true [Ev (mkEv KRead false root true); Ev (mkEv KWrite true [x2f; x61; x2f; x62; x2f; x63] true)];
     Ev (mkEv KWrite true root true)].

Example C12_example_wf : wf_tree c12_example_root c12_example_tree = true.
Proof. vm_compute. reflexivity. Qed.

Example C12_example_every_k : forall k,
  well_bracketed (run_fault c12_example_tree k) = true /\
  no_write_after_failure false (run_fault c12_example_tree k) = true /\
  in_scope c12_example_root (run_fault c12_example_tree k) = true.
Proof. intros k. apply C12_all_faults. exact C12_example_wf. Qed.

(** sibling frames on the same node, one after the other, are well formed *)
Example C12_example_wf_siblings :
  wf_tree [x2f; x61] (Frame [[x2f; x61]] true [Frame [[x2f; x61; x2f; x62]] true []; Frame [[x2f; x61; x2f; x62]] true []]) = true.
Proof. vm_compute. reflexivity. Qed.

(** each conjunct of [wf_tree] is needed: a tree violating only that conjunct, and a fault
    position (here: none, k beyond the end) at which the corresponding requirement fails *)
Example C12_wf_needs_nodup_chain :       (* a chain naming a node twice *)
  let t := Frame [[x2f; x61]; [x2f; x61]] true [] in
  no_marks t && frame_scoped [x2f; x61] t = true /\ disjoint_nesting t = false /\
  well_bracketed (run_fault t 9) = false.
Proof. vm_compute. auto. Qed.

Example C12_wf_needs_disjoint_nesting :  (* a nested frame reopening the node its parent holds open *)
  let t := Frame [[x2f; x61]] true [Frame [[x2f; x61]] true []] in
  no_marks t && frame_scoped [x2f; x61] t = true /\ disjoint_nesting t = false /\
  well_bracketed (run_fault t 9) = false.
Proof. vm_compute. auto. Qed.

Example C12_wf_needs_no_marks_kind :     (* a stray begin among a body's plain events *)
  let t := Frame [[x2f; x61]] true [Ev (mkEv KBegin true [x2f; x61] true)] in
  frame_scoped [x2f; x61] t && disjoint_nesting t = true /\ no_marks t = false /\
  well_bracketed (run_fault t 9) = false.
Proof. vm_compute. auto. Qed.

Example C12_wf_needs_no_marks_ok :       (* a fault-free shape that already contains a failed read, followed by a write *)
  let t := Frame [[x2f; x61]] true [Ev (mkEv KRead true [x2f; x61] false); Ev (mkEv KWrite true [x2f; x61] true)] in
  frame_scoped [x2f; x61] t && disjoint_nesting t = true /\ no_marks t = false /\
  no_write_after_failure false (run_fault t 9) = false.
Proof. vm_compute. auto. Qed.

Example C12_wf_needs_frame_scoped :      (* a frame on a node beside the edit root *)
  let t := Frame [[x2f; x7a]] true [] in
  no_marks t && disjoint_nesting t = true /\ frame_scoped [x2f; x61] t = false /\
  in_scope [x2f; x61] (run_fault t 9) = false.
Proof. vm_compute. auto. Qed.
