(** C10 - Value conversion is exact or fails; it never wraps, truncates or saturates.
    Theorem-only file: every statement is closed by [exact] of a lemma proved in Conv/Proofs*.v and is
    followed by Print Assumptions.  Model: Conv/Model.v (val/conv.go after the C10 repairs), spec:
    Conv/Spec.v; tied to the code by the C10 correspondence check (harness/props/c10.go).
    Sources range over every Go value the model knows: all ten integer kinds (plain and defined
    types) with unbounded Z restricted only by [wf_src] to the range of the kind, float32/float64 as
    exact dyadics with -0/NaN/+-Inf, strings, booleans, nil, slices of these. *)
From Coq Require Import ZArith List Bool Lia Strings.Byte QArith.
From YV Require Import Base.Wrap Val.Model Conv.Model Conv.Spec Conv.Proofs Conv.ProofsNum Conv.ProofsText
  Conv.ProofsDec Conv.ProofsMain Conv.Front Conv.ProofsFront Conv.ProofsOracle.
Import ListNotations.
Open Scope Z_scope.

(** The property at full strength ... *)
Definition C10_full_statement : Prop :=
  forall t s r, wf_src s -> conv_impl t s = Ok r -> exact s r.
(** ... is false of the code because of one recorded finding (KF-C10-float-text): *)
Theorem C10_full_refuted : ~ C10_full_statement.
Proof. exact conv_exact_full_refuted. Qed.
Print Assumptions C10_full_refuted.
Example C10_kf_float_text_refuted :
  kf_float_text (TScalar FString) (SScalar (XF64 false (FFin 37 (-3)))) = true /\
  conv_impl (TScalar FString) (SScalar (XF64 false (FFin 37 (-3)))) = Ok (RScalar (CStr [x35])) /\
  ~ exact (SScalar (XF64 false (FFin 37 (-3)))) (RScalar (CStr [x35])).
Proof. exact kf_float_text_witness. Qed.
Print Assumptions C10_kf_float_text_refuted.

(** Everywhere else it holds: a successful conversion of ANY source to ANY modelled target (8 integer
    widths, decimal64, boolean, string, and the 11 list forms) yields a value that denotes exactly
    what the source denotes (number = number, text = text, truth value = truth value, a numeral reads
    as the number, sequences element by element, a scalar for a list target is the 1-element list) *)
Theorem C10_conv_exact_partial : forall t s r, wf_src s -> conv_impl t s = Ok r ->
  exact s r \/ kf_float_text t s = true.
Proof. exact conv_exact_partial. Qed.
Print Assumptions C10_conv_exact_partial.

Theorem C10_conv_exact_outside_region : forall t s r, wf_src s -> kf_float_text t s = false ->
  conv_impl t s = Ok r -> exact s r.
Proof. exact conv_exact_outside_region. Qed.
Print Assumptions C10_conv_exact_outside_region.

(** ... and is a value of the requested type: every integer inside the range of the target type *)
Theorem C10_conv_typed : forall t s r, wf_src s -> conv_impl t s = Ok r -> rval_typed t r.
Proof. exact conv_typed. Qed.
Print Assumptions C10_conv_typed.

(** numbers to numbers (integer or float source, integer or decimal64 target): plain equality *)
Theorem C10_conv_num_exact : forall f x v, (is_int_fmt f = true \/ f = FDecimal64) -> wf_scalar x ->
  (match x with XInt _ _ _ | XF64 _ _ | XF32 _ => True | _ => False end) ->
  conv_impl (TScalar f) (SScalar x) = Ok (RScalar v) -> denote_cval v = denote_scalar x.
Proof. exact conv_num_exact. Qed.
Print Assumptions C10_conv_num_exact.

(** Never wraps, truncates or saturates: into an integer type only the very integer the source stands
    for can come out, and only if it fits *)
Theorem C10_conv_int_sound : forall f x r, is_int_fmt f = true -> wf_scalar x -> x <> XNil ->
  conv_impl (TScalar f) (SScalar x) = Ok r ->
  exists z, r = RScalar (CInt f z) /\ in_range f z /\ src_num x = Some (znum z).
Proof. exact conv_int_sound. Qed.
Print Assumptions C10_conv_int_sound.

Theorem C10_out_of_range_fails : forall f x z0 r, is_int_fmt f = true -> wf_scalar x ->
  src_num x = Some (znum z0) -> ~ in_range f z0 -> conv_impl (TScalar f) (SScalar x) <> Ok r.
Proof. exact conv_out_of_range_fails. Qed.
Print Assumptions C10_out_of_range_fails.

Theorem C10_negative_to_unsigned_fails : forall f x z0 r, is_unsigned f = true -> wf_scalar x ->
  src_num x = Some (znum z0) -> z0 < 0 -> conv_impl (TScalar f) (SScalar x) <> Ok r.
Proof. exact conv_negative_to_unsigned_fails. Qed.
Print Assumptions C10_negative_to_unsigned_fails.

Theorem C10_non_integral_fails : forall f x fl r, is_int_fmt f = true ->
  (x = XF64 false fl \/ x = XF64 true fl \/ x = XF32 fl) ->
  (match fl with FFin m e => fl_is_int m e = false | FNegZero => False | _ => True end) ->
  conv_impl (TScalar f) (SScalar x) <> Ok r.
Proof. exact conv_non_integral_fails. Qed.
Print Assumptions C10_non_integral_fails.

(** Errors are not spurious: every in-range integer of every plain integer kind converts to itself *)
Theorem C10_conv_int_complete : forall f k z, is_int_fmt f = true -> ik_in_rangeb k z = true ->
  in_range f z -> conv_impl (TScalar f) (SScalar (XInt false k z)) = Ok (RScalar (CInt f z)).
Proof. exact conv_int_complete. Qed.
Print Assumptions C10_conv_int_complete.

(** strconv.ParseInt / ParseUint (as modelled: sign, digits, cutoff and overflow tests) are exact *)
Theorem C10_parse_int_exact : forall s bits z, bits = 32 \/ bits = 64 -> parse_int s bits = Ok z ->
  read_num s = Some (znum z) /\ in_s bits z.
Proof. exact parse_int_exact. Qed.
Print Assumptions C10_parse_int_exact.
Theorem C10_parse_uint_exact : forall s bits z, 0 < bits <= 64 -> parse_uint s bits = Ok z ->
  read_num s = Some (znum z) /\ in_u bits z.
Proof. exact parse_uint_exact. Qed.
Print Assumptions C10_parse_uint_exact.
(** ParseFloat on the plain decimal grammar, where the model answers at all, is exact *)
Theorem C10_parse_float_exact : forall s x, parse_float s = Ok x -> read_num s = Some (denote_fl x).
Proof. exact parse_float_exact. Qed.
Print Assumptions C10_parse_float_exact.

(** Read-back: String() of a result denotes the result; for an integer target it reads back as the
    number the source stood for; the decimal text of an integer reads back as the integer *)
Theorem C10_string_of_readback : forall v t, string_of v = Some t -> agree (DText t) (denote_cval v).
Proof. exact string_of_readback. Qed.
Print Assumptions C10_string_of_readback.
Theorem C10_conv_int_readback : forall f x v, is_int_fmt f = true -> wf_scalar x -> x <> XNil ->
  conv_impl (TScalar f) (SScalar x) = Ok (RScalar v) ->
  exists t, string_of v = Some t /\ read_num t = src_num x.
Proof. exact conv_int_readback. Qed.
Print Assumptions C10_conv_int_readback.
Theorem C10_read_show_int : forall z, read_num (show_int z) = Some (znum z).
Proof. exact read_show_int. Qed.
Print Assumptions C10_read_show_int.

(** ConvOneOf returns the first format of the list that converts, and that conversion is exact *)
Theorem C10_conv_one_of_first : forall ts s r t, conv_one_of ts s = Ok (r, t) ->
  exists pre post, ts = pre ++ t :: post /\ conv_impl t s = Ok r /\
                   forall u, In u pre -> conv_impl u s = Err.
Proof. exact conv_one_of_first. Qed.
Print Assumptions C10_conv_one_of_first.
Theorem C10_conv_one_of_exact : forall ts s r t, wf_src s -> conv_one_of ts s = Ok (r, t) ->
  (exact s r \/ kf_float_text t s = true) /\ rval_typed t r.
Proof. exact conv_one_of_exact. Qed.
Print Assumptions C10_conv_one_of_exact.

(** node.NewValue (plain types, leafref chains, unions, enumerations): the value is exact for the
    leaf's type - a union value is exact and typed for one of the member formats, an enumeration
    value is a DECLARED enum whose id is the number given or whose label is the text given *)
Theorem C10_new_value_exact : forall ty s res, wf_src s -> new_value ty s = Ok res ->
  nexact ty s res \/ nkf ty s = true.
Proof. exact new_value_exact. Qed.
Print Assumptions C10_new_value_exact.
Theorem C10_to_enum_exact : forall el x e, wf_scalar x -> to_enum el x = Ok e ->
  In e el /\ (enum_agree e x \/ float_text x = true).
Proof. exact to_enum_exact. Qed.
Print Assumptions C10_to_enum_exact.

(** The executable spec oracle of the correspondence check (Check/C10Check.v: exactb, rval_typedb)
    is sound for the propositional spec: what the check accepts, the theorems speak about *)
Theorem C10_exactb_sound : forall s r, exactb s r = true -> exact s r.
Proof. exact exactb_sound. Qed.
Print Assumptions C10_exactb_sound.
Theorem C10_rval_typedb_sound : forall t r, rval_typedb t r = true -> rval_typed t r.
Proof. exact rval_typedb_sound. Qed.
Print Assumptions C10_rval_typedb_sound.

(** non-vacuity: extreme sources are well-formed and do convert *)
Example C10_hyps_met :
  wf_src (SScalar (XInt false U64 18446744073709551615)) /\
  conv_impl (TScalar FUInt64) (SScalar (XInt false U64 18446744073709551615)) = Ok (RScalar (CInt FUInt64 18446744073709551615)) /\
  conv_impl (TScalar FInt64) (SScalar (XStr false [x2d; x39; x32; x32; x33; x33; x37; x32; x30; x33; x36; x38; x35; x34; x37; x37; x35; x38; x30; x38]))
    = Ok (RScalar (CInt FInt64 (-9223372036854775808))) /\
  conv_impl (TList FInt32) (SSlice EIface [XInt false IInt 1; XStr false [x32]; XF64 false (FFin 3 0)])
    = Ok (RList FInt32 [CInt FInt32 1; CInt FInt32 2; CInt FInt32 3]) /\
  conv_impl (TScalar FDecimal64) (SScalar (XStr false [x2d; x31; x2e; x32; x35])) = Ok (RScalar (CDec (FFin (-5) (-2)))).
Proof. repeat split; vm_compute; reflexivity. Qed.

(** The code as it was at the pinned commit returned a different number without an error on each of
    the repaired branches; the repaired model refuses the same inputs *)
Example C10_pinned_commit_refuted :
  conv_old_scalar FInt8 (XInt false U8 200) = Ok (CInt FInt8 (-56)) /\
  conv_old_scalar FInt32 (XInt false I64 4294967301) = Ok (CInt FInt32 5) /\
  conv_old_scalar FUInt64 (XInt false I8 (-1)) = Ok (CInt FUInt64 18446744073709551615) /\
  conv_old_scalar FInt32 (XF64 false (FFin 37 (-3))) = Ok (CInt FInt32 4) /\
  conv_old_scalar FInt64 (XInt false U64 18446744073709551615) = Ok (CInt FInt64 (-1)) /\
  conv_old_scalar FDecimal64 (XInt false I64 9007199254740993) = Ok (CDec (FFin 9007199254740992 0)) /\
  conv_old_scalar FBool (XStr false w_np) = Ok (CBool false).
Proof. exact conv_old_refuted. Qed.
Example C10_pinned_commit_not_exact :
  ~ agree (denote_cval (CInt FInt8 (-56))) (denote_scalar (XInt false U8 200)) /\
  ~ agree (denote_cval (CInt FInt32 5)) (denote_scalar (XInt false I64 4294967301)) /\
  ~ agree (denote_cval (CInt FUInt64 18446744073709551615)) (denote_scalar (XInt false I8 (-1))) /\
  ~ agree (denote_cval (CInt FInt32 4)) (denote_scalar (XF64 false (FFin 37 (-3)))) /\
  ~ agree (denote_cval (CDec (FFin 9007199254740992 0))) (denote_scalar (XInt false I64 9007199254740993)) /\
  ~ agree (denote_cval (CBool false)) (denote_scalar (XStr false w_np)).
Proof. exact conv_old_not_exact. Qed.
Example C10_repaired_refuses :
  conv_scalar FInt8 (XInt false U8 200) = Err /\
  conv_scalar FInt32 (XInt false I64 4294967301) = Err /\
  conv_scalar FUInt64 (XInt false I8 (-1)) = Err /\
  conv_scalar FInt32 (XF64 false (FFin 37 (-3))) = Err /\
  conv_scalar FInt64 (XInt false U64 18446744073709551615) = Err /\
  conv_scalar FDecimal64 (XInt false I64 9007199254740993) = Err /\
  conv_scalar FBool (XStr false w_np) = Err.
Proof. exact conv_new_refuses. Qed.
Print Assumptions C10_pinned_commit_not_exact.
