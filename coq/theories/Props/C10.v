(** C10 - placeholder, theorems follow *)
From Coq Require Import ZArith List Lia.
From YV Require Import Base.Wrap Val.Model Conv.Model Conv.Spec.
