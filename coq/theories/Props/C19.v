(** C19 - XML export and import are inverse on every data tree.
    Theorem-only file: every statement is closed by [exact] of a lemma proved in Tree/Xml*Proofs.v
    and is followed by Print Assumptions.
    Models: Tree/XmlEsc.v (patch/xml escapeText, Decoder.text, strings.TrimSpace, utf8.DecodeRune),
    Tree/XmlW.v (XMLWtr2, XMLWtr, value rendering), Tree/XmlR.v (XmlNode, node.NewValue on strings),
    Tree/Editor.v (the editor that feeds the writers and consumes the reader), tied to nodeutil/xml_*.go
    and patch/xml by the C19 correspondence check. *)
From Coq Require Import ZArith List Bool Strings.Byte.
From YV Require Import Val.Model Tree.Schema Tree.Editor Tree.XmlEsc Tree.XmlEscProofs Tree.XmlSpec
  Tree.XmlW Tree.XmlR Tree.XmlLeafProofs Tree.XmlViewProofs Tree.XmlRoundProofs Tree.XmlInterleaveProofs
  Tree.XmlSpecProofs Tree.XmlModelProofs.
Import ListNotations.
Open Scope Z_scope.

(** ** text: escaped on output, restored exactly on input (byte level, every byte string) *)

(** for EVERY byte string the decoder accepts what the escaper wrote and returns the text with
    exactly the bytes XML cannot carry replaced by U+FFFD *)
Theorem C19_unescape_escape : forall t, unescape (escape t) = Some (sanitize t).
Proof. exact unescape_escape. Qed.
Print Assumptions C19_unescape_escape.

(** text made of characters XML 1.0 can carry (any markup characters, quotes, "]]>", tab, CR, LF,
    leading/trailing/inner white space, non-ASCII) comes back byte for byte *)
Theorem C19_xml_text_roundtrip : forall t, xml_okb t = true -> unescape (escape t) = Some t.
Proof. exact xml_text_roundtrip. Qed.
Print Assumptions C19_xml_text_roundtrip.

Theorem C19_sanitize_id : forall t, xml_okb t = true -> sanitize t = t.
Proof. exact sanitize_id. Qed.
Print Assumptions C19_sanitize_id.

(** escaped text never contains a '<' (it cannot open markup) *)
Theorem C19_escape_no_markup : forall t, no_lt (escape t) = true.
Proof. exact escape_no_lt. Qed.
Print Assumptions C19_escape_no_markup.

(** ** numbers *)
Theorem C19_int_text_roundtrip : forall bits z, - 2 ^ (bits - 1) <= z < 2 ^ (bits - 1) ->
  parse_int bits (z_text z) = Some z.
Proof. exact parse_int_text. Qed.
Print Assumptions C19_int_text_roundtrip.
Theorem C19_uint_text_roundtrip : forall bits z, 0 <= z < 2 ^ bits -> parse_uint bits (z_text z) = Some z.
Proof. exact parse_uint_text. Qed.
Print Assumptions C19_uint_text_roundtrip.

(** ** one leaf: the lexical form written for a value of the leaf's type converts back to it, for
    every type of the model, given the strconv contract on decimal64 *)
Theorem C19_leaf_roundtrip :
  forall (enum_ids : bool) (fmt_dec : Z -> Z -> text) (parse_dec : text -> option (Z * Z)) (dec_ok : Z -> Z -> bool),
  (forall m e, dec_ok m e = true -> parse_dec (trim_space (sanitize (fmt_dec m e))) = Some (m, e)) ->
  forall ty v, value_okb enum_ids dec_ok ty v = true ->
  conv_scalar parse_dec ty (read_text ty (render_scalar enum_ids fmt_dec v)) = Some v.
Proof. exact scalar_roundtrip. Qed.
Print Assumptions C19_leaf_roundtrip.

(** ** the tree an XmlNode presents for a written document is the tree that was written (minus
    lists without entries and leaf-lists without items, for which nothing is written), and the
    written document is a well-formed single-rooted element tree *)
Theorem C19_view_inverse :
  forall nss enum_ids fmt_dec parse_dec dec_ok,
  (forall m e, dec_ok m e = true -> parse_dec (trim_space (sanitize (fmt_dec m e))) = Some (m, e)) ->
  forall s e, wfs nss s = true -> wfd enum_ids dec_ok s e = true -> is_leaf s = false ->
  exists x, wtr2_doc nss enum_ids fmt_dec s e = Some x /\ doc_wf x = true /\
            x2d_doc nss parse_dec false false s x = Ok (pruned s e).
Proof. exact xml_view_inverse. Qed.
Print Assumptions C19_view_inverse.

(** ** export = the editor's upsert into nothing: schema order, defaults of unset leaves in the
    containers and entries it creates *)
Theorem C19_export_is_fill :
  forall nss enum_ids dec_ok s, wfs nss s = true -> is_leaf s = false ->
  forall d new, wfd enum_ids dec_ok s d = true -> keys_distinct s d = true ->
  edit_one false s d (empty_node s) new Upsert = Ok (fill new s d).
Proof. exact edit_fresh. Qed.
Print Assumptions C19_export_is_fill.

(** ** both writers write the same element tree *)
Theorem C19_writers_agree :
  forall nss enum_ids fmt_dec s d, wfs nss s = true ->
  wtr1_doc nss enum_ids fmt_dec false s d = wtr2_doc nss enum_ids fmt_dec s d.
Proof. exact writers_agree. Qed.
Print Assumptions C19_writers_agree.

(** ** the round trip, for both writers, every selection kind (module / container / list entry:
    SCont; list: SList), every schema and data tree of the domain:
    the export is written as a well-formed single-rooted document, reading it back succeeds and
    returns [norm s d] ... *)
Theorem C19_xml_roundtrip :
  forall nss enum_ids fmt_dec parse_dec dec_ok,
  (forall m e, dec_ok m e = true -> parse_dec (trim_space (sanitize (fmt_dec m e))) = Some (m, e)) ->
  forall stream s d,
  wfs nss s = true -> dflt_ok enum_ids dec_ok s = true -> is_leaf s = false ->
  wfd enum_ids dec_ok s d = true -> keys_distinct s d = true ->
  exists x, write_doc nss enum_ids fmt_dec false stream s d = Some x /\ doc_wf x = true /\
            read_doc nss parse_dec false false s x = Ok (norm s d).
Proof. exact xml_roundtrip. Qed.
Print Assumptions C19_xml_roundtrip.

(** ... which holds the same data as [d]: equal after giving unset leaves their defaults and
    forgetting empty lists (no hypothesis on the data at all) *)
Theorem C19_norm_same_tree : forall s d, is_leaf s = false -> same_tree s (norm s d) d = true.
Proof. exact norm_same_tree. Qed.
Print Assumptions C19_norm_same_tree.
Theorem C19_norm_canon : forall s d, is_leaf s = false -> canon s (norm s d) = canon s d.
Proof. exact canon_norm. Qed.
Print Assumptions C19_norm_canon.

(** the same for the executable model the correspondence check evaluates, every hypothesis a
    boolean: on this domain the verdict ModelViolatesSpec is impossible *)
Theorem C19_roundtrip_exec : forall nss ids stream s d, theorem_domain nss ids s d = true ->
  exists x back,
    write_doc nss ids dec_text false stream s d = Some x /\ doc_wf x = true /\
    read_doc nss parse_dec_exact false false s x = Ok back /\ same_tree s back d = true.
Proof. exact roundtrip_exec. Qed.
Print Assumptions C19_roundtrip_exec.

(** ** on input, sibling elements may be interleaved: any re-ordering, at any depth, that keeps
    same-named siblings in their relative order reads as the same tree *)
Theorem C19_xml_interleave :
  forall nss parse_dec trim_strings choose_own_only m kids x x', xequiv x x' ->
  read_doc nss parse_dec trim_strings choose_own_only (SCont m kids) x =
  read_doc nss parse_dec trim_strings choose_own_only (SCont m kids) x'.
Proof. exact xml_interleave. Qed.
Print Assumptions C19_xml_interleave.
Theorem C19_xml_interleave_list :
  forall nss parse_dec trim_strings choose_own_only m keys row x x',
  eff_ns [] x = eff_ns [] x' ->
  Forall2 xequiv (filter is_elem (xkids x)) (filter is_elem (xkids x')) ->
  is_elem x = true -> is_elem x' = true ->
  read_doc nss parse_dec trim_strings choose_own_only (SList m keys row) x =
  read_doc nss parse_dec trim_strings choose_own_only (SList m keys row) x'.
Proof. exact xml_interleave_list. Qed.
Print Assumptions C19_xml_interleave_list.

(** ** non-vacuity: a schema with a node of a second module, a keyed list, a leaf-list, decimal,
    enumeration, int8 bounds, markup and edge white space in strings meets every hypothesis, and
    the round trip through the streaming writer is the identity on it *)
Example C19_hyps_met : theorem_domain ex_nss false ex_schema ex_data = true /\
                       theorem_domain ex_nss true ex_schema ex_data = true.
Proof. exact hyps_met. Qed.
Example C19_roundtrip_instance :
  (match write_doc ex_nss false dec_text false true ex_schema ex_data with
   | Some x => read_doc ex_nss parse_dec_exact false false ex_schema x
   | None => Err EOther
   end) = Ok ex_data.
Proof. exact roundtrip_instance. Qed.

(** ** what was wrong at the pinned commit (repaired in the repo, see KNOWN_FINDINGS.txt) *)
Example C19_pinned_reader_refuted :
  exists back,
    (match write_doc ex_nss false dec_text false false ex_schema ex_data with
     | Some x => read_doc ex_nss parse_dec_exact true false ex_schema x
     | None => Err EOther
     end) = Ok back /\ same_tree ex_schema back ex_data = false.
Proof. exact pinned_reader_refuted. Qed.
Example C19_pinned_stream_writer_refuted :
  exists back,
    (match write_doc ex_nss false dec_text true true ex_schema ex_data with
     | Some x => read_doc ex_nss parse_dec_exact false false ex_schema x
     | None => Err EOther
     end) = Ok back /\ same_tree ex_schema back ex_data = false.
Proof. exact pinned_stream_writer_refuted. Qed.
Example C19_pinned_choose_refuted :
  (match write_doc ex_nss false dec_text false false ex_choice_schema ex_choice_data with
   | Some x => read_doc ex_nss parse_dec_exact false false ex_choice_schema x
   | None => Err EOther
   end) = Ok ex_choice_data /\
  exists back,
    (match write_doc ex_nss false dec_text false false ex_choice_schema ex_choice_data with
     | Some x => read_doc ex_nss parse_dec_exact false true ex_choice_schema x
     | None => Err EOther
     end) = Ok back /\ same_tree ex_choice_schema back ex_choice_data = false.
Proof. exact pinned_choose_refuted. Qed.
Print Assumptions C19_pinned_choose_refuted.
