(** C19 - placeholder while the pipeline is brought up *)
From YV Require Import Tree.XmlEsc.
