(** C03 - Upsert, insert and update are keyed deep merges with defined failure cases.
    Theorem-only file.  Model: Tree/Editor.v (node/edit.go + node/container_meta_list.go against
    reference stores); spec: Tree/Merge.v (positional keyed deep merge).  Domain: every choice-free,
    well-formed schema view and every source/target shaped like it - no bound on size or depth. *)
From Coq Require Import ZArith List Bool Strings.Byte.
From YV Require Import Val.Model Tree.Schema Tree.Editor Tree.Merge Tree.EditorProofs Tree.InsertUpdateProofs.
Import ListNotations.

(** Upsert leaves the target equal to the keyed deep merge of S over T (full statement). *)
Theorem C03_upsert_is_merge : forall s, wf_schema s = true -> choice_free s = true -> is_leaf s = false ->
  forall src tgt new, shaped s src = true -> shaped s tgt = true ->
  edit_one false s src tgt new Upsert = Ok (merge_one s src tgt new).
Proof. exact upsert_is_merge. Qed.
Print Assumptions C03_upsert_is_merge.

Theorem C03_upsert_content : forall kids src tgt,
  forallb wf_schema kids = true -> forallb choice_free kids = true ->
  shaped_kids shaped kids src = true -> shaped_kids shaped kids tgt = true ->
  edit_content false kids src tgt Upsert = Ok (merge_content kids src tgt).
Proof. exact upsert_content_is_merge. Qed.
Print Assumptions C03_upsert_content.

(** What "keyed deep merge" means, position by position: leaves in S overwrite, an unset leaf
    keeps T's value or takes the schema default when its parent had to be created ... *)
Theorem C03_leaf_law : forall mrec created ks sc tc i m ty il dflt,
  length sc = length ks -> length tc = length ks ->
  nth_error ks i = Some (SLeaf m ty il dflt) ->
  nth i (merge_kids mrec created ks sc tc) None =
    match nth i sc None with
    | Some d => Some d
    | None => if created then match dflt with Some v => Some (DLeaf v) | None => nth i tc None end
              else nth i tc None
    end.
Proof. exact merge_leaf_law. Qed.
(** ... containers merge (created empty when T had none) ... *)
Theorem C03_node_law : forall mrec created ks sc tc i k sdn,
  length sc = length ks -> length tc = length ks ->
  nth_error ks i = Some k -> is_leaf k = false -> nth i sc None = Some sdn ->
  nth i (merge_kids mrec created ks sc tc) None =
    Some (mrec k sdn (match nth i tc None with Some t => t | None => empty_node k end)
               (negb (present (nth i tc None)))).
Proof. exact merge_node_law. Qed.
(** ... and nothing at a position S does not mention changes. *)
Theorem C03_frame : forall mrec ks sc tc i,
  length sc = length ks -> length tc = length ks ->
  nth i sc None = None -> nth i (merge_kids mrec false ks sc tc) None = nth i tc None.
Proof. exact merge_frame. Qed.
Print Assumptions C03_frame.

(** Insert and Update: whenever they succeed the result is the same merge (Update never creates:
    new = false) *)
Theorem C03_ok_is_merge : forall s, wf_schema s = true -> choice_free s = true -> is_leaf s = false ->
  forall src tgt new st r, shaped s src = true -> shaped s tgt = true -> st_ok st new ->
  edit_one false s src tgt new st = Ok r -> r = merge_one s src tgt new.
Proof. exact edit_ok_is_merge. Qed.
Print Assumptions C03_ok_is_merge.

(** a container/list S mentions that T already has makes Insert fail; one T lacks makes Update fail *)
Theorem C03_insert_conflict_fails_partial : forall kids src tgt,
  forallb choice_free kids = true -> length src = length kids -> length tgt = length kids ->
  insert_conflicts kids src tgt = true ->
  exists e, edit_content false kids src tgt Insert = Err e.
Proof. exact insert_conflict_fails. Qed.
Theorem C03_update_missing_fails_partial : forall kids src tgt,
  forallb choice_free kids = true -> length src = length kids -> length tgt = length kids ->
  update_missing_top kids src tgt = true ->
  exists e, edit_content false kids src tgt Update = Err e.
Proof. exact update_missing_fails. Qed.
Print Assumptions C03_update_missing_fails_partial.

(** The full statements for Insert/Update (what the correspondence check's oracle
    [C03Check.spec_content] decides on every generated case): *)
Definition C03_insert_full_statement : Prop := forall kids src tgt,
  forallb wf_schema kids = true -> forallb choice_free kids = true ->
  shaped_kids shaped kids src = true -> shaped_kids shaped kids tgt = true ->
  edit_content false kids src tgt Insert =
    if insert_conflicts kids src tgt then Err EConflict else Ok (merge_content kids src tgt).
Definition C03_update_full_statement : Prop := forall kids src tgt,
  forallb wf_schema kids = true -> forallb choice_free kids = true ->
  shaped_kids shaped kids src = true -> shaped_kids shaped kids tgt = true ->
  edit_content false kids src tgt Update =
    if missing_kids update_missing kids src tgt then Err ENotFound else Ok (merge_content kids src tgt).
(** As stated they are FALSE (C03_insert_full_needs_distinct_keys / _needs_key_without_default
    below); they are proved, in Tree/InsertUpdateProofs.v, under the hypotheses spelled out in
    C03_insert_full / C03_update_full. *)

(** Insert.  Extra hypotheses: every list key names a leaf of the row that has no schema default
    ([keys_ok true], what YANG demands of keys); in the source lists reached without crossing a
    list entry, no row finds an earlier row of its list by key ([src_distinct false]). *)
Theorem C03_insert_full : forall kids src tgt,
  forallb wf_schema kids = true -> forallb choice_free kids = true -> forallb (keys_ok true) kids = true ->
  shaped_kids shaped kids src = true -> shaped_kids shaped kids tgt = true ->
  all_kids (src_distinct false) kids src = true ->
  edit_content false kids src tgt Insert =
    if insert_conflicts kids src tgt then Err EConflict else Ok (merge_content kids src tgt).
Proof. exact insert_full. Qed.
Print Assumptions C03_insert_full.

(** Update.  Extra hypotheses: every list key names a leaf of the row ([keys_ok false]); in every
    source list no row finds an earlier one by key ([src_distinct true]); the key leaves of all
    source and target rows hold well-formed values ([keys_wf], Val/Proofs.v wf_value), on which
    val.Equal is an equivalence ([key_eqb_euclid]). *)
Theorem C03_update_full : forall kids src tgt,
  forallb wf_schema kids = true -> forallb choice_free kids = true -> forallb (keys_ok false) kids = true ->
  shaped_kids shaped kids src = true -> shaped_kids shaped kids tgt = true ->
  all_kids (src_distinct true) kids src = true ->
  all_kids keys_wf kids src = true -> all_kids keys_wf kids tgt = true ->
  edit_content false kids src tgt Update =
    if missing_kids update_missing kids src tgt then Err ENotFound else Ok (merge_content kids src tgt).
Proof. exact update_full. Qed.
Print Assumptions C03_update_full.

(** and at any node, any depth *)
Theorem C03_update_is_merge_or_missing : forall s, wf_schema s = true -> choice_free s = true ->
  keys_ok false s = true -> is_leaf s = false -> forall src tgt, shaped s src = true -> shaped s tgt = true ->
  src_distinct true s src = true -> keys_wf s src = true -> keys_wf s tgt = true ->
  edit_one false s src tgt false Update
  = if update_missing s src tgt then Err ENotFound else Ok (merge_one s src tgt false).
Proof. exact update_is_merge_or_missing. Qed.

Theorem C03_key_equality_euclidean : forall a b c,
  forallb wf_okey a = true -> forallb wf_okey b = true -> forallb wf_okey c = true ->
  key_eqb a b = true -> key_eqb a c = true -> key_eqb b c = true.
Proof. exact key_eqb_euclid. Qed.
Print Assumptions C03_key_equality_euclidean.

(** the added hypotheses are satisfiable together, on a schema with a keyed list holding a
    container, a defaulted leaf and a nested keyed list; Insert and Update both do something *)
Example C03_full_hyps_met :
  let mk n := mkMeta [n] [] true [] None in
  let leaf n d := SLeaf (mk n) (TInt FInt32) false d in
  let iv z := Some (DLeaf (LV (VInt FInt32 z))) in
  let rown := SCont (mk x72) [leaf x6a None; leaf x77 None] in
  let row := SCont (mk x72) [leaf x6b None; leaf x76 (Some (LV (VInt FInt32 9%Z)));
                             SCont (mk x64) [leaf x79 None]; SList (mk x6e) [0] rown] in
  let kids := [leaf x61 None; SList (mk x6c) [0] row] in
  let src := [iv 4%Z; Some (DList [DCont [iv 1%Z; None; Some (DCont [iv 5%Z]); Some (DList [DCont [iv 8%Z; iv 3%Z]])];
                                   DCont [iv 2%Z; iv 6%Z; None; None]])] in
  let tgt := [None; Some (DList [DCont [iv 2%Z; None; None; None];
                                 DCont [iv 1%Z; None; Some (DCont [None]); Some (DList [DCont [iv 8%Z; None]])]])] in
  forallb wf_schema kids = true /\ forallb choice_free kids = true /\ forallb (keys_ok true) kids = true /\
  forallb (keys_ok false) kids = true /\
  shaped_kids shaped kids src = true /\ shaped_kids shaped kids tgt = true /\
  all_kids (src_distinct false) kids src = true /\ all_kids (src_distinct true) kids src = true /\
  all_kids keys_wf kids src = true /\ all_kids keys_wf kids tgt = true /\
  edit_content false kids src tgt Update
    = Ok [iv 4%Z; Some (DList [DCont [iv 2%Z; iv 6%Z; None; None];
                               DCont [iv 1%Z; None; Some (DCont [iv 5%Z]); Some (DList [DCont [iv 8%Z; iv 3%Z]])]])] /\
  edit_content false kids src tgt Insert = Err EConflict /\
  edit_content false kids src [None; None] Insert
    = Ok [iv 4%Z; Some (DList [DCont [iv 1%Z; iv 9%Z; Some (DCont [iv 5%Z]); Some (DList [DCont [iv 8%Z; iv 3%Z]])];
                               DCont [iv 2%Z; iv 6%Z; None; None]])] /\
  edit_content false kids src [None; Some (DList [DCont [iv 2%Z; None; None; None]])] Update = Err ENotFound.
Proof. vm_compute. repeat split. Qed.

(** why the hypotheses: two source rows with one key make Insert report a conflict with itself ... *)
Example C03_insert_full_needs_distinct_keys :
  let mk n := mkMeta [n] [] true [] None in
  let leaf n d := SLeaf (mk n) (TInt FInt32) false d in
  let iv z := Some (DLeaf (LV (VInt FInt32 z))) in
  let kids := [SList (mk x6c) [0] (SCont (mk x72) [leaf x6b None])] in
  let src := [Some (DList [DCont [iv 1%Z]; DCont [iv 1%Z]])] in
  forallb wf_schema kids = true /\ forallb choice_free kids = true /\ forallb (keys_ok true) kids = true /\
  shaped_kids shaped kids src = true /\ shaped_kids shaped kids [None] = true /\
  all_kids (src_distinct false) kids src = false /\
  insert_conflicts kids src [None] = false /\ edit_content false kids src [None] Insert = Err EConflict.
Proof. vm_compute. repeat split. Qed.

(** ... and a key leaf with a schema default gives a row without a key the key of a later row
    (not expressible in YANG: defaults on key leaves are ignored/forbidden, RFC 7950 7.8.2) *)
Example C03_insert_full_needs_key_without_default :
  let mk n := mkMeta [n] [] true [] None in
  let leaf n d := SLeaf (mk n) (TInt FInt32) false d in
  let iv z := Some (DLeaf (LV (VInt FInt32 z))) in
  let kids := [SList (mk x6c) [0] (SCont (mk x72) [leaf x6b (Some (LV (VInt FInt32 7%Z)))])] in
  let src := [Some (DList [DCont [None]; DCont [iv 7%Z]])] in
  forallb wf_schema kids = true /\ forallb choice_free kids = true /\ forallb (keys_ok true) kids = false /\
  shaped_kids shaped kids src = true /\ all_kids (src_distinct false) kids src = true /\
  insert_conflicts kids src [None] = false /\ edit_content false kids src [None] Insert = Err EConflict.
Proof. vm_compute. repeat split. Qed.

(** non-vacuity: a schema with a list and a defaulted leaf, non-trivial source and target *)
Example C03_hyps_met :
  let leaf n d := SLeaf (mkMeta [n] [] true [] None) (TInt FInt32) false d in
  let row := SCont (mkMeta [] [] true [] None) [leaf x6b None; leaf x76 (Some (LV (VInt FInt32 7%Z)))] in
  let s := SCont (mkMeta [] [] true [] None) [SList (mkMeta [x71] [] true [] None) [0] row] in
  let src := DCont [Some (DList [DCont [Some (DLeaf (LV (VInt FInt32 1%Z))); None]])] in
  let tgt := DCont [Some (DList [DCont [Some (DLeaf (LV (VInt FInt32 2%Z))); Some (DLeaf (LV (VInt FInt32 9%Z)))]])] in
  wf_schema s = true /\ choice_free s = true /\ shaped s src = true /\ shaped s tgt = true /\
  edit_one false s src tgt false Upsert =
    Ok (DCont [Some (DList [DCont [Some (DLeaf (LV (VInt FInt32 2%Z))); Some (DLeaf (LV (VInt FInt32 9%Z)))];
                            DCont [Some (DLeaf (LV (VInt FInt32 1%Z))); Some (DLeaf (LV (VInt FInt32 7%Z)))]])]).
Proof. vm_compute. repeat split. Qed.

(** at the pinned commit editor.list always recursed with Upsert below a matched entry: Update
    then created what the target lacked instead of failing (fixed in /repo: "fix: update below a
    list entry ...").  With the repaired recursion the missing container is reported: *)
Example C03_update_below_entry_now_fails :
  let leaf n := SLeaf (mkMeta [n] [] true [] None) (TInt FInt32) false None in
  let inner := SCont (mkMeta [x69] [] true [] None) [leaf x76] in
  let row := SCont (mkMeta [] [] true [] None) [leaf x6b; inner] in
  let s := SList (mkMeta [x71] [] true [] None) [0] row in
  edit_one false s (DList [DCont [Some (DLeaf (LV (VInt FInt32 1%Z))); Some (DCont [Some (DLeaf (LV (VInt FInt32 5%Z)))])]])
                   (DList [DCont [Some (DLeaf (LV (VInt FInt32 1%Z))); None]]) false Update = Err ENotFound.
Proof. vm_compute. reflexivity. Qed.
